//go:build verifshim

// Package vatomic replaces the used subset of sync/atomic in the build overlay.
package vatomic

import "github.com/go-json-experiment/json/verifshim"

// Bool mirrors atomic.Bool with a scheduling point before every access.
type Bool struct{ v bool }

func (b *Bool) Load() bool {
	verifshim.AtomicPoint("atomic.Bool.Load", b)
	return b.v
}
func (b *Bool) Store(v bool) {
	verifshim.AtomicPoint("atomic.Bool.Store", b)
	b.v = v
}
