#!/usr/bin/env python3
"""Regenerates the seeded-change table of DESIGN.md (between the SEEDTABLE markers) from seeded/*/meta.json and result-quick.txt."""
import json, glob, os, re
rows = []
for d in sorted(glob.glob('/verif/seeded/*/'), key=lambda p: (os.path.basename(p[:-1]).split('-')[0], os.path.basename(p[:-1]))):
    sid = os.path.basename(d[:-1])
    try:
        meta = json.load(open(d + 'meta.json'))
    except Exception:
        continue
    caught = []
    missed = []
    rq = d + 'result-quick.txt'
    if os.path.exists(rq):
        for line in open(rq):
            m = re.match(r'\S+ (C\d\d) rc=(\d+)', line)
            if m:
                (caught if m.group(2) == '1' else missed).append(m.group(1))
    summ = meta.get('summary', '').replace('|', '/').replace('\n', ' ')
    if len(summ) > 150:
        summ = summ[:150] + '…'
    rows.append(f"| {sid} | {summ} | {', '.join(caught) or '—'}{(' (not by: ' + ', '.join(missed) + ')') if missed else ''} |")
table = "| seed | change | reported by (quick tier) |\n|---|---|---|\n" + "\n".join(rows) + "\n"
p = '/verif/DESIGN.md'
s = open(p).read()
a, b = '<!-- SEEDTABLE:BEGIN -->', '<!-- SEEDTABLE:END -->'
if a in s:
    s = s[:s.index(a) + len(a)] + "\n" + table + s[s.index(b):]
    open(p, 'w').write(s)
print(len(rows), "rows")
