#!/bin/bash
# usage: matrix.sh <tier> [seed-id-glob] — for every seeded change, apply it to a scratch worktree, run the
# check(s) of its property against that worktree (VERIF_REPO), and record the verdict in seeded/<id>/result-<tier>.txt
set -u
tier="${1:-quick}"; glob="${2:-*}"
W=/tmp/seed-matrix-$$
git -C /repo worktree add -q --detach "$W" HEAD || exit 2
trap 'git -C /repo worktree remove --force "$W"' EXIT
cd /verif
for d in seeded/$glob/; do [ -f "$d/patch.diff" ] || continue
  id=$(basename "$d"); prop=${id%%-*}
  extra=$(python3 -c "import json;print(' '.join(json.load(open('$d/meta.json')).get('also_check',[])))" 2>/dev/null)
  git -C "$W" checkout -q -- . ; git -C "$W" apply "/verif/$d/patch.diff" || { echo "$id: patch does not apply"; continue; }
  : > "$d/result-$tier.txt"
  for c in $prop $extra; do
    grep -q "\"$c\"" cmd/check/main.go cmd/check18/main.go || { echo "$id $c: no check yet"; continue; }
    out=$(VERIF_REPO="$W" ./run.sh "$c" "$tier" 2>&1); rc=$?
    line=$(echo "$out" | grep -E "^$c (quick|thorough):" | head -1)
    det=$(echo "$out" | grep -E "violation detail" | head -1 | cut -c1-300)
    echo "$id $c rc=$rc :: $line :: $det" | tee -a "$d/result-$tier.txt"
  done
done
