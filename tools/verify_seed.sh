#!/bin/bash
# usage: verify_seed.sh <mutant-dir (patch.diff, demo_test.go, meta.json)> <scratch-worktree>
# Confirms: demo passes on clean tree; with patch: demo fails and the full existing suite passes.
set -u
M="$(cd "$1" && pwd)"; W="$2"
export GOFLAGS=-mod=mod GOPROXY=off
cd "$W" || exit 2
git checkout -q -- . ; git clean -qfd -e mutants
dd=$(python3 -c "import json,sys;print(json.load(open('$M/meta.json')).get('demo_dir','.'))")
demo=$(ls "$M"/*_test.go | head -1)
run=$(grep -oE 'func (TestSeeded[A-Za-z0-9_]*)' "$demo" | head -1 | awk '{print $2}')
cp "$demo" "$W/$dd/zz_seeded_demo_test.go"
echo "== clean tree: demo $run in $dd"
if (cd "$W/$dd" && go test -vet=off -count=1 -run "^$run\$" . >/tmp/vs_clean.log 2>&1); then echo "clean: demo PASS (ok)"; c=0; else echo "clean: demo FAIL (BAD)"; tail -5 /tmp/vs_clean.log; c=1; fi
rm -f "$W/$dd/zz_seeded_demo_test.go"
git apply "$M/patch.diff" || { echo "patch does not apply"; exit 2; }
echo "== patched: full suite"
if go test -vet=off -count=1 $(go list ./... | grep -v /mutants) >/tmp/vs_suite.log 2>&1; then echo "patched: suite PASS (ok)"; s=0; else echo "patched: suite FAIL (BAD)"; grep -E "^(---|FAIL)" /tmp/vs_suite.log | head; s=1; fi
cp "$demo" "$W/$dd/zz_seeded_demo_test.go"
if (cd "$W/$dd" && go test -vet=off -count=1 -run "^$run\$" . >/tmp/vs_pat.log 2>&1); then echo "patched: demo PASS (BAD)"; p=1; else echo "patched: demo FAIL (ok)"; p=0; fi
rm -f "$W/$dd/zz_seeded_demo_test.go"
git checkout -q -- . ; git clean -qfd -e mutants
[ $c = 0 ] && [ $s = 0 ] && [ $p = 0 ] && echo "VERIFIED" || echo "NOT-VERIFIED"
