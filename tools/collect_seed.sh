#!/bin/bash
# usage: collect_seed.sh <Cnn>  — verifies /tmp/wt-Cnn/mutants/m* and copies verified ones to /verif/seeded/Cnn-mK; removes the worktree.
set -u
id="$1"; W=/tmp/wt-$id
bad=0
for m in "$W"/mutants/m*; do
  [ -d "$m" ] || continue
  k=$(basename "$m")
  out=$(/verif/tools/verify_seed.sh "$m" "$W" 2>&1)
  echo "$out" | tail -1 | sed "s/^/$id-$k: /"
  if echo "$out" | grep -q "^VERIFIED"; then
    d=/verif/seeded/$id-$k; mkdir -p "$d"
    cp "$m/patch.diff" "$d/patch.diff"
    for f in "$m"/*_test.go; do cp "$f" "$d/$(basename "$f" .go).go.txt"; done
    python3 - "$m/meta.json" "$d/meta.json" <<'PY'
import json,sys
m=json.load(open(sys.argv[1]))
m["confirmed_by_me"]="tools/verify_seed.sh in a scratch worktree: demo passes on the clean tree; with patch.diff applied the full existing suite (go test -vet=off -count=1 ./...) passes and the demo fails"
m["demo_file"]="demo_test.go.txt (rename to *_test.go inside demo_dir)"
json.dump(m,open(sys.argv[2],"w"),indent=1)
PY
  else
    bad=$((bad+1))
    echo "$out" | tail -12
  fi
done
if [ "${KEEP:-0}" = 0 ] && [ "$bad" = 0 ]; then git -C /repo worktree remove --force "$W" && echo "removed $W"; else echo "worktree $W kept (bad=$bad)"; fi
