#!/bin/bash
# usage: seedtest.sh <patch.diff> <tier> <Cnn>...   applies the patch to /repo, runs the checks, reverts.
set -u
P="$(realpath "$1")"; tier="$2"; shift 2
cd /repo || exit 2
if [ -n "$(git status --porcelain)" ]; then echo "/repo not clean"; exit 2; fi
git apply "$P" || { echo "patch does not apply"; exit 2; }
trap 'git -C /repo checkout -q -- .' EXIT
cd /verif
for c in "$@"; do
  out=$(./run.sh "$c" "$tier" 2>&1); rc=$?
  echo "$c rc=$rc $(echo "$out" | grep -E "^$c (quick|thorough):" | head -1)"
  echo "$out" | grep -E "violation detail" | head -3
done
