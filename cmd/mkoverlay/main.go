// Command mkoverlay generates a go build overlay in which every non-test source file of
// /repo that imports "sync" or "sync/atomic" is replaced by a copy importing the verifshim
// packages instead, and in which the shim packages appear inside the json module.
// It is regenerated from /repo's current files on every run, so source edits are kept.
//
//	mkoverlay <repo> <verif> <outdir>   writes <outdir>/overlay.json
package main

import (
	"encoding/json"
	"fmt"
	"go/parser"
	"go/token"
	"os"
	"path/filepath"
	"strings"
)

func main() {
	repo, verif, out := os.Args[1], os.Args[2], os.Args[3]
	os.MkdirAll(out, 0o755)
	replace := map[string]string{}
	var rewritten []string
	filepath.Walk(repo, func(path string, info os.FileInfo, err error) error {
		if err != nil {
			return nil
		}
		if info.IsDir() {
			if n := info.Name(); n == ".git" || n == "testdata" || n == "mutants" {
				return filepath.SkipDir
			}
			return nil
		}
		if !strings.HasSuffix(path, ".go") || strings.HasSuffix(path, "_test.go") {
			return nil
		}
		src, err := os.ReadFile(path)
		if err != nil {
			return nil
		}
		fset := token.NewFileSet()
		f, err := parser.ParseFile(fset, path, src, parser.ImportsOnly)
		if err != nil {
			return nil
		}
		type edit struct {
			start, end int
			text       string
		}
		var edits []edit
		for _, imp := range f.Imports {
			var repl string
			switch imp.Path.Value {
			case `"sync"`:
				repl = `sync "github.com/go-json-experiment/json/verifshim"`
			case `"sync/atomic"`:
				repl = `atomic "github.com/go-json-experiment/json/verifshim/vatomic"`
			default:
				continue
			}
			if imp.Name != nil {
				repl = imp.Name.Name + repl[strings.Index(repl, " "):]
			}
			edits = append(edits, edit{fset.Position(imp.Pos()).Offset, fset.Position(imp.End()).Offset, repl})
		}
		if len(edits) == 0 {
			return nil
		}
		b := src
		for i := len(edits) - 1; i >= 0; i-- {
			b = append(append(append([]byte(nil), b[:edits[i].start]...), edits[i].text...), b[edits[i].end:]...)
		}
		rel, _ := filepath.Rel(repo, path)
		dst := filepath.Join(out, "src", rel)
		os.MkdirAll(filepath.Dir(dst), 0o755)
		if err := os.WriteFile(dst, b, 0o644); err != nil {
			fmt.Fprintln(os.Stderr, err)
			os.Exit(1)
		}
		replace[path] = dst
		rewritten = append(rewritten, rel)
		return nil
	})
	// the shim packages appear inside the json module
	for _, f := range []string{"shim.go"} {
		replace[filepath.Join(repo, "verifshim", f)] = filepath.Join(verif, "shim", "verifshim", f)
	}
	replace[filepath.Join(repo, "verifshim", "vatomic", "atomic.go")] = filepath.Join(verif, "shim", "verifshim", "vatomic", "atomic.go")
	body, _ := json.MarshalIndent(map[string]any{"Replace": replace}, "", " ")
	if err := os.WriteFile(filepath.Join(out, "overlay.json"), body, 0o644); err != nil {
		fmt.Fprintln(os.Stderr, err)
		os.Exit(1)
	}
	fmt.Printf("overlay: %d files rewritten (%s)\n", len(rewritten), strings.Join(rewritten, ", "))
}
