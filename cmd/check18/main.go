//go:build verifshim

// Command check18 is the C18 checker; it is built with the sync-shim overlay (see run.sh).
package main

import (
	"fmt"
	"os"
	"runtime/debug"
	"time"

	"verif/internal/evid"
	"verif/props/c18"
)

func main() {
	if len(os.Args) < 2 || os.Args[1] != "C18" {
		fmt.Fprintln(os.Stderr, "usage: check18 C18 <quick|thorough> [--replay file]")
		os.Exit(2)
	}
	tier, replay := "quick", ""
	for i := 2; i < len(os.Args); i++ {
		switch a := os.Args[i]; a {
		case "quick", "thorough":
			tier = a
		case "--replay":
			if i+1 < len(os.Args) {
				replay = os.Args[i+1]
				i++
			}
		}
	}
	debug.SetGCPercent(400)
	r := evid.New("C18", tier, "model_checking")
	if replay != "" {
		raw, err := evid.LoadReplay(replay)
		if err != nil {
			fmt.Fprintln(os.Stderr, "replay:", err)
			os.Exit(2)
		}
		c18.Replay(r, raw)
		if r.Violations() > 0 {
			fmt.Printf("VIOLATION property=C18 replay=%s\n", replay)
			os.Exit(1)
		}
		os.Exit(0)
	}
	budget := 8 * time.Minute
	if tier == "thorough" {
		budget = 45 * time.Minute
	}
	r.Deadline = time.Now().Add(budget)
	c18.Run(r)
	os.Exit(r.Finish())
}
