// Command check18race is the auxiliary free-running pass of C18: the same call alphabet on 16
// goroutines against the real sync package, meant to be built with -race. It is not exhaustive.
package main

import (
	"fmt"
	"os"
	"strings"
	"sync"

	"verif/props/c18/calls"
)

func main() {
	iters := 30
	if len(os.Args) > 1 && os.Args[1] == "thorough" {
		iters = 200
	}
	// phase 1: types nobody has used yet, first used by all goroutines at once
	if bad := coldFirstUse(16); len(bad) > 0 {
		fmt.Println("RACEPASS mismatch:", bad[0], "(", len(bad), "in total )")
		os.Exit(1)
	}
	alpha := calls.Alphabet()
	base := make([]string, len(alpha))
	for i, c := range alpha {
		base[i] = c.Run().Snap
	}
	var wg sync.WaitGroup
	var mu sync.Mutex
	var bad []string
	for g := 0; g < 16; g++ {
		wg.Add(1)
		go func(g int) {
			defer wg.Done()
			var kept []calls.Result
			for it := 0; it < iters; it++ {
				for k := range alpha {
					i := (k*7 + g*3 + it) % len(alpha)
					if strings.Contains(alpha[i].Name, "large") && it%10 != 0 {
						continue
					}
					res := alpha[i].Run()
					if res.Snap != base[i] {
						mu.Lock()
						bad = append(bad, fmt.Sprintf("%s: %.100s != %.100s", alpha[i].Name, res.Snap, base[i]))
						mu.Unlock()
					}
					kept = append(kept, res)
				}
				for _, r := range kept {
					if r.Kept != nil && calls.Render(r.Kept) != r.Snap {
						mu.Lock()
						bad = append(bad, "a value handed back earlier was altered by a later call: "+r.Snap[:min(80, len(r.Snap))])
						mu.Unlock()
					}
				}
				kept = kept[:0]
			}
		}(g)
	}
	wg.Wait()
	if len(bad) > 0 {
		fmt.Println("RACEPASS mismatch:", bad[0], "(", len(bad), "in total )")
		os.Exit(1)
	}
	fmt.Printf("RACEPASS ok: %d fresh types first used by 16 goroutines at once; 16 goroutines x %d iterations x %d calls\n", len(coldUses()), iters, len(alpha))
}
