// Command check dispatches one property check.
//
//	check <Cnn> <quick|thorough> [--replay file]
package main

import (
	"encoding/json"
	"fmt"
	"os"
	"runtime/debug"
	"time"

	"verif/internal/evid"
	"verif/props/c01"
	"verif/props/c02"
	"verif/props/c03"
	"verif/props/c04"
	"verif/props/c05"
	"verif/props/c06"
	"verif/props/c07"
	"verif/props/c08"
	"verif/props/c09"
	"verif/props/c10"
	"verif/props/c11"
	"verif/props/c12"
	"verif/props/c13"
	"verif/props/c14"
	"verif/props/c15"
	"verif/props/c16"
	"verif/props/c17"
	"verif/props/c19"
	"verif/props/c20"
)

type prop struct {
	level  string
	run    func(r *evid.Run)
	replay func(r *evid.Run, raw json.RawMessage)
}

var props = map[string]prop{
	"C01": {"exploration", c01.Run, c01.Replay},
	"C02": {"exploration", c02.Run, c02.Replay},
	"C03": {"exploration", c03.Run, c03.Replay},
	"C04": {"exploration", c04.Run, c04.Replay},
	"C05": {"fault_enumeration", c05.Run, c05.Replay},
	"C06": {"model_checking", c06.Run, c06.Replay},
	"C07": {"fault_enumeration", c07.Run, c07.Replay},
	"C08": {"exploration", c08.Run, c08.Replay},
	"C09": {"exploration", c09.Run, c09.Replay},
	"C10": {"exploration", c10.Run, c10.Replay},
	"C11": {"exploration", c11.Run, c11.Replay},
	"C12": {"exploration", c12.Run, c12.Replay},
	"C13": {"exploration", c13.Run, c13.Replay},
	"C14": {"exploration", c14.Run, c14.Replay},
	"C15": {"exploration", c15.Run, c15.Replay},
	"C16": {"model_checking", c16.Run, c16.Replay},
	"C17": {"exploration", c17.Run, c17.Replay},
	"C19": {"exploration", c19.Run, c19.Replay},
	"C20": {"exploration", c20.Run, c20.Replay},
}

var ballast []byte

func main() {
	if len(os.Args) < 2 {
		fmt.Fprintln(os.Stderr, "usage: check <Cnn> <quick|thorough> [--replay file]")
		os.Exit(2)
	}
	id := os.Args[1]
	tier := "quick"
	replay := ""
	for i := 2; i < len(os.Args); i++ {
		switch a := os.Args[i]; a {
		case "quick", "thorough":
			tier = a
		case "--replay":
			if i+1 < len(os.Args) {
				replay = os.Args[i+1]
				i++
			}
		}
	}
	if t := os.Getenv("VERIF_TIER"); t == "quick" || t == "thorough" {
		if len(os.Args) < 3 {
			tier = t
		}
	}
	p, ok := props[id]
	if !ok {
		fmt.Fprintln(os.Stderr, "unknown property", id)
		os.Exit(2)
	}
	debug.SetGCPercent(400)
	ballast = make([]byte, 64<<20) // never touched: only raises the GC trigger so tiny-heap enumerations do not collect continuously
	r := evid.New(id, tier, p.level)
	if replay != "" {
		raw, err := evid.LoadReplay(replay)
		if err != nil {
			fmt.Fprintln(os.Stderr, "replay:", err)
			os.Exit(2)
		}
		p.replay(r, raw)
		if r.Violations() > 0 {
			fmt.Printf("VIOLATION property=%s replay=%s\n", id, replay)
			os.Exit(1)
		}
		os.Exit(0)
	}
	// internal budget: never let a run exceed its tier's allowance; ends with exit 0 and exhaustive:false
	budget := 8 * time.Minute
	if tier == "thorough" {
		budget = 45 * time.Minute
	}
	r.Deadline = time.Now().Add(budget)
	p.run(r)
	os.Exit(r.Finish())
}
