#!/bin/bash
# Offline setup after a fresh restore: pre-build every checker binary (warms the Go build cache,
# including the -race build and the sync-shim overlay build used by C18).
set -u
cd "$(dirname "$0")"
export GOFLAGS=-mod=mod GOPROXY=off
unset GOTOOLCHAIN 2>/dev/null || true
mkdir -p .work evidence evidence/replay
go build -o .work/check-setup ./cmd/check || exit 1
go run ./cmd/mkoverlay /repo "$(pwd)" .work/ovl-setup > /dev/null || exit 1
go build -tags verifshim -overlay .work/ovl-setup/overlay.json -o .work/check18-setup ./cmd/check18 || exit 1
go build -race -o .work/check18race-setup ./cmd/check18race || echo "warning: -race build unavailable; C18 runs without its auxiliary race pass"
echo "setup ok"
