#!/bin/bash
# Offline setup after a fresh restore: pre-build the checker (warms the Go build cache).
set -u
cd "$(dirname "$0")"
export GOFLAGS=-mod=mod GOPROXY=off
unset GOTOOLCHAIN 2>/dev/null || true
mkdir -p .work evidence evidence/replay
go build -o .work/check-setup ./cmd/check || exit 1
echo "setup ok"
