// Package enum holds the bounded-exhaustive enumerators and the parallel,
// watchdog-supervised driver shared by all checks.
package enum

import (
	"context"
	"encoding/json"
	"fmt"
	"os"
	"os/exec"
	"runtime"
	"sync"
	"sync/atomic"
	"time"

	"verif/internal/evid"
)

// Worker is the per-goroutine handle. Beat must be called once per case so that
// the watchdog can tell a slow enumeration from a case that never terminates.
type Worker struct {
	ID       int
	beat     atomic.Int64
	active   atomic.Bool
	_        [40]byte
	Done     func()     // optional: called when the worker has no more units (flush local statistics)
	Describe func() any // replay description of the case currently executing (read only when the worker is stuck)
}

func (w *Worker) Beat() { w.beat.Add(1) }

// HangLimit is how long a worker may go without finishing a case before the case it published is suspected
// of not terminating. A suspicion alone is never reported: the published case is first replayed alone in
// subprocesses (confirmHang), so a slow or overloaded machine cannot raise an alarm.
var HangLimit = 30 * time.Second

// ConfirmLimit is how long the published case may run when replayed alone (cases take microseconds to seconds).
var ConfirmLimit = 120 * time.Second

// GiveUp is how long a worker may stay without progress while its published case terminates when replayed
// alone; after that the run ends with exhaustive:false (exit 0) because a stuck goroutine cannot be cancelled.
var GiveUp = 15 * time.Minute

// Workers is the degree of parallelism.
func Workers() int {
	n := runtime.NumCPU()
	if n > 16 {
		n = 16
	}
	if n < 1 {
		n = 1
	}
	return n
}

// Parallel runs units 0..units-1 over Workers() goroutines. mk is called once per
// worker and returns the function that processes one unit.
func Parallel(r *evid.Run, units int, mk func(w *Worker) func(unit int)) {
	nw := Workers()
	if nw > units {
		nw = units
	}
	if nw < 1 {
		return
	}
	ws := make([]*Worker, nw)
	var next atomic.Int64
	var wg sync.WaitGroup
	done := make(chan struct{})
	for i := range ws {
		ws[i] = &Worker{ID: i}
	}
	go watchdog(r, ws, done)
	for i := range ws {
		wg.Add(1)
		go func(w *Worker) {
			defer wg.Done()
			f := mk(w)
			w.active.Store(true)
			defer w.active.Store(false)
			defer func() {
				if w.Done != nil {
					w.Done()
				}
			}()
			for {
				u := int(next.Add(1) - 1)
				if u >= units || r.TooMany() {
					return
				}
				if r.Expired() {
					r.NotExhaustive(fmt.Sprintf("internal deadline reached in a phase of %d units (the phases after it were cut short or skipped)", units))
					return
				}
				runUnit(r, w, f, u)
				w.Beat()
			}
		}(ws[i])
	}
	wg.Wait()
	close(done)
}

func watchdog(r *evid.Run, ws []*Worker, done chan struct{}) {
	last := make([]int64, len(ws))
	since := make([]time.Time, len(ws))   // last observed progress
	checked := make([]time.Time, len(ws)) // last suspicion handled
	now := time.Now()
	for i := range since {
		since[i], checked[i] = now, now
	}
	t := time.NewTicker(2 * time.Second)
	defer t.Stop()
	for {
		select {
		case <-done:
			return
		case <-t.C:
		}
		now = time.Now()
		for i, w := range ws {
			b := w.beat.Load()
			if b != last[i] || !w.active.Load() {
				last[i], since[i], checked[i] = b, now, now
				continue
			}
			if now.Sub(checked[i]) > HangLimit {
				var desc any = "worker did not publish its case"
				if w.Describe != nil {
					desc = w.Describe()
				}
				if confirmHang(r, desc) {
					r.Violation(fmt.Sprintf("hang:%v", desc), "case did not terminate within "+ConfirmLimit.String()+" (replayed alone in 3 subprocesses)", desc, nil)
					os.Exit(r.Finish())
				}
				if w.beat.Load() == b {
					fmt.Fprintf(os.Stderr, "note property=%s: a worker finished no case for %.0fs, but the case it published terminates when replayed alone (slow unit or loaded machine): %.200s\n", r.Prop, time.Since(since[i]).Seconds(), mustJSON(desc))
				}
				checked[i] = time.Now()
				if time.Since(since[i]) > GiveUp || (r.Expired() && time.Since(since[i]) > 4*HangLimit) {
					r.NotExhaustive("a worker made no progress for a long time although the case it published terminates when replayed alone; the run was ended early")
					os.Exit(r.Finish())
				}
			}
		}
	}
}

// confirmHang replays the published case alone in subprocesses: it is a non-termination only if every one of
// three replays is still running after ConfirmLimit. A replay that ends, with whatever result, refutes the suspicion.
func confirmHang(r *evid.Run, desc any) bool {
	f, err := os.CreateTemp("", "hang-*.json")
	if err != nil {
		return false
	}
	fmt.Fprintf(f, `{"case":%s}`, mustJSON(desc))
	f.Close()
	defer os.Remove(f.Name())
	for i := 0; i < 3; i++ {
		ctx, cancel := context.WithTimeout(context.Background(), ConfirmLimit)
		cmd := exec.CommandContext(ctx, os.Args[0], r.Prop, r.Tier, "--replay", f.Name())
		cmd.Run()
		timedOut := ctx.Err() == context.DeadlineExceeded
		cancel()
		if !timedOut {
			return false
		}
	}
	return true
}

func mustJSON(v any) string {
	b, err := json.Marshal(v)
	if err != nil {
		return fmt.Sprintf("%q", fmt.Sprint(v))
	}
	return string(b)
}

// Strings enumerates every string of 0..maxLen symbols over alpha (symbols may be multi-byte),
// in parallel, sharded by the first two symbols. mk is called once per worker and returns the
// per-string function; the byte slice passed is reused and must not be retained.
func Strings(r *evid.Run, alpha [][]byte, maxLen int, mk func(w *Worker) func(s []byte)) {
	k := len(alpha)
	pre := 2
	if maxLen < 2 {
		pre = maxLen
	}
	units := 1
	for i := 0; i < pre; i++ {
		units *= k
	}
	// unit 0..units-1: a full prefix of `pre` symbols, then all extensions.
	// unit `units`: all strings shorter than pre symbols.
	Parallel(r, units+1, func(w *Worker) func(int) {
		f := mk(w)
		buf := make([]byte, 0, 64)
		var rec func(depth int)
		calls, stop := 0, false
		rec = func(depth int) {
			if stop {
				return
			}
			if calls++; calls&1023 == 0 && r.Expired() {
				// the internal deadline also ends a shard in the middle (a shard of a long view can run for minutes)
				stop = true
				r.NotExhaustive("internal deadline reached inside an enumeration shard")
				return
			}
			f(buf)
			w.Beat()
			if depth == maxLen {
				return
			}
			n := len(buf)
			for _, a := range alpha {
				buf = append(buf[:n], a...)
				rec(depth + 1)
			}
			buf = buf[:n]
		}
		return func(u int) {
			buf = buf[:0]
			if u == units {
				// strings with fewer than pre symbols
				var short func(depth int)
				short = func(depth int) {
					f(buf)
					w.Beat()
					if depth == pre-1 {
						return
					}
					n := len(buf)
					for _, a := range alpha {
						buf = append(buf[:n], a...)
						short(depth + 1)
					}
					buf = buf[:n]
				}
				if pre > 0 {
					short(0)
				}
				return
			}
			x := u
			idx := make([]int, pre)
			for i := pre - 1; i >= 0; i-- {
				idx[i] = x % k
				x /= k
			}
			for _, i := range idx {
				buf = append(buf, alpha[i]...)
			}
			rec(pre)
		}
	})
}

// Count returns the number of strings Strings enumerates.
func Count(k, maxLen int) int64 {
	var t, p int64 = 0, 1
	for i := 0; i <= maxLen; i++ {
		t += p
		p *= int64(k)
	}
	return t
}

// Syms converts a list of strings to symbols.
func Syms(ss ...string) [][]byte {
	out := make([][]byte, len(ss))
	for i, s := range ss {
		out[i] = []byte(s)
	}
	return out
}

// ByteSyms converts each byte of s to a one-byte symbol.
func ByteSyms(s string) [][]byte {
	out := make([][]byte, len(s))
	for i := 0; i < len(s); i++ {
		out[i] = []byte{s[i]}
	}
	return out
}

// runUnit executes one unit; a panic escaping the check code (normally a library panic on a path the
// check did not wrap) is reported as a violation of the running property instead of crashing the run.
func runUnit(r *evid.Run, w *Worker, f func(int), u int) {
	defer func() {
		if p := recover(); p != nil {
			var desc any = "unknown case"
			if w.Describe != nil {
				func() {
					defer func() { recover() }()
					desc = w.Describe()
				}()
			}
			r.Violation(fmt.Sprintf("panic|%v|%s", p, mustJSON(desc)), fmt.Sprintf("panic while executing case: %v", p), desc, nil)
		}
	}()
	f(u)
}
