// Package views defines the finite input spaces (alphabet "views") shared by the
// text-level checks. Each view is the set of ALL strings of at most MaxLen symbols
// over its alphabet, optionally wrapped in a fixed prefix.
package views

import (
	"fmt"

	"verif/internal/enum"
	"verif/internal/evid"
)

type View struct {
	Name   string
	Alpha  [][]byte
	MaxLen int
	Prefix string // fixed bytes prepended to every enumerated string
}

func (v View) Size() int64 { return enum.Count(len(v.Alpha), v.MaxLen) }

func (v View) String() string {
	return fmt.Sprintf("%s: all strings of <=%d symbols over %d symbols %q prefix %q (%d strings)", v.Name, v.MaxLen, len(v.Alpha), v.Alpha, v.Prefix, v.Size())
}

var (
	// A1: structural bytes.
	A1 = enum.ByteSyms("[]{}\":,01- a\\")
	// A2: number grammar.
	A2 = enum.ByteSyms("019-+.eE[], ")
	// A3: string bodies (after an opening quote).
	A3 = enum.ByteSyms("\"\\un/b0d8ca\x1f\n\xff\xc3\xa9")
	// B: multi-byte atoms.
	B = enum.Syms("null", "true", "false", `"a"`, `"b"`, `"\u0061"`, `"A"`, `""`, "0", "-0", "1e1", "1.5",
		"{", "}", "[", "]", ":", ",", " ", `"\ud800"`, "\"\xff\"", "nul", "01")
	// S: surrogate-pair assembly (after an opening quote).
	S = enum.Syms(`\u`, `\`, "u", "d8", "dc", "DB", "DF", "00", "0", "g", `"`, "a", "\xed\xa0\x80", "\xf0\x90\x80\x80", "\xf4\x90")
)

// Lens gives the per-tier symbol-length bounds of each view.
type Lens struct{ A1, A2, A3, B, S int }

var (
	Quick    = Lens{A1: 5, A2: 6, A3: 4, B: 4, S: 4}
	Thorough = Lens{A1: 7, A2: 7, A3: 6, B: 5, S: 6}
)

// Scale shrinks bounds for checks whose per-string cost is higher.
func (l Lens) Minus(d int) Lens {
	f := func(x int) int {
		if x-d < 1 {
			return 1
		}
		return x - d
	}
	return Lens{f(l.A1), f(l.A2), f(l.A3), f(l.B), f(l.S)}
}

func ForTier(tier string) Lens {
	if tier == "thorough" {
		return Thorough
	}
	return Quick
}

func Views(l Lens) []View {
	return []View{
		{"A1-structural", A1, l.A1, ""},
		{"A2-numeric", A2, l.A2, ""},
		{"A3-stringbody", A3, l.A3, `"`},
		{"B-atoms", B, l.B, ""},
		{"S-surrogates", S, l.S, `"`},
	}
}

// ForAll enumerates every string of every view, in parallel. The function returned by mk
// receives the full input (prefix included); the slice is reused between calls.
func ForAll(r *evid.Run, vs []View, mk func(w *enum.Worker, v View) func(s []byte)) {
	for _, v := range vs {
		v := v
		enum.Strings(r, v.Alpha, v.MaxLen, func(w *enum.Worker) func([]byte) {
			f := mk(w, v)
			if v.Prefix == "" {
				return f
			}
			buf := make([]byte, 0, 64)
			return func(s []byte) {
				buf = append(append(buf[:0], v.Prefix...), s...)
				f(buf)
			}
		})
		r.Bound("%s", v.String())
	}
}

// EscapeAtoms is an escape-sensitive menu of string-body atoms: the boundary code units of the surrogate
// ranges as \u escapes (both letter cases), their neighbours outside the ranges, raw multi-byte characters,
// raw surrogate bytes, plain escapes and truncated escapes.
var EscapeAtoms = enum.Syms(`\ud800`, `\udbff`, `\udc00`, `\udfff`, `\uD83D`, `\uDE00`, `\ud7ff`, `\ue000`, `\u0041`, `\uffff`, `\u0000`, `a`, `\n`, `\\`, "é", "\xed\xa0\x80", "\xed\xb0\x80", `\u`, `\ud8`)
