// Package refjson is the reference model of JSON used by the checks: a
// byte-level recognizer written from RFC 8259 / RFC 7493 / Unicode table 3-7,
// a value tree, an RFC 8785 serializer and string/number helpers. It shares
// no code with the library under test.
package refjson

// Opts selects the language recognised.
type Opts struct {
	AllowInvalidUTF8 bool // ill-formed UTF-8 and unpaired \u surrogates are tolerated (each becomes U+FFFD)
	AllowDupNames    bool // equal member names (after unescaping) within one object are tolerated
	Stream           bool // a concatenation of texts separated by optional whitespace
	NoToks           bool // do not record tokens (faster)
}

// MaxDepth is the nesting limit of the language.
const MaxDepth = 10000

// Tok is one JSON token with its byte span in the input.
type Tok struct {
	Kind  byte // 'n' 't' 'f' '"' '0' '{' '}' '[' ']'
	Start int
	End   int
	Name  bool   // a string in member-name position
	Str   string // for strings: the unescaped content
}

// Frame is one open container.
type Frame struct {
	Obj     bool
	Count   int    // array: completed elements; object: completed members
	Name    string // object: the most recently completed name (valid if HasName)
	HasName bool   // object: a name is complete and its value is pending, in progress or just completed
	Pending bool   // object: a name is complete and its value is not yet complete
	InValue bool   // a value slot is open: array element in progress / member whose name is complete and value not yet complete
	names   map[string]struct{}
	nameLst []string
}

// Why classifies the reason a text is outside the language.
const (
	WhySyntax = "syntax"
	WhyUTF8   = "utf8"
	WhyDup    = "dup"
	WhyDepth  = "depth"
)

// Result of running the recognizer over a byte string.
type Result struct {
	Dead     bool   // some prefix of the input is not a prefix of any text of the language
	DeadAt   int    // index of the first byte b such that input[:b+1] is not viable
	Why      string // class of the fatal byte
	Complete bool   // the whole input is in the language (single: exactly one text; stream: >=0 texts ending at a boundary)
	Values   int    // complete top-level values
	TokStart int    // start offset of the token in progress at DeadAt / end of input, -1 if between tokens
	DupName  string // for WhyDup: the duplicated name
	Toks     []Tok
	Stack    []Frame // open containers at DeadAt / end of input
	Boundary bool    // not dead and only whitespace follows the last complete top-level value (or no value at all)
}

// Parser is reusable to avoid allocation in hot enumeration loops.
type Parser struct {
	O      Opts
	res    Result
	stack  []Frame
	sbuf   []byte
	strWhy string
}

// Parse runs the recognizer once.
func Parse(b []byte, o Opts) *Result {
	p := &Parser{O: o}
	r := p.Run(b)
	return r
}

// Valid reports whether b is in the language.
func Valid(b []byte, o Opts) bool {
	o.NoToks = true
	p := &Parser{O: o}
	return p.Run(b).Complete
}

// Viable reports whether b is a prefix of some text in the language.
func Viable(b []byte, o Opts) bool {
	o.NoToks = true
	p := &Parser{O: o}
	return !p.Run(b).Dead
}

func isWS(c byte) bool    { return c == ' ' || c == '\t' || c == '\n' || c == '\r' }
func isDigit(c byte) bool { return '0' <= c && c <= '9' }
func hexVal(c byte) int {
	switch {
	case '0' <= c && c <= '9':
		return int(c - '0')
	case 'a' <= c && c <= 'f':
		return int(c-'a') + 10
	case 'A' <= c && c <= 'F':
		return int(c-'A') + 10
	}
	return -1
}

const (
	exValue      = iota // a value must come (after ':' or ',' in array, or at top level in single mode before the value)
	exValueOrEnd        // after '[': value or ']'
	exNameOrEnd         // after '{': name or '}'
	exName              // after ',' in object
	exColon             // after a name
	exCommaOrEnd        // after a value inside a container
	exTop               // top level: after a complete value (single: only ws) / stream: value or eof
)

// Run parses b. The returned Result (and its slices) is valid until the next Run.
func (p *Parser) Run(b []byte) *Result {
	r := &p.res
	*r = Result{TokStart: -1, Toks: r.Toks[:0]}
	p.stack = p.stack[:0]
	ex := exValue
	if p.O.Stream {
		ex = exTop
	}
	i := 0
	die := func(at int, why string) *Result {
		r.Dead, r.DeadAt, r.Why = true, at, why
		r.Stack = p.stack
		return r
	}
	// valueDone updates the expectation after a complete value.
	valueDone := func() {
		if n := len(p.stack); n > 0 {
			f := &p.stack[n-1]
			f.Count++
			f.InValue = false
			f.Pending = false
			ex = exCommaOrEnd
		} else {
			r.Values++
			ex = exTop
		}
	}
	beginValue := func() {
		if n := len(p.stack); n > 0 {
			p.stack[n-1].InValue = true
		}
	}
	for {
		// skip whitespace
		for i < len(b) && isWS(b[i]) {
			i++
		}
		if i >= len(b) {
			break
		}
		c := b[i]
		switch ex {
		case exTop:
			if !p.O.Stream && r.Values > 0 {
				return die(i, WhySyntax)
			}
			fallthrough
		case exValue, exValueOrEnd:
			if ex == exValueOrEnd && c == ']' {
				p.tok(']', i, i+1, false, "")
				p.stack = p.stack[:len(p.stack)-1]
				i++
				valueDone()
				continue
			}
			switch {
			case c == '{' || c == '[':
				if len(p.stack) >= MaxDepth {
					return die(i, WhyDepth)
				}
				beginValue()
				p.tok(c, i, i+1, false, "")
				p.stack = append(p.stack, Frame{Obj: c == '{'})
				if c == '{' {
					ex = exNameOrEnd
				} else {
					ex = exValueOrEnd
				}
				i++
			case c == '"':
				beginValue()
				end, st := p.str(b, i)
				if st != strOK {
					r.TokStart = i
					if st == strIncomplete {
						r.Stack = p.stack
						return r
					}
					return die(end, p.strWhy)
				}
				p.tok('"', i, end, false, string(p.sbuf))
				i = end
				valueDone()
			case c == '-' || isDigit(c):
				beginValue()
				end, st := number(b, i)
				if st == numDead {
					r.TokStart = i
					return die(end, WhySyntax)
				}
				if st == numIncomplete { // input ended inside a number that is not yet acceptable
					r.TokStart = i
					r.Stack = p.stack
					return r
				}
				if end == len(b) {
					// The number may still grow; as a complete text it is acceptable only at top level.
					if len(p.stack) == 0 {
						p.tok('0', i, end, false, "")
						r.Values++
						r.Complete = (p.O.Stream || r.Values == 1)
						r.Boundary = false // a longer number could follow: not a clean boundary for EOF purposes
						r.TokStart = i
						r.Stack = p.stack
						return r
					}
					r.TokStart = i
					r.Stack = p.stack
					return r
				}
				p.tok('0', i, end, false, "")
				i = end
				valueDone()
			case c == 'n' || c == 't' || c == 'f':
				beginValue()
				lit := "null"
				if c == 't' {
					lit = "true"
				} else if c == 'f' {
					lit = "false"
				}
				j := 0
				for j < len(lit) && i+j < len(b) {
					if b[i+j] != lit[j] {
						r.TokStart = i
						return die(i+j, WhySyntax)
					}
					j++
				}
				if j < len(lit) {
					r.TokStart = i
					r.Stack = p.stack
					return r
				}
				p.tok(c, i, i+len(lit), false, "")
				i += len(lit)
				valueDone()
			default:
				return die(i, WhySyntax)
			}
		case exNameOrEnd, exName:
			if ex == exNameOrEnd && c == '}' {
				p.tok('}', i, i+1, false, "")
				p.stack = p.stack[:len(p.stack)-1]
				i++
				valueDone()
				continue
			}
			if c != '"' {
				return die(i, WhySyntax)
			}
			end, st := p.str(b, i)
			if st != strOK {
				r.TokStart = i
				if st == strIncomplete {
					r.Stack = p.stack
					return r
				}
				return die(end, p.strWhy)
			}
			f := &p.stack[len(p.stack)-1]
			name := string(p.sbuf)
			if !p.O.AllowDupNames {
				if f.has(name) {
					r.TokStart = i
					r.DupName = name
					return die(end-1, WhyDup)
				}
				f.add(name)
			}
			f.Name, f.HasName, f.Pending = name, true, true
			p.tok('"', i, end, true, name)
			i = end
			ex = exColon
		case exColon:
			if c != ':' {
				return die(i, WhySyntax)
			}
			i++
			p.stack[len(p.stack)-1].InValue = true
			ex = exValue
		case exCommaOrEnd:
			f := &p.stack[len(p.stack)-1]
			switch {
			case c == ',':
				i++
				if f.Obj {
					ex = exName
				} else {
					ex = exValue
					f.InValue = true
				}
			case c == '}' && f.Obj, c == ']' && !f.Obj:
				p.tok(c, i, i+1, false, "")
				p.stack = p.stack[:len(p.stack)-1]
				i++
				valueDone()
			default:
				return die(i, WhySyntax)
			}
		}
	}
	// end of input between tokens
	r.Stack = p.stack
	if len(p.stack) == 0 && ex == exTop {
		r.Boundary = true
		r.Complete = p.O.Stream || r.Values == 1
	}
	return r
}

func (f *Frame) has(name string) bool {
	if f.names != nil {
		_, ok := f.names[name]
		return ok
	}
	for _, n := range f.nameLst {
		if n == name {
			return true
		}
	}
	return false
}

func (f *Frame) add(name string) {
	if f.names != nil {
		f.names[name] = struct{}{}
		return
	}
	f.nameLst = append(f.nameLst, name)
	if len(f.nameLst) > 16 {
		f.names = make(map[string]struct{}, 64)
		for _, n := range f.nameLst {
			f.names[n] = struct{}{}
		}
		f.nameLst = nil
	}
}

func (p *Parser) tok(kind byte, start, end int, name bool, s string) {
	if p.O.NoToks {
		return
	}
	p.res.Toks = append(p.res.Toks, Tok{Kind: kind, Start: start, End: end, Name: name, Str: s})
}

const (
	numOK = iota
	numDead
	numIncomplete
)

// number scans a JSON number starting at b[i]. On numOK, end is one past the last byte of the
// longest number (end == len(b) means the input ended while the number was in an accepting state).
// On numDead, end is the offending byte. On numIncomplete the input ended in a non-accepting state.
func number(b []byte, i int) (end int, st int) {
	j := i
	if b[j] == '-' {
		j++
		if j == len(b) {
			return j, numIncomplete
		}
		if !isDigit(b[j]) {
			return j, numDead
		}
	}
	if b[j] == '0' {
		j++
	} else {
		for j < len(b) && isDigit(b[j]) {
			j++
		}
	}
	if j < len(b) && b[j] == '.' {
		j++
		if j == len(b) {
			return j, numIncomplete
		}
		if !isDigit(b[j]) {
			return j, numDead
		}
		for j < len(b) && isDigit(b[j]) {
			j++
		}
	}
	if j < len(b) && (b[j] == 'e' || b[j] == 'E') {
		j++
		if j == len(b) {
			return j, numIncomplete
		}
		if b[j] == '+' || b[j] == '-' {
			j++
			if j == len(b) {
				return j, numIncomplete
			}
		}
		if !isDigit(b[j]) {
			return j, numDead
		}
		for j < len(b) && isDigit(b[j]) {
			j++
		}
	}
	return j, numOK
}

const (
	strOK = iota
	strDead
	strIncomplete
)

// utf8Seq decodes one UTF-8 encoded scalar at b[i:] following Unicode table 3-7.
// It returns the scalar and its length; n == 0 means b[i] does not start a well-formed
// sequence; short reports that the input ended inside a sequence that was well-formed so far.
// bad is the index of the first byte that breaks the sequence.
func utf8Seq(b []byte, i int) (r rune, n int, short bool, bad int) {
	c := b[i]
	var need int
	var lo, hi byte = 0x80, 0xBF
	switch {
	case c < 0x80:
		return rune(c), 1, false, 0
	case c < 0xC2:
		return 0, 0, false, i
	case c <= 0xDF:
		need, r = 1, rune(c&0x1F)
	case c == 0xE0:
		need, r, lo = 2, rune(c&0x0F), 0xA0
	case c <= 0xEC:
		need, r = 2, rune(c&0x0F)
	case c == 0xED:
		need, r, hi = 2, rune(c&0x0F), 0x9F
	case c <= 0xEF:
		need, r = 2, rune(c&0x0F)
	case c == 0xF0:
		need, r, lo = 3, rune(c&0x07), 0x90
	case c <= 0xF3:
		need, r = 3, rune(c&0x07)
	case c == 0xF4:
		need, r, hi = 3, rune(c&0x07), 0x8F
	default:
		return 0, 0, false, i
	}
	for k := 1; k <= need; k++ {
		if i+k >= len(b) {
			return 0, 0, true, 0
		}
		d := b[i+k]
		if d < lo || d > hi {
			return 0, 0, false, i + k
		}
		r = r<<6 | rune(d&0x3F)
		lo, hi = 0x80, 0xBF
	}
	return r, need + 1, false, 0
}

func appendRune(dst []byte, r rune) []byte {
	switch {
	case r < 0x80:
		return append(dst, byte(r))
	case r < 0x800:
		return append(dst, 0xC0|byte(r>>6), 0x80|byte(r)&0x3F)
	case r < 0x10000:
		return append(dst, 0xE0|byte(r>>12), 0x80|byte(r>>6)&0x3F, 0x80|byte(r)&0x3F)
	default:
		return append(dst, 0xF0|byte(r>>18), 0x80|byte(r>>12)&0x3F, 0x80|byte(r>>6)&0x3F, 0x80|byte(r)&0x3F)
	}
}

// hex4 reads 4 hex digits at b[i:]. It returns the value, or dead (offending index), or short.
func hex4(b []byte, i int) (v rune, bad int, short bool) {
	for k := 0; k < 4; k++ {
		if i+k >= len(b) {
			return 0, -1, true
		}
		h := hexVal(b[i+k])
		if h < 0 {
			return 0, i + k, false
		}
		v = v<<4 | rune(h)
	}
	return v, -1, false
}

// str scans a string literal starting at the quote b[i]; the unescaped content is left in p.sbuf.
// On strOK end is one past the closing quote; on strDead end is the first fatal byte and p.strWhy its class.
func (p *Parser) str(b []byte, i int) (end int, st int) {
	p.sbuf = p.sbuf[:0]
	strict := !p.O.AllowInvalidUTF8
	j := i + 1
	for {
		if j >= len(b) {
			return j, strIncomplete
		}
		c := b[j]
		switch {
		case c == '"':
			return j + 1, strOK
		case c < 0x20:
			p.strWhy = WhySyntax
			return j, strDead
		case c == '\\':
			if j+1 >= len(b) {
				return j, strIncomplete
			}
			e := b[j+1]
			switch e {
			case '"', '\\', '/':
				p.sbuf = append(p.sbuf, e)
				j += 2
			case 'b':
				p.sbuf = append(p.sbuf, '\b')
				j += 2
			case 'f':
				p.sbuf = append(p.sbuf, '\f')
				j += 2
			case 'n':
				p.sbuf = append(p.sbuf, '\n')
				j += 2
			case 'r':
				p.sbuf = append(p.sbuf, '\r')
				j += 2
			case 't':
				p.sbuf = append(p.sbuf, '\t')
				j += 2
			case 'u':
				v, bad, short := hex4(b, j+2)
				if bad >= 0 {
					p.strWhy = WhySyntax
					return bad, strDead
				}
				if short {
					// A low surrogate is already fatal in strict mode once its second digit is seen.
					if strict && j+3 < len(b) && (b[j+2] == 'd' || b[j+2] == 'D') && hexVal(b[j+3]) >= 0xC {
						p.strWhy = WhyUTF8
						return j + 3, strDead
					}
					return j, strIncomplete
				}
				j += 6
				switch {
				case v >= 0xDC00 && v <= 0xDFFF: // unpaired low surrogate
					if strict {
						p.strWhy = WhyUTF8
						return j - 6 + 3, strDead
					}
					p.sbuf = appendRune(p.sbuf, 0xFFFD)
				case v >= 0xD800 && v <= 0xDBFF: // high surrogate: must be followed by \uDC00..\uDFFF
					lo, deadAt, short := lowSurrogate(b, j)
					switch {
					case short:
						return j, strIncomplete
					case lo != 0:
						p.sbuf = appendRune(p.sbuf, 0x10000+(v-0xD800)<<10+(lo-0xDC00))
						j += 6
					case strict:
						p.strWhy = WhyUTF8
						return deadAt, strDead
					default:
						p.sbuf = appendRune(p.sbuf, 0xFFFD)
					}
				default:
					p.sbuf = appendRune(p.sbuf, v)
				}
			default:
				p.strWhy = WhySyntax
				return j + 1, strDead
			}
		case c < 0x80:
			p.sbuf = append(p.sbuf, c)
			j++
		default:
			r, n, short, bad := utf8Seq(b, j)
			switch {
			case n > 0:
				p.sbuf = appendRune(p.sbuf, r)
				j += n
			case short && strict:
				return j, strIncomplete
			case strict:
				p.strWhy = WhyUTF8
				return bad, strDead
			default:
				// tolerated: this one byte becomes U+FFFD (also when the input merely ends here:
				// the caller only uses the content of complete strings)
				if short {
					// cannot decide yet whether the sequence completes; only matters for prefixes
					// and in permissive mode every continuation stays viable
					p.sbuf = appendRune(p.sbuf, 0xFFFD)
					j++
					continue
				}
				p.sbuf = appendRune(p.sbuf, 0xFFFD)
				j++
			}
		}
	}
}

// lowSurrogate inspects b[j:] for `\uDC00`..`\uDFFF`. It returns the surrogate value (non-zero) when
// present; otherwise deadAt is the first byte showing that no low surrogate follows; short reports
// that the input ended while a low surrogate was still possible.
func lowSurrogate(b []byte, j int) (lo rune, deadAt int, short bool) {
	want := func(k int, ok func(c byte) bool) (bool, bool) { // (matches, ended)
		if j+k >= len(b) {
			return false, true
		}
		return ok(b[j+k]), false
	}
	checks := []func(c byte) bool{
		func(c byte) bool { return c == '\\' },
		func(c byte) bool { return c == 'u' },
		func(c byte) bool { return c == 'd' || c == 'D' },
		func(c byte) bool { return hexVal(c) >= 0xC },
		func(c byte) bool { return hexVal(c) >= 0 },
		func(c byte) bool { return hexVal(c) >= 0 },
	}
	for k, ok := range checks {
		m, ended := want(k, ok)
		if ended {
			return 0, 0, true
		}
		if !m {
			return 0, j + k, false
		}
	}
	v, _, _ := hex4(b, j+2)
	return v, 0, false
}
