package refjson

import (
	"strconv"
	"strings"
)

// DecModel is the reference model of a jsontext.Decoder over a VALID stream of values:
// a cursor over the recognizer's token list plus the open-container stack.
type DecModel struct {
	In     []byte
	Toks   []Tok
	I      int // next token
	Off    int // offset after the most recently returned token or value
	frames []encFrame
	Tops   int64
}

// NewDecModel returns nil if in is not a valid stream under o.
func NewDecModel(in []byte, o Opts) *DecModel {
	o.Stream, o.NoToks = true, false
	res := Parse(in, o)
	if !res.Complete {
		return nil
	}
	return &DecModel{In: in, Toks: append([]Tok(nil), res.Toks...)}
}

func (m *DecModel) Depth() int { return len(m.frames) }

func (m *DecModel) Index(i int) (byte, int64) {
	if i == 0 {
		return 0, m.Tops
	}
	f := m.frames[i-1]
	if f.obj {
		return '{', f.length
	}
	return '[', f.length
}

func (m *DecModel) Pointer() string {
	var sb strings.Builder
	for i, f := range m.frames {
		if i == len(m.frames)-1 && f.length == 0 {
			break
		}
		sb.WriteByte('/')
		if f.obj {
			sb.WriteString(EscapePtr(f.lastName))
		} else {
			sb.WriteString(strconv.FormatInt(f.length-1, 10))
		}
	}
	return sb.String()
}

// AtEOF reports whether all tokens are consumed.
func (m *DecModel) AtEOF() bool { return m.I == len(m.Toks) }

// Peek returns the kind of the next token (0 at end of input), normalised like jsontext.Kind.
func (m *DecModel) Peek() byte {
	if m.AtEOF() {
		return 0
	}
	return m.Toks[m.I].Kind
}

func (m *DecModel) count(t Tok) {
	if n := len(m.frames); n > 0 {
		f := &m.frames[n-1]
		if f.obj && f.length%2 == 0 {
			f.lastName = t.Str
		}
		f.length++
	} else {
		m.Tops++
	}
}

// Token consumes one token. ok is false at end of input.
func (m *DecModel) Token() (t Tok, ok bool) {
	if m.AtEOF() {
		return Tok{}, false
	}
	t = m.Toks[m.I]
	m.I++
	m.Off = t.End
	switch t.Kind {
	case '}', ']':
		m.frames = m.frames[:len(m.frames)-1]
	case '{':
		m.count(t)
		m.frames = append(m.frames, encFrame{obj: true})
	case '[':
		m.count(t)
		m.frames = append(m.frames, encFrame{})
	default:
		m.count(t)
	}
	return t, true
}

// Value consumes one whole value and returns its byte span. ok is false at end of input;
// closer is true (and nothing is consumed) if the next token ends a container.
func (m *DecModel) Value() (span []byte, ok, closer bool) {
	if m.AtEOF() {
		return nil, false, false
	}
	t := m.Toks[m.I]
	if t.Kind == '}' || t.Kind == ']' {
		return nil, true, true
	}
	j := m.I
	if t.Kind == '{' || t.Kind == '[' {
		d := 0
		for {
			switch m.Toks[j].Kind {
			case '{', '[':
				d++
			case '}', ']':
				d--
			}
			if d == 0 {
				break
			}
			j++
		}
	}
	m.count(t)
	m.I = j + 1
	m.Off = m.Toks[j].End
	return m.In[t.Start:m.Toks[j].End], true, false
}
