package refjson

import (
	"bytes"
	"fmt"
	"math"
	"math/big"
	"sort"
	"strconv"
	"strings"
	"unicode/utf16"
)

// Value is a parsed JSON value.
type Value struct {
	Kind     byte // 'n' 't' 'f' '"' '0' '{' '['
	Str      string
	Num      string // literal as spelled
	Elems    []*Value
	Names    []string // object member names in input order (unescaped)
	RawNames []string // the member names as spelled (literal including quotes)
	Members  []*Value
}

// Tree builds the value tree of a valid single text (nil if b is not valid under o).
func Tree(b []byte, o Opts) *Value {
	o.NoToks, o.Stream = false, false
	res := Parse(b, o)
	if !res.Complete {
		return nil
	}
	i := 0
	return build(b, res.Toks, &i)
}

// Trees builds the trees of a valid stream.
func Trees(b []byte, o Opts) []*Value {
	o.NoToks, o.Stream = false, true
	res := Parse(b, o)
	if !res.Complete {
		return nil
	}
	var out []*Value
	for i := 0; i < len(res.Toks); {
		out = append(out, build(b, res.Toks, &i))
	}
	return out
}

func build(b []byte, toks []Tok, i *int) *Value {
	t := toks[*i]
	*i++
	switch t.Kind {
	case 'n', 't', 'f':
		return &Value{Kind: t.Kind}
	case '"':
		return &Value{Kind: '"', Str: t.Str}
	case '0':
		return &Value{Kind: '0', Num: string(b[t.Start:t.End])}
	case '[':
		v := &Value{Kind: '['}
		for toks[*i].Kind != ']' {
			v.Elems = append(v.Elems, build(b, toks, i))
		}
		*i++
		return v
	case '{':
		v := &Value{Kind: '{'}
		for toks[*i].Kind != '}' {
			v.Names = append(v.Names, toks[*i].Str)
			v.RawNames = append(v.RawNames, string(b[toks[*i].Start:toks[*i].End]))
			*i++
			v.Members = append(v.Members, build(b, toks, i))
		}
		*i++
		return v
	}
	panic("refjson: bad token stream")
}

// EqOpts configures Equal.
type EqOpts struct {
	NumByValue  bool // compare numbers as exact rationals instead of by spelling
	NumByFloat  bool // compare numbers by their float64 value
	IgnoreOrder bool // member order is irrelevant
}

// Equal compares two trees.
func Equal(a, b *Value, o EqOpts) bool {
	if a == nil || b == nil {
		return a == b
	}
	if a.Kind != b.Kind {
		return false
	}
	switch a.Kind {
	case '"':
		return a.Str == b.Str
	case '0':
		switch {
		case o.NumByFloat:
			// float64 value with overflow saturated (RFC 8785 serializers cannot express infinity)
			x, _ := strconv.ParseFloat(a.Num, 64)
			y, _ := strconv.ParseFloat(b.Num, 64)
			if math.IsInf(x, 0) {
				x = math.Copysign(math.MaxFloat64, x)
			}
			if math.IsInf(y, 0) {
				y = math.Copysign(math.MaxFloat64, y)
			}
			return x == y
		case o.NumByValue:
			return Rat(a.Num).Cmp(Rat(b.Num)) == 0
		}
		return a.Num == b.Num
	case '[':
		if len(a.Elems) != len(b.Elems) {
			return false
		}
		for i := range a.Elems {
			if !Equal(a.Elems[i], b.Elems[i], o) {
				return false
			}
		}
		return true
	case '{':
		if len(a.Names) != len(b.Names) {
			return false
		}
		if !o.IgnoreOrder {
			for i := range a.Names {
				if a.Names[i] != b.Names[i] || !Equal(a.Members[i], b.Members[i], o) {
					return false
				}
			}
			return true
		}
		// order-insensitive comparison as a multiset of (name, value) members. Members with equal
		// names may be permuted too: the library orders them by value bytes on purpose, and the
		// property allows member order to differ under ReorderRawObjects.
		used := make([]bool, len(b.Names))
	outer:
		for i := range a.Names {
			for j := range b.Names {
				if !used[j] && a.Names[i] == b.Names[j] && Equal(a.Members[i], b.Members[j], o) {
					used[j] = true
					continue outer
				}
			}
			return false
		}
		return true
	}
	return true
}

func sortedIdx(names []string) []int {
	idx := make([]int, len(names))
	for i := range idx {
		idx[i] = i
	}
	sort.SliceStable(idx, func(x, y int) bool { return names[idx[x]] < names[idx[y]] })
	return idx
}

// Rat converts a JSON number literal to an exact rational.
func Rat(lit string) *big.Rat {
	mant := lit
	exp := 0
	if k := strings.IndexAny(lit, "eE"); k >= 0 {
		mant = lit[:k]
		e, err := strconv.Atoi(lit[k+1:])
		if err != nil { // absurdly large exponent: clamp (only sign matters for comparisons we do)
			if strings.HasPrefix(lit[k+1:], "-") {
				e = -1 << 20
			} else {
				e = 1 << 20
			}
		}
		exp = e
	}
	neg := strings.HasPrefix(mant, "-")
	mant = strings.TrimPrefix(mant, "-")
	if k := strings.IndexByte(mant, '.'); k >= 0 {
		exp -= len(mant) - k - 1
		mant = mant[:k] + mant[k+1:]
	}
	n, _ := new(big.Int).SetString(mant, 10)
	if n == nil {
		panic("refjson.Rat: bad literal " + lit)
	}
	if neg {
		n.Neg(n)
	}
	r := new(big.Rat).SetInt(n)
	if n.Sign() == 0 {
		return r
	}
	if exp > 5000 {
		exp = 5000
	}
	if exp < -5000 {
		exp = -5000
	}
	p := new(big.Int).Exp(big.NewInt(10), big.NewInt(int64(abs(exp))), nil)
	if exp >= 0 {
		r.Mul(r, new(big.Rat).SetInt(p))
	} else {
		r.Quo(r, new(big.Rat).SetInt(p))
	}
	return r
}

func abs(x int) int {
	if x < 0 {
		return -x
	}
	return x
}

// GoImage converts a tree to the Go value Unmarshal-into-any must produce:
// nil, bool, string, float64, []any, map[string]any. ok is false if a number overflows float64.
func GoImage(v *Value) (out any, ok bool) {
	switch v.Kind {
	case 'n':
		return nil, true
	case 't':
		return true, true
	case 'f':
		return false, true
	case '"':
		return v.Str, true
	case '0':
		f, err := strconv.ParseFloat(v.Num, 64)
		if err != nil || math.IsInf(f, 0) {
			return nil, false
		}
		return f, true
	case '[':
		a := make([]any, len(v.Elems))
		for i, e := range v.Elems {
			x, ok := GoImage(e)
			if !ok {
				return nil, false
			}
			a[i] = x
		}
		return a, true
	case '{':
		m := make(map[string]any, len(v.Names))
		for i, n := range v.Names {
			x, ok := GoImage(v.Members[i])
			if !ok {
				return nil, false
			}
			m[n] = x
		}
		return m, true
	}
	panic("bad kind")
}

// ES6Number formats a float64 as ECMA-262 Number::toString does (radix 10).
// keepNegZero keeps "-0" (the library's marshaling rule) instead of "0" (RFC 8785).
func ES6Number(f float64, bits int, keepNegZero bool) string {
	if f == 0 {
		if keepNegZero && math.Signbit(f) {
			return "-0"
		}
		return "0"
	}
	// shortest digits d1..dk and decimal exponent n such that value = 0.d1..dk * 10^n
	s := strconv.FormatFloat(math.Abs(f), 'e', -1, bits) // d.ddd…e±XX
	mant, expS, _ := strings.Cut(s, "e")
	e10, _ := strconv.Atoi(expS)
	digits := strings.Replace(mant, ".", "", 1)
	k := len(digits)
	n := e10 + 1
	var sb strings.Builder
	if f < 0 {
		sb.WriteByte('-')
	}
	switch {
	case k <= n && n <= 21:
		sb.WriteString(digits)
		sb.WriteString(strings.Repeat("0", n-k))
	case 0 < n && n <= 21:
		sb.WriteString(digits[:n])
		sb.WriteByte('.')
		sb.WriteString(digits[n:])
	case -6 < n && n <= 0:
		sb.WriteString("0.")
		sb.WriteString(strings.Repeat("0", -n))
		sb.WriteString(digits)
	default:
		sb.WriteString(digits[:1])
		if k > 1 {
			sb.WriteByte('.')
			sb.WriteString(digits[1:])
		}
		sb.WriteByte('e')
		if n-1 >= 0 {
			sb.WriteByte('+')
		} else {
			sb.WriteByte('-')
		}
		sb.WriteString(strconv.Itoa(abs(n - 1)))
	}
	return sb.String()
}

// Canonical serializes a tree per RFC 8785.
func Canonical(v *Value) []byte {
	var bb bytes.Buffer
	canon(&bb, v)
	return bb.Bytes()
}

func canon(bb *bytes.Buffer, v *Value) {
	switch v.Kind {
	case 'n':
		bb.WriteString("null")
	case 't':
		bb.WriteString("true")
	case 'f':
		bb.WriteString("false")
	case '"':
		bb.Write(Quote(nil, v.Str, false, false))
	case '0':
		f, _ := strconv.ParseFloat(v.Num, 64) // ±Inf on overflow
		if math.IsInf(f, 0) {
			f = math.Copysign(math.MaxFloat64, f)
		}
		bb.WriteString(ES6Number(f, 64, false))
	case '[':
		bb.WriteByte('[')
		for i, e := range v.Elems {
			if i > 0 {
				bb.WriteByte(',')
			}
			canon(bb, e)
		}
		bb.WriteByte(']')
	case '{':
		idx := make([]int, len(v.Names))
		for i := range idx {
			idx[i] = i
		}
		keys := make([][]uint16, len(v.Names))
		for i, n := range v.Names {
			keys[i] = utf16.Encode([]rune(n))
		}
		sort.SliceStable(idx, func(x, y int) bool { return lessU16(keys[idx[x]], keys[idx[y]]) })
		bb.WriteByte('{')
		for k, i := range idx {
			if k > 0 {
				bb.WriteByte(',')
			}
			bb.Write(Quote(nil, v.Names[i], false, false))
			bb.WriteByte(':')
			canon(bb, v.Members[i])
		}
		bb.WriteByte('}')
	}
}

func lessU16(a, b []uint16) bool {
	for i := 0; i < len(a) && i < len(b); i++ {
		if a[i] != b[i] {
			return a[i] < b[i]
		}
	}
	return len(a) < len(b)
}

// Quote appends the minimal JSON string literal for s (RFC 8785 section 3.2.2.2):
// only '"', '\\' and controls are escaped, with the two-character forms where they exist and
// lower-case \u00xx otherwise. html additionally escapes < > & ; js escapes U+2028 / U+2029.
// s must be well-formed UTF-8; each ill-formed byte is written as U+FFFD.
func Quote(dst []byte, s string, html, js bool) []byte {
	const hexd = "0123456789abcdef"
	dst = append(dst, '"')
	b := []byte(s)
	for i := 0; i < len(b); {
		c := b[i]
		switch {
		case c == '"' || c == '\\':
			dst = append(dst, '\\', c)
			i++
		case c == '\b':
			dst = append(dst, '\\', 'b')
			i++
		case c == '\f':
			dst = append(dst, '\\', 'f')
			i++
		case c == '\n':
			dst = append(dst, '\\', 'n')
			i++
		case c == '\r':
			dst = append(dst, '\\', 'r')
			i++
		case c == '\t':
			dst = append(dst, '\\', 't')
			i++
		case c < 0x20:
			dst = append(dst, '\\', 'u', '0', '0', hexd[c>>4], hexd[c&15])
			i++
		case html && (c == '<' || c == '>' || c == '&'):
			dst = append(dst, '\\', 'u', '0', '0', hexd[c>>4], hexd[c&15])
			i++
		case c < 0x80:
			dst = append(dst, c)
			i++
		default:
			r, n, _, _ := utf8Seq(b, i)
			if n == 0 {
				dst = appendRune(dst, 0xFFFD)
				i++
				continue
			}
			if js && (r == 0x2028 || r == 0x2029) {
				dst = append(dst, '\\', 'u', '2', '0', '2', hexd[r&15])
			} else {
				dst = append(dst, b[i:i+n]...)
			}
			i += n
		}
	}
	return append(dst, '"')
}

// Unquote returns the meaning of a JSON string literal (including its quotes).
// ok is false if lit is not a valid literal under the given UTF-8 policy.
func Unquote(lit []byte, allowInvalidUTF8 bool) (s string, ok bool) {
	if len(lit) < 2 || lit[0] != '"' {
		return "", false
	}
	p := &Parser{O: Opts{AllowInvalidUTF8: allowInvalidUTF8}}
	end, st := p.str(lit, 0)
	if st != strOK || end != len(lit) {
		return "", false
	}
	return string(p.sbuf), true
}

// WellFormed reports whether s is well-formed UTF-8 by table 3-7.
func WellFormed(s string) bool {
	b := []byte(s)
	for i := 0; i < len(b); {
		_, n, _, _ := utf8Seq(b, i)
		if n == 0 {
			return false
		}
		i += n
	}
	return true
}

// Sanitize replaces each ill-formed byte by U+FFFD.
func Sanitize(s string) string {
	b := []byte(s)
	var out []byte
	for i := 0; i < len(b); {
		r, n, _, _ := utf8Seq(b, i)
		if n == 0 {
			out = appendRune(out, 0xFFFD)
			i++
			continue
		}
		out = appendRune(out, r)
		i += n
	}
	return string(out)
}

// Pointer renders the RFC 6901 pointer of the value slot designated by the open frames:
// for every frame the index of the element in progress or the current member name.
// upto limits the number of frames used.
func Pointer(stack []Frame, upto int) string {
	var sb strings.Builder
	for i := 0; i < upto && i < len(stack); i++ {
		f := stack[i]
		sb.WriteByte('/')
		if f.Obj {
			sb.WriteString(EscapePtr(f.Name))
		} else {
			sb.WriteString(strconv.Itoa(f.Count))
		}
	}
	return sb.String()
}

// EscapePtr escapes one RFC 6901 reference token.
func EscapePtr(s string) string {
	s = strings.ReplaceAll(s, "~", "~0")
	return strings.ReplaceAll(s, "/", "~1")
}

func (v *Value) String() string {
	if v == nil {
		return "<nil>"
	}
	return fmt.Sprintf("%s", Canonicalish(v))
}

// Canonicalish renders a tree for diagnostics, keeping member order and number spelling.
func Canonicalish(v *Value) []byte {
	var bb bytes.Buffer
	var rec func(v *Value)
	rec = func(v *Value) {
		switch v.Kind {
		case 'n':
			bb.WriteString("null")
		case 't':
			bb.WriteString("true")
		case 'f':
			bb.WriteString("false")
		case '"':
			bb.Write(Quote(nil, v.Str, false, false))
		case '0':
			bb.WriteString(v.Num)
		case '[':
			bb.WriteByte('[')
			for i, e := range v.Elems {
				if i > 0 {
					bb.WriteByte(',')
				}
				rec(e)
			}
			bb.WriteByte(']')
		case '{':
			bb.WriteByte('{')
			for i, n := range v.Names {
				if i > 0 {
					bb.WriteByte(',')
				}
				bb.Write(Quote(nil, n, false, false))
				bb.WriteByte(':')
				rec(v.Members[i])
			}
			bb.WriteByte('}')
		}
	}
	rec(v)
	return bb.Bytes()
}
