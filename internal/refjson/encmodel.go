package refjson

import (
	"math"
	"sort"
	"strconv"
	"strings"
	"unicode/utf16"
)

// FmtOpts are the encoder-side options understood by the reference encoder model.
type FmtOpts struct {
	AllowDup, AllowUTF8    bool
	Multiline              bool
	Prefix, Indent         string
	SpaceColon, SpaceComma bool
	HTML, JS               bool
	Preserve               bool // PreserveRawStrings
	CanonInts, CanonFloats bool
	Reorder                bool // ReorderRawObjects
	OmitTopNewline         bool
}

// EncOp is one Encoder call.
type EncOp struct {
	Raw     bool   `json:"raw,omitempty"`  // WriteValue(Text) instead of WriteToken
	Text    string `json:"text,omitempty"` // raw value text
	Kind    byte   `json:"kind,omitempty"` // token kind 'n' 't' 'f' '"' '0' '{' '}' '[' ']'; 0 = invalid token
	Str     string `json:"str,omitempty"`  // string token payload
	Num     string `json:"num,omitempty"`  // number token: expected literal
	Invalid bool   `json:"invalid,omitempty"`
	Label   string `json:"label"`
}

type encFrame struct {
	obj      bool
	length   int64 // names and values counted separately
	lastName string
	names    map[string]struct{}
}

// EncModel is the reference model of a jsontext.Encoder: the exact bytes, offsets and stack
// after every call; a rejected call is a no-op.
type EncModel struct {
	O      FmtOpts
	Out    []byte
	frames []encFrame
	Tops   int64
}

func NewEncModel(o FmtOpts) *EncModel { return &EncModel{O: o} }

func (m *EncModel) Depth() int { return len(m.frames) }

// Index mirrors StackIndex: kind (0, '{', '[') and length at level i (0 = top).
func (m *EncModel) Index(i int) (byte, int64) {
	if i == 0 {
		return 0, m.Tops
	}
	f := m.frames[i-1]
	if f.obj {
		return '{', f.length
	}
	return '[', f.length
}

// Pointer mirrors StackPointer: RFC 6901 pointer to the most recently written value.
func (m *EncModel) Pointer() string {
	var sb strings.Builder
	for i, f := range m.frames {
		if i == len(m.frames)-1 && f.length == 0 {
			break
		}
		sb.WriteByte('/')
		if f.obj {
			sb.WriteString(EscapePtr(f.lastName))
		} else {
			sb.WriteString(strconv.FormatInt(f.length-1, 10))
		}
	}
	return sb.String()
}

// Key is a canonical description of the model state (for state merging).
func (m *EncModel) Key() string {
	var sb strings.Builder
	sb.WriteString(strconv.FormatInt(m.Tops, 10))
	for _, f := range m.frames {
		if f.obj {
			sb.WriteByte('{')
			ns := make([]string, 0, len(f.names))
			for n := range f.names {
				ns = append(ns, n)
			}
			sort.Strings(ns)
			sb.WriteString(strings.Join(ns, "\x00"))
			sb.WriteByte('|')
			sb.WriteString(f.lastName)
		} else {
			sb.WriteByte('[')
		}
		sb.WriteString(strconv.FormatInt(f.length, 10))
	}
	return sb.String()
}

// emit appends delimiter, whitespace and the token text, and updates the frames.
func (m *EncModel) emit(kind byte, text []byte, name string) {
	closer := kind == '}' || kind == ']'
	var delim byte
	if n := len(m.frames); n > 0 {
		f := &m.frames[n-1]
		switch {
		case f.obj && f.length%2 == 1:
			delim = ':'
		case f.length > 0 && !closer:
			delim = ','
		}
	}
	if delim != 0 {
		m.Out = append(m.Out, delim)
	}
	if delim == ':' {
		if m.O.SpaceColon {
			m.Out = append(m.Out, ' ')
		}
	} else {
		if delim == ',' && m.O.SpaceComma {
			m.Out = append(m.Out, ' ')
		}
		if m.O.Multiline && len(m.frames) > 0 {
			f := m.frames[len(m.frames)-1]
			n := -1
			switch {
			case f.length == 0 && closer:
			case f.length == 0 || delim == ',':
				n = len(m.frames)
			case closer:
				n = len(m.frames) - 1
			}
			if n >= 0 {
				m.Out = append(m.Out, '\n')
				m.Out = append(m.Out, m.O.Prefix...)
				for i := 0; i < n; i++ {
					m.Out = append(m.Out, m.O.Indent...)
				}
			}
		}
	}
	m.Out = append(m.Out, text...)
	// update frames
	if closer {
		m.frames = m.frames[:len(m.frames)-1]
		m.valueDone()
		return
	}
	if n := len(m.frames); n > 0 {
		f := &m.frames[n-1]
		if f.obj && f.length%2 == 0 { // a name
			f.length++
			f.lastName = name
			if !m.O.AllowDup {
				if f.names == nil {
					f.names = map[string]struct{}{}
				}
				f.names[name] = struct{}{}
			}
			return
		}
		f.length++
	} else {
		m.Tops++
	}
	switch kind {
	case '{':
		m.frames = append(m.frames, encFrame{obj: true})
	case '[':
		m.frames = append(m.frames, encFrame{})
	default:
		m.valueDone()
	}
}

// valueDone runs after a complete value: a top-level value is terminated by a newline.
func (m *EncModel) valueDone() {
	if len(m.frames) == 0 && !m.O.OmitTopNewline {
		m.Out = append(m.Out, '\n')
	}
}

// needName reports whether the next token must be a member name.
func (m *EncModel) needName() bool {
	n := len(m.frames)
	return n > 0 && m.frames[n-1].obj && m.frames[n-1].length%2 == 0
}

func (m *EncModel) dupName(name string) bool {
	if m.O.AllowDup {
		return false
	}
	_, ok := m.frames[len(m.frames)-1].names[name]
	return ok
}

// Apply performs one call on the model and reports whether it is accepted.
func (m *EncModel) Apply(op EncOp) bool {
	if op.Raw {
		return m.applyRaw(op.Text)
	}
	if op.Invalid || op.Kind == 0 {
		return false
	}
	switch op.Kind {
	case '}':
		n := len(m.frames)
		if n == 0 || !m.frames[n-1].obj || m.frames[n-1].length%2 == 1 {
			return false
		}
		m.emit('}', []byte("}"), "")
		return true
	case ']':
		n := len(m.frames)
		if n == 0 || m.frames[n-1].obj {
			return false
		}
		m.emit(']', []byte("]"), "")
		return true
	case '"':
		if !m.O.AllowUTF8 && !WellFormed(op.Str) {
			return false
		}
		s := Sanitize(op.Str)
		if m.needName() && m.dupName(s) {
			return false
		}
		m.emit('"', Quote(nil, s, m.O.HTML, m.O.JS), s)
		return true
	}
	if m.needName() {
		return false
	}
	switch op.Kind {
	case 'n':
		m.emit('n', []byte("null"), "")
	case 't':
		m.emit('t', []byte("true"), "")
	case 'f':
		m.emit('f', []byte("false"), "")
	case '0':
		m.emit('0', []byte(op.Num), "")
	case '{', '[':
		if len(m.frames) >= MaxDepth {
			return false
		}
		m.emit(op.Kind, []byte{op.Kind}, "")
	default:
		return false
	}
	return true
}

func (m *EncModel) applyRaw(text string) bool {
	b := []byte(text)
	res := Parse(b, Opts{AllowInvalidUTF8: m.O.AllowUTF8, AllowDupNames: m.O.AllowDup})
	if !res.Complete {
		return false
	}
	// nesting of the value itself
	maxd, d := 0, 0
	for _, t := range res.Toks {
		switch t.Kind {
		case '{', '[':
			d++
			if d > maxd {
				maxd = d
			}
		case '}', ']':
			d--
		}
	}
	if len(m.frames)+maxd > MaxDepth {
		return false
	}
	first := res.Toks[0]
	if m.needName() {
		if first.Kind != '"' {
			return false
		}
		if m.dupName(first.Str) {
			return false
		}
	}
	toks := res.Toks
	if m.O.Reorder {
		// re-derive the token order from a reordered tree, keeping each token's original spelling
		i := 0
		st := buildSpans(toks, &i)
		reorder(st)
		toks = flatten(st, nil)
	}
	for _, t := range toks {
		src := b[t.Start:t.End]
		switch t.Kind {
		case '"':
			m.emit('"', m.rawString(src, t.Str), t.Str)
		case '0':
			m.emit('0', m.rawNumber(src), "")
		default:
			m.emit(t.Kind, src, "")
		}
	}
	return true
}

// rawString is the expected spelling of a raw string literal passed through the encoder.
func (m *EncModel) rawString(src []byte, meaning string) []byte {
	if m.O.Preserve {
		if !m.O.HTML && !m.O.JS {
			return src
		}
		// keep the spelling, escape only what the escape options demand
		var out []byte
		for i := 0; i < len(src); {
			c := src[i]
			if c < 0x80 {
				if m.O.HTML && (c == '<' || c == '>' || c == '&') {
					out = append(out, '\\', 'u', '0', '0', "0123456789abcdef"[c>>4], "0123456789abcdef"[c&15])
				} else {
					out = append(out, c)
				}
				i++
				continue
			}
			r, n, _, _ := utf8Seq(src, i)
			if n == 0 {
				out = append(out, c)
				i++
				continue
			}
			if m.O.JS && (r == 0x2028 || r == 0x2029) {
				out = append(out, '\\', 'u', '2', '0', '2', "0123456789abcdef"[r&15])
			} else {
				out = append(out, src[i:i+n]...)
			}
			i += n
		}
		return out
	}
	return Quote(nil, meaning, m.O.HTML, m.O.JS)
}

// rawNumber is the expected spelling of a raw number passed through the encoder.
func (m *EncModel) rawNumber(src []byte) []byte {
	return CanonNumber(src, m.O.CanonInts, m.O.CanonFloats)
}

// CanonNumber applies the CanonicalizeRawInts / CanonicalizeRawFloats rules as documented:
// floats (numbers with fraction or exponent) and integers respectively are respelled as the
// ES6 shortest form of their float64 value (-0 as 0, overflow saturated); others are kept.
func CanonNumber(src []byte, ints, floats bool) []byte {
	if !ints && !floats {
		return src
	}
	isFloat := strings.ContainsAny(string(src), ".eE")
	if string(src) != "-0" {
		if isFloat && !floats || !isFloat && !ints {
			return src
		}
	}
	f, _ := strconv.ParseFloat(string(src), 64)
	if math.IsInf(f, 0) {
		f = math.Copysign(math.MaxFloat64, f)
	}
	return []byte(ES6Number(f, 64, false))
}

// span tree used for ReorderRawObjects: tokens grouped by value.
type spanNode struct {
	tok      Tok
	kids     []*spanNode // array elements, or alternating name/value nodes for objects
	closeTok Tok
}

func buildSpans(toks []Tok, i *int) *spanNode {
	t := toks[*i]
	*i++
	n := &spanNode{tok: t}
	switch t.Kind {
	case '[':
		for toks[*i].Kind != ']' {
			n.kids = append(n.kids, buildSpans(toks, i))
		}
		n.closeTok = toks[*i]
		*i++
	case '{':
		for toks[*i].Kind != '}' {
			n.kids = append(n.kids, &spanNode{tok: toks[*i]})
			*i++
			n.kids = append(n.kids, buildSpans(toks, i))
		}
		n.closeTok = toks[*i]
		*i++
	}
	return n
}

func reorder(n *spanNode) {
	for _, k := range n.kids {
		reorder(k)
	}
	if n.tok.Kind != '{' {
		return
	}
	type mem struct {
		name, val *spanNode
		key       []uint16
	}
	ms := make([]mem, 0, len(n.kids)/2)
	for i := 0; i+1 < len(n.kids); i += 2 {
		ms = append(ms, mem{n.kids[i], n.kids[i+1], utf16.Encode([]rune(n.kids[i].tok.Str))})
	}
	sort.SliceStable(ms, func(a, b int) bool { return lessU16(ms[a].key, ms[b].key) })
	n.kids = n.kids[:0]
	for _, x := range ms {
		n.kids = append(n.kids, x.name, x.val)
	}
}

func flatten(n *spanNode, out []Tok) []Tok {
	out = append(out, n.tok)
	for _, k := range n.kids {
		out = flatten(k, out)
	}
	if n.tok.Kind == '{' || n.tok.Kind == '[' {
		out = append(out, n.closeTok)
	}
	return out
}
