// Package evid collects what a check run covered, reports violations as
// replayable artefacts, matches them against the committed known-findings
// file and writes evidence/<id>.json.
package evid

import (
	"bufio"
	"crypto/sha256"
	"encoding/hex"
	"encoding/json"
	"fmt"
	"os"
	"path/filepath"
	"sort"
	"strconv"
	"strings"
	"sync"
	"sync/atomic"
	"time"
)

// Root is the /verif directory (where run.sh lives); the checker is started with cwd there.
var Root = "."

// Run is the accumulator of one check execution.
type Run struct {
	Prop  string
	Tier  string // quick | thorough
	Seed  int64
	Level string // exploration | fault_enumeration | model_checking

	start time.Time

	Evaluations atomic.Int64 // cases executed
	Nontrivial  atomic.Int64 // distinct non-trivial cases (each check documents its rule)
	States      atomic.Int64
	Transitions atomic.Int64
	Traces      atomic.Int64

	mu          sync.Mutex
	rule        string
	samples     []any
	extra       map[string]any
	assumptions []string
	exhaustive  bool
	bounds      []string
	violations  []violation
	nviol       int
	known       []knownFinding
	knownHit    map[int]int
	unstable    int
	counters    map[string]*atomic.Int64
	outcomes    map[string]int64
	Deadline    time.Time // internal budget; zero = none
	capped      atomic.Bool
}

type violation struct {
	Key    string
	What   string
	Replay string
	Case   json.RawMessage
}

// ReportedViolation is a violation recorded by this run (used when a child process hands its findings to a parent).
type ReportedViolation struct {
	Key, What string
	Replay    json.RawMessage
}

// Reported returns the violations recorded so far.
func (r *Run) Reported() []ReportedViolation {
	r.mu.Lock()
	defer r.mu.Unlock()
	out := make([]ReportedViolation, len(r.violations))
	for i, v := range r.violations {
		out[i] = ReportedViolation{v.Key, v.What, v.Case}
	}
	return out
}

// Capped reports whether the run was cut short.
func (r *Run) Capped() bool { return r.capped.Load() }

type knownFinding struct {
	Status   string `json:"status"`
	Property string `json:"property"`
	Key      string `json:"key,omitempty"`
	Commit   string `json:"commit,omitempty"`
	What     string `json:"what"`
}

// MaxReported bounds the number of distinct violations written out per run.
var MaxReported = 25

func New(prop, tier, level string) *Run {
	r := &Run{Prop: prop, Tier: tier, Level: level, start: time.Now(), exhaustive: true,
		extra: map[string]any{}, knownHit: map[int]int{}, counters: map[string]*atomic.Int64{}, outcomes: map[string]int64{}}
	if s := os.Getenv("VERIF_SEED"); s != "" {
		r.Seed, _ = strconv.ParseInt(s, 10, 64)
	}
	if s := os.Getenv("VERIF_MAXREPORT"); s != "" {
		if n, err := strconv.Atoi(s); err == nil && n > 0 {
			MaxReported = n
		}
	}
	r.loadKnown()
	return r
}

func (r *Run) loadKnown() {
	f, err := os.Open(filepath.Join(Root, "known_findings.jsonl"))
	if err != nil {
		return
	}
	defer f.Close()
	sc := bufio.NewScanner(f)
	sc.Buffer(make([]byte, 1<<20), 1<<24)
	for sc.Scan() {
		line := strings.TrimSpace(sc.Text())
		if line == "" || strings.HasPrefix(line, "#") {
			continue
		}
		var k knownFinding
		if json.Unmarshal([]byte(line), &k) == nil && k.Property == r.Prop && k.Status == "open" {
			r.known = append(r.known, k)
		}
	}
}

// Rule records how cases are enumerated and what counts as non-trivial.
func (r *Run) Rule(s string) { r.mu.Lock(); r.rule = s; r.mu.Unlock() }

// Assume records a trusted-base / assumption line.
func (r *Run) Assume(s ...string) {
	r.mu.Lock()
	r.assumptions = append(r.assumptions, s...)
	r.mu.Unlock()
}

// Bound records a human-readable bound that this run completed.
func (r *Run) Bound(format string, a ...any) {
	r.mu.Lock()
	r.bounds = append(r.bounds, fmt.Sprintf(format, a...))
	r.mu.Unlock()
}

// Sample stores an actual explored case (kept to a small number).
func (r *Run) Sample(v any) {
	r.mu.Lock()
	if len(r.samples) < 12 {
		r.samples = append(r.samples, v)
	}
	r.mu.Unlock()
}

// Extra stores an additional measured coverage key.
func (r *Run) Extra(k string, v any) { r.mu.Lock(); r.extra[k] = v; r.mu.Unlock() }

// Counter returns a named measured counter that is emitted under coverage.counters.
func (r *Run) Counter(name string) *atomic.Int64 {
	r.mu.Lock()
	defer r.mu.Unlock()
	c := r.counters[name]
	if c == nil {
		c = new(atomic.Int64)
		r.counters[name] = c
	}
	return c
}

// Outcomes merges a histogram of observed outcome classes (to show the exploration is not vacuous).
func (r *Run) Outcomes(m map[string]int64) {
	r.mu.Lock()
	for k, v := range m {
		r.outcomes[k] += v
	}
	r.mu.Unlock()
}

// NotExhaustive marks that a cap or internal deadline cut the enumeration short.
func (r *Run) NotExhaustive(why string) {
	r.mu.Lock()
	r.exhaustive = false
	dup := false
	for _, b := range r.bounds {
		if b == "CAPPED: "+why {
			dup = true
		}
	}
	if !dup {
		r.bounds = append(r.bounds, "CAPPED: "+why)
	}
	r.mu.Unlock()
	r.capped.Store(true)
}

// Expired reports whether the internal time budget is used up.
func (r *Run) Expired() bool {
	return !r.Deadline.IsZero() && time.Now().After(r.Deadline)
}

// Violations is the number of (unlisted) violations so far.
func (r *Run) Violations() int { r.mu.Lock(); defer r.mu.Unlock(); return r.nviol }

// TooMany tells enumerators they may stop early.
func (r *Run) TooMany() bool { return r.Violations() >= 4*MaxReported }

// Violation reports a failing case. key canonically identifies the case (entry point + exact input);
// replay is a JSON-serialisable object from which `check <id> --replay file` re-executes the case;
// recheck, if non-nil, re-executes the case and returns true when it still fails: it is run 5 times
// and the case is only reported when it fails every time.
func (r *Run) Violation(key, what string, replay any, recheck func() bool) {
	if recheck != nil {
		for i := 0; i < 5; i++ {
			if !recheck() {
				r.mu.Lock()
				r.unstable++
				r.mu.Unlock()
				fmt.Fprintf(os.Stderr, "UNSTABLE property=%s case does not fail on re-execution %d/5 (not reported): %s :: %s\n", r.Prop, i+1, key, what)
				return
			}
		}
	}
	r.mu.Lock()
	defer r.mu.Unlock()
	for i, k := range r.known {
		if k.Key == key {
			r.knownHit[i]++
			return
		}
	}
	r.nviol++
	for _, v := range r.violations {
		if v.Key == key {
			return
		}
	}
	if len(r.violations) >= MaxReported {
		return
	}
	h := sha256.Sum256([]byte(key))
	path := filepath.Join(Root, "evidence", "replay", r.Prop+"-"+hex.EncodeToString(h[:6])+".json")
	os.MkdirAll(filepath.Dir(path), 0o755)
	body, err := json.MarshalIndent(map[string]any{"property": r.Prop, "key": key, "what": what, "case": replay}, "", " ")
	if err != nil {
		body = []byte(fmt.Sprintf(`{"property":%q,"key":%q,"what":%q}`, r.Prop, key, what))
	}
	os.WriteFile(path, body, 0o644)
	abs, _ := filepath.Abs(path)
	caseJSON, _ := json.Marshal(replay)
	r.violations = append(r.violations, violation{Key: key, What: what, Replay: abs, Case: caseJSON})
	fmt.Fprintf(os.Stderr, "violation detail property=%s key=%s :: %s\n", r.Prop, trunc(key, 300), trunc(what, 600))
}

func trunc(s string, n int) string {
	if len(s) > n {
		return s[:n] + "…"
	}
	return s
}

// Finish writes the evidence file, prints KNOWN-FINDING / VIOLATION lines and returns the exit code.
func (r *Run) Finish() int {
	r.mu.Lock()
	defer r.mu.Unlock()
	cov := map[string]any{}
	for k, v := range r.extra {
		cov[k] = v
	}
	ev, nt := r.Evaluations.Load(), r.Nontrivial.Load()
	cov["evaluations"] = ev
	cov["distinct_nontrivial"] = nt
	cov["rule"] = r.rule
	if len(r.samples) == 0 {
		r.samples = append(r.samples, "no sample recorded")
	}
	cov["samples"] = r.samples
	cov["exhaustive"] = r.exhaustive
	cov["bounds_completed"] = r.bounds
	if s := r.States.Load(); s > 0 || r.Level == "model_checking" {
		cov["states"] = s
		cov["transitions"] = r.Transitions.Load()
		cov["traces_validated_against_impl"] = r.Traces.Load()
	}
	if len(r.counters) > 0 {
		cs := map[string]int64{}
		for k, c := range r.counters {
			cs[k] = c.Load()
		}
		cov["counters"] = cs
	}
	if len(r.outcomes) > 0 {
		cov["outcome_classes"] = r.outcomes
		cov["distinct_outcomes"] = len(r.outcomes)
	}
	cov["unstable_not_reported"] = r.unstable
	nknown := 0
	var knownLines []string
	for i, k := range r.known {
		if n := r.knownHit[i]; n > 0 {
			nknown += n
			knownLines = append(knownLines, fmt.Sprintf("KNOWN-FINDING: property=%s %s", r.Prop, k.What))
		}
	}
	cov["known_findings_hit"] = nknown
	doc := map[string]any{
		"property_id": r.Prop,
		"tier":        r.Tier,
		"seed":        r.Seed,
		"level":       r.Level,
		"coverage":    cov,
		"assumptions": r.assumptions,
		"wall_s":      time.Since(r.start).Seconds(),
		"violations":  r.nviol,
	}
	if r.assumptions == nil {
		doc["assumptions"] = []string{}
	}
	body, err := json.MarshalIndent(doc, "", " ")
	if err != nil {
		fmt.Fprintln(os.Stderr, "evidence marshal:", err)
		return 2
	}
	evdir := filepath.Join(Root, "evidence")
	if d := os.Getenv("VERIF_EVIDENCE_DIR"); d != "" {
		evdir = d // development aid (seeded-change matrix): keep the committed evidence of the real tree intact
	}
	os.MkdirAll(evdir, 0o755)
	if err := os.WriteFile(filepath.Join(evdir, r.Prop+".json"), append(body, '\n'), 0o644); err != nil {
		fmt.Fprintln(os.Stderr, "evidence write:", err)
		return 2
	}
	sort.Strings(knownLines)
	for _, l := range knownLines {
		fmt.Println(l)
	}
	fmt.Printf("%s %s: evaluations=%d distinct_nontrivial=%d exhaustive=%v violations=%d unstable=%d wall=%.1fs\n",
		r.Prop, r.Tier, ev, nt, r.exhaustive, r.nviol, r.unstable, time.Since(r.start).Seconds())
	for _, b := range r.bounds {
		fmt.Println("  bound:", b)
	}
	if r.nviol > 0 {
		for _, v := range r.violations {
			fmt.Printf("VIOLATION property=%s replay=%s\n", r.Prop, v.Replay)
		}
		return 1
	}
	return 0
}

// LoadReplay reads a replay file and returns the raw "case" member.
func LoadReplay(path string) (json.RawMessage, error) {
	b, err := os.ReadFile(path)
	if err != nil {
		return nil, err
	}
	var d struct {
		Case json.RawMessage `json:"case"`
	}
	if err := json.Unmarshal(b, &d); err != nil {
		return nil, err
	}
	return d.Case, nil
}
