// Package typeuniv builds a finite universe of Go types with reflection and a small
// exhaustive value domain for each of them (engine E5 of DESIGN.md).
package typeuniv

import (
	"fmt"
	"math"
	"reflect"
	"strings"
)

// TextKey is a map key type with text marshal/unmarshal methods.
type TextKey struct{ A, B int8 }

func (k TextKey) MarshalText() ([]byte, error) { return fmt.Appendf(nil, "%d/%d", k.A, k.B), nil }
func (k *TextKey) UnmarshalText(b []byte) error {
	_, err := fmt.Sscanf(string(b), "%d/%d", &k.A, &k.B)
	return err
}

// Named scalar kinds (exercise the kind-based default representation of named types).
type (
	NamedInt    int16
	NamedString string
	NamedBool   bool
	NamedBytes  []byte
	NamedFloat  float64
)

var (
	tBool    = reflect.TypeOf(false)
	tInt8    = reflect.TypeOf(int8(0))
	tInt64   = reflect.TypeOf(int64(0))
	tUint8   = reflect.TypeOf(uint8(0))
	tUint64  = reflect.TypeOf(uint64(0))
	tFloat32 = reflect.TypeOf(float32(0))
	tFloat64 = reflect.TypeOf(float64(0))
	tString  = reflect.TypeOf("")
	tBytes   = reflect.TypeOf([]byte(nil))
	tArr2B   = reflect.TypeOf([2]byte{})
	tAny     = reflect.TypeOf((*any)(nil)).Elem()
	tInt     = reflect.TypeOf(0)
	tTextKey = reflect.TypeOf(TextKey{})
)

// Leaves are the scalar-like types.
func Leaves() []reflect.Type {
	return []reflect.Type{tBool, tInt8, tInt64, tUint8, tUint64, tFloat32, tFloat64, tString, tBytes, tArr2B,
		reflect.TypeOf(NamedInt(0)), reflect.TypeOf(NamedString("")), reflect.TypeOf(NamedBool(false)), reflect.TypeOf(NamedBytes(nil)), reflect.TypeOf(NamedFloat(0))}
}

// KeyTypes are the map key types.
func KeyTypes() []reflect.Type {
	return []reflect.Type{tString, tInt, tUint8, tFloat64, tTextKey, reflect.TypeOf(NamedString(""))}
}

// Tag is one entry of the struct tag menu.
type Tag struct {
	Name string // label
	Tag  string // the json tag content ("" = untagged)
}

var Tags = []Tag{
	{"plain", ""}, {"named", "n"}, {"omitzero", ",omitzero"}, {"omitempty", ",omitempty"}, {"string", ",string"},
	{"named+omitzero+omitempty", "x,omitzero,omitempty"}, {"case:ignore", ",case:ignore"}, {"escaped-name", "a<b"},
}

// Cfg bounds the universe.
type Cfg struct {
	Depth       int  // nesting depth of composite constructors
	Methods     bool // unused here (method types are declared statically elsewhere)
	NoInvalid   bool // exclude values that cannot round-trip (invalid UTF-8, NaN)
	MaxPerLevel int  // cap on element types carried from level 1 onwards (0 = all), taken in canonical order with a stride
}

func structOf(fields ...reflect.StructField) reflect.Type { return reflect.StructOf(fields) }

func field(name string, t reflect.Type, tag string) reflect.StructField {
	f := reflect.StructField{Name: name, Type: t}
	if tag != "" {
		f.Tag = reflect.StructTag(`json:"` + tag + `"`)
	}
	return f
}

// Universe returns the types of the universe in a canonical order.
func Universe(c Cfg) []reflect.Type {
	seen := map[reflect.Type]bool{}
	var all []reflect.Type
	add := func(t reflect.Type) {
		if !seen[t] {
			seen[t] = true
			all = append(all, t)
		}
	}
	level := Leaves()
	for _, t := range level {
		add(t)
	}
	add(tAny)
	level = append(level, tAny)
	for d := 1; d <= c.Depth; d++ {
		elems := level
		if d >= 2 && c.MaxPerLevel > 0 && len(elems) > c.MaxPerLevel {
			stride := (len(elems) + c.MaxPerLevel - 1) / c.MaxPerLevel
			var sel []reflect.Type
			for i := (d * 3) % stride; i < len(elems); i += stride {
				sel = append(sel, elems[i])
			}
			elems = sel
		}
		var next []reflect.Type
		for i, e := range elems {
			next = append(next, reflect.SliceOf(e), reflect.ArrayOf(2, e), reflect.PointerTo(e))
			// maps: every key type for the first few element types, string keys for all
			next = append(next, reflect.MapOf(tString, e))
			if i < 4 || d == 1 {
				for _, k := range KeyTypes()[1:] {
					next = append(next, reflect.MapOf(k, e))
				}
			}
			// single-field structs with every tag
			for _, tg := range Tags {
				if tg.Name == "string" && !isNumericLike(e) {
					continue
				}
				next = append(next, structOf(field("F", e, tg.Tag)))
			}
			// two-field structs mixing this element with a string field
			next = append(next, structOf(field("A", e, ""), field("B", tString, ",omitempty")), structOf(field("A", tInt64, ",omitzero"), field("B", e, "b")))
		}
		for _, t := range next {
			add(t)
		}
		level = next
	}
	return all
}

func isNumericLike(t reflect.Type) bool {
	switch t.Kind() {
	case reflect.Int, reflect.Int8, reflect.Int16, reflect.Int32, reflect.Int64, reflect.Uint, reflect.Uint8, reflect.Uint16, reflect.Uint32, reflect.Uint64, reflect.Float32, reflect.Float64:
		return true
	case reflect.Pointer:
		// the `string` tag applies to the top level of the member value only: slices, arrays, maps and structs of
		// numbers are documented to be a runtime error, pointers are looked through
		return isNumericLike(t.Elem())
	}
	return false
}

// Domain returns the value domain of t. limit caps the number of values of composite types.
func Domain(t reflect.Type, noInvalid bool) []reflect.Value {
	return domain(t, noInvalid, 0)
}

func vals[T any](xs ...T) []reflect.Value {
	out := make([]reflect.Value, len(xs))
	for i, x := range xs {
		out[i] = reflect.ValueOf(x)
	}
	return out
}

func conv(vs []reflect.Value, t reflect.Type) []reflect.Value {
	out := make([]reflect.Value, len(vs))
	for i, v := range vs {
		out[i] = v.Convert(t)
	}
	return out
}

func domain(t reflect.Type, noInvalid bool, depth int) []reflect.Value {
	switch t.Kind() {
	case reflect.Bool:
		return conv(vals(false, true), t)
	case reflect.Int8:
		return conv(vals[int8](0, 1, -128, 127), t)
	case reflect.Int16:
		return conv(vals[int16](0, -1, math.MinInt16, math.MaxInt16), t)
	case reflect.Int, reflect.Int64:
		return conv(vals[int64](0, -1, math.MinInt64, math.MaxInt64, 1<<53+1), t)
	case reflect.Uint8:
		return conv(vals[uint8](0, 1, 255), t)
	case reflect.Uint64:
		return conv(vals[uint64](0, 1, math.MaxUint64, 1<<63), t)
	case reflect.Float32:
		return conv(vals[float32](0, float32(math.Copysign(0, -1)), 1.5, math.MaxFloat32, math.SmallestNonzeroFloat32, 16777217, -1e-7), t)
	case reflect.Float64:
		vs := vals[float64](0, math.Copysign(0, -1), 1.5, math.MaxFloat64, math.SmallestNonzeroFloat64, 1e21, 1e-7, 9007199254740993)
		if !noInvalid {
			vs = append(vs, vals(math.NaN(), math.Inf(-1))...)
		}
		return conv(vs, t)
	case reflect.String:
		// `x\"` ends in backslash + quote: its literal ends in an escaped backslash, an escaped quote and the closing quote
		vs := vals("", "a", "<&> \"\\", `x\"`, "é\x00\U0001F600")
		if !noInvalid {
			vs = append(vs, reflect.ValueOf("a\xffb"))
		}
		vs = append(vs, vals("A", `"`)...)
		if !noInvalid {
			vs = append(vs, reflect.ValueOf("\xed\xa0\x80"))
			// one string per class of ill-formed UTF-8: beyond U+10FFFF (F4 90.., F5..F7 leads), five-byte form, overlong
			// two- and four-byte forms, truncated sequences, stray continuation byte
			vs = append(vs, vals("\xf4\x90\x80\x80", "a\xf5\x80\x80\x80b", "\xf7\xbf\xbf\xbf", "\xf8\x88\x80\x80\x80", "\xc0\xaf", "\xf0\x80\x80\x80", "\xe2\x82", "\xf0\x9f\x98", "\x80")...)
		}
		return conv(vs, t)
	case reflect.Slice:
		if t.Elem().Kind() == reflect.Uint8 {
			return conv(vals[[]byte](nil, []byte{}, []byte{0, 255, '<'}, []byte("hello world!")), t)
		}
		ev := domain(t.Elem(), noInvalid, depth+1)
		out := []reflect.Value{reflect.Zero(t), reflect.MakeSlice(t, 0, 0)}
		for i := 0; i < len(ev) && i < 4; i++ {
			s := reflect.MakeSlice(t, 1, 1)
			s.Index(0).Set(ev[i])
			out = append(out, s)
		}
		s := reflect.MakeSlice(t, 0, len(ev))
		for _, e := range ev {
			s = reflect.Append(s, e)
		}
		return append(out, s)
	case reflect.Array:
		if t.Elem().Kind() == reflect.Uint8 {
			a := reflect.New(t).Elem()
			b := reflect.New(t).Elem()
			b.Index(0).SetUint(255)
			b.Index(1).SetUint('<')
			return []reflect.Value{a, b}
		}
		ev := domain(t.Elem(), noInvalid, depth+1)
		var out []reflect.Value
		out = append(out, reflect.Zero(t))
		for i := 0; i+1 < len(ev) && i < 3; i++ {
			a := reflect.New(t).Elem()
			a.Index(0).Set(ev[i])
			a.Index(1).Set(ev[i+1])
			out = append(out, a)
		}
		a := reflect.New(t).Elem()
		a.Index(1).Set(ev[len(ev)-1])
		return append(out, a)
	case reflect.Map:
		kv := domain(t.Key(), true, depth+1)
		ev := domain(t.Elem(), noInvalid, depth+1)
		out := []reflect.Value{reflect.Zero(t), reflect.MakeMap(t)}
		for i := 0; i < len(kv) && i < 3; i++ {
			m := reflect.MakeMap(t)
			m.SetMapIndex(kv[i], ev[i%len(ev)])
			out = append(out, m)
		}
		m := reflect.MakeMap(t)
		for i, k := range kv {
			if k.Kind() == reflect.Float64 && k.Float() == 0 && math.Signbit(k.Float()) {
				continue // -0 and +0 are the same key in Go
			}
			m.SetMapIndex(k, ev[(i+1)%len(ev)])
		}
		return append(out, m)
	case reflect.Pointer:
		out := []reflect.Value{reflect.Zero(t)}
		for i, e := range domain(t.Elem(), noInvalid, depth+1) {
			if i >= 4 {
				break
			}
			p := reflect.New(t.Elem())
			p.Elem().Set(e)
			out = append(out, p)
		}
		return out
	case reflect.Interface:
		dyn := []any{nil, true, 1.5, "s<", []any{}, []any{nil, 1.0, "x"}, map[string]any{}, map[string]any{"k": []any{false}, "": nil}, 0.0}
		out := make([]reflect.Value, 0, len(dyn))
		for _, d := range dyn {
			v := reflect.New(t).Elem()
			if d != nil {
				v.Set(reflect.ValueOf(d))
			}
			out = append(out, v)
		}
		return out
	case reflect.Struct:
		if t == tTextKey {
			return vals(TextKey{}, TextKey{1, -2}, TextKey{127, 0})
		}
		zero := reflect.Zero(t)
		out := []reflect.Value{zero}
		// one field at a time through its domain, others zero; then all fields non-zero
		all := reflect.New(t).Elem()
		for i := 0; i < t.NumField(); i++ {
			fd := domain(t.Field(i).Type, noInvalid, depth+1)
			for j, fv := range fd {
				if j >= 6 && depth > 0 {
					break
				}
				s := reflect.New(t).Elem()
				s.Field(i).Set(fv)
				out = append(out, s)
			}
			all.Field(i).Set(fd[len(fd)-1])
		}
		return append(out, all)
	}
	panic("typeuniv: no domain for " + t.String())
}

// Describe renders a type compactly.
func Describe(t reflect.Type) string {
	s := t.String()
	s = strings.ReplaceAll(s, "typeuniv.", "")
	return s
}
