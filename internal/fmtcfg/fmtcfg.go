// Package fmtcfg enumerates jsontext formatting option configurations and maps each
// to the real option list and to the reference model's FmtOpts.
package fmtcfg

import (
	"fmt"
	"strings"

	"github.com/go-json-experiment/json/jsontext"

	"verif/internal/refjson"
)

// Names of the 13 formatting options, in bit order.
var Names = []string{"AllowDuplicateNames", "AllowInvalidUTF8", "EscapeForHTML", "EscapeForJS", "PreserveRawStrings",
	"CanonicalizeRawInts", "CanonicalizeRawFloats", "ReorderRawObjects", "SpaceAfterColon", "SpaceAfterComma", "Multiline", "WithIndent", "WithIndentPrefix"}

const (
	AllowDup = 1 << iota
	AllowUTF8
	HTML
	JS
	Preserve
	CanonInts
	CanonFloats
	Reorder
	SpaceColon
	SpaceComma
	Multiline
	Indent
	Prefix
	N = 13
)

// Cfg is a set of options (bit i set = option i passed with value true / the given string)
// plus a set of options passed explicitly as false.
type Cfg struct {
	On     uint32 `json:"on"`
	Off    uint32 `json:"off"` // bool options passed explicitly with false
	Pre    uint32 `json:"pre,omitempty"` // bool options (a subset of Off) passed with true first: the later false must win
	Indent string `json:"indent"`
	Prefix string `json:"prefix"`
}

func (c Cfg) String() string {
	var parts []string
	for i, n := range Names {
		switch {
		case c.On&(1<<i) != 0 && i == 11:
			parts = append(parts, fmt.Sprintf("WithIndent(%q)", c.Indent))
		case c.On&(1<<i) != 0 && i == 12:
			parts = append(parts, fmt.Sprintf("WithIndentPrefix(%q)", c.Prefix))
		case c.On&(1<<i) != 0:
			parts = append(parts, n+"(true)")
		case c.Off&(1<<i) != 0 && c.Pre&(1<<i) != 0:
			parts = append(parts, n+"(true),"+n+"(false)")
		case c.Off&(1<<i) != 0:
			parts = append(parts, n+"(false)")
		}
	}
	if len(parts) == 0 {
		return "none"
	}
	return strings.Join(parts, ",")
}

var ctors = []func(bool) jsontext.Options{
	jsontext.AllowDuplicateNames, jsontext.AllowInvalidUTF8, jsontext.EscapeForHTML, jsontext.EscapeForJS, jsontext.PreserveRawStrings,
	jsontext.CanonicalizeRawInts, jsontext.CanonicalizeRawFloats, jsontext.ReorderRawObjects, jsontext.SpaceAfterColon, jsontext.SpaceAfterComma, jsontext.Multiline,
}

// Real returns the option list in bit order.
func (c Cfg) Real() []jsontext.Options {
	var out []jsontext.Options
	for i := 0; i < 11; i++ {
		if c.Pre&c.Off&(1<<i) != 0 {
			out = append(out, ctors[i](true))
		}
	}
	for i := 0; i < 11; i++ {
		if c.On&(1<<i) != 0 {
			out = append(out, ctors[i](true))
		} else if c.Off&(1<<i) != 0 {
			out = append(out, ctors[i](false))
		}
	}
	if c.On&Indent != 0 {
		out = append(out, jsontext.WithIndent(c.Indent))
	}
	if c.On&Prefix != 0 {
		out = append(out, jsontext.WithIndentPrefix(c.Prefix))
	}
	return out
}

// Apply overlays c onto base model options following the documented semantics:
// later options override earlier ones; WithIndent / WithIndentPrefix imply Multiline(true);
// under Multiline, SpaceAfterColon defaults to true and the indent to "\t" unless specified.
type State struct {
	set            uint32 // which bool options have been specified
	val            uint32
	indent, prefix string
	indentSet      bool
}

func (s *State) Overlay(c Cfg) {
	for i := 0; i < 11; i++ {
		if c.On&(1<<i) != 0 {
			s.set |= 1 << i
			s.val |= 1 << i
		} else if c.Off&(1<<i) != 0 {
			s.set |= 1 << i
			s.val &^= 1 << i
		}
	}
	if c.On&Indent != 0 {
		s.indent, s.indentSet = c.Indent, true
		s.set |= Multiline
		s.val |= Multiline
	}
	if c.On&Prefix != 0 {
		s.prefix = c.Prefix
		s.set |= Multiline
		s.val |= Multiline
	}
}

func (s *State) Model() refjson.FmtOpts {
	b := func(m uint32) bool { return s.val&m != 0 }
	o := refjson.FmtOpts{AllowDup: b(AllowDup), AllowUTF8: b(AllowUTF8), HTML: b(HTML), JS: b(JS), Preserve: b(Preserve),
		CanonInts: b(CanonInts), CanonFloats: b(CanonFloats), Reorder: b(Reorder), SpaceColon: b(SpaceColon), SpaceComma: b(SpaceComma),
		Multiline: b(Multiline), Prefix: s.prefix, Indent: s.indent, OmitTopNewline: true}
	if o.Multiline {
		if s.set&SpaceColon == 0 {
			o.SpaceColon = true
		}
		if !s.indentSet {
			o.Indent = "\t"
		}
	} else {
		o.Prefix, o.Indent = "", ""
	}
	return o
}

// Model of c applied over the given base configurations (in order).
func Model(cs ...Cfg) refjson.FmtOpts {
	var s State
	for _, c := range cs {
		s.Overlay(c)
	}
	return s.Model()
}
