#!/bin/bash
# usage: ./run.sh <Cnn> <quick|thorough> [--replay file]
# Rebuilds the checker against /repo's current working tree, runs one property check,
# rewrites evidence/<Cnn>.json. Exit 0 = held on everything explored, 1 = VIOLATION, 2 = harness/build error.
set -u
cd "$(dirname "$0")"
export GOFLAGS=-mod=mod GOPROXY=off
unset GOTOOLCHAIN 2>/dev/null || true
mkdir -p .work evidence evidence/replay
prop="${1:?property id}"
bin=".work/check-$prop"
modflag=""
if [ -n "${VERIF_REPO:-}" ]; then
  # development aid (seeded-change matrix): build against another checkout instead of /repo; never used by registered commands
  tag=$(echo "$VERIF_REPO" | tr -c 'A-Za-z0-9' '_')
  sed "s#=> /repo#=> $VERIF_REPO#" go.mod > ".work/go-$tag.mod"; cp go.sum ".work/go-$tag.sum" 2>/dev/null || touch ".work/go-$tag.sum"
  modflag="-modfile=.work/go-$tag.mod"; bin=".work/check-$prop-$tag"
  export VERIF_EVIDENCE_DIR="$(pwd)/.work/evidence-$tag"
fi
if [ "$prop" = "C18" ]; then
  # C18 is built against the sync shim through a build overlay regenerated from the repository's current files
  repo="${VERIF_REPO:-/repo}"
  ovl=".work/ovl-$(echo "$repo" | tr -c 'A-Za-z0-9' '_')"
  if ! go run ./cmd/mkoverlay "$repo" "$(pwd)" "$ovl" > ".work/build-$prop.log" 2>&1 ||
     ! go build $modflag -tags verifshim -overlay "$ovl/overlay.json" -o "$bin" ./cmd/check18 2>> ".work/build-$prop.log"; then
    cat ".work/build-$prop.log" >&2
    echo "BUILD-ERROR property=$prop (harness or /repo does not compile)" >&2
    exit 2
  fi
  if go build $modflag -race -o "$bin-race" ./cmd/check18race 2>> ".work/build-$prop.log"; then
    export VERIF_C18_RACE_BIN="$(pwd)/$bin-race"
  fi
  exec "$bin" "$@"
fi
if ! go build $modflag -o "$bin" ./cmd/check 2> ".work/build-$prop.log"; then
  cat ".work/build-$prop.log" >&2
  echo "BUILD-ERROR property=$prop (harness or /repo does not compile)" >&2
  exit 2
fi
exec "$bin" "$@"
