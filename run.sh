#!/bin/bash
# usage: ./run.sh <Cnn> <quick|thorough> [--replay file]
# Rebuilds the checker against /repo's current working tree, runs one property check,
# rewrites evidence/<Cnn>.json. Exit 0 = held on everything explored, 1 = VIOLATION, 2 = harness/build error.
set -u
cd "$(dirname "$0")"
export GOFLAGS=-mod=mod GOPROXY=off
unset GOTOOLCHAIN 2>/dev/null || true
mkdir -p .work evidence evidence/replay
prop="${1:?property id}"
bin=".work/check-$prop"
if ! go build -o "$bin" ./cmd/check 2> ".work/build-$prop.log"; then
  cat ".work/build-$prop.log" >&2
  echo "BUILD-ERROR property=$prop (harness or /repo does not compile)" >&2
  exit 2
fi
exec "$bin" "$@"
