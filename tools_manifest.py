#!/usr/bin/env python3
"""Regenerates MANIFEST.json from the table below (single source of truth) and validates it."""
import json, sys
CHECKS = {
 # id: (level, technique, text, note, design_ref)
 "C01": ("exploration", "bounded-exhaustive input enumeration against an independent byte-level recognizer",
  "Every string over five JSON-critical alphabet views up to a length bound, name grids around the 64-name/1KiB namespace switch with a duplicate at every ordered pair, and the one-byte edit ball around every small valid text, x 4 Allow* option sets x 5 entry points, are executed on the real code and compared with the reference recognizer (iff). Exhaustive within the stated bounds; says nothing about longer inputs or bytes outside the alphabets.",
  "Trusted: reference recognizer internal/refjson (itself cross-checked against encoding/json.Valid on every enumerated string), Go runtime.", "2/C01"),
}
CHECKS["C06"] = ("model_checking", "explicit-state exploration of the real Encoder against a reference model (all call sequences to depth d, then state-merged BFS)",
  "Every WriteToken/WriteValue sequence up to a length bound over a 34-op alphabet (valid, invalid, duplicate-producing tokens and raw values) x 12 option sets is executed on a fresh real Encoder and compared with the reference encoder model after EVERY call: accept/reject, error type, OutputOffset, StackDepth, StackIndex at all levels, StackPointer and delivered bytes (exact at depth 0). A rejected call is a model no-op, so agreement afterwards is the no-effect clause. Then BFS over model states with several histories per state. Exhaustive within the stated depth; depth-10000 is C20's.",
  "Trusted: reference encoder model internal/refjson/encmodel.go (formatting rules taken from the option docs) and recognizer; Go runtime.", "2/C06")
CHECKS["C12"] = ("exploration", "bounded-exhaustive input x option-configuration enumeration against metamorphic laws and a reference value tree",
  "Every string of the alphabet views x {none, each formatting option singly, explicit-false variants, all pairs of 9 interacting options} x {Format, AppendFormat (also with overlapping dst/src), Compact, Indent, Canonicalize}, the full 2^13 option product on an option-sensitive corpus, and a reorder stress family. Oracle: success iff valid under the effective options; output valid; same tree (numbers by value only under Canonicalize*, order ignored only under Reorder); number/string spellings kept where the statement says so; fixed point; unmodified on error; no reallocation when already formatted.",
  "Trusted: reference recognizer/value tree internal/refjson; strconv.ParseFloat.", "2/C12")
CHECKS["C11"] = ("exploration", "bounded-exhaustive string enumeration through every encode/decode path against an independent minimal quoter/unquoter",
  "Every single byte, every short string over critical byte alphabets (covering every ill-formed UTF-8 prefix class), every code point (thorough) - through AppendQuote, WriteToken, Marshal(string / map key / TextMarshaler / TextAppender key / struct field name), and raw spellings through MarshalJSON, Value.Format, AppendFormat, WriteValue with and without PreserveRawStrings - x escape option sets x AllowInvalidUTF8; every string-literal body of two alphabet views through AppendUnquote, ReadToken, Unmarshal into string/any/map key. Oracle: unquote(quote(s)) = s, minimal form, no forbidden raw character under the escape options, one U+FFFD per ill-formed byte with an error unless allowed.",
  "Trusted: reference quoter/unquoter in internal/refjson.", "2/C11")
CHECKS["C13"] = ("exploration", "generated-text enumeration (all member orders / spellings within bounds) against an independent RFC 8785 serializer",
  "Objects over every subset of <=K names from a menu built to separate UTF-16 from UTF-8 order, in every member order x whitespace styles x name respellings; ~4000 decimal values x 9 spellings; code points x every escape spelling; all trees of <=N nodes. Canonicalize output must equal the reference RFC 8785 serialization (hence identical across each respelling class), denote the same value and be a fixed point.",
  "Trusted: reference serializer (unicode/utf16 for the sort key, strconv shortest digits + own ES6 layout).", "2/C13")
CHECKS["C05"] = ("fault_enumeration", "environment-answer exploration: exhaustive reader schedules (cut sets, empty reads, data+EOF, single transient faults) x call-program interleavings on the real Decoder, compared with whole-input decoding and a reference decoder model",
  "The harness owns the io.Reader. For every interesting document (valid, viable or first-error) of two alphabet views, every ReadToken/ReadValue/SkipValue/PeekKind program (exhaustive up to a length, deviation-bounded beyond) is run on the whole input and checked against the reference decoder model, then re-run under every reader schedule of the class (all 2^(n-1) cut sets for short inputs; <=2 cuts + one-byte reader otherwise; x empty reads x data-with-EOF) comparing every observable after every call plus the invariant bytes-taken == InputOffset ++ UnreadBuffer; a transient fault before every Read call with retry; sweeps of critical tokens across every offset around the 64..8192 buffer sizes under three growth histories; UnmarshalRead/UnmarshalDecode vs Unmarshal.",
  "Trusted: reference decoder model; a *bytes.Buffer source counts as 'the whole byte slice'. Error message text is not compared (documented as unstable).", "2/C05")
CHECKS["C03"] = ("exploration", "bounded-exhaustive valid-text enumeration through every decode route/target/option path against the reference value tree",
  "Every text of the alphabet views valid under default options, plus stressors (look-alike strings sharing first/last 8 bytes, 400 two-byte strings in two orders, escape placement across buffer sizes, wide objects, 1000-deep nesting, float64 extremes) x 4 routes x 4 targets x 3 option sets that switch internal code paths; DeepEqual with the Go image of the reference tree; encoding/json as second opinion.",
  "Trusted: reference recognizer/tree; strconv.ParseFloat correctly rounded.", "2/C03")
CHECKS["C16"] = ("model_checking", "explicit-state exploration of real Decoder/Encoder positions against reference models, plus exhaustive invalid-text error-location checks against the reference recognizer's viable-prefix and open-container computation",
  "(a) pointer-sensitive documents x every call program on a real Decoder and every call sequence over a pointer-sensitive alphabet on a real Encoder, all observables compared with the models after every call; pointers observed only after N unobserved calls for every N (StackPointer has a side effect that can mask stale names); (b) Pointer algebra on all token sequences <=3; (c) every invalid string of the alphabet views x 3 paths: prefix before ByteOffset viable, offset not before the offending token, pointer designates the innermost slot or its container; (d) SemanticError pointer/offset for one unconvertible value at each of 12 positions.",
  "Trusted: reference recognizer (viable prefix, open containers) and coder models.", "2/C16")
CHECKS["C07"] = ("fault_enumeration", "exhaustive size sweep across every flush threshold x writer kinds x entry points, and enumeration of every single write-fault schedule (call index x short-write length)",
  "For every leading-string length of the tier's set (thorough: every L in 0..9000) x 6 value shapes with 7 kinds of empty omitempty members at first/middle/last position x 3 whitespace option sets x 2 pool histories: bytes delivered by MarshalWrite (bytes.Buffer, pre-grown, plain writer), MarshalEncode on streaming Encoders and a token-level replay equal Marshal's. Every failing Write call index x {0,1,len/2,len-1} accepted bytes: token-level Encoders accept every token, keep OutputOffset, deliver a prefix and finally everything; MarshalWrite returns the error with only a prefix delivered and later calls are unaffected.",
  "Trusted: Marshal's output as reference bytes (validated by the reference recognizer).", "2/C07")
CHECKS["C10"] = ("exploration", "exhaustive float32 sweep (thorough) / exponent x mantissa grids and bound-neighbourhood literal enumeration against strconv shortest digits + own ECMA-262 layout and math/big range arithmetic",
  "Formatting: every float32 bit pattern (thorough) or all exponents x mantissa patterns (quick), float64 grid over all 2047 exponents plus ulp-neighbourhoods of all powers of ten and layout switches: AppendFloat equals the ECMA-262 layout of the shortest round-trip digits and parses back bit-identically; same through Marshal/Token paths; int64/uint64 boundaries printed exactly. Parsing: every integer within +-R of every width bound in several spellings, 19-22 digit strings, float literals on float32 midpoints, into all 13 numeric Go types bare/string-tagged/StringifyNumbers/map key; Token.Int/Uint/Float classification and saturation.",
  "Trusted: strconv.ParseFloat/AppendFloat(shortest) and math/big.", "2/C10")
CHECKS["C04"] = ("exploration", "bounded-exhaustive enumeration of a reflect-built type universe x value domains x option sets against the round-trip law",
  "Every type of the universe (depth 1 quick / 2 thorough) x every value of its domain x 18 symmetric option sets (default, StringifyNumbers, nil-as-null, OmitZeroStructFields, whitespace/escape, DefaultOptionsV1, each v1 option singly); every format tag on its type over boundary-dense duration/time/bytes domains; 65/130-field structs; float32: all 2^32 bit patterns (thorough). Unmarshal accepts Marshal(v), re-marshal reproduces the bytes (fixed point after one round with omit options), decoded value equals v modulo nil/empty with exact float bits and time.Equal (+ offset where the format carries it).",
  "Trusted: Go reflection, time and math as oracles; the law itself needs no reference model.", "2/C04")
CHECKS["C17"] = ("exploration", "exhaustive enumeration of method-receiver assignments x positions x function lists against a reference dispatcher, and of every user-code script up to a length bound against the reference coder models",
  "Generated named types for all 3^4 marshal-side and 3^3 unmarshal-side receiver assignments on 4 underlying kinds x 14 (7) position kinds x caller function lists: logged calls and output equal the documented dispatch order (pointer receivers on non-addressable values, never on nil, untouched ErrUnsupported falls through). Every script of <=L coder operations x return kinds x error handling x positions x carriers: success iff exactly one value was written/read, otherwise an error (never silent success); caller options visible inside the call; Reset panics. Function lists over built-in types in every order and join nesting, reached through interfaces.",
  "Trusted: reference dispatcher and coder models written from the package documentation. Cases run sequentially (generated types log through package-level state).", "2/C17")
CHECKS["C02"] = ("exploration", "bounded-exhaustive enumeration of types x values x option sets x entry points and of every user-code script / output menu, validated by an independent recognizer",
  "(a) type universe including invalid UTF-8, NaN, every map key kind, raw jsontext.Value members with malformed or duplicate-carrying content, embedded fallbacks, pointer/interface keys x value domains x 21 option sets x 7 entry points (incl. MarshalEncode at member-name position); (b) every coder script up to length L through MarshalJSONTo/MarshalToFunc at 9 positions, MarshalJSON returning each of 14 raw outputs, MarshalText/AppendText returning each of 10 texts (also append-then-error) at 8 positions. A nil error implies exactly one JSON value valid under the effective Allow* options; otherwise an error; never a panic.",
  "Trusted: reference recognizer internal/refjson.", "2/C02")
NOT_YET = {}
def main():
    props=[json.loads(l)["id"] for l in open("properties.jsonl")]
    checks=[]
    for pid in props:
        if pid in CHECKS:
            lvl,tech,text,note,ref=CHECKS[pid]
            checks.append({"property_id":pid,"quick_cmd":f"./run.sh {pid} quick","thorough_cmd":f"./run.sh {pid} thorough",
              "evidence_file":f"/verif/evidence/{pid}.json","replay_cmd_template":f"./run.sh {pid} quick --replay {{path}}",
              "engine":"check","level_claimed":{"category":lvl,"text":text,"design_ref":"DESIGN.md section "+ref},"level_note":note,"technique":tech})
    na=[{"property_id":p,"reason":NOT_YET.get(p,"check not built yet in this session (planned per DESIGN.md section 2; model checking applies)")} for p in props if p not in CHECKS]
    m={"version":1,
       "setup_cmd":"./setup.sh",
       "hooks":{"guard":"verif (build tag) / go build -overlay; no hook commits are currently needed","enable":"none needed: checks link /repo's working tree through a go.mod replace directive and use only exported API; C18 injects its sync shim with go build -overlay generated from /repo's current files","baseline_off_cmd":"cd /repo && GOFLAGS=-mod=mod GOPROXY=off go test -vet=off -count=1 ./...","source_commits":[],"add_only":True},
       "engines":[{"name":"check","path":"/verif/cmd/check","serves_properties":sorted(CHECKS),"kind_free_text":"hand-written Go explorer: bounded-exhaustive enumerators, explicit-state op-sequence search and environment-answer DFS over the real library, compared with reference models in internal/refjson"}],
       "checks":checks,
       "notes":"All checks rebuild from /repo's working tree (go.mod replace => /repo). Known findings: /verif/known_findings.jsonl.",
       "not_applicable":na}
    json.dump(m,open("MANIFEST.json","w"),indent=1); open("MANIFEST.json","a").write("\n")
    try:
        import jsonschema
        jsonschema.validate(m,json.load(open("/root/.vp/MANIFEST.schema.json")))
        print("MANIFEST valid;",len(checks),"checks;",len(na),"not_applicable")
    except ImportError:
        print("jsonschema not available; wrote MANIFEST")
if __name__=="__main__": main()
