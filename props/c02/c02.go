// Package c02: Marshal never emits malformed JSON, whatever the value or user code does.
package c02

import (
	"sync"
	"bytes"
	"encoding/json"
	"errors"
	"fmt"
	"reflect"
	"strings"
	"sync/atomic"

	jsonv2 "github.com/go-json-experiment/json"
	"github.com/go-json-experiment/json/jsontext"
	jsonv1 "github.com/go-json-experiment/json/v1"

	"verif/internal/enum"
	"verif/internal/evid"
	"verif/internal/refjson"
	"verif/internal/typeuniv"
	"verif/props/c08"
	"verif/props/c17"
	"verif/props/mtypes"
)

type optSet struct {
	name     string
	opts     []jsonv2.Options
	dup, utf bool // effective Allow* options
}

func optSets() []optSet {
	var out []optSet
	for mask := 0; mask < 16; mask++ {
		var o []jsonv2.Options
		var names []string
		os := optSet{}
		if mask&1 != 0 {
			o = append(o, jsontext.AllowDuplicateNames(true))
			names = append(names, "AllowDuplicateNames")
			os.dup = true
		}
		if mask&2 != 0 {
			o = append(o, jsontext.AllowInvalidUTF8(true))
			names = append(names, "AllowInvalidUTF8")
			os.utf = true
		}
		if mask&4 != 0 {
			o = append(o, jsonv2.Deterministic(true))
			names = append(names, "Deterministic")
		}
		if mask&8 != 0 {
			o = append(o, jsontext.Multiline(true))
			names = append(names, "Multiline")
		}
		os.name, os.opts = strings.Join(names, "+"), o
		if os.name == "" {
			os.name = "default"
		}
		out = append(out, os)
	}
	out = append(out,
		optSet{"DefaultOptionsV1", []jsonv2.Options{jsonv1.DefaultOptionsV1()}, true, true},
		optSet{"StringifyNumbers", []jsonv2.Options{jsonv2.StringifyNumbers(true)}, false, false},
		optSet{"EscapeForHTML+JS", []jsonv2.Options{jsontext.EscapeForHTML(true), jsontext.EscapeForJS(true)}, false, false},
		optSet{"FormatNilSliceAsNull+OmitZeroStructFields", []jsonv2.Options{jsonv2.FormatNilSliceAsNull(true), jsonv2.FormatNilMapAsNull(true), jsonv2.OmitZeroStructFields(true)}, false, false},
		optSet{"SpaceAfterComma+Colon", []jsonv2.Options{jsontext.SpaceAfterComma(true), jsontext.SpaceAfterColon(true)}, false, false},
	)
	return out
}

type plainWriter struct{ b []byte }

func (w *plainWriter) Write(p []byte) (int, error) { w.b = append(w.b, p...); return len(p), nil }

var entryNames = []string{"Marshal", "MarshalWrite(bytes.Buffer)", "MarshalWrite(plain writer)", "MarshalEncode(fresh)", "MarshalEncode(inside array)", "MarshalEncode(member value)", "MarshalEncode(member name)"}

func textOpts(o []jsonv2.Options) []jsontext.Options {
	var out []jsontext.Options
	for _, x := range o {
		out = append(out, x)
	}
	return out
}

// emit runs one entry point and returns the complete bytes produced (containers opened by the harness
// are closed by it) together with the error of the marshal call.
func emit(entry int, v any, os *optSet) (out []byte, err error, closeErr error) {
	switch entry {
	case 0:
		out, err = jsonv2.Marshal(v, os.opts...)
		return out, err, nil
	case 1:
		var bb bytes.Buffer
		err = jsonv2.MarshalWrite(&bb, v, os.opts...)
		return bb.Bytes(), err, nil
	case 2:
		w := &plainWriter{}
		err = jsonv2.MarshalWrite(w, v, os.opts...)
		return w.b, err, nil
	}
	w := &plainWriter{}
	enc := jsontext.NewEncoder(w, jsonv2.JoinOptions(os.opts...))
	switch entry {
	case 3:
		err = jsonv2.MarshalEncode(enc, v)
	case 4:
		enc.WriteToken(jsontext.BeginArray)
		enc.WriteToken(jsontext.Int(0))
		err = jsonv2.MarshalEncode(enc, v)
		if err == nil {
			closeErr = enc.WriteToken(jsontext.EndArray)
		}
	case 5:
		enc.WriteToken(jsontext.BeginObject)
		enc.WriteToken(jsontext.String("zz-harness-name"))
		err = jsonv2.MarshalEncode(enc, v)
		if err == nil {
			closeErr = enc.WriteToken(jsontext.EndObject)
		}
	case 6:
		enc.WriteToken(jsontext.BeginObject)
		err = jsonv2.MarshalEncode(enc, v)
		if err == nil {
			if closeErr = enc.WriteToken(jsontext.Int(1)); closeErr == nil {
				closeErr = enc.WriteToken(jsontext.EndObject)
			}
		}
	}
	return w.b, err, closeErr
}

// checkValue: if the marshal call returns nil, the bytes are exactly one valid value under the effective options.
func checkValue(v any, os *optSet, entry int) (msg string) {
	defer func() {
		if p := recover(); p != nil {
			msg = fmt.Sprintf("library panic: %v", p)
		}
	}()
	out, err, closeErr := emit(entry, v, os)
	if err != nil {
		nErr.Add(1)
		return ""
	}
	nOK.Add(1)
	if closeErr != nil {
		return fmt.Sprintf("%s returned nil but the encoder then refused the harness's closing token: %v (output so far %q)", entryNames[entry], closeErr, trunc(out))
	}
	o := refjson.Opts{AllowInvalidUTF8: os.utf, AllowDupNames: os.dup}
	if entry >= 3 {
		out = bytes.TrimSuffix(out, []byte("\n"))
	}
	if !refjson.Valid(out, o) {
		res := refjson.Parse(out, o)
		return fmt.Sprintf("%s returned a nil error but the output is not one valid JSON value under the effective options (%s at byte %d): %q", entryNames[entry], res.Why, res.DeadAt, trunc(out))
	}
	return ""
}

func trunc(b []byte) string {
	if len(b) > 240 {
		return string(b[:240]) + "..."
	}
	return string(b)
}

var nOK, nErr atomic.Int64

type Case struct {
	Part   string `json:"part"`
	Type   string `json:"type,omitempty"`
	Index  int    `json:"type_index,omitempty"`
	Value  int    `json:"value_index,omitempty"`
	OptSet string `json:"optset,omitempty"`
	Entry  string `json:"entry,omitempty"`
	Detail string `json:"detail,omitempty"`
	Depth  int    `json:"depth,omitempty"`
}

var (
	universeMu    sync.Mutex
	universeCache = map[int][]reflect.Type{}
)

// universe is memoized: replays run concurrently on several workers and the construction fills a shared table.
func universe(depth int) []reflect.Type {
	universeMu.Lock()
	defer universeMu.Unlock()
	if ts, ok := universeCache[depth]; ok {
		return ts
	}
	ts := universe0(depth)
	universeCache[depth] = ts
	return ts
}

func universe0(depth int) []reflect.Type {
	c := typeuniv.Cfg{Depth: depth}
	if depth >= 2 {
		c.MaxPerLevel = 20
	}
	ts := typeuniv.Universe(c)
	type emb struct {
		A string
		M map[string]any `json:",embed"`
	}
	type inl struct {
		A string         `json:"a"`
		X map[string]int `json:",embed"`
	}
	type inlV struct {
		B int            `json:"b,omitempty"`
		X jsontext.Value `json:",embed"`
	}
	extra := []any{map[*[]int]string{}, map[any]string{}, map[[2]string]int{}, map[*string]int{}, map[bool]int{}, map[int8]map[uint64]string{}, map[float32]string{}, map[string]jsontext.Value{},
		[]jsontext.Value{}, struct{ R jsontext.Value }{}, inl{}, inlV{}, emb{}, []any{}, map[string]any{}, (*any)(nil), struct{ A, B any }{}, map[typeuniv.NamedString]map[string]string{}, struct {
			A string `json:"x"`
			B string `json:"X,case:ignore"`
		}{}}
	for _, e := range extra {
		ts = append(ts, reflect.TypeOf(e))
	}
	extraKind[reflect.TypeOf(inl{})] = "inline-map"
	extraKind[reflect.TypeOf(inlV{})] = "inline-value"
	extraKind[reflect.TypeOf(emb{})] = "unknown"
	extraKind[ts[len(ts)-1]] = "case-ignore"
	return ts
}

var extraKind = map[reflect.Type]string{}

// extraValues supplies adversarial values for the hand-picked types.
func extraValues(t reflect.Type) []reflect.Value {
	var out []reflect.Value
	add := func(v any) { out = append(out, reflect.ValueOf(v)) }
	switch t.String() {
	case "map[*[]int]string":
		add(map[*[]int]string{{}: "v"})
		add(map[*[]int]string{{1}: "v"})
		add(map[*[]int]string{nil: "v"})
	case "map[interface {}]string":
		es := []int{}
		add(map[any]string{&es: "v"})
		add(map[any]string{"a": "1", 1: "2", true: "3"})
		add(map[any]string{1.0: "a", 1: "b"})
		add(map[any]string{"1": "a", 1: "b"})
		add(map[any]string{[2]string{"a"}: "x"})
	case "[]interface {}", "map[string]interface {}", "*interface {}", "struct { A interface {}; B interface {} }":
		// untyped containers (fast paths that bypass the token state machine): nil, empty, nested empties, behind *any
		un := []any{nil, []any{}, []any(nil), map[string]any{}, map[string]any(nil), []any{[]any{}, map[string]any{}}, map[string]any{"a": []any{}, "b": map[string]any{}}, "s", 1.5, true, []any{1.0}, map[string]any{"k": nil}}
		for _, u := range un {
			switch t.Kind() {
			case reflect.Slice:
				if x, ok := u.([]any); ok {
					add(x)
				}
				add([]any{u})
			case reflect.Map:
				if x, ok := u.(map[string]any); ok {
					add(x)
				}
				add(map[string]any{"k": u})
			case reflect.Pointer:
				p := u
				add(&p)
			case reflect.Struct:
				add(struct{ A, B any }{u, u})
			}
		}
	case "map[*string]int":
		a, b := "a", "a"
		add(map[*string]int{&a: 1, &b: 2})
		add(map[*string]int{nil: 1})
	case "map[float32]string":
		add(map[float32]string{1: "a", float32(1.0000001): "b"})
	case "map[string]jsontext.Value":
		for _, raw := range []string{`1`, `{}`, ` 1 `, ``, `1 2`, `{`, `[1,]`, `nul`, `{"a":1,"a":2}`, "\"\xff\"", `"<"`, `"a"`} {
			add(map[string]jsontext.Value{"k": jsontext.Value(raw)})
		}
		add(map[string]jsontext.Value{"k": nil})
	case "[]jsontext.Value":
		for _, raw := range []string{`1`, ``, `1 2`, `{`, `]`, `{"a":1,"a":2}`, "\"\xff\""} {
			add([]jsontext.Value{jsontext.Value(`0`), jsontext.Value(raw), jsontext.Value(`"z"`)})
		}
	}
	if t.Kind() == reflect.Struct {
		universeMu.Lock()
		kind := extraKind[t]
		universeMu.Unlock()
		switch kind {
		case "inline-map":
			v := reflect.New(t).Elem()
			v.Field(1).Set(reflect.ValueOf(map[string]int{"a": 1, "b": 2}))
			out = append(out, v)
			v2 := reflect.New(t).Elem()
			v2.Field(1).Set(reflect.ValueOf(map[string]int{"A": 1, "\xff": 2, "\xfe": 3}))
			out = append(out, v2)
		case "inline-value":
			for _, raw := range []string{`{"b":1}`, `{"x":1,"x":2}`, `{"B":1}`, `[1]`, `{`, `{"c":1} `, `1`, `{"b":2}{"c":3}`} {
				v := reflect.New(t).Elem()
				v.Field(0).SetInt(7)
				v.Field(1).Set(reflect.ValueOf(jsontext.Value(raw)))
				out = append(out, v)
			}
		case "unknown":
			v := reflect.New(t).Elem()
			v.Field(1).Set(reflect.ValueOf(map[string]any{"A": 1, "a": 2}))
			out = append(out, v)
		case "case-ignore":
			v := reflect.New(t).Elem()
			v.Field(0).SetString("1")
			v.Field(1).SetString("2")
			out = append(out, v)
		}
	}
	return out
}

func domainOf(t reflect.Type) []reflect.Value {
	var d []reflect.Value
	func() {
		defer func() { recover() }() // hand-picked types outside the generic domain builder
		d = typeuniv.Domain(t, false)
	}()
	return append(d, extraValues(t)...)
}

func replayCase(cs Case) string {
	if cs.Part == "formatted" {
		return replayFormatted(cs)
	}
	if cs.Part == "wide" {
		return replayWide(cs)
	}
	if cs.Part == "appender" {
		sets := optSets()
		for si := range sets {
			for e, en := range entryNames {
				if sets[si].name == cs.OptSet && en == cs.Entry && cs.Index < badAppModes && cs.Value < len(badAppValues(cs.Index)) {
					return checkValue(badAppValues(cs.Index)[cs.Value], &sets[si], e)
				}
			}
		}
		return ""
	}
	if cs.Part == "name-carrier" {
		sets := optSets()
		for si := range sets {
			for e, en := range entryNames {
				if sets[si].name == cs.OptSet && en == cs.Entry {
					return checkValue(c08.RebuildNameCarrier(cs.Index), &sets[si], e)
				}
			}
		}
		return ""
	}
	if cs.Part != "universe" {
		return ""
	}
	ts := universe(cs.Depth)
	if cs.Index >= len(ts) {
		return ""
	}
	d := domainOf(ts[cs.Index])
	sets := optSets()
	for si := range sets {
		for e, en := range entryNames {
			if sets[si].name == cs.OptSet && en == cs.Entry && cs.Value < len(d) {
				return checkValue(d[cs.Value].Interface(), &sets[si], e)
			}
		}
	}
	return ""
}

func Replay(r *evid.Run, raw json.RawMessage) {
	var cs Case
	if json.Unmarshal(raw, &cs) != nil {
		return
	}
	r.Evaluations.Add(1)
	r.Nontrivial.Add(2)
	r.Sample(cs)
	if msg := replayCase(cs); msg != "" {
		fmt.Println("replay fails:", msg)
		r.Violation("replay", msg, cs, nil)
	} else {
		fmt.Println("replay passes")
	}
}

func Run(r *evid.Run) {
	r.Rule("(a) reflect-built type universe (incl. invalid UTF-8 strings, NaN/Inf, every map key kind, raw jsontext.Value members with malformed / duplicate-carrying / multi-value content, inline and unknown fallbacks, pointer and interface keys) x each type's value domain x 21 option sets (all 16 combinations of AllowDuplicateNames/AllowInvalidUTF8/Deterministic/Multiline + v1 defaults, StringifyNumbers, escapes, nil-as-null, spaces) x 7 entry points (Marshal, MarshalWrite to bytes.Buffer / plain writer, MarshalEncode on a fresh Encoder, inside an array, at member-value and at member-NAME position); (b) adversarial user code: every coder script up to length L through MarshalJSONTo / MarshalToFunc at 9 positions (shared with C17), MarshalJSON returning each of 14 raw outputs and MarshalText/AppendText returning each of 9 texts (incl. append-then-error) at 8 positions x option sets. Oracle: a nil error implies the produced bytes are exactly one JSON value valid under the effective Allow* options (reference recognizer); no panic. evaluations = marshal calls; distinct_nontrivial = distinct calls on non-zero values or non-empty scripts")
	r.Assume("reference recognizer internal/refjson")
	depth := 1
	if r.Tier == "thorough" {
		depth = 2
	}
	ts := universe(depth)
	sets := optSets()
	enum.Parallel(r, len(ts), func(w *enum.Worker) func(int) {
		var cur Case
		w.Describe = func() any { return cur }
		var n, nt int64
		outcomes := map[string]int64{}
		w.Done = func() { r.Evaluations.Add(n); r.Nontrivial.Add(nt); r.Outcomes(outcomes) }
		return func(u int) {
			t := ts[u]
			for vi, v := range domainOf(t) {
				for si := range sets {
					for e := range entryNames {
						if e == 6 && si > 3 && si != 16 {
							continue
						}
						cur = Case{Part: "universe", Type: typeuniv.Describe(t), Index: u, Value: vi, OptSet: sets[si].name, Entry: entryNames[e], Depth: depth}
						n++
						if !v.IsZero() {
							nt++
						}
						if m := checkValue(v.Interface(), &sets[si], e); m != "" {
							cs := cur
							cs.Detail = fmt.Sprintf("%#v", v.Interface())
							r.Violation(fmt.Sprintf("c02|universe|d%d|%s|v%d|%s|%s", depth, cs.Type, vi, cs.OptSet, cs.Entry), m, cs, func() bool { return replayCase(cs) != "" })
						}
					}
				}
				w.Beat()
			}
		}
	})
	r.Sample(Case{Part: "universe", Type: "map[string]jsontext.Value", OptSet: "default", Entry: "MarshalEncode(member value)", Detail: `{"k": jsontext.Value("{\"a\":1,\"a\":2}")}`})
	r.Bound("type universe: %d types (depth %d + hand-picked adversarial types) x value domains x %d option sets x %d entry points", len(ts), depth, len(sets), len(entryNames))
	formatted(r)
	wideUser(r)
	nameCarriers(r)
	appenders(r)
	swallowed(r)
	userOutputs(r)
	c17.MarshalPolicing(r, "c02")
	r.Outcomes(map[string]int64{"nil error: output validated": nOK.Load(), "error returned": nErr.Load()})
}

// nameCarriers: every way a member name can reach the output (map keys of every kind with MarshalText and/or
// AppendText, fallback maps and raw values, user-written objects) with pairs of names that coincide once written.
func nameCarriers(r *evid.Run) {
	vals, labels := c08.NameCarrierValues()
	sets := optSets()
	var n int64
	for i := range vals {
		for si := range sets {
			for e := range entryNames {
				if e == 6 {
					continue
				}
				n++
				if m := checkValue(c08.RebuildNameCarrier(i), &sets[si], e); m != "" {
					cs := Case{Part: "name-carrier", Index: i, OptSet: sets[si].name, Entry: entryNames[e], Detail: labels[i]}
					r.Violation(fmt.Sprintf("c02|name-carrier|%d|%s|%s", i, cs.OptSet, cs.Entry), labels[i]+": "+m, cs, func() bool { return replayCase(cs) != "" })
				}
			}
		}
	}
	r.Evaluations.Add(n)
	r.Nontrivial.Add(n)
	r.Bound("name carriers: %d (carrier, name pair) values x %d option sets x 6 entry points", len(vals), len(sets))
}

// ---- user methods returning arbitrary bytes ----

func userOutputs(r *evid.Run) {
	raws := []string{`1`, `"a"`, `{}`, `{"a":1}`, ` 1 `, ``, `1 2`, `{`, `[1,]`, `nul`, `{"a":1,"a":2}`, "\"\xff\"", `"<"`, `{"F":1}`}
	texts := []string{"a", "", `"`, `\`, "\x00", "\xff", "<", " ", "F", "k"}
	find := func(name string) *mtypes.MType {
		for i := range mtypes.MTypes {
			if mtypes.MTypes[i].Name == name {
				return &mtypes.MTypes[i]
			}
		}
		panic(name)
	}
	type carrier struct {
		name string
		t    reflect.Type
	}
	jsonCar := []carrier{{"MarshalJSON value receiver (struct)", find("MS_0v00").Type}, {"MarshalJSON pointer receiver (string)", find("MT_0p00").Type}}
	textCar := []carrier{{"MarshalText value receiver (struct)", find("MS_000v").Type}, {"AppendText pointer receiver (string)", find("MT_00p0").Type}, {"AppendText value receiver (struct)", find("MS_00v0").Type}}
	type pos struct {
		name  string
		build func(t reflect.Type) any
	}
	sf := func(fs ...reflect.StructField) reflect.Type { return reflect.StructOf(fs) }
	tInt := reflect.TypeOf(0)
	poss := []pos{
		{"top-level", func(t reflect.Type) any { return reflect.New(t).Interface() }},
		{"struct fields F,G of the same type", func(t reflect.Type) any {
			return reflect.New(sf(reflect.StructField{Name: "F", Type: t}, reflect.StructField{Name: "G", Type: t})).Interface()
		}},
		{"slice elements", func(t reflect.Type) any { return reflect.MakeSlice(reflect.SliceOf(t), 2, 2).Interface() }},
		{"map value", func(t reflect.Type) any {
			m := reflect.MakeMap(reflect.MapOf(reflect.TypeOf(""), t))
			m.SetMapIndex(reflect.ValueOf("k"), reflect.Zero(t))
			m.SetMapIndex(reflect.ValueOf("F"), reflect.Zero(t))
			return m.Interface()
		}},
		{"map key (next to key \"F\" of a sibling struct field)", func(t reflect.Type) any {
			if !t.Comparable() {
				return nil
			}
			m := reflect.MakeMap(reflect.MapOf(t, tInt))
			m.SetMapIndex(reflect.Zero(t), reflect.ValueOf(1))
			return m.Interface()
		}},
		{"inline map value", func(t reflect.Type) any {
			st := sf(reflect.StructField{Name: "F", Type: tInt}, reflect.StructField{Name: "X", Type: reflect.MapOf(reflect.TypeOf(""), t), Tag: `json:",embed"`})
			v := reflect.New(st)
			m := reflect.MakeMap(st.Field(1).Type)
			m.SetMapIndex(reflect.ValueOf("k"), reflect.Zero(t))
			v.Elem().Field(1).Set(m)
			return v.Interface()
		}},
		{"behind pointer in interface slice", func(t reflect.Type) any { return []any{1, reflect.New(t).Interface()} }},
		{"omitempty field", func(t reflect.Type) any {
			return reflect.New(sf(reflect.StructField{Name: "A", Type: tInt}, reflect.StructField{Name: "E", Type: t, Tag: `json:",omitempty"`}, reflect.StructField{Name: "Z", Type: tInt})).Interface()
		}},
	}
	sets := optSets()
	var n int64
	run := func(part, what string, c carrier, p pos, os *optSet) {
		v := p.build(c.t)
		if v == nil {
			return
		}
		for e := 0; e < 6; e += 5 {
			n++
			if m := checkValue(v, os, e); m != "" {
				cs := Case{Part: part, Type: c.name, OptSet: os.name, Entry: entryNames[e], Detail: fmt.Sprintf("%s returns %q at %s", c.name, what, p.name)}
				r.Violation(fmt.Sprintf("c02|%s|%s|%q|%s|%s|%s", part, c.name, what, p.name, os.name, entryNames[e]), m, cs, nil)
			}
		}
	}
	for _, si := range []int{0, 1, 2, 3, 8, 16, 18} {
		os := &sets[si]
		for _, raw := range raws {
			for _, c := range jsonCar {
				for _, p := range poss {
					mtypes.Reset()
					raw := raw
					mtypes.JSONOut = func() ([]byte, error) { return []byte(raw), nil }
					run("MarshalJSON-output", raw, c, p, os)
				}
			}
		}
		for _, txt := range texts {
			for _, failAfter := range []bool{false, true} {
				for _, c := range textCar {
					for _, p := range poss {
						mtypes.Reset()
						txt, failAfter := txt, failAfter
						mtypes.TextOut = func() ([]byte, error) {
							if failAfter {
								return []byte(txt), errors.New("fail")
							}
							return []byte(txt), nil
						}
						mtypes.AppendOut = func(b []byte) ([]byte, error) {
							if failAfter {
								return append(b, txt...), errors.New("fail")
							}
							return append(b, txt...), nil
						}
						run("text-output", txt, c, p, os)
					}
				}
			}
		}
	}
	r.Evaluations.Add(n)
	r.Nontrivial.Add(n)
	r.Sample(Case{Part: "MarshalJSON-output", Type: jsonCar[0].name, Detail: "returns `{\"a\":1,\"a\":2}` as inline map value"})
	r.Bound("user outputs: MarshalJSON returning each of %d raw byte strings and MarshalText/AppendText returning each of %d texts (plain and append-then-error) x %d positions x 7 option sets x {Marshal, MarshalEncode at member value}", len(raws), len(texts), len(poss))
}
