package c02

import (
	"fmt"

	jsonv2 "github.com/go-json-experiment/json"
	"github.com/go-json-experiment/json/jsontext"

	"verif/internal/evid"
)

// ---- user code that swallows the error of a nested MarshalEncode and keeps writing ----
//
// A MarshalJSONTo may call json.MarshalEncode on the Encoder it was given. When that nested call fails half way
// (inside a slice, a map, a nested struct) it leaves containers open; user code may ignore the error, close them
// by hand and go on writing names and values. Whatever it writes, a nil error from the outer Marshal still promises
// one valid JSON value (in particular no duplicate names under default options).

type swallow struct {
	Fail int
	Ops  []int
}

var swallowFails = []any{
	struct{ A []any }{[]any{make(chan int)}},
	struct {
		A map[string]any
		B int
	}{map[string]any{"x": make(chan int)}, 1},
	struct{ A, B any }{1, make(chan int)},
	map[string]any{"A": []any{1, func() {}}},
	[]any{struct{ A any }{make(chan int)}},
	struct{ A []any }{[]any{[]any{make(chan int)}}},
}

var swallowOps = []jsontext.Token{jsontext.EndArray, jsontext.EndObject, jsontext.String("A"), jsontext.String("B"), jsontext.Int(1), jsontext.BeginObject}
var swallowLabels = []string{"]", "}", `"A"`, `"B"`, "1", "{"}

func (s swallow) MarshalJSONTo(e *jsontext.Encoder) error {
	_ = jsonv2.MarshalEncode(e, swallowFails[s.Fail]) // error deliberately ignored
	for _, o := range s.Ops {
		_ = e.WriteToken(swallowOps[o])
	}
	return nil
}

func swallowOne(fail int, ops []int, pos, si int) string {
	sets := optSets()
	v := swallow{fail, ops}
	var val any = v
	switch pos {
	case 1:
		val = []any{"before", v, "after"}
	case 2:
		val = map[string]any{"k": v}
	case 3:
		val = struct {
			P swallow
			Q int
		}{v, 2}
	}
	for e := range entryNames {
		if e == 6 {
			continue
		}
		if m := checkValue(val, &sets[si], e); m != "" {
			return entryNames[e] + ": " + m
		}
	}
	return ""
}

func swallowed(r *evid.Run) {
	maxLen := 4
	if r.Tier == "thorough" {
		maxLen = 5
	}
	sets := optSets()
	var sis []int
	for i := range sets {
		if sets[i].name == "default" || (sets[i].dup && !sets[i].utf) {
			sis = append(sis, i)
			if len(sis) == 2 {
				break
			}
		}
	}
	var n int64
	var rec func(cur []int)
	rec = func(cur []int) {
		for fail := range swallowFails {
			for pos := 0; pos < 4; pos++ {
				for _, si := range sis {
					n++
					if m := swallowOne(fail, cur, pos, si); m != "" {
						lab := make([]string, len(cur))
						for i, o := range cur {
							lab[i] = swallowLabels[o]
						}
						cs := Case{Part: "swallowed", Index: fail, Value: pos, OptSet: sets[si].name, Detail: fmt.Sprint(cur)}
						ops := append([]int(nil), cur...)
						r.Violation(fmt.Sprintf("c02|swallowed|%d|%v|%d|%d", fail, cur, pos, si), fmt.Sprintf("user code ignoring the failure of MarshalEncode(value #%d) and then writing %v at position #%d: %s", fail, lab, pos, m), cs, func() bool { return swallowOne(fail, ops, pos, si) != "" })
					}
				}
			}
		}
		if len(cur) == maxLen {
			return
		}
		for o := range swallowOps {
			rec(append(cur[:len(cur):len(cur)], o))
		}
	}
	rec(nil)
	r.Evaluations.Add(n * 6)
	r.Nontrivial.Add(n)
	r.Bound("swallowed errors: a nested MarshalEncode failing inside %d value shapes (one and two levels below the object it opened), its error ignored, followed by every script of <=%d tokens over %v x 4 positions x {default, AllowDuplicateNames} x 6 entry points", len(swallowFails), maxLen, swallowLabels)
}
