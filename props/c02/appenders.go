package c02

import (
	"fmt"

	"verif/internal/evid"
)

// ---- AppendText implementations that do not honour the append contract ----
//
// encoding.TextAppender is asked to append to the buffer it is given. User code may return anything instead: a
// shorter slice, nil, a slice that drops the last byte, an unrelated slice, a copy, a forced reallocation, or it may
// scribble over the bytes it was handed before appending. Whatever it does, a nil error still promises one valid
// JSON value and the library must not panic.

type badApp struct{ Mode int }

func (a badApp) AppendText(b []byte) ([]byte, error) {
	switch a.Mode {
	case 0:
		return b[:0], nil
	case 1:
		return nil, nil
	case 2:
		if len(b) > 0 {
			return b[:len(b)-1], nil
		}
		return b, nil
	case 3:
		return []byte("fresh-slice-unrelated-to-the-argument-0123456789012345678901234567890123456789012345678901234567890123456789"), nil
	case 4:
		return append(append([]byte(nil), b...), "copy"...), nil
	case 5:
		return append(b[:len(b):len(b)], "forced-realloc"...), nil
	case 6:
		for i := range b {
			b[i] = '#' // overwrite what was handed over, then append
		}
		return append(b, "scribbled"...), nil
	case 7:
		if len(b) > 3 {
			return append(b[:len(b)-3], "shortened-then-extended"...), nil
		}
		return append(b, "x"...), nil
	case 8:
		return append(b, `"},{"`...), nil // needs escaping
	}
	return append(b, "ok"...), nil
}

const badAppModes = 10

func badAppValues(m int) []any {
	a := badApp{m}
	return []any{a, &a, []badApp{{9}, a, {9}}, struct {
		A string
		B badApp
		C int
	}{"aaaa", a, 7}, map[badApp]int{a: 1}, map[string]badApp{"k": a}, []any{"before", a, map[string]any{"k": a}}, struct {
		P *badApp `json:",omitempty"`
		Q string
	}{&a, "q"}}
}

func appenders(r *evid.Run) {
	sets := optSets()
	var n int64
	for m := 0; m < badAppModes; m++ {
		for vi := range badAppValues(m) {
			for si := range sets {
				for e := range entryNames {
					if e == 6 {
						continue
					}
					n++
					if msg := checkValue(badAppValues(m)[vi], &sets[si], e); msg != "" {
						cs := Case{Part: "appender", Index: m, Value: vi, OptSet: sets[si].name, Entry: entryNames[e]}
						r.Violation(fmt.Sprintf("c02|appender|%d|%d|%s|%s", m, vi, cs.OptSet, cs.Entry), fmt.Sprintf("AppendText misbehaving in mode %d, value shape #%d: %s", m, vi, msg), cs, func() bool { return replayCase(cs) != "" })
					}
				}
			}
		}
	}
	r.Evaluations.Add(n)
	r.Nontrivial.Add(n)
	r.Bound("misbehaving AppendText: %d behaviours (shorter / nil / one byte dropped / unrelated slice / copy / forced reallocation / scribbling over the argument / shortened then extended / text needing escapes / well-behaved) x 8 value shapes x %d option sets x 6 entry points", badAppModes, len(sets))
}
