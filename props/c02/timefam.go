package c02

import (
	"fmt"
	"math"
	"reflect"
	"time"

	jsonv2 "github.com/go-json-experiment/json"
	"github.com/go-json-experiment/json/jsontext"
	jsonv1 "github.com/go-json-experiment/json/v1"

	"verif/internal/enum"
	"verif/internal/evid"
)

// formatted members: every documented format of time.Time, time.Duration, []byte, floats and nil containers
// (ExperimentalSupportFormatTag) x adversarial values: zone names are caller-controlled text that some layouts print.

var timeLayouts = []string{"", "ANSIC", "UnixDate", "RubyDate", "RFC822", "RFC822Z", "RFC850", "RFC1123", "RFC1123Z", "RFC3339", "RFC3339Nano", "Kitchen", "Stamp", "StampMilli", "StampMicro", "StampNano",
	"DateTime", "DateOnly", "TimeOnly", "unix", "unixmilli", "unixmicro", "unixnano", "'MST'", "'2006 MST Z07:00:00'", "'Monday'", "'.000000000'", "'_2 Jan'", "bogus"}
var durLayouts = []string{"", "units", "sec", "milli", "micro", "nano", "iso8601", "base60", "bogus"}
var bytesLayouts = []string{"", "base64", "base64url", "base32", "base32hex", "base16", "hex", "array", "bogus"}
var floatLayouts = []string{"", "nonfinite", "bogus"}
var nilLayouts = []string{"", "emitnull", "emitempty", "bogus"}

func fmtStruct(t reflect.Type, layout string, extra string) reflect.Type {
	tag := `json:"f` + extra
	if layout != "" {
		tag += ",format:" + layout
	}
	tag += `"`
	return reflect.StructOf([]reflect.StructField{{Name: "F", Type: t, Tag: reflect.StructTag(tag)}})
}

func zoneNames() []string {
	return []string{"UTC", "", "MST", "A\"B", "A\\B", "A\nB", "A\x00B", "A\xffB", "<&>", "é ", "\"", "\\", "ZONENAMELONGERTHANUSUAL0123456789"}
}

func instants() []time.Time {
	var out []time.Time
	for _, y := range []int{-1, 0, 1, 1969, 1970, 2021, 9999, 10000, 100000} {
		for _, ns := range []int{0, 1, 500000000, 999999999} {
			out = append(out, time.Date(y, time.March, 4, 5, 6, 7, ns, time.UTC))
		}
	}
	out = append(out, time.Time{}, time.Unix(math.MaxInt32, 0), time.Unix(1<<40, 0), time.Unix(-(1<<40), 5))
	return out
}

type fmtUnit struct {
	t    reflect.Type
	vals []reflect.Value
	desc string
}

func fmtUnits() []fmtUnit {
	var us []fmtUnit
	tTime := reflect.TypeOf(time.Time{})
	var times []reflect.Value
	for zi, zn := range zoneNames() {
		for oi, off := range []int{0, 3600, -3600 * 7, 30, 86399, -86399, 90000, 1800 + 45*60} {
			if zi > 2 && oi > 2 {
				continue
			}
			loc := time.FixedZone(zn, off)
			for ii, in := range instants() {
				if (zi > 2 || oi > 0) && ii%5 != 1 {
					continue
				}
				times = append(times, reflect.ValueOf(in.In(loc)))
			}
		}
	}
	for _, extra := range []string{"", ",omitzero", ",string"} {
		for _, l := range timeLayouts {
			st := fmtStruct(tTime, l, extra)
			u := fmtUnit{t: st, desc: fmt.Sprintf("struct{F time.Time %q}", st.Field(0).Tag)}
			for _, tv := range times {
				v := reflect.New(st).Elem()
				v.Field(0).Set(tv)
				u.vals = append(u.vals, v)
			}
			us = append(us, u)
			// the same member behind a pointer, in a slice, as map value and as map key
			for _, wrap := range []reflect.Type{reflect.PointerTo(tTime), reflect.SliceOf(tTime), reflect.MapOf(reflect.TypeOf(""), tTime), reflect.MapOf(tTime, reflect.TypeOf(0))} {
				if extra != "" {
					continue
				}
				st := fmtStruct(wrap, l, extra)
				u := fmtUnit{t: st, desc: fmt.Sprintf("struct{F %v %q}", wrap, st.Field(0).Tag)}
				for k, tv := range times {
					if k%7 != 0 {
						continue
					}
					v := reflect.New(st).Elem()
					switch wrap.Kind() {
					case reflect.Pointer:
						p := reflect.New(tTime)
						p.Elem().Set(tv)
						v.Field(0).Set(p)
					case reflect.Slice:
						v.Field(0).Set(reflect.Append(reflect.MakeSlice(wrap, 0, 2), tv, times[(k+1)%len(times)]))
					case reflect.Map:
						m := reflect.MakeMap(wrap)
						if wrap.Key() == tTime {
							m.SetMapIndex(tv, reflect.ValueOf(1))
						} else {
							m.SetMapIndex(reflect.ValueOf("k"), tv)
						}
						v.Field(0).Set(m)
					}
					u.vals = append(u.vals, v)
				}
				us = append(us, u)
			}
		}
	}
	tDur := reflect.TypeOf(time.Duration(0))
	durs := []time.Duration{0, 1, -1, 999, 1000, 1500 * time.Millisecond, -time.Second, time.Minute + time.Nanosecond, 25 * time.Hour, math.MaxInt64, math.MinInt64, math.MinInt64 + 1, 1e9 * 60 * 60 * 24 * 366}
	for _, extra := range []string{"", ",omitzero", ",string"} {
		for _, l := range durLayouts {
			for _, wrap := range []reflect.Type{tDur, reflect.SliceOf(tDur), reflect.MapOf(tDur, tDur), reflect.PointerTo(tDur)} {
				st := fmtStruct(wrap, l, extra)
				u := fmtUnit{t: st, desc: fmt.Sprintf("struct{F %v %q}", wrap, st.Field(0).Tag)}
				for _, d := range durs {
					v := reflect.New(st).Elem()
					dv := reflect.ValueOf(d)
					switch wrap.Kind() {
					case reflect.Int64:
						v.Field(0).Set(dv)
					case reflect.Slice:
						v.Field(0).Set(reflect.Append(reflect.MakeSlice(wrap, 0, 1), dv))
					case reflect.Map:
						m := reflect.MakeMap(wrap)
						m.SetMapIndex(dv, dv)
						v.Field(0).Set(m)
					case reflect.Pointer:
						p := reflect.New(tDur)
						p.Elem().Set(dv)
						v.Field(0).Set(p)
					}
					u.vals = append(u.vals, v)
				}
				us = append(us, u)
			}
		}
	}
	for _, l := range bytesLayouts {
		for _, wrap := range []reflect.Type{reflect.TypeOf([]byte(nil)), reflect.TypeOf([3]byte{}), reflect.TypeOf([][]byte(nil)), reflect.TypeOf(map[string][]byte(nil))} {
			st := fmtStruct(wrap, l, "")
			u := fmtUnit{t: st, desc: fmt.Sprintf("struct{F %v %q}", wrap, st.Field(0).Tag)}
			for _, b := range [][]byte{nil, {}, {0}, {0xff, 0xfe, 0x22}, []byte("<\"\\>"), make([]byte, 100)} {
				v := reflect.New(st).Elem()
				switch wrap.Kind() {
				case reflect.Slice:
					if wrap.Elem().Kind() == reflect.Uint8 {
						v.Field(0).SetBytes(b)
					} else {
						v.Field(0).Set(reflect.ValueOf([][]byte{b, {1}}))
					}
				case reflect.Array:
					reflect.Copy(v.Field(0), reflect.ValueOf(b))
				case reflect.Map:
					v.Field(0).Set(reflect.ValueOf(map[string][]byte{"k": b}))
				}
				u.vals = append(u.vals, v)
			}
			us = append(us, u)
		}
	}
	for _, l := range floatLayouts {
		for _, wrap := range []reflect.Type{reflect.TypeOf(float64(0)), reflect.TypeOf(float32(0)), reflect.TypeOf([]float64(nil)), reflect.TypeOf(map[float64]float32(nil))} {
			for _, extra := range []string{"", ",string"} {
				st := fmtStruct(wrap, l, extra)
				u := fmtUnit{t: st, desc: fmt.Sprintf("struct{F %v %q}", wrap, st.Field(0).Tag)}
				for _, f := range []float64{0, math.NaN(), math.Inf(1), math.Inf(-1), 1.5, math.MaxFloat64, math.Copysign(0, -1)} {
					v := reflect.New(st).Elem()
					switch wrap.Kind() {
					case reflect.Float64, reflect.Float32:
						v.Field(0).SetFloat(f)
					case reflect.Slice:
						v.Field(0).Set(reflect.ValueOf([]float64{f, 1}))
					case reflect.Map:
						v.Field(0).Set(reflect.ValueOf(map[float64]float32{f: float32(f)}))
					}
					u.vals = append(u.vals, v)
				}
				us = append(us, u)
			}
		}
	}
	for _, l := range nilLayouts {
		for _, wrap := range []reflect.Type{reflect.TypeOf([]int(nil)), reflect.TypeOf(map[string]int(nil)), reflect.TypeOf([][]int(nil)), reflect.TypeOf(map[string]map[string]int(nil))} {
			for _, extra := range []string{"", ",omitempty", ",omitzero"} {
				st := fmtStruct(wrap, l, extra)
				u := fmtUnit{t: st, desc: fmt.Sprintf("struct{F %v %q}", wrap, st.Field(0).Tag)}
				u.vals = append(u.vals, reflect.New(st).Elem())
				v := reflect.New(st).Elem()
				v.Field(0).Set(reflect.MakeSlice(reflect.SliceOf(wrap), 1, 1).Index(0)) // still nil
				switch wrap.Kind() {
				case reflect.Slice:
					v.Field(0).Set(reflect.MakeSlice(wrap, 1, 1))
				case reflect.Map:
					m := reflect.MakeMap(wrap)
					m.SetMapIndex(reflect.ValueOf("k"), reflect.Zero(wrap.Elem()))
					v.Field(0).Set(m)
				}
				u.vals = append(u.vals, v)
				us = append(us, u)
			}
		}
	}
	return us
}

func fmtOptSets() []optSet {
	ft := jsonv2.ExperimentalSupportFormatTag(true)
	return []optSet{
		{"format-tag", []jsonv2.Options{ft}, false, false},
		{"format-tag+AllowInvalidUTF8", []jsonv2.Options{ft, jsontext.AllowInvalidUTF8(true)}, false, true},
		{"format-tag+EscapeForHTML+JS", []jsonv2.Options{ft, jsontext.EscapeForHTML(true), jsontext.EscapeForJS(true)}, false, false},
		{"format-tag+DefaultOptionsV1", []jsonv2.Options{jsonv1.DefaultOptionsV1(), ft}, true, true},
		{"format-tag+StringifyNumbers+Deterministic", []jsonv2.Options{ft, jsonv2.StringifyNumbers(true), jsonv2.Deterministic(true)}, false, false},
		{"format tags present but support not enabled", nil, false, false},
	}
}

func formatted(r *evid.Run) {
	us := fmtUnits()
	sets := fmtOptSets()
	var total int64
	for _, u := range us {
		total += int64(len(u.vals))
	}
	enum.Parallel(r, len(us), func(w *enum.Worker) func(int) {
		var cur Case
		w.Describe = func() any { return cur }
		var n int64
		w.Done = func() { r.Evaluations.Add(n); r.Nontrivial.Add(n) }
		return func(ui int) {
			u := us[ui]
			for vi, v := range u.vals {
				for si := range sets {
					for e := range entryNames {
						if e == 6 || (e > 3 && (vi+si)%3 != 0) {
							continue
						}
						cur = Case{Part: "formatted", Type: u.desc, Index: ui, Value: vi, OptSet: sets[si].name, Entry: entryNames[e]}
						n++
						if m := checkValue(v.Interface(), &sets[si], e); m != "" {
							cs := cur
							cs.Detail = fmt.Sprintf("%#v", v.Interface())
							r.Violation(fmt.Sprintf("c02|formatted|%s|v%d|%s|%s", u.desc, vi, cs.OptSet, cs.Entry), m, cs, func() bool { return replayCase(cs) != "" })
						}
					}
				}
			}
			w.Beat()
		}
	})
	r.Bound("formatted members: %d struct types (time.Time x %d layouts incl. custom and unknown ones, time.Duration x %d, byte slices/arrays x %d, floats x %d, nil containers x %d; bare, behind pointer, slice element, map value, map key; with omitzero/string) x %d values in total (zone names with quotes, backslashes, control and ill-formed bytes; years -1..100000; extreme offsets, durations, NaN/Inf) x %d option sets x entry points", len(us), len(timeLayouts), len(durLayouts), len(bytesLayouts), len(floatLayouts), len(nilLayouts), total, len(sets))
}

func replayFormatted(cs Case) string {
	us := fmtUnits()
	if cs.Index >= len(us) || cs.Value >= len(us[cs.Index].vals) {
		return ""
	}
	for si, s := range fmtOptSets() {
		if s.name != cs.OptSet {
			continue
		}
		sets := fmtOptSets()
		for e := range entryNames {
			if entryNames[e] == cs.Entry {
				return checkValue(us[cs.Index].vals[cs.Value].Interface(), &sets[si], e)
			}
		}
	}
	return ""
}
