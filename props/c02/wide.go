package c02

import (
	"fmt"
	"strings"

	jsonv2 "github.com/go-json-experiment/json"
	"github.com/go-json-experiment/json/jsontext"

	"verif/internal/enum"
	"verif/internal/evid"
)

// wide objects written by user code: N distinct names plus a repetition of name i inserted as member j,
// around the sizes at which the duplicate-name bookkeeping changes representation (64 names / 1 KiB of names).

type wideJSON struct{ raw []byte }

func (w wideJSON) MarshalJSON() ([]byte, error) { return w.raw, nil }

type wideTo struct{ names []string }

func (w wideTo) MarshalJSONTo(e *jsontext.Encoder) error {
	if err := e.WriteToken(jsontext.BeginObject); err != nil {
		return err
	}
	for i, n := range w.names {
		if err := e.WriteToken(jsontext.String(n)); err != nil {
			return err
		}
		if err := e.WriteToken(jsontext.Int(int64(i))); err != nil {
			return err
		}
	}
	return e.WriteToken(jsontext.EndObject)
}

type wideFn struct{ names []string }

type wideKey struct {
	name string
	id   int
}

func (k wideKey) MarshalText() ([]byte, error) { return []byte(k.name), nil }

type wideRawField struct {
	A int
	R jsontext.Value
}

type wideUnknown struct {
	K0 int            `json:"k0"`
	X  map[string]int `json:",embed"`
}

func wideNames(N int, long bool, i, j int) []string {
	names := make([]string, 0, N+1)
	for k := 0; k < N; k++ {
		n := fmt.Sprintf("k%d", k)
		if long {
			n += strings.Repeat("x", 600)
		}
		names = append(names, n)
	}
	if i >= 0 {
		dup := names[i]
		names = append(names[:j], append([]string{dup}, names[j:]...)...)
	}
	return names
}

func wideText(names []string) []byte {
	var sb strings.Builder
	sb.WriteByte('{')
	for k, n := range names {
		if k > 0 {
			sb.WriteByte(',')
		}
		fmt.Fprintf(&sb, "%q:%d", n, k)
	}
	sb.WriteByte('}')
	return []byte(sb.String())
}

var wideCarriers = []string{"MarshalJSON returning the object", "jsontext.Value struct member", "MarshalJSONTo writing tokens", "MarshalToFunc writing tokens", "map with MarshalText keys", "[]jsontext.Value element after a clean object", "nested one level inside a MarshalJSON output"}

func wideValue(carrier int, names []string) (v any, opts []jsonv2.Options) {
	switch carrier {
	case 0:
		return wideJSON{wideText(names)}, nil
	case 1:
		return wideRawField{A: 1, R: wideText(names)}, nil
	case 2:
		return []any{wideTo{[]string{"a"}}, wideTo{names}}, nil
	case 3:
		fn := jsonv2.MarshalToFunc(func(e *jsontext.Encoder, w wideFn) error { return wideTo{w.names}.MarshalJSONTo(e) })
		return map[string]any{"v": wideFn{names}}, []jsonv2.Options{jsonv2.WithMarshalers(fn)}
	case 4:
		m := map[wideKey]int{}
		for k, n := range names {
			m[wideKey{n, k}] = k
		}
		return m, nil
	case 5:
		return []jsontext.Value{wideText(names[:1]), wideText(names)}, nil
	case 6:
		return wideJSON{append(append([]byte(`{"outer":[1,`), wideText(names)...), `]}`...)}, nil
	}
	return nil, nil
}

func wideOne(carrier, N int, long bool, i, j, si, e int) string {
	sets := optSets()
	v, extra := wideValue(carrier, wideNames(N, long, i, j))
	os := sets[si]
	os.opts = append(append([]jsonv2.Options{}, os.opts...), extra...)
	return checkValue(v, &os, e)
}

type widePt struct {
	N    int
	long bool
	i, j int
}

func widePoints(tier string) []widePt {
	var pts []widePt
	sizes := []int{3, 62, 63, 64, 65, 66, 67, 130}
	if tier == "thorough" {
		sizes = []int{2, 3, 31, 32, 33, 61, 62, 63, 64, 65, 66, 67, 68, 100, 129, 130, 257}
	}
	for _, N := range sizes {
		is := map[int]bool{}
		for _, i := range []int{0, 1, 2, 31, 61, 62, 63, 64, 65, 66, N / 2, N - 2, N - 1} {
			if i >= 0 && i < N {
				is[i] = true
			}
		}
		for i := range is {
			js := map[int]bool{}
			for _, j := range []int{i + 1, i + 2, 63, 64, 65, 66, 67, N - 1, N} {
				if j > i && j <= N {
					js[j] = true
				}
			}
			for j := range js {
				pts = append(pts, widePt{N, false, i, j})
			}
		}
		pts = append(pts, widePt{N, false, -1, 0}) // no duplicate: must succeed
	}
	for _, N := range []int{2, 3, 4, 5} {
		for i := 0; i < N; i++ {
			for j := i + 1; j <= N; j++ {
				pts = append(pts, widePt{N, true, i, j})
			}
		}
		pts = append(pts, widePt{N, true, -1, 0})
	}
	return pts
}

func wideUser(r *evid.Run) {
	pts := widePoints(r.Tier)
	setIdx := []int{0, 4, 1} // default, Deterministic, AllowDuplicateNames
	enum.Parallel(r, len(pts), func(w *enum.Worker) func(int) {
		var cur Case
		w.Describe = func() any { return cur }
		var n int64
		w.Done = func() { r.Evaluations.Add(n); r.Nontrivial.Add(n) }
		return func(u int) {
			p := pts[u]
			for c := range wideCarriers {
				for _, si := range setIdx {
					for _, e := range []int{0, 2, 5} {
						n++
						cur = Case{Part: "wide", Type: wideCarriers[c], Index: c, Value: p.N, Depth: si, Entry: entryNames[e], Detail: fmt.Sprintf("N=%d long=%v i=%d j=%d", p.N, p.long, p.i, p.j)}
						m := wideOne(c, p.N, p.long, p.i, p.j, si, e)
						if m == "" && p.i < 0 {
							// duplicate-free objects must be accepted
							v, extra := wideValue(c, wideNames(p.N, p.long, -1, 0))
							if _, err := jsonv2.Marshal(v, extra...); err != nil {
								m = "a wide object WITHOUT duplicate names is refused: " + err.Error()
							}
						}
						if m != "" {
							cs := cur
							r.Violation(fmt.Sprintf("c02|wide|%d|%s|%d|%d", c, cs.Detail, si, e), m, cs, func() bool { return replayWide(cs) != "" })
						}
					}
				}
			}
			w.Beat()
		}
	})
	r.Bound("wide user objects: %d (size, long-names, duplicated name i, position j) points around the 64-name / 1 KiB bookkeeping switch x %d carriers (%s) x {default, Deterministic, AllowDuplicateNames} x {Marshal, MarshalWrite, MarshalEncode at member value}", len(pts), len(wideCarriers), strings.Join(wideCarriers, "; "))
}

func replayWide(cs Case) string {
	var N, i, j int
	var long bool
	if _, err := fmt.Sscanf(cs.Detail, "N=%d long=%t i=%d j=%d", &N, &long, &i, &j); err != nil {
		return ""
	}
	for e := range entryNames {
		if entryNames[e] == cs.Entry {
			m := wideOne(cs.Index, N, long, i, j, cs.Depth, e)
			if m == "" && i < 0 {
				v, extra := wideValue(cs.Index, wideNames(N, long, -1, 0))
				if _, err := jsonv2.Marshal(v, extra...); err != nil {
					m = "a wide object WITHOUT duplicate names is refused: " + err.Error()
				}
			}
			return m
		}
	}
	return ""
}
