// Package c10: numbers are converted exactly in both directions.
package c10

import (
	"encoding/json"
	"errors"
	"fmt"
	"math"
	"math/big"
	"reflect"
	"strconv"
	"strings"
	"unsafe"

	jsonv2 "github.com/go-json-experiment/json"
	"github.com/go-json-experiment/json/jsontext"

	"verif/internal/enum"
	"verif/internal/evid"
)

type Case struct {
	Part    string `json:"part"`
	Bits    uint64 `json:"bits,omitempty"`
	Width   int    `json:"width,omitempty"`
	Literal string `json:"literal,omitempty"`
	Type    string `json:"type,omitempty"`
	Context string `json:"context,omitempty"`
}

// ---------- formatting ----------

// appendES6 appends the ECMA-262 Number::toString layout of the shortest round-trip digits of f
// (alloc-free). -0 is "-0" as the library documents.
func appendES6(dst []byte, f float64, bits int) []byte {
	if f == 0 {
		if math.Signbit(f) {
			return append(dst, "-0"...)
		}
		return append(dst, '0')
	}
	var tmp [32]byte
	s := strconv.AppendFloat(tmp[:0], math.Abs(f), 'e', -1, bits) // d.ddde±XX
	// split mantissa digits and exponent
	ei := 0
	for s[ei] != 'e' {
		ei++
	}
	var digits [24]byte
	k := 0
	for _, c := range s[:ei] {
		if c != '.' {
			digits[k] = c
			k++
		}
	}
	exp := 0
	neg := s[ei+1] == '-'
	for _, c := range s[ei+2:] {
		exp = exp*10 + int(c-'0')
	}
	if neg {
		exp = -exp
	}
	n := exp + 1
	if f < 0 {
		dst = append(dst, '-')
	}
	switch {
	case k <= n && n <= 21:
		dst = append(dst, digits[:k]...)
		for i := 0; i < n-k; i++ {
			dst = append(dst, '0')
		}
	case 0 < n && n <= 21:
		dst = append(dst, digits[:n]...)
		dst = append(dst, '.')
		dst = append(dst, digits[n:k]...)
	case -6 < n && n <= 0:
		dst = append(dst, '0', '.')
		for i := 0; i < -n; i++ {
			dst = append(dst, '0')
		}
		dst = append(dst, digits[:k]...)
	default:
		dst = append(dst, digits[0])
		if k > 1 {
			dst = append(dst, '.')
			dst = append(dst, digits[1:k]...)
		}
		dst = append(dst, 'e')
		e := n - 1
		if e < 0 {
			dst = append(dst, '-')
			e = -e
		} else {
			dst = append(dst, '+')
		}
		dst = strconv.AppendInt(dst, int64(e), 10)
	}
	return dst
}

// checkFormat checks AppendFloat for one finite value. buf/ref are scratch.
func checkFormat(f float64, bits int, buf, ref *[]byte) string {
	*buf = jsontext.AppendFloat((*buf)[:0], f, bits)
	*ref = appendES6((*ref)[:0], f, bits)
	if string(*buf) != string(*ref) {
		return fmt.Sprintf("AppendFloat(%v, %d) = %q, ECMA-262 layout of the shortest digits = %q", f, bits, *buf, *ref)
	}
	back, err := strconv.ParseFloat(unsafe.String(unsafe.SliceData(*buf), len(*buf)), bits)
	if err != nil || math.Float64bits(back) != math.Float64bits(f) {
		return fmt.Sprintf("AppendFloat(%v, %d) = %q parses back to %v (%v)", f, bits, *buf, back, err)
	}
	return ""
}

func reportFmt(r *evid.Run, f float64, bits int, msg string) {
	cs := Case{Part: "format", Bits: math.Float64bits(f), Width: bits}
	r.Violation(fmt.Sprintf("c10|format|%d|%#x", bits, cs.Bits), msg, cs, func() bool { return replayCase(cs) != "" })
}

func float32Sweep(r *evid.Run) {
	if r.Tier == "thorough" {
		const chunk = 1 << 20
		enum.Parallel(r, (1<<32)/chunk, func(w *enum.Worker) func(int) {
			var buf, ref []byte
			var cur uint32
			w.Describe = func() any {
				return Case{Part: "format", Bits: math.Float64bits(float64(math.Float32frombits(cur))), Width: 32}
			}
			return func(u int) {
				var n int64
				for i := 0; i < chunk; i++ {
					cur = uint32(u*chunk + i)
					f := float64(math.Float32frombits(cur))
					if math.IsNaN(f) || math.IsInf(f, 0) {
						continue
					}
					n++
					if m := checkFormat(f, 32, &buf, &ref); m != "" {
						reportFmt(r, f, 32, m)
					}
				}
				r.Evaluations.Add(n)
				r.Nontrivial.Add(n)
			}
		})
		r.Bound("float32 formatting: ALL 2^32 bit patterns (finite ones checked)")
		return
	}
	var buf, ref []byte
	var n int64
	mants := []uint32{0, 1, 2, 3, 0x7fffff, 0x7ffffe, 0x400000, 0x400001, 0x3fffff, 0x200000, 0x555555, 0x2aaaaa}
	for b := 0; b < 23; b++ {
		mants = append(mants, 1<<b, 1<<b|1, 0x7fffff&^(1<<b), 0x7fffff>>uint(b))
	}
	for exp := uint32(0); exp < 255; exp++ {
		for _, m := range mants {
			for _, sign := range []uint32{0, 1 << 31} {
				f := float64(math.Float32frombits(sign | exp<<23 | m))
				n++
				if m := checkFormat(f, 32, &buf, &ref); m != "" {
					reportFmt(r, f, 32, m)
				}
			}
		}
	}
	r.Evaluations.Add(n)
	r.Nontrivial.Add(n)
	r.Bound("float32 formatting: all 255 finite exponents x %d mantissa patterns x 2 signs", len(mants))
}

func float64Grid(r *evid.Run) {
	var mants []uint64
	full := uint64(1)<<52 - 1
	mants = append(mants, 0, 1, 2, full, full-1, 1<<51, 1<<51|1, 1<<51-1, 0x5555555555555, 0xaaaaaaaaaaaaa)
	for b := 0; b < 52; b += 2 {
		mants = append(mants, 1<<uint(b), full&^(1<<uint(b)), full>>uint(b))
	}
	enum.Parallel(r, 2047, func(w *enum.Worker) func(int) {
		var buf, ref []byte
		var cur float64
		w.Describe = func() any { return Case{Part: "format", Bits: math.Float64bits(cur), Width: 64} }
		return func(exp int) {
			var n int64
			for _, m := range mants {
				for _, sign := range []uint64{0, 1 << 63} {
					cur = math.Float64frombits(sign | uint64(exp)<<52 | m)
					n++
					if m := checkFormat(cur, 64, &buf, &ref); m != "" {
						reportFmt(r, cur, 64, m)
					}
				}
			}
			r.Evaluations.Add(n)
			r.Nontrivial.Add(n)
		}
	})
	// neighbourhoods of the layout switches and of every power of ten
	radius := 64
	if r.Tier == "thorough" {
		radius = 4096
	}
	var centers []float64
	for k := -330; k <= 308; k++ {
		f, _ := strconv.ParseFloat("1e"+strconv.Itoa(k), 64)
		centers = append(centers, f)
	}
	centers = append(centers, 1e-6, 1e-7, 1e21, 1e20, 9007199254740992, 0.1, 123456789012345680, math.MaxFloat64, math.SmallestNonzeroFloat64, 2.2250738585072014e-308, math.MaxFloat32, math.SmallestNonzeroFloat32)
	enum.Parallel(r, len(centers), func(w *enum.Worker) func(int) {
		var buf, ref []byte
		var cur float64
		w.Describe = func() any { return Case{Part: "format", Bits: math.Float64bits(cur), Width: 64} }
		return func(u int) {
			c := math.Float64bits(centers[u])
			var n int64
			for d := -radius; d <= radius; d++ {
				bits := c + uint64(int64(d))
				cur = math.Float64frombits(bits)
				if math.IsNaN(cur) || math.IsInf(cur, 0) {
					continue
				}
				for _, f := range []float64{cur, -cur} {
					n++
					if m := checkFormat(f, 64, &buf, &ref); m != "" {
						reportFmt(r, f, 64, m)
					}
				}
			}
			r.Evaluations.Add(n)
			r.Nontrivial.Add(n)
		}
	})
	r.Bound("float64 formatting: all 2047 exponents x %d mantissa patterns x 2 signs; +-%d ulps around every power of ten 1e-330..1e308 and around 1e-6, 1e-7, 1e20, 1e21, 2^53, float32/float64 extremes", len(mants), radius)
}

// marshal paths must agree with AppendFloat / strconv for a sample of the grid (the same formatter is reached
// through Marshal(float32/float64), Token Float/Float32/Int/Uint, string-quoted numbers and map keys).
func marshalPaths(r *evid.Run) {
	var n int64
	chk := func(got []byte, err error, want string, what string) {
		n++
		if err != nil || string(got) != want {
			r.Violation("c10|marshal|"+what+"|"+want, fmt.Sprintf("%s = %q (%v), want %q", what, got, err, want), Case{Part: "marshal", Literal: want, Context: what}, nil)
		}
	}
	// accessors of constructed tokens: the JSON number of the token is the literal WriteToken emits for it
	ctok := func(t jsontext.Token, lit, ctor string) {
		n++
		// the JSON number of a constructed token is the Go value it was built from
		var m string
		switch ctor {
		case "Float", "Float32":
			f, _ := t.Float()
			if fl, err := strconv.ParseFloat(lit, map[string]int{"Float": 64, "Float32": 32}[ctor]); err != nil || fl != f {
				m = fmt.Sprintf("Token.Float() = %v, constructed from %s", f, lit)
				break
			}
			rat := new(big.Rat).SetFloat64(f)
			m = checkTokenVal(t, lit, rat, math.Trunc(f) == f, f, false, math.Signbit(f), func(*big.Int) bool { return false })
			if m == "" {
				// Float32: the value rounded to 32 bits; out of range exactly when that rounding overflows
				w32 := float32(f)
				g32, e32 := t.Float32()
				overflow := math.IsInf(float64(w32), 0)
				if math.Float32bits(g32) != math.Float32bits(w32) || (e32 != nil) != overflow || (e32 != nil && !errors.Is(e32, strconv.ErrRange)) {
					m = fmt.Sprintf("Token.Float32() = %v, %v; want %v, range error=%v", g32, e32, w32, overflow)
				}
			}
		default:
			m = checkTokenObj(t, lit, false)
		}
		if m != "" {
			r.Violation("c10|ctoken|"+ctor+"|"+lit, "constructed with jsontext."+ctor+": "+m, Case{Part: "ctoken", Literal: lit, Context: ctor}, nil)
		}
	}
	var f64s []float64
	// integral float64 values with more than 17 significant digits, and the int64 / uint64 bounds as floats
	for k := 50; k <= 66; k++ {
		p := math.Ldexp(1, k)
		f64s = append(f64s, p, math.Nextafter(p, 0), math.Nextafter(p, math.Inf(1)), -p, p+math.Ldexp(1, k-30), math.Ldexp(1, k)*1.000000119)
	}
	for _, s := range []string{"0", "-0", "1", "1e21", "1e20", "1e-6", "1e-7", "123456789", "0.1", "5e-324", "1.7976931348623157e308", "9007199254740993", "1.5", "-2.5e-10", "100", "123456789012345678901"} {
		f, _ := strconv.ParseFloat(s, 64)
		f64s = append(f64s, f)
	}
	for e := 0; e < 2047; e += 13 {
		f64s = append(f64s, math.Float64frombits(uint64(e)<<52|0x5555555555555))
	}
	// around the largest float32: up to the rounding midpoint the value still rounds to MaxFloat32
	{
		max32, ulp := float64(math.MaxFloat32), math.Ldexp(1, 104)
		mid := max32 + ulp/2
		for _, f := range []float64{max32, math.Nextafter(max32, math.Inf(1)), 3.4028235e38, max32 + ulp/4, math.Nextafter(mid, 0), mid, math.Nextafter(mid, math.Inf(1)), math.Ldexp(1, 128), math.Nextafter(max32, 0), 3.5e38, 1e39} {
			f64s = append(f64s, f, -f)
		}
	}
	for _, f := range f64s {
		if math.IsInf(f, 0) || math.IsNaN(f) {
			continue
		}
		want := string(appendES6(nil, f, 64))
		b, err := jsonv2.Marshal(f)
		chk(b, err, want, "Marshal(float64)")
		b, err = jsonv2.Marshal(&f)
		chk(b, err, want, "Marshal(*float64)")
		b, err = jsonv2.Marshal([]float64{f})
		chk(b, err, "["+want+"]", "Marshal([]float64)")
		b, err = jsonv2.Marshal(f, jsonv2.StringifyNumbers(true))
		chk(b, err, `"`+want+`"`, "Marshal(float64, StringifyNumbers)")
		b, err = jsonv2.Marshal(map[float64]int{f: 1})
		chk(b, err, `{"`+want+`":1}`, "Marshal(map[float64]int)")
		b, err = jsonv2.Marshal(any(f))
		chk(b, err, want, "Marshal(any(float64))")
		var bb strings.Builder
		enc := jsontext.NewEncoder(&bb)
		err = enc.WriteToken(jsontext.Float(f))
		chk([]byte(strings.TrimSuffix(bb.String(), "\n")), err, want, "WriteToken(Float)")
		ctok(jsontext.Float(f), want, "Float")
		for _, carrier := range []any{[]any{f}, map[string]any{"k": f}, struct{ A any }{f}, []any{[]any{f, "s"}}} {
			b, err = jsonv2.Marshal(carrier)
			n++
			if err != nil || !strings.Contains(string(b), want) || len(b) > len(want)+12 {
				r.Violation("c10|marshal-untyped|"+want, fmt.Sprintf("Marshal(%T holding float64 %s) = %q (%v): the number is not printed as %s", carrier, want, b, err, want), Case{Part: "marshal", Literal: want, Context: fmt.Sprintf("%T", carrier)}, nil)
			}
		}
		// the number printed after earlier output that looks like an exponent
		for _, pre := range []string{"3b7e-0a41", "e-0", "1e-07", "e+0", "2e-", "-0e-00"} {
			for ci, c := range []struct {
				v    any
				want string
			}{
				{[]any{pre, f}, `["` + pre + `",` + want + `]`},
				{map[string]float64{pre: f}, `{"` + pre + `":` + want + `}`},
				{struct {
					Name string
					F    float64
					G    float32
				}{pre, f, float32(1e-9)}, `{"Name":"` + pre + `","F":` + want + `,"G":1e-9}`},
				{map[string]any{pre: []float64{f, 1e-7, f}}, `{"` + pre + `":[` + want + `,1e-7,` + want + `]}`},
			} {
				b, err = jsonv2.Marshal(c.v)
				chk(b, err, c.want, fmt.Sprintf("Marshal(carrier %d after the text %q)", ci, pre))
			}
			bb.Reset()
			enc = jsontext.NewEncoder(&bb)
			err = enc.WriteToken(jsontext.BeginArray)
			if err == nil {
				err = enc.WriteToken(jsontext.String(pre))
			}
			if err == nil {
				err = enc.WriteToken(jsontext.Float(f))
			}
			if err == nil {
				err = enc.WriteToken(jsontext.EndArray)
			}
			chk([]byte(strings.TrimSuffix(bb.String(), "\n")), err, `["`+pre+`",`+want+`]`, fmt.Sprintf("WriteToken(Float) after String(%q) in one Encoder buffer", pre))
		}
		f32 := float32(f)
		if !math.IsInf(float64(f32), 0) {
			want32 := string(appendES6(nil, float64(f32), 32))
			b, err = jsonv2.Marshal(f32)
			chk(b, err, want32, "Marshal(float32)")
			b, err = jsonv2.Marshal(map[float32]int{f32: 1})
			chk(b, err, `{"`+want32+`":1}`, "Marshal(map[float32]int)")
			// the precision belongs to the type, whatever the formatting options
			b, err = jsonv2.Marshal([]float32{f32, f32}, jsontext.SpaceAfterComma(true))
			chk(b, err, "["+want32+", "+want32+"]", "Marshal([]float32, SpaceAfterComma)")
			b, err = jsonv2.Marshal(struct{ F float32 }{f32}, jsontext.Multiline(true))
			chk(b, err, "{\n\t\"F\": "+want32+"\n}", "Marshal(struct{F float32}, Multiline)")
			b, err = jsonv2.Marshal(map[string]any{"k": f32}, jsontext.WithIndent(" "))
			chk(b, err, "{\n \"k\": "+want32+"\n}", "Marshal(any(float32), WithIndent)")
			b, err = jsonv2.Marshal([]float64{f, f}, jsontext.SpaceAfterComma(true), jsontext.SpaceAfterColon(true))
			chk(b, err, "["+want+", "+want+"]", "Marshal([]float64, SpaceAfterComma)")
			bb.Reset()
			enc = jsontext.NewEncoder(&bb)
			err = enc.WriteToken(jsontext.Float32(f32))
			chk([]byte(strings.TrimSuffix(bb.String(), "\n")), err, want32, "WriteToken(Float32)")
			ctok(jsontext.Float32(f32), want32, "Float32")
		}
	}
	// integers are printed exactly
	var ints []int64
	var uints []uint64
	for k := 0; k < 64; k++ {
		for _, d := range []int64{-2, -1, 0, 1, 2} {
			ints = append(ints, int64(1)<<uint(k)+d, -(int64(1)<<uint(k))+d)
			uints = append(uints, uint64(1)<<uint(k)+uint64(d))
		}
	}
	p := int64(1)
	for k := 0; k < 19; k++ {
		ints = append(ints, p-1, p, p+1, -p-1, -p, -p+1)
		uints = append(uints, uint64(p)-1, uint64(p), uint64(p)+1)
		p *= 10
	}
	uints = append(uints, math.MaxUint64, math.MaxUint64-1, 10000000000000000000, 9999999999999999999)
	for _, v := range ints {
		want := strconv.FormatInt(v, 10)
		b, err := jsonv2.Marshal(v)
		chk(b, err, want, "Marshal(int64)")
		b, err = jsonv2.Marshal(map[int64]bool{v: true})
		chk(b, err, `{"`+want+`":true}`, "Marshal(map[int64]bool)")
		b, err = jsonv2.Marshal(struct {
			X int64 `json:",string"`
		}{v})
		chk(b, err, `{"X":"`+want+`"}`, "Marshal(int64 string tag)")
		var bb strings.Builder
		enc := jsontext.NewEncoder(&bb)
		err = enc.WriteToken(jsontext.Int(v))
		chk([]byte(strings.TrimSuffix(bb.String(), "\n")), err, want, "WriteToken(Int)")
		ctok(jsontext.Int(v), want, "Int")
		for _, carrier := range []any{[]any{v}, map[string]any{"k": v}} {
			b, err = jsonv2.Marshal(carrier)
			n++
			if err != nil || !strings.Contains(string(b), want) {
				r.Violation("c10|marshal-untyped|"+want, fmt.Sprintf("Marshal(%T holding int64 %s) = %q (%v)", carrier, want, b, err), Case{Part: "marshal", Literal: want, Context: fmt.Sprintf("%T", carrier)}, nil)
			}
		}
	}
	for _, v := range uints {
		want := strconv.FormatUint(v, 10)
		b, err := jsonv2.Marshal(v)
		chk(b, err, want, "Marshal(uint64)")
		b, err = jsonv2.Marshal(map[uint64]bool{v: true})
		chk(b, err, `{"`+want+`":true}`, "Marshal(map[uint64]bool)")
		var bb strings.Builder
		enc := jsontext.NewEncoder(&bb)
		err = enc.WriteToken(jsontext.Uint(v))
		chk([]byte(strings.TrimSuffix(bb.String(), "\n")), err, want, "WriteToken(Uint)")
		ctok(jsontext.Uint(v), want, "Uint")
	}
	r.Evaluations.Add(n)
	r.Nontrivial.Add(n)
	r.Bound("marshal paths: %d float64 values (and their float32 roundings) through Marshal of value/pointer/slice/any/map key/StringifyNumbers and Token Float/Float32; %d int64 and %d uint64 boundary values through Marshal, map keys, string tag, Token Int/Uint", len(f64s), len(ints), len(uints))
}

// ---------- parsing ----------

var intTypes = []reflect.Type{
	reflect.TypeOf(int8(0)), reflect.TypeOf(int16(0)), reflect.TypeOf(int32(0)), reflect.TypeOf(int64(0)), reflect.TypeOf(int(0)),
	reflect.TypeOf(uint8(0)), reflect.TypeOf(uint16(0)), reflect.TypeOf(uint32(0)), reflect.TypeOf(uint64(0)), reflect.TypeOf(uint(0)), reflect.TypeOf(uintptr(0)),
}
var floatTypes = []reflect.Type{reflect.TypeOf(float32(0)), reflect.TypeOf(float64(0))}

func rangeOf(t reflect.Type) (lo, hi *big.Int) {
	bits := uint(t.Bits())
	if t.Kind() >= reflect.Uint && t.Kind() <= reflect.Uintptr {
		return big.NewInt(0), new(big.Int).Sub(new(big.Int).Lsh(big.NewInt(1), bits), big.NewInt(1))
	}
	h := new(big.Int).Lsh(big.NewInt(1), bits-1)
	return new(big.Int).Neg(h), new(big.Int).Sub(h, big.NewInt(1))
}

func isIntGrammar(lit string) bool {
	s := strings.TrimPrefix(lit, "-")
	if s == "" || (len(s) > 1 && s[0] == '0') {
		return false
	}
	for _, c := range s {
		if c < '0' || c > '9' {
			return false
		}
	}
	return true
}

var contexts = []string{"bare", "string-tag", "StringifyNumbers", "map-key"}

// decodeInto unmarshals literal lit into a fresh value of type t in the given context.
func decodeInto(t reflect.Type, lit string, ctx string) (reflect.Value, error) {
	switch ctx {
	case "bare":
		p := reflect.New(t)
		err := jsonv2.Unmarshal([]byte(lit), p.Interface())
		return p.Elem(), err
	case "StringifyNumbers":
		p := reflect.New(t)
		err := jsonv2.Unmarshal([]byte(`"`+lit+`"`), p.Interface(), jsonv2.StringifyNumbers(true))
		return p.Elem(), err
	case "string-tag":
		st := reflect.StructOf([]reflect.StructField{{Name: "X", Type: t, Tag: `json:",string"`}})
		p := reflect.New(st)
		err := jsonv2.Unmarshal([]byte(`{"X":"`+lit+`"}`), p.Interface())
		return p.Elem().Field(0), err
	case "map-key":
		mt := reflect.MapOf(t, reflect.TypeOf(0))
		p := reflect.New(mt)
		err := jsonv2.Unmarshal([]byte(`{"`+lit+`":1}`), p.Interface())
		if err == nil && p.Elem().Len() == 1 {
			return p.Elem().MapKeys()[0], nil
		}
		if err == nil {
			err = errors.New("map has no single key")
		}
		return reflect.Zero(t), err
	}
	panic("ctx")
}

// checkParse checks one literal (a valid JSON number) against one type and context.
func checkParse(t reflect.Type, lit, ctx string) (msg string) {
	defer func() {
		if p := recover(); p != nil {
			msg = fmt.Sprintf("library panic: %v", p)
		}
	}()
	v, err := decodeInto(t, lit, ctx)
	if t.Kind() == reflect.Float32 || t.Kind() == reflect.Float64 {
		want, perr := strconv.ParseFloat(lit, t.Bits())
		if perr != nil { // overflow
			if err == nil {
				return fmt.Sprintf("%s into %v (%s): overflow accepted as %v", lit, t, ctx, v)
			}
			return ""
		}
		if err != nil {
			return fmt.Sprintf("%s into %v (%s): unexpected error %v", lit, t, ctx, err)
		}
		if math.Float64bits(v.Float()) != math.Float64bits(want) {
			if v.Float() == 0 && want == 0 && ctx == "map-key" {
				return "" // -0 and 0 are the same map key
			}
			return fmt.Sprintf("%s into %v (%s) = %v (%#x), correctly rounded value is %v (%#x)", lit, t, ctx, v.Float(), math.Float64bits(v.Float()), want, math.Float64bits(want))
		}
		return ""
	}
	unsigned := t.Kind() >= reflect.Uint && t.Kind() <= reflect.Uintptr
	accept := isIntGrammar(lit) && !(unsigned && strings.HasPrefix(lit, "-"))
	var val *big.Int
	if accept {
		val, _ = new(big.Int).SetString(lit, 10)
		lo, hi := rangeOf(t)
		accept = val.Cmp(lo) >= 0 && val.Cmp(hi) <= 0
	}
	if !accept {
		if err == nil {
			return fmt.Sprintf("%s into %v (%s): accepted as %v, must be refused", lit, t, ctx, v)
		}
		return ""
	}
	if err != nil {
		return fmt.Sprintf("%s into %v (%s): refused (%v), must be accepted exactly", lit, t, ctx, err)
	}
	got := new(big.Int)
	if unsigned {
		got.SetUint64(v.Uint())
	} else {
		got.SetInt64(v.Int())
	}
	if got.Cmp(val) != 0 {
		return fmt.Sprintf("%s into %v (%s) = %v", lit, t, ctx, got)
	}
	return ""
}

// checkToken checks Token.Int/Uint/Float of the raw token read from literal lit.
func checkToken(lit string) (msg string) {
	defer func() {
		if p := recover(); p != nil {
			msg = fmt.Sprintf("library panic: %v", p)
		}
	}()
	dec := jsontext.NewDecoder(strings.NewReader(lit))
	tok, err := dec.ReadToken()
	if err != nil {
		return fmt.Sprintf("ReadToken(%s): %v", lit, err)
	}
	return checkTokenObj(tok, lit, true)
}

// checkTokenObj checks the three accessors of a raw number token whose JSON number is lit.
func checkTokenObj(tok jsontext.Token, lit string, raw bool) (msg string) {
	rat, _ := new(big.Rat).SetString(lit)
	wf, werr := strconv.ParseFloat(lit, 64)
	if m := checkTokenVal(tok, lit, rat, isIntGrammar(lit), wf, werr != nil, strings.HasPrefix(lit, "-"), func(got *big.Int) bool { return viaFloat(lit, got) }); m != "" {
		return m
	}
	if raw { // a constructed integer token goes through float64 first
		w32, w32err := strconv.ParseFloat(lit, 32)
		g32, e32 := tok.Float32()
		if math.Float32bits(g32) != math.Float32bits(float32(w32)) || (e32 != nil) != (w32err != nil) || (e32 != nil && !errors.Is(e32, strconv.ErrRange)) {
			return fmt.Sprintf("Token(%s).Float32() = %v, %v; want %v, error=%v", lit, g32, e32, float32(w32), w32err != nil)
		}
	}
	return ""
}

// checkTokenVal checks the accessors of a number token (raw or constructed) against the documented semantics:
// rat is the exact value of the token's JSON number, exact says whether the number is an integer (for a raw token:
// matches the integer grammar; for a token constructed from a Go float: the float is integral), wf/werr what
// Float must return, negative whether the number carries a minus sign.
func checkTokenVal(tok jsontext.Token, lit string, rat *big.Rat, exact bool, wf float64, werr, negative bool, viaF func(*big.Int) bool) (msg string) {
	defer func() {
		if p := recover(); p != nil {
			msg = fmt.Sprintf("library panic: %v", p)
		}
	}()
	// Float
	f, ferr := tok.Float()
	if (ferr != nil) != werr || math.Float64bits(f) != math.Float64bits(wf) || (ferr != nil && !errors.Is(ferr, strconv.ErrRange)) {
		return fmt.Sprintf("Token(%s).Float() = %v, %v; want %v, error=%v", lit, f, ferr, wf, werr)
	}
	// exact rational value truncated toward zero
	trunc := new(big.Int).Quo(rat.Num(), rat.Denom()) // Quo truncates toward zero
	small := new(big.Int).Abs(trunc).Cmp(new(big.Int).Lsh(big.NewInt(1), 53)) < 0
	// Int
	i, ierr := tok.Int()
	minI, maxI := big.NewInt(math.MinInt64), big.NewInt(math.MaxInt64)
	wantI := new(big.Int).Set(trunc)
	rangeErr := false
	if wantI.Cmp(minI) < 0 {
		wantI, rangeErr = minI, true
	} else if wantI.Cmp(maxI) > 0 {
		wantI, rangeErr = maxI, true
	}
	switch {
	case exact && !rangeErr:
		if ierr != nil || big.NewInt(i).Cmp(wantI) != 0 {
			return fmt.Sprintf("Token(%s).Int() = %d, %v; want %v, nil", lit, i, ierr, wantI)
		}
	case exact && rangeErr:
		if !errors.Is(ierr, strconv.ErrRange) || big.NewInt(i).Cmp(wantI) != 0 {
			return fmt.Sprintf("Token(%s).Int() = %d, %v; want saturated %v with ErrRange", lit, i, ierr, wantI)
		}
	default:
		if !errors.Is(ierr, strconv.ErrSyntax) {
			return fmt.Sprintf("Token(%s).Int() error = %v; want ErrSyntax (not an integer literal)", lit, ierr)
		}
		if (small || rangeErr) && big.NewInt(i).Cmp(wantI) != 0 && !viaF(big.NewInt(i)) {
			return fmt.Sprintf("Token(%s).Int() = %d; want truncated/saturated %v", lit, i, wantI)
		}
	}
	// Uint
	u, uerr := tok.Uint()
	maxU := new(big.Int).SetUint64(math.MaxUint64)
	wantU := new(big.Int).Set(trunc)
	urange := false
	if wantU.Sign() < 0 {
		wantU = big.NewInt(0)
	} else if wantU.Cmp(maxU) > 0 {
		wantU, urange = maxU, true
	}
	switch {
	case exact && !negative && !urange:
		if uerr != nil || new(big.Int).SetUint64(u).Cmp(wantU) != 0 {
			return fmt.Sprintf("Token(%s).Uint() = %d, %v; want %v, nil", lit, u, uerr, wantU)
		}
	case exact && !negative && urange:
		if !errors.Is(uerr, strconv.ErrRange) || u != math.MaxUint64 {
			return fmt.Sprintf("Token(%s).Uint() = %d, %v; want saturated MaxUint64 with ErrRange", lit, u, uerr)
		}
	default:
		if !errors.Is(uerr, strconv.ErrSyntax) {
			return fmt.Sprintf("Token(%s).Uint() error = %v; want ErrSyntax", lit, uerr)
		}
		if (small || urange || negative) && new(big.Int).SetUint64(u).Cmp(wantU) != 0 && !(wantU.Sign() > 0 && viaF(new(big.Int).SetUint64(u))) {
			return fmt.Sprintf("Token(%s).Uint() = %d; want truncated/saturated %v", lit, u, wantU)
		}
	}
	return ""
}

// viaFloat reports whether got is the truncation toward zero of the float64 nearest to lit. For a literal that
// is not an integer the accessor documents only "a reasonable value"; truncating the correctly rounded
// float64 is accepted as such besides truncating the exact decimal.
func viaFloat(lit string, got *big.Int) bool {
	f, err := strconv.ParseFloat(lit, 64)
	if err != nil || math.IsInf(f, 0) {
		return false
	}
	t, _ := new(big.Float).SetFloat64(math.Trunc(f)).Int(nil)
	return t.Cmp(got) == 0
}

func report(r *evid.Run, cs Case, msg string) {
	r.Violation(fmt.Sprintf("c10|%s|%s|%s|%s", cs.Part, cs.Type, cs.Context, cs.Literal), msg, cs, func() bool { return replayCase(cs) != "" })
}

func replayCase(cs Case) string {
	switch cs.Part {
	case "format":
		var a, b []byte
		return checkFormat(math.Float64frombits(cs.Bits), cs.Width, &a, &b)
	case "parse":
		for _, t := range append(append([]reflect.Type{}, intTypes...), floatTypes...) {
			if t.String() == cs.Type {
				return checkParse(t, cs.Literal, cs.Context)
			}
		}
	case "token":
		return checkToken(cs.Literal)
	}
	return ""
}

func Replay(r *evid.Run, raw json.RawMessage) {
	var cs Case
	if json.Unmarshal(raw, &cs) != nil {
		return
	}
	r.Evaluations.Add(1)
	r.Nontrivial.Add(2)
	r.Sample(cs)
	if msg := replayCase(cs); msg != "" {
		fmt.Println("replay fails:", msg)
		r.Violation("replay", msg, cs, nil)
	} else {
		fmt.Println("replay passes")
	}
}

// intLiterals returns the integer-ish literals around every type bound.
func intLiterals(radius int) []string {
	seen := map[string]bool{}
	var out []string
	add := func(s string) {
		if !seen[s] {
			seen[s] = true
			out = append(out, s)
		}
	}
	var bounds []*big.Int
	for _, k := range []uint{7, 8, 15, 16, 31, 32, 63, 64} {
		b := new(big.Int).Lsh(big.NewInt(1), k)
		bounds = append(bounds, b, new(big.Int).Neg(b))
	}
	for _, s := range []string{"0", "10000000000000000000", "100000000000000000000", "-10000000000000000000"} {
		b, _ := new(big.Int).SetString(s, 10)
		bounds = append(bounds, b)
	}
	for _, b := range bounds {
		for d := -radius; d <= radius; d++ {
			v := new(big.Int).Add(b, big.NewInt(int64(d)))
			s := v.String()
			add(s)
			if d >= -3 && d <= 3 {
				add(s + ".0")
				add(s + "e0")
				add(s + "E+0")
				add(s + ".5")
				if v.Sign() != 0 {
					add(s + "0e-1")
				}
				if v.Sign() >= 0 {
					add("-" + s)
				}
			}
		}
	}
	add("-0")
	add("-0.0")
	add("0e5")
	add("1e2")
	add("1E2")
	add("25e-1")
	// 19..21 digit strings near 2^63, 2^64 and the 21-digit wrap-around class
	for x := 0; x <= 9; x++ {
		add(fmt.Sprintf("1844674407370955161%d", x))
		add(fmt.Sprintf("922337203685477580%d", x))
		add(fmt.Sprintf("-922337203685477580%d", x))
		add(fmt.Sprintf("1844674407370955161%d0", x))
	}
	for j := 0; j < 100; j++ {
		add(fmt.Sprintf("1%02d000000000000000000", j))   // 21 digits starting with 1
		add(fmt.Sprintf("1%02d446744073709551616", j))   // 21 digits, values around multiples of 2^64
		add(fmt.Sprintf("%d%019d", j%9+1, j*104729))     // 20 digits
		add(fmt.Sprintf("3%02d00000000000000000000", j)) // 22+ digits
		add(fmt.Sprintf("%d8446744073709551616", j%9+1)) // k*10^19 + 2^64-ish
	}
	return out
}

// floatLiterals: decimal literals designed around float32/float64 rounding boundaries.
func floatLiterals(tier string) []string {
	var out []string
	step := 16
	if tier == "thorough" {
		step = 1
	}
	mants := []uint32{0, 1, 2, 0x7fffff, 0x7ffffe, 0x400000, 0x3fffff, 0x2aaaaa, 0x555555}
	for exp := uint32(1); exp < 254; exp += uint32(step) {
		for _, m := range mants {
			lo := math.Float32frombits(exp<<23 | m)
			hi := math.Nextafter32(lo, float32(math.Inf(1)))
			mid := (float64(lo) + float64(hi)) / 2 // exact in float64
			text := new(big.Float).SetPrec(200).SetFloat64(mid).Text('f', 80)
			text = strings.TrimRight(text, "0")
			if strings.HasSuffix(text, ".") {
				text += "0"
			}
			if len(text) > 120 {
				continue
			}
			out = append(out, text, text+"0000000000000000000000001")
			// just below the midpoint: decrement the last digit and append 9s
			b := []byte(text)
			for i := len(b) - 1; i >= 0; i-- {
				if b[i] >= '1' && b[i] <= '9' {
					b[i]--
					out = append(out, string(b)+"9999999999999999999999999")
					break
				}
			}
		}
	}
	// integer midpoints: plain-digit literals at and next to the midpoint of adjacent float32 / float64 values
	// (a plain integer literal may take an integer fast path and be rounded twice)
	for exp := uint32(150); exp <= 196; exp++ { // float32 values 2^23 .. 2^69
		for _, m := range mants {
			lo := math.Float32frombits(exp<<23 | m)
			hi := math.Nextafter32(lo, float32(math.Inf(1)))
			bl, _ := new(big.Float).SetFloat64(float64(lo)).Int(nil)
			bh, _ := new(big.Float).SetFloat64(float64(hi)).Int(nil)
			sum := new(big.Int).Add(bl, bh)
			if sum.Bit(0) != 0 {
				continue
			}
			mid := sum.Rsh(sum, 1)
			for d := int64(-3); d <= 3; d++ {
				out = append(out, new(big.Int).Add(mid, big.NewInt(d)).String())
			}
		}
	}
	mants64 := []uint64{0, 1, 2, 1<<52 - 1, 1<<52 - 2, 1 << 51, 1<<51 - 1, 0x5555555555555, 0xAAAAAAAAAAAAA}
	for exp := uint64(1075); exp <= 1092; exp++ { // float64 values 2^52 .. 2^69
		for _, m := range mants64 {
			lo := math.Float64frombits(exp<<52 | m)
			hi := math.Nextafter(lo, math.Inf(1))
			bl, _ := new(big.Float).SetFloat64(lo).Int(nil)
			bh, _ := new(big.Float).SetFloat64(hi).Int(nil)
			sum := new(big.Int).Add(bl, bh)
			if sum.Bit(0) != 0 {
				continue
			}
			mid := sum.Rsh(sum, 1)
			for d := int64(-2); d <= 2; d++ {
				out = append(out, new(big.Int).Add(mid, big.NewInt(d)).String())
			}
		}
	}
	out = append(out, "9000000000000.0000001", "9000000000.0000001", "1.0000000596046447753906250000000000000000000000001", "16777217", "16777217.0000000001", "16777216.9999999999",
		"3.4028235677973366e38", "3.4028234663852886e38", "3.4028235e38", "3.4028236e38", "1e39", "-1e39", "1e-46", "7.0064923216240854e-46", "7.00649232162408535e-46", "1.401298464324817e-45",
		"1.7976931348623157e308", "1.7976931348623158e308", "1.7976931348623159e308", "1e309", "4.9e-324", "2.4703282292062327e-324", "2.4703282292062328e-324", "2.2250738585072011e-308", "0.1", "0.3", "1e23", "8.41e21", "9007199254740993", "9007199254740992.5", "0.000001", "123456789012345678901234567890")
	return out
}

func Run(r *evid.Run) {
	r.Rule("formatting: float32 bit patterns (thorough: all 2^32; quick: 255 exponents x mantissa patterns), float64 grid of all 2047 exponents x mantissa patterns plus ulp-neighbourhoods of every power of ten and of the 1e-6/1e21 layout switches - AppendFloat must equal the ECMA-262 layout of strconv's shortest digits and parse back to identical bits; the same through Marshal/Token paths; int64/uint64 boundary values printed exactly. Parsing: every integer within +-R of every signed/unsigned width bound and of 10^19/10^20, in plain/.0/e0/E+0/.5/negated spellings, 19-22 digit strings around 2^63, 2^64 and the 21-digit wrap-around class, float literals built on float32 midpoints (exact midpoint, midpoint +- 1e-25 relative) and plain-digit integer literals within +-3 of every float32/float64 midpoint between 2^23 and 2^69 (9 mantissa patterns per exponent) - unmarshaled into every int/uint/float type bare, string-tagged, with StringifyNumbers and as map key, against math/big range arithmetic / strconv.ParseFloat; Token.Int/Uint/Float on the same literals against the documented truncation/saturation and ErrSyntax/ErrRange classes. evaluations = conversions checked; distinct_nontrivial = distinct (value|literal, type, context) conversions")
	r.Assume("strconv.ParseFloat / AppendFloat shortest digits are correct", "math/big")
	float32Sweep(r)
	float64Grid(r)
	marshalPaths(r)
	radius := 40
	if r.Tier == "thorough" {
		radius = 2000
	}
	lits := intLiterals(radius)
	lits = append(lits, floatLiterals(r.Tier)...)
	enum.Parallel(r, len(lits), func(w *enum.Worker) func(int) {
		var cur Case
		w.Describe = func() any { return cur }
		var n int64
		w.Done = func() { r.Evaluations.Add(n); r.Nontrivial.Add(n) }
		return func(u int) {
			lit := lits[u]
			for _, t := range append(append([]reflect.Type{}, intTypes...), floatTypes...) {
				for _, ctx := range contexts {
					if ctx == "map-key" && (t.Kind() == reflect.Float32 || t.Kind() == reflect.Float64) && len(lit) > 40 {
						continue
					}
					cur = Case{Part: "parse", Literal: lit, Type: t.String(), Context: ctx}
					n++
					if m := checkParse(t, lit, ctx); m != "" {
						report(r, cur, m)
					}
				}
			}
			cur = Case{Part: "token", Literal: lit}
			n++
			if m := checkToken(lit); m != "" {
				report(r, cur, m)
			}
		}
	})
	r.Sample(Case{Part: "parse", Literal: "18446744073709551616", Type: "uint64", Context: "map-key"})
	r.Sample(Case{Part: "parse", Literal: "9000000000.0000001", Type: "float32", Context: "bare"})
	r.Sample(Case{Part: "format", Bits: math.Float64bits(1e21), Width: 64})
	r.Bound("parsing: %d literals (radius %d around every bound) x 13 Go types x 4 contexts, plus Token accessors", len(lits), radius)
}
