// Package c03: Unmarshal into untyped targets yields the exact meaning of the text, whichever route is taken.
package c03

import (
	"bytes"
	"encoding/json"
	"errors"
	"fmt"
	"io"
	"math/big"
	"reflect"
	"strconv"
	"strings"

	stdjson "encoding/json"

	jsonv2 "github.com/go-json-experiment/json"
	"github.com/go-json-experiment/json/jsontext"

	"verif/internal/enum"
	"verif/internal/evid"
	"verif/internal/refjson"
	"verif/internal/views"
)

type Case struct {
	Input     []byte `json:"input"`
	InputText string `json:"input_text"`
}

type namedAny interface{}

// plainReader hides the concrete type (not a *bytes.Buffer) and delivers at most chunk bytes per Read.
type plainReader struct {
	b     []byte
	chunk int
}

func (p *plainReader) Read(q []byte) (int, error) {
	if len(p.b) == 0 {
		return 0, io.EOF
	}
	n := len(p.b)
	if n > len(q) {
		n = len(q)
	}
	if p.chunk > 0 && n > p.chunk {
		n = p.chunk
	}
	copy(q, p.b[:n])
	p.b = p.b[n:]
	return n, nil
}

var noopUnmarshalers = jsonv2.WithUnmarshalers(jsonv2.UnmarshalFromFunc(func(d *jsontext.Decoder, p *any) error { return errors.ErrUnsupported }))

type optSet struct {
	name string
	opts []jsonv2.Options
}

var optSets = []optSet{
	{"default", nil},
	{"AllowDuplicateNames(dup-free input)", []jsonv2.Options{jsontext.AllowDuplicateNames(true)}},
	{"no-op Unmarshalers on any (reflection path)", []jsonv2.Options{noopUnmarshalers}},
}

// decode runs one route into a fresh target of the given kind and returns the resulting value (as any) and error.
func decode(route, target int, in []byte, opts []jsonv2.Options) (out any, err error) {
	var a any
	var m map[string]any
	var s []any
	var n namedAny
	var ptr any
	switch target {
	case 0:
		ptr = &a
	case 1:
		ptr = &m
	case 2:
		ptr = &s
	case 3:
		ptr = &n
	}
	switch route {
	case 0:
		err = jsonv2.Unmarshal(in, ptr, opts...)
	case 1:
		err = jsonv2.UnmarshalRead(&plainReader{b: in}, ptr, opts...)
	case 2:
		err = jsonv2.UnmarshalRead(bytes.NewBuffer(append([]byte(nil), in...)), ptr, opts...)
	case 4:
		err = jsonv2.UnmarshalRead(&plainReader{b: in, chunk: 1}, ptr, opts...)
	case 3:
		dec := jsontext.NewDecoder(&plainReader{b: in, chunk: 7})
		err = jsonv2.UnmarshalDecode(dec, ptr, opts...)
		if err == nil {
			if _, e2 := dec.ReadToken(); e2 != io.EOF {
				err = fmt.Errorf("trailing data after value: %v", e2)
			}
		}
	}
	switch target {
	case 0:
		out = a
	case 1:
		if m == nil {
			out = nil
		} else {
			out = m
		}
	case 2:
		if s == nil {
			out = nil
		} else {
			out = s
		}
	case 3:
		out = n
	}
	return out, err
}

var routeNames = []string{"Unmarshal", "UnmarshalRead(plain reader)", "UnmarshalRead(bytes.Buffer)", "UnmarshalDecode(7-byte reader)", "UnmarshalRead(one-byte reader)"}
var targetNames = []string{"*any", "*map[string]any", "*[]any", "*namedAny"}

// checkValid checks one text that is valid under default options.
func checkValid(in []byte, tree *refjson.Value) (msg string) {
	defer func() {
		if p := recover(); p != nil {
			msg = fmt.Sprintf("library panic: %v", p)
		}
	}()
	want, ok := refjson.GoImage(tree)
	for oi := range optSets {
		for route := range routeNames {
			for target := range targetNames {
				got, err := decode(route, target, in, optSets[oi].opts)
				where := fmt.Sprintf("%s into %s with %s", routeNames[route], targetNames[target], optSets[oi].name)
				fits := target == 0 || target == 3 || tree.Kind == 'n' || (target == 1 && tree.Kind == '{') || (target == 2 && tree.Kind == '[')
				if !fits {
					if err == nil {
						return fmt.Sprintf("%s: kind mismatch accepted, got %#v", where, got)
					}
					continue
				}
				if !ok {
					if err == nil {
						return fmt.Sprintf("%s: a number overflows float64 but no error was returned (got %#v)", where, got)
					}
					var se *jsonv2.SemanticError
					if !errors.As(err, &se) {
						return fmt.Sprintf("%s: overflow reported as %T, want SemanticError", where, err)
					}
					continue
				}
				if err != nil {
					return fmt.Sprintf("%s: unexpected error %v", where, err)
				}
				if !reflect.DeepEqual(got, want) {
					return fmt.Sprintf("%s: got %#v, want %#v", where, got, want)
				}
			}
		}
	}
	// second opinion: the standard library on the same I-JSON text
	if ok {
		var std any
		if err := stdjson.Unmarshal(in, &std); err != nil || !reflect.DeepEqual(std, want) {
			return fmt.Sprintf("HARNESS: reference image %#v disagrees with encoding/json %#v (%v)", want, std, err)
		}
	}
	return ""
}

func report(r *evid.Run, in []byte, msg string) {
	cs := Case{Input: append([]byte(nil), in...), InputText: string(in)}
	r.Violation(fmt.Sprintf("c03|%q", in), msg, cs, func() bool { return replayCase(cs) != "" })
}

func replayCase(cs Case) string {
	tree := refjson.Tree(cs.Input, refjson.Opts{})
	if tree == nil {
		return ""
	}
	return checkValid(cs.Input, tree)
}

func Replay(r *evid.Run, raw json.RawMessage) {
	var cs Case
	if json.Unmarshal(raw, &cs) != nil {
		return
	}
	r.Evaluations.Add(1)
	r.Nontrivial.Add(2)
	r.Sample(cs)
	if msg := replayCase(cs); msg != "" {
		fmt.Println("replay fails:", msg)
		r.Violation("replay", msg, cs, nil)
	} else {
		fmt.Println("replay passes")
	}
}

func Run(r *evid.Run) {
	r.Rule("every text of the alphabet views that is valid under default options (all distinct) plus generated stressors (interning: all ordered pairs of look-alike strings sharing first/last 8 bytes, all 400 two-byte strings in two orders, repeated names; escape placement sweeps across the 64-byte initial buffer and its doublings; wide objects; 1000-deep nesting) x routes {Unmarshal, UnmarshalRead from a plain reader, UnmarshalRead from a bytes.Buffer, UnmarshalDecode from a 7-byte reader} x targets {*any, *map[string]any, *[]any, *named empty interface} x option sets {default, AllowDuplicateNames, no-op WithUnmarshalers on any}. Oracle: reflect.DeepEqual with the reference tree's Go image (strings by the reference unescaper, numbers by strconv.ParseFloat, overflow => SemanticError); encoding/json as a second opinion. evaluations = valid texts checked (each through 48 route/target/option combinations); distinct_nontrivial = distinct valid texts containing a string or a number")
	r.Assume("reference recognizer/tree internal/refjson", "strconv.ParseFloat is correctly rounded", "encoding/json as cross-check of the reference image")
	lens := views.ForTier(r.Tier)
	vs := views.Views(lens)
	views.ForAll(r, vs, func(w *enum.Worker, v views.View) func([]byte) {
		var p refjson.Parser
		var cur []byte
		w.Describe = func() any { return Case{Input: cur, InputText: string(cur)} }
		n := 0
		return func(s []byte) {
			p.O = refjson.Opts{NoToks: true}
			if !p.Run(s).Complete {
				return
			}
			cur = s
			tree := refjson.Tree(s, refjson.Opts{})
			r.Evaluations.Add(1)
			if bytes.ContainsAny(s, "\"0123456789") {
				r.Nontrivial.Add(1)
			}
			if msg := checkValid(s, tree); msg != "" {
				report(r, s, msg)
			}
			n++
			if n == 40 {
				r.Sample(Case{InputText: string(s)})
			}
		}
	})
	stressors(r)
}

func stressors(r *evid.Run) {
	var docs []string
	// look-alike strings: equal length, equal first and last 8 bytes, different middles
	var look []string
	for _, L := range []int{17, 20, 24, 64, 255, 256, 257} {
		for k := 0; k < 4; k++ {
			mid := strings.Repeat(string(rune('a'+k)), L-16)
			look = append(look, "PREFIX00"+mid+"SUFFIX99")
		}
	}
	// short look-alikes (<= 16 bytes) differing in one position
	for i := 0; i < 16; i++ {
		b := []byte("0123456789abcdef")
		b[i] = 'X'
		look = append(look, string(b))
	}
	for i := range look {
		for j := range look {
			if len(look[i]) == len(look[j]) && i != j {
				docs = append(docs, fmt.Sprintf(`[%q,%q,%q]`, look[i], look[j], look[i]))
				docs = append(docs, fmt.Sprintf(`{%q:1,%q:[{%q:2}]}`, look[i], look[j], look[i]))
				docs = append(docs, fmt.Sprintf(`[{%q:1},{%q:2},{%q:%q}]`, look[i], look[j], look[i], look[j]))
			}
		}
	}
	// single-position look-alikes: for base strings of several lengths above and below every length class of a
	// string cache (<=8, <=16, longer), every variant that differs from the base in exactly one position, all in
	// one document in two orders, as values and as names (a cache that compares only part of a candidate, or
	// hashes only some positions, confuses some pair)
	for _, L := range []int{7, 8, 9, 15, 16, 17, 18, 23, 24, 25, 31, 32, 33, 40, 64, 65} {
		base := []byte(strings.Repeat("user0000/profile/img0000/", 4)[:L])
		vars := []string{string(base)}
		for i := 0; i < L; i++ {
			for _, c := range []byte{'#', base[i] ^ 1} {
				v := append([]byte(nil), base...)
				v[i] = c
				vars = append(vars, string(v))
			}
		}
		var q, qr, mem []string
		for i, v := range vars {
			q = append(q, fmt.Sprintf("%q", v))
			qr = append([]string{fmt.Sprintf("%q", v)}, qr...)
			mem = append(mem, fmt.Sprintf("%q:%q", v, vars[len(vars)-1-i]))
		}
		docs = append(docs, "["+strings.Join(q, ",")+","+strings.Join(qr, ",")+"]", "{"+strings.Join(mem, ",")+"}")
	}
	// whitespace in every gap (before and after every delimiter), one to four characters of every kind
	for _, ws := range []string{" ", "\n", "\t", "\r\n", "  ", " \n\t ", "\r\n\r\n"} {
		toks := []string{"{", `"a"`, ":", "[", "1", ",", "2", ",", "{", `"b"`, ":", "null", ",", `"c"`, ":", "[", "]", "}", "]", ",", `"d"`, ":", `"e"`, "}"}
		docs = append(docs, ws+strings.Join(toks, ws)+ws)
		toks2 := []string{"[", "{", "}", ",", "[", "[", "]", "]", ",", `"s"`, ",", "1.5e1", ",", "true", "]"}
		docs = append(docs, strings.Join(toks2, ws))
	}
	alpha := "abcdefghijklmnopqrst"
	var fwd, rev []string
	for i := 0; i < 20; i++ {
		for j := 0; j < 20; j++ {
			s := fmt.Sprintf("%q", string([]byte{alpha[i], alpha[j]}))
			fwd = append(fwd, s)
			rev = append([]string{s}, rev...)
		}
	}
	docs = append(docs, "["+strings.Join(fwd, ",")+"]", "["+strings.Join(rev, ",")+"]", "["+strings.Join(fwd, ",")+","+strings.Join(rev, ",")+"]")
	var members []string
	for i, s := range fwd {
		members = append(members, fmt.Sprintf("%s:%s", s, rev[i]))
	}
	docs = append(docs, "{"+strings.Join(members, ",")+"}")
	// escape placement sweep: a string of length L with an escape at the start / middle / end, alone and after padding
	maxL := 300
	if r.Tier == "thorough" {
		maxL = 9000
	}
	for L := 1; L <= maxL; L++ {
		if L > 600 && L%64 > 6 && L%64 < 58 {
			continue
		}
		body := strings.Repeat("x", L)
		for _, pos := range []int{0, L / 2, L - 1} {
			for _, esc := range []string{`\n`, `\u00e9`, `\ud83d\ude00`, `é`, `😀`} {
				s := `"` + body[:pos] + esc + body[pos:] + `"`
				docs = append(docs, s, `[1,`+s+`,{"k":`+s+`}]`)
			}
		}
	}
	// wide objects and deep nesting
	for _, n := range []int{63, 64, 65, 66, 130} {
		var ms []string
		for i := 0; i < n; i++ {
			ms = append(ms, fmt.Sprintf(`"name%03d":%d`, i, i))
		}
		docs = append(docs, "{"+strings.Join(ms, ",")+"}")
	}
	docs = append(docs, strings.Repeat("[", 1000)+strings.Repeat("]", 1000), strings.Repeat(`{"a":`, 1000)+"1"+strings.Repeat("}", 1000))
	docs = append(docs, `[1e308,1e309]`, `-1e999`, `[0.1,1e-400,123456789012345678901234567890,4.9e-324,2.2250738585072011e-308,1.7976931348623157e308,1.7976931348623159e308]`)
	// number literals: integers within a radius of every power of two / ten at which an integer fast path, the
	// 53-bit mantissa or a digit-count shortcut could change behaviour, in several spellings
	radius := int64(3)
	if r.Tier == "thorough" {
		radius = 40
	}
	var centres []*big.Int
	for _, k := range []uint{31, 32, 52, 53, 54, 62, 63, 64, 65, 70, 100, 128} {
		centres = append(centres, new(big.Int).Lsh(big.NewInt(1), k))
	}
	for k := int64(15); k <= 23; k++ {
		c := new(big.Int).Exp(big.NewInt(10), big.NewInt(k), nil)
		centres = append(centres, c)
		for _, m := range []int64{2, 5, 9} {
			centres = append(centres, new(big.Int).Mul(c, big.NewInt(m)))
		}
	}
	nNum := 0
	for _, c := range centres {
		for d := -radius; d <= radius; d++ {
			v := new(big.Int).Add(c, big.NewInt(d)).String()
			for _, sp := range []string{v, "-" + v, v + ".0", v + "e0", v + "0e-1", v[:1] + "." + v[1:] + "e" + strconv.Itoa(len(v)-1)} {
				docs = append(docs, sp, "["+sp+"]", `{"k":`+sp+`}`)
				nNum++
			}
		}
	}
	// escaped surrogate pairs: every low half with three high halves, every high half with three low halves
	// (thorough: all 1024 x 1024 pairs), in lower and upper case hex, as value and as member name
	nPairs := 0
	addPair := func(hi, lo int) {
		for _, f := range []string{"\"\\u%04x\\u%04x\"", "\"\\u%04X\\u%04X\""} {
			lit := fmt.Sprintf(f, hi, lo)
			docs = append(docs, lit, "{"+lit+":["+lit+`,"x"]}`)
			nPairs++
		}
	}
	for lo := 0xDC00; lo <= 0xDFFF; lo++ {
		for _, hi := range []int{0xD800, 0xD83D, 0xDBFF} {
			addPair(hi, lo)
		}
	}
	for hi := 0xD800; hi <= 0xDBFF; hi++ {
		for _, lo := range []int{0xDC00, 0xDE00, 0xDFFF} {
			addPair(hi, lo)
		}
	}
	if r.Tier == "thorough" {
		for hi := 0xD800; hi <= 0xDBFF; hi++ {
			for lo := 0xDC00; lo <= 0xDFFF; lo++ {
				docs = append(docs, fmt.Sprintf("\"\\u%04x\\u%04x\"", hi, lo))
				nPairs++
			}
		}
	}
	enum.Parallel(r, len(docs), func(w *enum.Worker) func(int) {
		var cur []byte
		w.Describe = func() any { return Case{Input: cur, InputText: string(cur)} }
		return func(u int) {
			cur = []byte(docs[u])
			tree := refjson.Tree(cur, refjson.Opts{})
			if tree == nil {
				r.Violation("harness|"+docs[u][:min(40, len(docs[u]))], "HARNESS: stressor document is not valid", Case{Input: cur}, nil)
				return
			}
			r.Evaluations.Add(1)
			r.Nontrivial.Add(1)
			if msg := checkValid(cur, tree); msg != "" {
				report(r, cur, msg)
			}
		}
	})
	r.Sample(Case{InputText: docs[0]})
	r.Bound("stressors: %d generated documents (look-alike string pairs, 400 two-byte strings in two orders, escape placement for string lengths 1..%d, wide objects 63..130 members, 1000-deep nesting, float64 extremes, %d integer literals within +-%d of powers of two and ten in 6 spellings, %d escaped surrogate pairs)", len(docs), maxL, nNum, radius, nPairs)
}
