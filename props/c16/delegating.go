package c16

import (
	"bytes"
	"errors"
	"fmt"
	"strings"

	jsonv2 "github.com/go-json-experiment/json"
	"github.com/go-json-experiment/json/jsontext"

	"verif/internal/evid"
)

// (d) continued. A type whose UnmarshalJSON([]byte) hands its bytes to json.Unmarshal (the usual alias pattern): the
// conversion error found by the inner call must come back positioned in the whole document - outer pointer + inner
// pointer, outer offset + inner offset - wherever the value sits and wherever in it the error lies (also at its
// very first byte).

type dLevel int

func (l *dLevel) UnmarshalJSON(b []byte) error {
	var n int
	if err := jsonv2.Unmarshal(b, &n); err != nil {
		return err
	}
	*l = dLevel(n)
	return nil
}

type dPair struct{ A, B int }

func (p *dPair) UnmarshalJSON(b []byte) error {
	var v struct {
		A int   `json:"a"`
		B int   `json:"b"`
		L []int `json:"l"`
	}
	if err := jsonv2.Unmarshal(b, &v); err != nil {
		return err
	}
	p.A, p.B = v.A, v.B
	return nil
}

type dDoc struct {
	Level dLevel            `json:"level"`
	Pair  dPair             `json:"pair"`
	Items []dItem           `json:"items"`
	M     map[string]*dPair `json:"m~/"`
}
type dItem struct {
	Level dLevel `json:"level"`
	P     *dPair `json:"p"`
}

type delegCase struct {
	text string // the document with the marker @ where the offending value starts (the marker is removed)
	ptr  string
}

func delegCases() []delegCase {
	var out []delegCase
	for _, ws := range []string{"", " ", "\n\t"} {
		c := func(text, ptr string) {
			out = append(out, delegCase{strings.ReplaceAll(text, "_", ws), ptr})
		}
		c(`{"level":_@"high"}`, "/level")
		c(`{"level":_@[1]}`, "/level")
		c(`{"pair":_@"x"}`, "/pair")
		c(`{"pair":_{"a":_1,_"b":_@"x"}}`, "/pair/b")
		c(`{"pair":_{"l":_[1,_2,_@true]}}`, "/pair/l/2")
		c(`{"items":_[{"level":_1},_{"level":_@"high"}]}`, "/items/1/level")
		c(`{"items":_[{"p":_{"a":_@{}}},_{"level":_2}]}`, "/items/0/p/a")
		c(`{"items":_[{"level":_1,_"p":_@7}]}`, "/items/0/p")
		c(`{"m~/":_{"k":_{"b":_2},_"j/":_{"l":_[@"no"]}}}`, "/m~0~1/j~1/l/0")
		c(`{"m~/":_{"k":_@[]}}`, "/m~0~1/k")
	}
	return out
}

func checkDeleg(c delegCase) (msg string) {
	defer func() {
		if p := recover(); p != nil {
			msg = fmt.Sprintf("library panic: %v", p)
		}
	}()
	off := strings.Index(c.text, "@")
	doc := strings.Replace(c.text, "@", "", 1)
	for route := 0; route < 2; route++ {
		var d dDoc
		var err error
		if route == 0 {
			err = jsonv2.Unmarshal([]byte(doc), &d)
		} else {
			err = jsonv2.UnmarshalRead(&cutReader{b: []byte(doc), cut: 0}, &d)
		}
		var se *jsonv2.SemanticError
		if !errors.As(err, &se) {
			return fmt.Sprintf("Unmarshal(%s): expected a SemanticError, got %v", doc, err)
		}
		if string(se.JSONPointer) != c.ptr || int(se.ByteOffset) != off {
			return fmt.Sprintf("Unmarshal(%s) (route %d): SemanticError at %q offset %d; the value that cannot be converted is at %q offset %d", doc, route, se.JSONPointer, se.ByteOffset, c.ptr, off)
		}
	}
	return ""
}

func ptrOfDeleg(text string) string {
	for _, c := range delegCases() {
		if c.text == text {
			return c.ptr
		}
	}
	return ""
}

func delegating(r *evid.Run) {
	cases := delegCases()
	for _, c := range cases {
		if m := checkDeleg(c); m != "" {
			report(r, Case{Part: "delegating", InputText: c.text, Input: []byte(c.text)}, m)
		}
	}
	n := int64(len(cases)) * 2
	r.Evaluations.Add(n)
	r.Nontrivial.Add(n)
	r.Transitions.Add(n)
	r.Bound("(d) delegating UnmarshalJSON methods: %d documents (the offending value at the first byte of the delegated value and deeper inside it; at a member, in array elements, behind pointers, in map entries with names needing escapes; 3 white-space styles) x {Unmarshal, UnmarshalRead one byte per read}: pointer and offset exact", len(cases))
}

// (e) Marshal: the SemanticError of a value that cannot be marshaled carries the pointer of that value and the offset
// at which it would have started in the output - which is where a marshalable stand-in starts when the same value is
// marshaled with the stand-in in its place, under every formatting option.

type mErrCase struct {
	name string
	mk   func(leaf any) any
	ptr  string
}

func mErrCases() []mErrCase {
	return []mErrCase{
		{"top level", func(l any) any { return l }, ""},
		{"array element 2", func(l any) any { return []any{1, "a", l} }, "/2"},
		{"first array element", func(l any) any { return []any{l, 1} }, "/0"},
		{"member", func(l any) any { return map[string]any{"k": l} }, "/k"},
		{"nested /k/1/1", func(l any) any { return map[string]any{"k": []any{0, []any{"x", l}}} }, "/k/1/1"},
		{"struct member after others", func(l any) any {
			return struct {
				A int
				B []int
				C any `json:"c/d"`
			}{1, []int{1, 2}, l}
		}, "/c~1d"},
		{"deep", func(l any) any { return []any{[]any{[]any{map[string]any{"a": map[string]any{"b": []any{nil, l}}}}}} }, "/0/0/0/a/b/1"},
	}
}

var mErrOpts = [][]jsonv2.Options{nil, {jsontext.Multiline(true)}, {jsontext.WithIndent("")}, {jsontext.WithIndent("  ")}, {jsontext.WithIndentPrefix(" "), jsontext.WithIndent("")}, {jsontext.WithIndentPrefix("\t"), jsontext.WithIndent(" ")},
	{jsontext.SpaceAfterComma(true)}, {jsontext.SpaceAfterColon(true), jsontext.SpaceAfterComma(true)}, {jsontext.Multiline(true), jsontext.SpaceAfterColon(false)}}

func checkMarshalErr(ci, oi int) (msg string) {
	defer func() {
		if p := recover(); p != nil {
			msg = fmt.Sprintf("library panic: %v", p)
		}
	}()
	c := mErrCases()[ci]
	opts := append([]jsonv2.Options{jsonv2.Deterministic(true)}, mErrOpts[oi]...)
	const standIn = "@@stand-in@@"
	good, err := jsonv2.Marshal(c.mk(standIn), opts...)
	if err != nil {
		return "HARNESS: " + err.Error()
	}
	want := bytes.Index(good, []byte(`"`+standIn+`"`))
	for _, bad := range []any{make(chan int), func() {}, complex(1, 2)} {
		_, err := jsonv2.Marshal(c.mk(bad), opts...)
		var se *jsonv2.SemanticError
		if !errors.As(err, &se) {
			return fmt.Sprintf("Marshal(%s holding %T): expected a SemanticError, got %v", c.name, bad, err)
		}
		if string(se.JSONPointer) != c.ptr || int(se.ByteOffset) != want {
			return fmt.Sprintf("Marshal(%s holding %T) with option set %d: SemanticError at %q offset %d; the value sits at %q and a marshalable value in its place starts at offset %d of %q", c.name, bad, oi, se.JSONPointer, se.ByteOffset, c.ptr, want, good)
		}
	}
	return ""
}

func marshalErrors(r *evid.Run) {
	var n int64
	for ci := range mErrCases() {
		for oi := range mErrOpts {
			n++
			if m := checkMarshalErr(ci, oi); m != "" {
				report(r, Case{Part: "marshal-error", Program: fmt.Sprintf("%d %d", ci, oi)}, m)
			}
		}
	}
	r.Evaluations.Add(n * 3)
	r.Nontrivial.Add(n * 3)
	r.Transitions.Add(n * 3)
	r.Bound("(e) Marshal errors: %d placements of a value that cannot be marshaled (chan, func, complex) x %d formatting option sets (Multiline, empty / blank indent, indent prefix, SpaceAfterComma / Colon): pointer exact; offset == where a marshalable stand-in starts in the output of the same value under the same options", len(mErrCases()), len(mErrOpts))
}
