package c16

import (
	"errors"
	"fmt"
	"strings"

	jsonv2 "github.com/go-json-experiment/json"
	"github.com/go-json-experiment/json/jsontext"

	"verif/internal/evid"
)

// A caller's UnmarshalFromFunc that reads part of its value token by token and then gives up with a plain error:
// the SemanticError must point into the value the function was handed - at that value or at the last element the
// function read - and its offset must be the start of the value or of the last token read, wherever the value sits
// in its parent and however many elements were read.

type midElem struct{ N int }

var errMid = errors.New("midway refusal")

// midText is the value handed to the function: an array of 2-byte numbers, so offsets are easy to state.
const midCount = 9

func midText(ws string) (text string, starts []int) {
	var sb strings.Builder
	sb.WriteString("[")
	for i := 0; i < midCount; i++ {
		if i > 0 {
			sb.WriteString(",")
		}
		sb.WriteString(ws)
		starts = append(starts, sb.Len())
		fmt.Fprintf(&sb, "%d", 10+i)
	}
	sb.WriteString(ws + "]")
	return sb.String(), starts
}

// midOne places the value at position k of an array (obj=false) or as member k of an object (obj=true), lets the
// function read `[` and n elements (as tokens or as values), and checks the reported position.
func midOne(k, n int, obj, byValue bool, ws string) (msg string) {
	defer func() {
		if p := recover(); p != nil {
			msg = fmt.Sprintf("library panic: %v", p)
		}
	}()
	val, starts := midText(ws)
	var sb strings.Builder
	var ptr string
	if obj {
		sb.WriteString("{")
		for i := 0; i < k; i++ {
			fmt.Fprintf(&sb, `"m%d":%s0,`, i, ws)
		}
		fmt.Fprintf(&sb, `"m%d":%s`, k, ws)
		ptr = fmt.Sprintf("/m%d", k)
	} else {
		sb.WriteString("[")
		for i := 0; i < k; i++ {
			sb.WriteString(ws + "0,")
		}
		sb.WriteString(ws)
		ptr = fmt.Sprintf("/%d", k)
	}
	base := sb.Len()
	sb.WriteString(val)
	if obj {
		sb.WriteString(`,"z":0}`)
	} else {
		sb.WriteString(",0]")
	}
	doc := sb.String()
	fn := jsonv2.UnmarshalFromFunc(func(dec *jsontext.Decoder, e *midElem) error {
		if dec.PeekKind() != '[' {
			return dec.SkipValue()
		}
		if _, err := dec.ReadToken(); err != nil {
			return err
		}
		for i := 0; i < n; i++ {
			var err error
			if byValue {
				_, err = dec.ReadValue()
			} else {
				_, err = dec.ReadToken()
			}
			if err != nil {
				return err
			}
		}
		return errMid
	})
	var err error
	if obj {
		var m map[string]midElem
		err = jsonv2.Unmarshal([]byte(doc), &m, jsonv2.WithUnmarshalers(fn))
	} else {
		var l []midElem
		err = jsonv2.Unmarshal([]byte(doc), &l, jsonv2.WithUnmarshalers(fn))
	}
	var se *jsonv2.SemanticError
	if !errors.As(err, &se) || !errors.Is(err, errMid) {
		return fmt.Sprintf("Unmarshal(%s): expected a SemanticError wrapping the function's error, got %v", doc, err)
	}
	okPtr := []string{ptr}
	okOff := []int{base}
	if n > 0 {
		okPtr = append(okPtr, fmt.Sprintf("%s/%d", ptr, n-1))
		okOff = append(okOff, base+starts[n-1])
	}
	pOK, oOK := false, false
	for _, p := range okPtr {
		pOK = pOK || string(se.JSONPointer) == p
	}
	for _, o := range okOff {
		oOK = oOK || int(se.ByteOffset) == o
	}
	if !pOK || !oOK {
		return fmt.Sprintf("Unmarshal(%s), the function read '[' and %d elements of the value at %s (bytes %d..%d): SemanticError at %q offset %d; want pointer in %q and offset in %v (the value, or the last element read)", doc, n, ptr, base, base+len(val), se.JSONPointer, se.ByteOffset, okPtr, okOff)
	}
	return ""
}

func midway(r *evid.Run) {
	var n int64
	for _, ws := range []string{"", " "} {
		for k := 0; k <= 6; k++ {
			for cnt := 0; cnt <= midCount; cnt++ {
				for _, obj := range []bool{false, true} {
					for _, byValue := range []bool{false, true} {
						n++
						if m := midOne(k, cnt, obj, byValue, ws); m != "" {
							report(r, Case{Part: "midway", Program: fmt.Sprintf("%d %d %v %v %q", k, cnt, obj, byValue, ws)}, m)
						}
					}
				}
			}
		}
	}
	r.Evaluations.Add(n)
	r.Nontrivial.Add(n)
	r.Transitions.Add(n)
	r.Bound("(d) errors from a caller's function that gives up midway: the value at position 0..6 of an array / as member 0..6 of an object x 0..%d elements read before the refusal x {ReadToken, ReadValue} x {no white space, spaces}: pointer and offset are those of the value or of the last element read", midCount)
}
