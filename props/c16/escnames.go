package c16

import (
	"bytes"
	"errors"
	"fmt"
	"io"
	"slices"
	"strings"
	"time"

	jsonv2 "github.com/go-json-experiment/json"
	"github.com/go-json-experiment/json/jsontext"

	"verif/internal/evid"
	"verif/internal/refjson"
)

// ---- (c') error locations below member names that need RFC 6901 escaping ----

// escDocs are valid documents whose member names contain '/', '~', escape-like sequences, JSON escapes of
// those characters, the empty name and non-ASCII characters, nested so that the names lie on the path to
// every position of the text.
var escDocs = []string{
	`{"a/b":{"m~n":[1,{"~":[true,{"/":"x","~1":null}]}]},"":0}`,
	`[{"~0":{"a\/b":[{"x~/y":1}]}},{"/":[]}]`,
	`{"é/~":{"":{"~~":{"//":[0,1,{"0":"v","~01":[]}]}}}}`,
	`{"p~q":{"a/b":1,"c":2,"d/e":{"~":{}}},"/":[[{"~/":2}]]}`,
	`{"k":{"a/b":1,"c":2,"a\/b":3}}`,
	`[{"~":1,"~":2}]`,
	`{"x/y":{"~1":[{"m":0,"/":1,"m":2}]}}`,
	`{"/~":1,"/~":{"a":1}}`,
}

// escMutations returns the texts derived from doc: every truncation, every single-byte replacement and
// insertion over a small structural alphabet.
func escMutations(doc string) []string {
	var out []string
	for i := 0; i <= len(doc); i++ {
		out = append(out, doc[:i])
	}
	for i := 0; i < len(doc); i++ {
		for _, c := range []string{"x", "]", "}", ",", ":", `"`, "0", "\xff"} {
			if string(doc[i]) != c {
				out = append(out, doc[:i]+c+doc[i+1:])
			}
			out = append(out, doc[:i]+c+doc[i:])
		}
	}
	return out
}

// allowedPointers computes the JSON pointers the property admits for the first error of a text.
func allowedPointers(res *refjson.Result) []string {
	n := len(res.Stack)
	pc := refjson.Pointer(res.Stack, n-1)
	if res.Why == refjson.WhyDup {
		return []string{pc + "/" + refjson.EscapePtr(res.DupName)}
	}
	if n == 0 {
		return []string{""}
	}
	allowed := []string{pc}
	inner := res.Stack[n-1]
	switch {
	case inner.Obj && inner.Pending, !inner.Obj && inner.InValue:
		allowed = append(allowed, refjson.Pointer(res.Stack, n))
	default:
		allowed = append(allowed, string(jsontext.Pointer(pc).Parent()))
	}
	if !inner.Obj {
		allowed = append(allowed, refjson.Pointer(res.Stack, n))
	}
	return allowed
}

// encPrefixes are token sequences that leave an Encoder inside containers reached through names needing escapes.
var encPrefixes = []struct {
	toks []jsontext.Token
	text string // the bytes those tokens produce, ready for a value to follow
}{
	{nil, ""},
	{[]jsontext.Token{jsontext.BeginObject, jsontext.String("a/b")}, `{"a/b":`},
	{[]jsontext.Token{jsontext.BeginArray, jsontext.Int(1), jsontext.BeginObject, jsontext.String("~"), jsontext.BeginArray}, `[1,{"~":[`},
	{[]jsontext.Token{jsontext.BeginObject, jsontext.String("~1"), jsontext.BeginObject, jsontext.String("x"), jsontext.Null, jsontext.String("/~0/")}, `{"~1":{"x":null,"/~0/":`},
}

// checkEncoderValue: WriteValue of an invalid raw value behind prefix k must report a pointer admitted for the
// concatenation of what was written and the value.
// encFmtSets: formatting options of the Encoder; none of them may move a reported position.
var encFmtSets = [][]jsontext.Options{nil, {jsontext.SpaceAfterComma(true)}, {jsontext.SpaceAfterColon(true), jsontext.SpaceAfterComma(true)}, {jsontext.Multiline(true)}, {jsontext.WithIndent(" "), jsontext.SpaceAfterComma(false)}}

func checkEncoderValue(k int, val string, oi ...int) (msg string) {
	defer func() {
		if p := recover(); p != nil {
			msg = fmt.Sprintf("library panic: %v", p)
		}
	}()
	pre := encPrefixes[k]
	// the oracle is computed on the value alone and prefixed with the pointer of the value slot
	// (next array element / member whose name was written) taken from a parse of what the tokens produced
	res := refjson.Parse([]byte(val), refjson.Opts{})
	if res.Complete {
		return "" // a valid value: WriteValue rightly succeeds
	}
	pres := refjson.Parse([]byte(pre.text), refjson.Opts{})
	slot := refjson.Pointer(pres.Stack, len(pres.Stack))
	var bb bytes.Buffer
	var fmtOpts []jsontext.Options
	if len(oi) > 0 {
		fmtOpts = encFmtSets[oi[0]]
	}
	e := jsontext.NewEncoder(&bb, fmtOpts...)
	for _, t := range pre.toks {
		if err := e.WriteToken(t); err != nil {
			return fmt.Sprintf("HARNESS: prefix token rejected: %v", err)
		}
	}
	before := string(e.StackPointer())
	err := e.WriteValue(jsontext.Value(val))
	if err == nil {
		return "WriteValue accepted an invalid value"
	}
	var se *jsontext.SyntacticError
	if !errors.As(err, &se) {
		return fmt.Sprintf("WriteValue error is not a SyntacticError: %v", err)
	}
	if got := string(e.StackPointer()); got != before {
		return fmt.Sprintf("StackPointer changed by a rejected WriteValue: %q -> %q", before, got)
	}
	var allowed []string
	for _, p := range allowedPointers(res) {
		allowed = append(allowed, slot+p)
	}
	if len(res.Stack) == 0 {
		// the error lies in the value itself: the value slot, or the container directly containing it
		allowed = append(allowed, string(jsontext.Pointer(slot).Parent()))
	}
	if !slices.Contains(allowed, string(se.JSONPointer)) {
		return fmt.Sprintf("WriteValue(%q) after %q: JSONPointer %q, want one of %q", val, pre.text, se.JSONPointer, allowed)
	}
	if !jsontext.Pointer(se.JSONPointer).IsValid() {
		return fmt.Sprintf("WriteValue(%q): JSONPointer %q is not a valid RFC 6901 pointer", val, se.JSONPointer)
	}
	return ""
}

// checkTokenDup: a duplicate name written by tokens is reported at exactly the duplicated member.
func checkTokenDup(name string) string {
	var bb bytes.Buffer
	e := jsontext.NewEncoder(&bb)
	e.WriteToken(jsontext.BeginArray)
	e.WriteToken(jsontext.BeginObject)
	e.WriteToken(jsontext.String(name))
	e.WriteToken(jsontext.Int(1))
	err := e.WriteToken(jsontext.String(name))
	var se *jsontext.SyntacticError
	if !errors.As(err, &se) {
		return fmt.Sprintf("duplicate name %q by tokens: error %v", name, err)
	}
	if want := "/0/" + refjson.EscapePtr(name); string(se.JSONPointer) != want {
		return fmt.Sprintf("duplicate name %q by tokens: JSONPointer %q, want %q", name, se.JSONPointer, want)
	}
	return ""
}

func escapedNames(r *evid.Run) {
	var n, nenc int64
	for _, doc := range escDocs {
		for _, text := range escMutations(doc) {
			b := []byte(text)
			n++
			if m := checkInvalid(b); m != "" {
				report(r, Case{Part: "invalid-text", Input: b}, m)
			}
			for k := range encPrefixes {
				for oi := range encFmtSets {
					nenc++
					if m := checkEncoderValue(k, text, oi); m != "" {
						report(r, Case{Part: "encoder-value", Input: b, Program: fmt.Sprintf("%d %d", k, oi)}, "Encoder formatting option set "+fmt.Sprint(oi)+": "+m)
					}
				}
			}
		}
	}
	for _, name := range []string{"a/b", "~", "/", "~1", "~0", "", "m~n/", "é"} {
		n++
		if m := checkTokenDup(name); m != "" {
			report(r, Case{Part: "token-dup", InputText: name, Input: []byte(name)}, m)
		}
	}
	r.Evaluations.Add(n + nenc)
	r.Nontrivial.Add(n + nenc)
	r.Transitions.Add(n + nenc)
	r.Sample(Case{Part: "invalid-text", InputText: `{"a/b":{"m~n":[1,{"~":[true,{"/":"x","~1":x`})
	r.Bound("(c') names needing RFC 6901 escapes: %d documents x every truncation / one-byte replacement / insertion (%d texts) x {ReadToken loop, ReadValue, Unmarshal}, and the same texts as raw values given to Encoder.WriteValue behind %d token prefixes (%d calls); duplicate names by tokens", len(escDocs), n, len(encPrefixes), nenc)
}

// ---- (d') semantic errors reported before the value is read, under every reader schedule ----

type failFrom struct{}

var errFailFrom = errors.New("failFrom refuses")

func (*failFrom) UnmarshalJSONFrom(*jsontext.Decoder) error { return errFailFrom }

type befT struct {
	A int                 `json:"A"`
	C chan int            `json:"c"`
	F func()              `json:"f"`
	D time.Duration       `json:"d"`
	U failFrom            `json:"u"`
	M map[string]chan int `json:"m"`
	L []chan int          `json:"l"`
	P *func()             `json:"p"`
	S struct {
		Q chan bool `json:"a/b"`
	} `json:"s"`
	Z int
}

type befCase struct {
	text       string
	ptr        string
	start, end int
}

func befCases() (out []befCase) {
	type slot struct{ open, ptr, close string }
	slots := []slot{
		{`"c"`, "/c", ``}, {`"f"`, "/f", ``}, {`"d"`, "/d", ``}, {`"u"`, "/u", ``}, {`"p"`, "/p", ``},
		{`"m":{"k"`, "/m/k", `}`}, {`"m":{"k/"`, "/m/k~1", `}`}, {`"s":{"a/b"`, "/s/a~1b", `}`},
	}
	arr := []slot{{`"l":[`, "/l/0", `]`}}
	vals := []string{`1`, `"s"`, `[1]`, `{"k":1}`, `true`}
	for _, ws := range []string{"", " ", " \n\t  "} {
		for _, v := range vals {
			for _, s := range slots {
				head := `{"A":1,` + ws + s.open + ws + `:` + ws
				text := head + v + ws + s.close + `,"Z":2}`
				out = append(out, befCase{text, s.ptr, len(head), len(head) + len(v)})
			}
			for _, s := range arr {
				head := `{"A":1,` + ws + s.open + ws
				text := head + v + ws + s.close + `,"Z":2}`
				out = append(out, befCase{text, s.ptr, len(head), len(head) + len(v)})
			}
		}
	}
	return out
}

type cutReader struct {
	b    []byte
	cut  int // first Read returns b[:cut] (0: one byte per Read)
	done int
}

func (c *cutReader) Read(p []byte) (int, error) {
	if c.done >= len(c.b) {
		return 0, io.EOF
	}
	n := 1
	if c.cut > 0 {
		if c.done < c.cut {
			n = c.cut - c.done
		} else {
			n = len(c.b) - c.done
		}
	}
	n = min(n, len(p), len(c.b)-c.done)
	copy(p, c.b[c.done:c.done+n])
	c.done += n
	return n, nil
}

func checkBefore(c befCase) (msg string) {
	defer func() {
		if p := recover(); p != nil {
			msg = fmt.Sprintf("library panic: %v", p)
		}
	}()
	var t befT
	err := jsonv2.Unmarshal([]byte(c.text), &t)
	var se *jsonv2.SemanticError
	if !errors.As(err, &se) {
		return fmt.Sprintf("expected a SemanticError at %q, got %v", c.ptr, err)
	}
	if string(se.JSONPointer) != c.ptr {
		return fmt.Sprintf("SemanticError.JSONPointer = %q, want %q", se.JSONPointer, c.ptr)
	}
	if int(se.ByteOffset) < c.start || int(se.ByteOffset) > c.end {
		return fmt.Sprintf("SemanticError.ByteOffset = %d, the value that cannot be converted spans [%d,%d]", se.ByteOffset, c.start, c.end)
	}
	for cut := 0; cut < len(c.text); cut++ {
		var t2 befT
		err := jsonv2.UnmarshalRead(&cutReader{b: []byte(c.text), cut: cut}, &t2)
		var se2 *jsonv2.SemanticError
		if !errors.As(err, &se2) || se2.JSONPointer != se.JSONPointer || se2.ByteOffset != se.ByteOffset {
			how := fmt.Sprintf("first read of %d bytes", cut)
			if cut == 0 {
				how = "one byte per read"
			}
			got := fmt.Sprint(err)
			if se2 != nil {
				got = fmt.Sprintf("%q@%d", se2.JSONPointer, se2.ByteOffset)
			}
			return fmt.Sprintf("UnmarshalRead (%s) reports %s, Unmarshal reports %q@%d (value spans [%d,%d])", how, got, se.JSONPointer, se.ByteOffset, c.start, c.end)
		}
	}
	return ""
}

func semanticBefore(r *evid.Run) {
	cases := befCases()
	var n int64
	for _, c := range cases {
		n += int64(len(c.text)) + 1
		if m := checkBefore(c); m != "" {
			report(r, Case{Part: "semantic-before", InputText: c.text, Input: []byte(c.text)}, m)
		}
	}
	r.Evaluations.Add(n)
	r.Nontrivial.Add(n)
	r.Transitions.Add(n)
	r.Sample(Case{Part: "semantic-before", InputText: cases[len(cases)/2].text})
	r.Bound("(d') semantic errors detected before the value is read (chan, func, pointer to func, Duration without format, failing UnmarshalJSONFrom; as struct member, map value, slice element, below a name needing escapes): %d texts x {Unmarshal, UnmarshalRead with one byte per read and with every two-chunk split}: pointer exact, offset within the value and identical on every route", len(cases))
}

func replayExtra(cs Case) (string, bool) {
	switch cs.Part {
	case "encoder-value":
		var k, oi int
		fmt.Sscan(cs.Program, &k, &oi)
		if k < 0 || k >= len(encPrefixes) || oi < 0 || oi >= len(encFmtSets) {
			return "", true
		}
		return checkEncoderValue(k, string(cs.Input), oi), true
	case "token-dup":
		return checkTokenDup(string(cs.Input)), true
	case "delegating":
		return checkDeleg(delegCase{text: cs.InputText, ptr: ptrOfDeleg(cs.InputText)}), true
	case "marshal-error":
		var ci, oi int
		if n, _ := fmt.Sscanf(cs.Program, "%d %d", &ci, &oi); n == 2 && ci >= 0 && ci < len(mErrCases()) && oi >= 0 && oi < len(mErrOpts) {
			return checkMarshalErr(ci, oi), true
		}
		return "", true
	case "midway":
		var k, cnt int
		var obj, byValue bool
		var ws string
		if n, _ := fmt.Sscanf(cs.Program, "%d %d %t %t %q", &k, &cnt, &obj, &byValue, &ws); n == 5 && k >= 0 && k < 64 && cnt >= 0 && cnt <= midCount {
			return midOne(k, cnt, obj, byValue, ws), true
		}
		return "", true
	case "semantic-before":
		for _, c := range befCases() {
			if c.text == cs.InputText || c.text == string(cs.Input) {
				return checkBefore(c), true
			}
		}
		return "", true
	}
	return "", false
}

var _ = strings.Repeat
