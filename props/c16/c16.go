// Package c16: reported positions are truthful (offsets, stack pointers, error locations).
package c16

import (
	"bytes"
	"encoding/json"
	"errors"
	"fmt"
	"io"
	"slices"
	"strconv"
	"strings"

	jsonv2 "github.com/go-json-experiment/json"
	"github.com/go-json-experiment/json/jsontext"

	"verif/internal/enum"
	"verif/internal/evid"
	"verif/internal/refjson"
	"verif/internal/views"
	"verif/props/c05"
	"verif/props/c06"
)

type Case struct {
	Part      string   `json:"part"`
	Input     []byte   `json:"input,omitempty"`
	InputText string   `json:"input_text,omitempty"`
	Program   string   `json:"program,omitempty"`
	Ops       []string `json:"ops,omitempty"`
	Tokens    []string `json:"tokens,omitempty"`
}

// ---- (c) error locations on invalid texts ----

type plain struct{ r *bytes.Reader }

func (p plain) Read(b []byte) (int, error) { return p.r.Read(b) }

// syntactic returns the SyntacticError produced by one of three paths on input b.
func syntactic(path int, b []byte) (*jsontext.SyntacticError, error) {
	var err error
	switch path {
	case 0: // token path
		d := jsontext.NewDecoder(plain{bytes.NewReader(b)})
		for {
			if _, err = d.ReadToken(); err != nil {
				break
			}
		}
	case 1: // value path
		d := jsontext.NewDecoder(plain{bytes.NewReader(b)})
		for {
			if _, err = d.ReadValue(); err != nil {
				break
			}
		}
	case 2:
		var v any
		err = jsonv2.Unmarshal(b, &v)
	}
	if err == io.EOF {
		return nil, nil
	}
	var se *jsontext.SyntacticError
	if errors.As(err, &se) {
		return se, err
	}
	return nil, err
}

var pathNames = []string{"ReadToken loop", "ReadValue", "Unmarshal(any)"}

// checkInvalid checks the error location of every path on a text that is invalid under default options.
func checkInvalid(b []byte) (msg string) {
	defer func() {
		if p := recover(); p != nil {
			msg = fmt.Sprintf("library panic: %v", p)
		}
	}()
	for path := range pathNames {
		o := refjson.Opts{Stream: path != 2}
		res := refjson.Parse(b, o)
		if res.Complete {
			continue // a valid stream for the decoder paths
		}
		if path == 2 {
			// Unmarshal may report a float64 overflow of an earlier number as SemanticError before it meets the syntax error
			var v any
			err := jsonv2.Unmarshal(b, &v)
			var sem *jsonv2.SemanticError
			if errors.As(err, &sem) {
				var syn *jsontext.SyntacticError
				if !errors.As(err, &syn) {
					continue
				}
			}
		}
		se, err := syntactic(path, b)
		if se == nil {
			return fmt.Sprintf("%s: invalid text did not produce a SyntacticError (err=%v)", pathNames[path], err)
		}
		e := len(b)
		if res.Dead {
			e = res.DeadAt
		}
		off := int(se.ByteOffset)
		if off < 0 || off > len(b) {
			return fmt.Sprintf("%s: ByteOffset %d outside the input", pathNames[path], off)
		}
		if !refjson.Viable(b[:off], o) {
			return fmt.Sprintf("%s: bytes before ByteOffset %d are not a viable JSON prefix (first non-viable byte at %d)", pathNames[path], off, e)
		}
		// the offending token starts at or contains the offset: lower bound = start of the token containing e,
		// or the ',' / ':' directly preceding it
		lb := e
		if res.TokStart >= 0 {
			lb = res.TokStart
		}
		j := lb
		for j > 0 && strings.IndexByte(" \t\r\n", b[j-1]) >= 0 {
			j--
		}
		if j > 0 && (b[j-1] == ',' || b[j-1] == ':') {
			lb = j - 1
		}
		if off < lb {
			return fmt.Sprintf("%s: ByteOffset %d lies before the offending token (which starts at %d; first non-viable byte %d)", pathNames[path], off, lb, e)
		}
		// pointer
		n := len(res.Stack)
		pc := refjson.Pointer(res.Stack, n-1) // the innermost open container itself
		allowed := []string{pc}
		if res.Why == refjson.WhyDup {
			allowed = []string{pc + "/" + refjson.EscapePtr(res.DupName)}
		} else if n == 0 {
			allowed = []string{""}
		} else {
			inner := res.Stack[n-1]
			switch {
			case inner.Obj && inner.Pending, !inner.Obj && inner.InValue:
				// the error lies in an open value slot: the member whose name is complete / the element in progress
				allowed = append(allowed, refjson.Pointer(res.Stack, n))
			default:
				allowed = append(allowed, string(jsontext.Pointer(pc).Parent()))
			}
			if !inner.Obj {
				// in an array the next element slot is the value in which an error at element position lies
				allowed = append(allowed, refjson.Pointer(res.Stack, n))
			}
		}
		if !slices.Contains(allowed, string(se.JSONPointer)) {
			return fmt.Sprintf("%s: JSONPointer %q, want one of %q (innermost open container %q, first non-viable byte %d)", pathNames[path], se.JSONPointer, allowed, pc, e)
		}
	}
	return ""
}

// ---- (b) Pointer algebra ----

// ptrTokens splits an RFC 6901 pointer into its unescaped reference tokens.
func ptrTokens(p string) []string {
	if p == "" {
		return nil
	}
	var out []string
	for _, t := range strings.Split(p[1:], "/") {
		out = append(out, strings.ReplaceAll(strings.ReplaceAll(t, "~1", "/"), "~0", "~"))
	}
	return out
}

func checkPointer(toks []string) string {
	var p jsontext.Pointer
	var want strings.Builder
	for i, t := range toks {
		parent := p
		p = p.AppendToken(t)
		want.WriteString("/" + refjson.EscapePtr(t))
		if string(p) != want.String() {
			return fmt.Sprintf("AppendToken chain = %q, RFC 6901 = %q", p, want.String())
		}
		if !p.IsValid() {
			return fmt.Sprintf("%q reported invalid", p)
		}
		if p.Parent() != parent {
			return fmt.Sprintf("%q.Parent() = %q, want %q", p, p.Parent(), parent)
		}
		if p.LastToken() != t {
			return fmt.Sprintf("%q.LastToken() = %q, want %q", p, p.LastToken(), t)
		}
		if !parent.Contains(p) || !p.Contains(p) || (p.Contains(parent)) {
			return fmt.Sprintf("Contains inconsistent for %q / %q", parent, p)
		}
		var got []string
		for x := range p.Tokens() {
			got = append(got, x)
		}
		if !slices.Equal(got, toks[:i+1]) {
			return fmt.Sprintf("%q.Tokens() = %q, want %q", p, got, toks[:i+1])
		}
	}
	return ""
}

// ---- (d) semantic error locations ----

type semT struct {
	A int
	B []int
	C map[string]int
	D *struct{ E bool }
	F [2]uint16
	G string
	H float64
	I struct {
		J []struct{ K int8 } `json:"m~/n"`
	}
}

// semCases builds (text, pointer, start, end) with exactly one unconvertible value.
func semCases() (out []struct {
	text       string
	ptr        string
	start, end int
}) {
	type slot struct{ ptr, good string }
	slots := []slot{{"/A", "1"}, {"/B/0", "2"}, {"/B/1", "3"}, {"/C/k", "4"}, {"/C/", "5"}, {"/D/E", "true"}, {"/F/0", "6"}, {"/F/1", "7"}, {"/G", `"s"`}, {"/H", "1.5"}, {"/I/m~0~1n/0/K", "8"}, {"/I/m~0~1n/1/K", "9"}}
	bad := map[string][]string{
		"1": {`"x"`, "true", "[]", "{}", "1.5", "1e30"}, "2": {`"x"`, "false", "{}"}, "3": {`""`, "[1]"}, "4": {`"x"`, "[]"}, "5": {"true"},
		"true": {"1", `"true"`, "[]"}, "6": {"-1", "65536", `"1"`}, "7": {"1.0e0x"[:5], "{}"}, `"s"`: {"1", "true", "[]", "{}"}, "1.5": {`"x"`, "true", "[]"}, "8": {"128", `"8"`}, "9": {"-129", "[]"},
	}
	for _, ws := range []string{"", " ", "\n\t"} {
		for si, s := range slots {
			for _, b := range bad[s.good] {
				val := func(i int) string {
					if i == si {
						return "\x00"
					}
					return slots[i].good
				}
				text := fmt.Sprintf(`{"A":%s%s,"B":[%s,%s%s],"C":{"k":%s%s,"":%s},"D":{"E":%s%s},"F":[%s,%s],"G":%s%s,"H":%s,"I":{"m~/n":[{"K":%s%s},{"K":%s}]}}`,
					ws, val(0), val(1), ws, val(2), ws, val(3), val(4), ws, val(5), val(6), val(7), ws, val(8), val(9), ws, val(10), val(11))
				i := strings.IndexByte(text, 0)
				text = text[:i] + b + text[i+1:]
				out = append(out, struct {
					text       string
					ptr        string
					start, end int
				}{text, s.ptr, i, i + len(b)})
			}
		}
	}
	// container-level slots: a literal or value of the wrong kind where the Go type needs an array or object
	// (targets read with ReadToken: the position is reconstructed from the previous token)
	full := `{"A":1,"B":[2,3],"C":{"k":4,"":5},"D":{"E":true},"F":[6,7],"G":"s","H":1.5,"I":{"m~/n":[{"K":8},{"K":9}]}}`
	for _, c := range []struct{ ptr, good string }{{"/B", `[2,3]`}, {"/C", `{"k":4,"":5}`}, {"/D", `{"E":true}`}, {"/F", `[6,7]`}, {"/I", `{"m~/n":[{"K":8},{"K":9}]}`}, {"/I/m~0~1n", `[{"K":8},{"K":9}]`}, {"/I/m~0~1n/0", `{"K":8}`}} {
		i := strings.Index(full, c.good)
		for _, b := range []string{"false", "true", "1", `"s"`, "1.5e1"} {
			for _, ws := range []string{"", " \n"} {
				text := full[:i] + ws + b + full[i+len(c.good):]
				out = append(out, struct {
					text       string
					ptr        string
					start, end int
				}{text, c.ptr, i + len(ws), i + len(ws) + len(b)})
			}
		}
	}
	return out
}

func checkSem(text, ptr string, start, end int) string {
	var t semT
	err := jsonv2.Unmarshal([]byte(text), &t)
	var se *jsonv2.SemanticError
	if !errors.As(err, &se) {
		return fmt.Sprintf("expected a SemanticError at %q, got %v", ptr, err)
	}
	if string(se.JSONPointer) != ptr {
		return fmt.Sprintf("SemanticError.JSONPointer = %q, want %q", se.JSONPointer, ptr)
	}
	if int(se.ByteOffset) < start || int(se.ByteOffset) > end {
		return fmt.Sprintf("SemanticError.ByteOffset = %d, offending value spans [%d,%d]", se.ByteOffset, start, end)
	}
	// the same through a streaming decoder must give the same location
	var t2 semT
	err = jsonv2.UnmarshalRead(plain{bytes.NewReader([]byte(text))}, &t2)
	var se2 *jsonv2.SemanticError
	if !errors.As(err, &se2) || se2.JSONPointer != se.JSONPointer || se2.ByteOffset != se.ByteOffset {
		return fmt.Sprintf("UnmarshalRead reports %v, Unmarshal reports %q@%d", err, se.JSONPointer, se.ByteOffset)
	}
	return ""
}

func report(r *evid.Run, cs Case, msg string) {
	cs.Input = append([]byte(nil), cs.Input...)
	if cs.InputText == "" {
		cs.InputText = string(cs.Input)
	}
	key := fmt.Sprintf("c16|%s|%q|%s|%q|%q", cs.Part, cs.Input, cs.Program, cs.Ops, cs.Tokens)
	r.Violation(key, msg, cs, func() bool { return replayCase(cs) != "" })
}

func replayCase(cs Case) string {
	if m, ok := replayExtra(cs); ok {
		return m
	}
	switch cs.Part {
	case "invalid-text":
		return checkInvalid(cs.Input)
	case "pointer-algebra":
		return checkPointer(cs.Tokens)
	case "pointer-contains":
		if len(cs.Tokens) == 2 {
			a, b := ptrTokens(cs.Tokens[0]), ptrTokens(cs.Tokens[1])
			want := len(a) <= len(b) && slices.Equal(a, b[:len(a)])
			if jsontext.Pointer(cs.Tokens[0]).Contains(jsontext.Pointer(cs.Tokens[1])) != want {
				return fmt.Sprintf("Pointer(%q).Contains(%q) = %v, token lists say %v", cs.Tokens[0], cs.Tokens[1], !want, want)
			}
		}
	case "decoder-positions":
		return c05.CheckPositions(cs.Input, cs.Program)
	case "encoder-positions":
		if cs.Program == "" {
			cs.Program = "default"
		}
		return c06.ReplayCase(c06.Case{OptSet: cs.Program, Ops: cs.Ops})
	case "semantic":
		for _, c := range semCases() {
			if c.text == cs.InputText {
				return checkSem(c.text, c.ptr, c.start, c.end)
			}
		}
	}
	return ""
}

func Replay(r *evid.Run, raw json.RawMessage) {
	var cs Case
	if json.Unmarshal(raw, &cs) != nil {
		return
	}
	r.States.Add(1)
	r.Transitions.Add(1)
	r.Sample(cs)
	if msg := replayCase(cs); msg != "" {
		fmt.Println("replay fails:", msg)
		r.Violation("replay", msg, cs, nil)
	} else {
		fmt.Println("replay passes")
	}
}

func Run(r *evid.Run) {
	r.Rule("(a) explicit-state: pointer-sensitive documents (names \"\", \"a/b\", \"m~n\", \"0\", \"é\"; nesting <=3) x every ReadToken/ReadValue/SkipValue/PeekKind program up to a length bound on a real Decoder, and every WriteToken/WriteValue sequence of length <=d over a pointer-sensitive alphabet on a real Encoder, each compared after EVERY call with the reference model (offset, depth, index, pointer); (b) Pointer algebra on all token sequences of length <=3 over 9 reference tokens; (c) every string of the alphabet views that is invalid under default options x {ReadToken loop, ReadValue, Unmarshal}: bytes before ByteOffset form a viable prefix, the offset is not before the offending token, JSONPointer designates the innermost value slot or its container (duplicate name: exactly the member); (d) struct texts with exactly one unconvertible value at each of 12 positions x wrong-kind literals x whitespace: SemanticError pointer exact, offset within the value, same via UnmarshalRead. states = distinct (document, call-prefix) / (sequence-prefix) model states; transitions = calls compared; traces = complete executions")
	r.Assume("reference recognizer (viable-prefix, open-container stack) and coder models in internal/refjson")
	decoderPositions(r)
	c05.SparsePointers(r, "c16")
	encoderPositions(r)
	pointerAlgebra(r)
	invalidTexts(r)
	escapedNames(r)
	semantic(r)
	semanticBefore(r)
	midway(r)
	delegating(r)
	marshalErrors(r)
}

func decoderPositions(r *evid.Run) {
	names := []string{``, `a/b`, `m~n`, `0`, `é`}
	var docs []string
	// all documents from a small grammar: depth <= 3, containers with <= 2 entries
	var gen func(depth int) []string
	memo := map[int][]string{}
	gen = func(depth int) []string {
		if v, ok := memo[depth]; ok {
			return v
		}
		out := []string{`1`, `"s"`}
		if depth > 0 {
			sub := gen(depth - 1)
			out = append(out, `[]`, `{}`)
			for _, a := range sub {
				out = append(out, `[`+a+`]`)
				for ni, n := range names {
					if (len(a)+ni)%3 == 0 || depth == 1 { // thin out deterministically
						out = append(out, fmt.Sprintf(`{%s:%s}`, strconv.Quote(n), a))
					}
				}
			}
			for i, a := range sub {
				b := sub[(i*7+3)%len(sub)]
				out = append(out, `[`+a+`, `+b+`]`, fmt.Sprintf(`{%s:%s,%s:%s}`, strconv.Quote(names[i%5]), a, strconv.Quote(names[(i+2)%5]), b))
			}
		}
		memo[depth] = out
		return out
	}
	maxDepth, progLen := 2, 5
	if r.Tier == "thorough" {
		maxDepth, progLen = 3, 7
	}
	docs = gen(maxDepth)
	if len(docs) > 4000 && r.Tier != "thorough" {
		docs = docs[:4000]
	}
	enum.Parallel(r, len(docs), func(w *enum.Worker) func(int) {
		var cur Case
		w.Describe = func() any { return cur }
		var tr, traces int64
		w.Done = func() {
			r.Transitions.Add(tr)
			r.Traces.Add(traces)
			r.States.Add(tr)
			r.Evaluations.Add(traces)
			r.Nontrivial.Add(traces)
		}
		return func(u int) {
			in := []byte(docs[u] + " " + docs[(u*13+5)%len(docs)]) // a stream of two values
			ntok := len(refjson.Parse(in, refjson.Opts{Stream: true}).Toks)
			var progs []string
			if ntok+1 <= progLen {
				progs = c05.Programs(ntok+1, -1, "TVSP")
			} else {
				progs = c05.Programs(min(ntok+1, 2*progLen), 2, "TVSP")
			}
			for _, p := range progs {
				cur = Case{Part: "decoder-positions", Input: in, Program: p}
				traces++
				tr += int64(len(p))
				if m := c05.CheckPositions(in, p); m != "" {
					report(r, cur, m)
				}
				w.Beat()
			}
		}
	})
	r.Sample(Case{Part: "decoder-positions", InputText: docs[len(docs)/3], Program: "TPVTS"})
	r.Bound("(a) decoder: %d pointer-sensitive documents (two-value streams) x all programs of <=%d calls (<=2 deviations beyond)", len(docs), progLen)
}

func encoderPositions(r *evid.Run) {
	alpha := []c06.Op{
		c06.Tok("{", jsontext.BeginObject, '{', "", ""), c06.Tok("}", jsontext.EndObject, '}', "", ""),
		c06.Tok("[", jsontext.BeginArray, '[', "", ""), c06.Tok("]", jsontext.EndArray, ']', "", ""),
		c06.Tok(`""`, jsontext.String(""), '"', "", ""), c06.Tok(`"a/b"`, jsontext.String("a/b"), '"', "a/b", ""),
		c06.Tok(`"m~n"`, jsontext.String("m~n"), '"', "m~n", ""), c06.Tok(`"0"`, jsontext.String("0"), '"', "0", ""),
		c06.Tok("1", jsontext.Int(1), '0', "", "1"), c06.Raw(`{"é":[1,{"~1":2}]}`), c06.Raw(`"~0"`),
	}
	d := 5
	if r.Tier == "thorough" {
		d = 6
	}
	k := len(alpha)
	for _, o := range []*c06.OptSet{&c06.OptSets()[0], &c06.OptSets()[1]} { // default and AllowDuplicateNames (names are tracked by different code)
		encoderPositionsFor(r, o, alpha, d)
	}
	r.Bound("(a) encoder: all %d^%d call sequences over a pointer-sensitive alphabet, with and without AllowDuplicateNames", k, d)
}

func encoderPositionsFor(r *evid.Run, o *c06.OptSet, alpha []c06.Op, d int) {
	k := len(alpha)
	enum.Parallel(r, k*k, func(w *enum.Worker) func(int) {
		seq := make([]int, d)
		var tr, traces int64
		w.Describe = func() any { return Case{Part: "encoder-positions", Ops: lab(alpha, seq), Program: o.Name} }
		w.Done = func() {
			r.Transitions.Add(tr)
			r.Traces.Add(traces)
			r.States.Add(tr)
			r.Evaluations.Add(traces)
			r.Nontrivial.Add(traces)
		}
		return func(u int) {
			seq[0], seq[1] = u/k, u%k
			var rec func(pos int)
			rec = func(pos int) {
				if pos == d {
					traces++
					tr += int64(d)
					if step, m := c06.CheckSeq(o, alpha, seq); m != "" {
						report(r, Case{Part: "encoder-positions", Ops: lab(alpha, seq[:step+1]), Program: o.Name}, m)
					}
					w.Beat()
					return
				}
				for i := 0; i < k; i++ {
					seq[pos] = i
					rec(pos + 1)
				}
			}
			rec(2)
		}
	})
}

func lab(alpha []c06.Op, seq []int) []string {
	out := make([]string, len(seq))
	for i, k := range seq {
		out[i] = alpha[k].M.Label
	}
	return out
}

func pointerAlgebra(r *evid.Run) {
	toks := []string{"", "a", "/", "~", "~0", "~1", "0", "~01", "a/b~c"}
	var n int64
	var rec func(cur []string)
	rec = func(cur []string) {
		if len(cur) > 0 {
			n++
			if m := checkPointer(cur); m != "" {
				report(r, Case{Part: "pointer-algebra", Tokens: append([]string(nil), cur...)}, m)
			}
		}
		if len(cur) == 3 {
			return
		}
		for _, t := range toks {
			rec(append(cur, t))
		}
	}
	rec(nil)
	// Contains is "is a prefix of" on token lists (not on text): every pair of a pointer of <=2 tokens and one of <=3
	ctoks := append(append([]string{}, toks...), "ab", "1", "10", "a~")
	var short, long [][]string
	var gen func(cur []string, max int, out *[][]string)
	gen = func(cur []string, max int, out *[][]string) {
		*out = append(*out, append([]string(nil), cur...))
		if len(cur) == max {
			return
		}
		for _, t := range ctoks {
			gen(append(cur, t), max, out)
		}
	}
	gen(nil, 2, &short)
	gen(nil, 3, &long)
	build := func(ts []string) jsontext.Pointer {
		var sb strings.Builder
		for _, t := range ts {
			sb.WriteString("/" + refjson.EscapePtr(t))
		}
		return jsontext.Pointer(sb.String())
	}
	var npairs int64
	for _, a := range short {
		pa := build(a)
		for _, b := range long {
			npairs++
			want := len(a) <= len(b) && slices.Equal(a, b[:len(a)])
			if pb := build(b); pa.Contains(pb) != want {
				report(r, Case{Part: "pointer-contains", Tokens: []string{string(pa), string(pb)}}, fmt.Sprintf("Pointer(%q).Contains(%q) = %v, but the token lists %q / %q say %v", pa, pb, !want, a, b, want))
			}
		}
	}
	n += npairs
	r.Bound("(b) Contains: %d pairs (pointer of <=2 tokens, pointer of <=3 tokens) over %d tokens, among them tokens that are textual prefixes of one another: true exactly when the first token list is a prefix of the second", npairs, len(ctoks))
	// invalid pointers must be reported invalid
	for _, bad := range []string{"a", "/~", "/~2", "/a~", "~0"} {
		if jsontext.Pointer(bad).IsValid() {
			report(r, Case{Part: "pointer-algebra", Tokens: []string{"IsValid", bad}}, fmt.Sprintf("Pointer(%q).IsValid() = true", bad))
		}
	}
	r.Evaluations.Add(n)
	r.Nontrivial.Add(n)
	r.Transitions.Add(n)
	r.Sample(Case{Part: "pointer-algebra", Tokens: []string{"~01", "/", ""}})
	r.Bound("(b) pointer algebra: all %d token sequences of length <=3 over %d reference tokens", n, len(toks))
}

func invalidTexts(r *evid.Run) {
	lens := views.ForTier(r.Tier)
	vs := views.Views(lens)
	views.ForAll(r, vs, func(w *enum.Worker, v views.View) func([]byte) {
		var p refjson.Parser
		var cur []byte
		w.Describe = func() any { return Case{Part: "invalid-text", Input: cur} }
		var n, nt int64
		w.Done = func() { r.Evaluations.Add(n); r.Nontrivial.Add(nt); r.Transitions.Add(n) }
		return func(s []byte) {
			p.O = refjson.Opts{NoToks: true}
			res := p.Run(s)
			if res.Complete {
				return
			}
			cur = s
			n++
			if (res.Dead && res.DeadAt >= 2) || (!res.Dead && len(s) >= 2) {
				nt++
			}
			if m := checkInvalid(s); m != "" {
				report(r, Case{Part: "invalid-text", Input: s}, m)
			}
		}
	})
	r.Sample(Case{Part: "invalid-text", InputText: `{"a":{"b":1]`})
}

func semantic(r *evid.Run) {
	cases := semCases()
	for _, c := range cases {
		r.Evaluations.Add(1)
		r.Nontrivial.Add(1)
		r.Transitions.Add(1)
		if m := checkSem(c.text, c.ptr, c.start, c.end); m != "" {
			report(r, Case{Part: "semantic", InputText: c.text, Input: []byte(c.text)}, m)
		}
	}
	r.Sample(Case{Part: "semantic", InputText: cases[0].text})
	r.Bound("(d) semantic errors: %d struct texts with exactly one unconvertible value", len(cases))
}
