package c08

import (
	"fmt"
	"strings"
	"unicode/utf8"

	jsonv2 "github.com/go-json-experiment/json"
	"github.com/go-json-experiment/json/jsontext"

	"verif/internal/evid"
	"verif/internal/refjson"
	"verif/internal/typeuniv"
)

// marshal grid: every carrier of member names x every pair of names that are distinct as Go/raw bytes but
// become equal once written (U+FFFD substitution, escape spelling, a struct field of the same name) x the four
// Allow* combinations. Oracle: a nil error implies output that is valid under the effective options, i.e. has no
// duplicate names unless AllowDuplicateNames is set; with both options set the call must succeed.

type namePair struct {
	a, b    string // Go strings (ill-formed bytes allowed)
	collide bool   // equal after U+FFFD substitution
}

func namePairs() []namePair {
	return []namePair{
		{"\xff", "\xfe", true}, {"\xff", "�", true}, {"a\xff", "a\xfe", true}, {"\xc0", "\xc1", true}, {"\xed\xa0\x80", "\xff\xff\xff", true},
		{"\xff", "\xff\xff", false}, {"a\xff", "b\xff", false}, {"x", "y", false}, {"\xe2\x82", "\xf0\x9f", true}, {"k\xffk", "k�k", true},
		{"caf\xc3", "caf\xc4", true}, {"\xdf", "\xc2", true}, {"\xc3", "\xc3(", false}, {"ok\xc3", "ok\xc3\xa9", false},
	}
}

func rawName(s string) string {
	// a raw JSON string literal holding the bytes of s verbatim (no escapes needed for the bytes used here)
	return `"` + s + `"`
}

type mgCarrier struct {
	name  string
	build func(p namePair) any
}

type fbRawOnly struct {
	X jsontext.Value `json:",embed"`
}
type fbMapOnly struct {
	X map[string]int `json:",embed"`
}
type fbMapNamed struct {
	X map[typeuniv.NamedString]any `json:",embed"`
}

func mgCarriers() []mgCarrier {
	return []mgCarrier{
		{"map[string]int keys", func(p namePair) any { return map[string]int{p.a: 1, p.b: 2} }},
		{"map[NamedString]any keys, nested", func(p namePair) any {
			return []any{map[typeuniv.NamedString]any{typeuniv.NamedString(p.a): 1, typeuniv.NamedString(p.b): nil}}
		}},
		{"map[string]any behind any", func(p namePair) any { return map[string]any{"outer": map[string]any{p.a: 1, p.b: 2}} }},
		{"embedded fallback map", func(p namePair) any { return fbMapOnly{map[string]int{p.a: 1, p.b: 2}} }},
		{"embedded fallback map with named keys", func(p namePair) any {
			return &fbMapNamed{map[typeuniv.NamedString]any{typeuniv.NamedString(p.a): 1, typeuniv.NamedString(p.b): 2}}
		}},
		{"embedded fallback raw value", func(p namePair) any {
			return fbRawOnly{jsontext.Value("{" + rawName(p.a) + ":1," + rawName(p.b) + ":2}")}
		}},
		{"embedded fallback raw value next to a field", func(p namePair) any {
			return fbRaw{A: 1, X: jsontext.Value("{" + rawName(p.a) + ":1," + rawName(p.b) + ":2}")}
		}},
		{"raw value member", func(p namePair) any {
			return map[string]jsontext.Value{"k": jsontext.Value("{" + rawName(p.a) + ":1," + rawName(p.b) + ":2}")}
		}},
		{"raw value element, nested object", func(p namePair) any {
			return []jsontext.Value{jsontext.Value(`[{"in":{` + rawName(p.a) + `:1,` + rawName(p.b) + `:2}}]`)}
		}},
		{"MarshalJSONTo writing the two names as tokens", func(p namePair) any { return tokNames{p.a, p.b} }},
		{"MarshalJSON returning the object", func(p namePair) any { return rawNames{"{" + rawName(p.a) + ":1," + rawName(p.b) + ":2}"} }},
		{"text-marshaler keys", func(p namePair) any { return map[textName]int{{p.a, 1}: 1, {p.b, 2}: 2} }},
		{"text-appender-only keys of string kind", func(p namePair) any { return map[appS]int{appS("1|" + p.a): 1, appS("2|" + p.b): 2} }},
		{"text-appender-only keys of int kind", func(p namePair) any { appTexts[1], appTexts[2] = p.a, p.b; return map[appI]int{1: 1, 2: 2} }},
		{"text-appender-only keys of uint8 kind behind any", func(p namePair) any {
			appTexts[1], appTexts[2] = p.a, p.b
			return []any{map[appU]any{1: nil, 2: 2}}
		}},
		{"text-appender-only keys of bool kind", func(p namePair) any { appTexts[0], appTexts[1] = p.a, p.b; return map[appB]int{false: 1, true: 2} }},
		{"text-appender-only keys of struct kind", func(p namePair) any { return map[appStruct]int{{p.a, 1}: 1, {p.b, 2}: 2} }},
		{"keys with MarshalText and AppendText, string kind", func(p namePair) any { return map[bothS]int{bothS("1|" + p.a): 1, bothS("2|" + p.b): 2} }},
	}
}

type tokNames struct{ a, b string }

func (t tokNames) MarshalJSONTo(e *jsontext.Encoder) error {
	for _, tk := range []jsontext.Token{jsontext.BeginObject, jsontext.String(t.a), jsontext.Int(1), jsontext.String(t.b), jsontext.Int(2), jsontext.EndObject} {
		if err := e.WriteToken(tk); err != nil {
			return err
		}
	}
	return nil
}

type rawNames struct{ text string }

func (r rawNames) MarshalJSON() ([]byte, error) { return []byte(r.text), nil }

type textName struct {
	s  string
	id int
}

func (t textName) MarshalText() ([]byte, error) { return []byte(t.s), nil }

// key types whose only user-defined representation is encoding.TextAppender; two distinct Go keys may append the same text
var appTexts [3]string

type appS string

func (a appS) AppendText(b []byte) ([]byte, error) {
	return append(b, a[strings.IndexByte(string(a), '|')+1:]...), nil
}

type appI int

func (a appI) AppendText(b []byte) ([]byte, error) { return append(b, appTexts[a]...), nil }

type appU uint8

func (a appU) AppendText(b []byte) ([]byte, error) { return append(b, appTexts[a]...), nil }

type appB bool

func (a appB) AppendText(b []byte) ([]byte, error) {
	if a {
		return append(b, appTexts[1]...), nil
	}
	return append(b, appTexts[0]...), nil
}

type appStruct struct {
	s  string
	id int
}

func (a appStruct) AppendText(b []byte) ([]byte, error) { return append(b, a.s...), nil }

type bothS string

func (a bothS) MarshalText() ([]byte, error) {
	return []byte(a[strings.IndexByte(string(a), '|')+1:]), nil
}
func (a bothS) AppendText(b []byte) ([]byte, error) {
	return append(b, a[strings.IndexByte(string(a), '|')+1:]...), nil
}

// escapePairs: raw texts whose two names differ in spelling only (for the raw carriers).
var escapePairs = [][2]string{{`"a"`, `"a"`}, {`"\u0061"`, `"a"`}, {`"\ud800"`, `"\udc00"`}, {`"\ud800"`, "\"\ufffd\""}, {`"\/"`, `"/"`}, {`"A"`, `"a"`}, {`"\u00e9"`, `"é"`}, {`"\ud83d\ude00"`, `"\uD83D\uDE00"`}}

func checkMarshalGrid(ci, pi, oi int) string {
	p := namePairs()[pi]
	v := mgCarriers()[ci].build(p)
	return checkMarshalValue(v, oi, p.collide, !utf8.ValidString(p.a) || !utf8.ValidString(p.b))
}

func checkMarshalValue(v any, oi int, collide, illFormed bool) (msg string) {
	defer func() {
		if r := recover(); r != nil {
			msg = fmt.Sprintf("library panic: %v", r)
		}
	}()
	dup, utf, nondet := oi&1 != 0, oi&2 != 0, oi&4 != 0
	var opts []jsonv2.Options
	if dup {
		opts = append(opts, jsontext.AllowDuplicateNames(true))
	}
	if utf {
		opts = append(opts, jsontext.AllowInvalidUTF8(true))
	}
	if !nondet {
		opts = append(opts, jsonv2.Deterministic(true))
	}
	b, err := jsonv2.Marshal(v, opts...)
	if err == nil {
		if !refjson.Valid(b, refjson.Opts{AllowDupNames: dup, AllowInvalidUTF8: utf}) {
			res := refjson.Parse(b, refjson.Opts{AllowDupNames: dup, AllowInvalidUTF8: utf})
			return fmt.Sprintf("Marshal returned a nil error but the output %q is not valid under the effective options (%s at byte %d)", b, res.Why, res.DeadAt)
		}
		if illFormed && !utf {
			return fmt.Sprintf("Marshal accepted ill-formed UTF-8 under default options: %q", b)
		}
	} else if dup && utf {
		return fmt.Sprintf("with AllowDuplicateNames and AllowInvalidUTF8 the call must succeed, got %v", err)
	} else if !collide && (utf || !illFormed) {
		return fmt.Sprintf("names that stay distinct are refused: %v", err)
	}
	return ""
}

func marshalGrid(r *evid.Run) {
	var n int64
	cars, ps := mgCarriers(), namePairs()
	for ci := range cars {
		for pi := range ps {
			for oi := 0; oi < 8; oi++ {
				n++
				if m := checkMarshalGrid(ci, pi, oi); m != "" {
					cs := Case{Part: "marshal-grid", Fill: ci, Pos1: pi, Pos2: oi, Doc: fmt.Sprintf("%s with names %q / %q", cars[ci].name, ps[pi].a, ps[pi].b)}
					r.Violation(fmt.Sprintf("c08|marshal-grid|%d|%d|%d", ci, pi, oi), cs.Doc+": "+m, cs, func() bool { return checkMarshalGrid(cs.Fill, cs.Pos1, cs.Pos2) != "" })
				}
			}
		}
	}
	// escape-spelling pairs through the raw carriers
	for ei, ep := range escapePairs {
		text := "{" + ep[0] + ":1," + ep[1] + ":2}"
		for vi, v := range []any{fbRawOnly{jsontext.Value(text)}, fbRaw{A: 1, X: jsontext.Value(text)}, map[string]jsontext.Value{"k": jsontext.Value(text)}, []jsontext.Value{jsontext.Value("[" + text + "]")}, rawNames{text}} {
			for oi := 0; oi < 4; oi++ {
				n++
				tree := refjson.Tree([]byte(text), refjson.Opts{AllowDupNames: true, AllowInvalidUTF8: true})
				collide := tree != nil && len(tree.Names) == 2 && tree.Names[0] == tree.Names[1]
				if vi == 1 && tree != nil {
					for _, nm := range tree.Names {
						collide = collide || nm == "a"
					}
				}
				ill := strings.Contains(text, `\ud800`) || strings.Contains(text, `\udc00`)
				if m := checkMarshalValue(v, oi, collide, ill); m != "" {
					r.Violation(fmt.Sprintf("c08|marshal-esc|%d|%d|%d", ei, vi, oi), fmt.Sprintf("raw text %s in carrier %d: %s", text, vi, m), Case{Part: "marshal-esc", Fill: ei, Pos1: vi, Pos2: oi, Doc: text}, nil)
				}
			}
		}
	}
	r.Evaluations.Add(n)
	r.Nontrivial.Add(n)
	r.Bound("marshal grid: %d carriers of member names (map keys of string / named-string / text-marshaler kinds, embedded fallback maps and raw values alone and next to a field, raw value members and elements, MarshalJSONTo tokens, MarshalJSON output) x %d name pairs (distinct bytes that coincide after U+FFFD substitution, and controls) x 4 Allow* combinations x {Deterministic, map order as it comes}; %d escape-spelling pairs through the raw carriers", len(cars), len(ps), len(escapePairs))
}

// NameCarrierValues returns every carrier of member names built for every name pair (used by C02, whose oracle
// is "a nil error implies well-formed output under the effective options").
func NameCarrierValues() (vals []any, labels []string) {
	for _, c := range mgCarriers() {
		for _, p := range namePairs() {
			vals = append(vals, c.build(p))
			labels = append(labels, fmt.Sprintf("%s with names %q / %q", c.name, p.a, p.b))
		}
	}
	return vals, labels
}

// RebuildNameCarrier rebuilds value i of NameCarrierValues (carriers of int/bool kind read a global text table
// that the build function sets, so a value must be rebuilt right before it is marshaled).
func RebuildNameCarrier(i int) any {
	cs, ps := mgCarriers(), namePairs()
	return cs[i/len(ps)].build(ps[i%len(ps)])
}
