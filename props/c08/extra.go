package c08

import (
	"errors"
	"fmt"
	"reflect"
	"unicode/utf8"

	jsonv2 "github.com/go-json-experiment/json"
	"github.com/go-json-experiment/json/jsontext"

	"verif/internal/evid"
)

// collectStrings gathers every string (map keys included) reachable from v.
func collectStrings(v reflect.Value, out *[]string) {
	switch v.Kind() {
	case reflect.String:
		*out = append(*out, v.String())
	case reflect.Interface, reflect.Pointer:
		if !v.IsNil() {
			collectStrings(v.Elem(), out)
		}
	case reflect.Map:
		it := v.MapRange()
		for it.Next() {
			collectStrings(it.Key(), out)
			collectStrings(it.Value(), out)
		}
	case reflect.Slice, reflect.Array:
		if v.Type().Elem().Kind() == reflect.Uint8 {
			return // raw values / byte slices are not Go strings
		}
		for i := 0; i < v.Len(); i++ {
			collectStrings(v.Index(i), out)
		}
	case reflect.Struct:
		for i := 0; i < v.NumField(); i++ {
			if v.Type().Field(i).IsExported() {
				collectStrings(v.Field(i), out)
			}
		}
	}
}

// ---- duplicates whose first occurrence holds a zero-like value ----

func firstValFamily(r *evid.Run) {
	ts, ps := targets(), pairs()
	vals := []string{"0", "null", `""`, "false", "{}", "[]", "0.0"}
	var n, applicable int64
	for ti := range ts {
		t := &ts[ti]
		for pi := range ps {
			p := &ps[pi]
			if !usable(t, p) || !t.same(p) {
				continue
			}
			for _, fv := range vals {
				for _, nested := range []bool{false, true} {
					n++
					doc := "{" + p.n1 + ":" + fv + "," + p.n2 + ":2}"
					single := "{" + p.n1 + ":" + fv + "}"
					typ := t.typ
					if nested {
						doc, single = "["+doc+"]", "["+single+"]"
						typ = reflect.SliceOf(typ)
					}
					msg := func() (msg string) {
						defer func() {
							if x := recover(); x != nil {
								msg = fmt.Sprintf("library panic: %v", x)
							}
						}()
						// the first member alone must be decodable by this target, otherwise the scenario does not apply
						if jsonv2.Unmarshal([]byte(single), reflect.New(typ).Interface(), t.opts...) != nil {
							return ""
						}
						applicable++
						for _, cut := range []int{0, -1} {
							err := decodeVia([]byte(doc), cut, reflect.New(typ).Interface(), t.opts...)
							if err == nil {
								return fmt.Sprintf("default options accept %s although both names resolve to the same name, field or key (first occurrence holds %s)", doc, fv)
							}
							if !errors.Is(err, jsontext.ErrDuplicateName) {
								return fmt.Sprintf("%s is refused with %v instead of a duplicate-name error", doc, err)
							}
						}
						return ""
					}()
					if msg != "" {
						r.Violation(fmt.Sprintf("c08|firstval|%s|%s|%s|%v", t.name, p.name, fv, nested), msg, Case{Part: "firstval", Target: t.name, Pair: p.name, Doc: doc}, nil)
					}
				}
			}
		}
	}
	r.Evaluations.Add(n)
	r.Nontrivial.Add(applicable)
	r.Bound("zero-like first occurrence: %d targets x colliding pairs x first value in %v x {root, array element} x {[]byte, one-byte reader}: %d applicable scenarios, each refused with a duplicate-name error", len(ts), vals, applicable)
}

// ---- wide structs: a repetition after any other member ----

func wideStructFamily(r *evid.Run) {
	var n int64
	for _, nf := range []int{130, 200} {
		fields := make([]reflect.StructField, nf)
		for i := range fields {
			fields[i] = reflect.StructField{Name: fmt.Sprintf("F%03d", i), Type: reflect.TypeOf(0)}
		}
		st := reflect.StructOf(fields)
		check := func(names []int, wantDup bool) {
			n++
			doc := "{"
			for k, i := range names {
				if k > 0 {
					doc += ","
				}
				doc += fmt.Sprintf(`"F%03d":%d`, i, k+1)
			}
			doc += "}"
			err := jsonv2.Unmarshal([]byte(doc), reflect.New(st).Interface())
			if wantDup != (err != nil) || (err != nil && !errors.Is(err, jsontext.ErrDuplicateName)) {
				r.Violation(fmt.Sprintf("c08|wide-struct|%d|%v", nf, names), fmt.Sprintf("struct with %d fields, input %s: err=%v, want duplicate-name error=%v", nf, doc, err, wantDup), Case{Part: "wide-struct", Fill: nf, Doc: doc}, nil)
			}
		}
		for i := 0; i < nf; i++ {
			for j := 0; j < nf; j++ {
				if i != j {
					check([]int{i, j, i}, true)
				}
			}
			check([]int{i, (i + 1) % nf, (i + 70) % nf}, false)
		}
		// two other members in between, over a grid that straddles every 64-field word
		grid := []int{0, 1, 62, 63, 64, 65, 126, 127, 128, 129}
		if nf > 192 {
			grid = append(grid, 190, 191, 192, 193, 199)
		}
		for _, i := range grid {
			for _, j := range grid {
				for _, k := range grid {
					if i != j && i != k && j != k {
						check([]int{i, j, k, i}, true)
						check([]int{i, j, k, j}, true)
					}
				}
			}
		}
	}
	r.Evaluations.Add(n)
	r.Nontrivial.Add(n)
	r.Bound("wide structs (130 and 200 fields): every ordered pair (i,j): member i, member j, member i again is refused as a duplicate; with two members in between over a grid around every 64-field boundary")
}

var _ = utf8.ValidString
