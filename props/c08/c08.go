// Package c08: ambiguous input is rejected by default (duplicate names, invalid UTF-8), accepted
// with later-wins / U+FFFD semantics under the Allow* options, and the options change nothing else.
package c08

import (
	"bytes"
	"encoding/json"
	"fmt"
	"io"
	"reflect"
	"strings"
	"unicode/utf8"

	jsonv2 "github.com/go-json-experiment/json"
	"github.com/go-json-experiment/json/jsontext"

	"verif/internal/enum"
	"verif/internal/evid"
	"verif/internal/refjson"
	"verif/internal/typeuniv"
)

// ---- target shapes ----

type exactS struct {
	A  int `json:"a"`
	AB int `json:"ab"`
	KK int `json:"kk"`
	N0 int `json:"0"`
	N1 int `json:"1"`
	K  int `json:"1/2"`
	Z  int `json:"z"`
}
type foldS struct {
	A  int `json:"a,case:ignore"`
	AB int `json:"ab,case:ignore"`
	KK int `json:"kk,case:ignore"`
	N0 int `json:"0"`
	N1 int `json:"1"`
	K  int `json:"1/2"`
	Z  int `json:"z"`
}
type plainS struct { // names only; case folding comes from the MatchCaseInsensitiveNames option
	A  int `json:"a"`
	AB int `json:"ab"`
	KK int `json:"kk"`
	Z  int `json:"z"`
}
type fallbackMapS struct {
	Z int            `json:"z"`
	X map[string]int `json:",embed"`
}
type fallbackRawS struct {
	Z int            `json:"z"`
	X jsontext.Value `json:",embed"`
}
type noFieldS struct {
	Z int `json:"z"`
}

type target struct {
	name string
	typ  reflect.Type
	opts []jsonv2.Options
	// same reports whether the two names of pair p resolve to the same name / field / key for this target
	same func(p *pair) bool
	// intKeys: filler member names must be integers
	numericFillers bool
	// textKey fillers
	textFillers bool
	// docWrap, if set, places the payload somewhere inside the document decoded into typ
	docWrap func(payload string) string
	// tokenRoutes: also read the document with a SkipValue call and a ReadToken loop on fresh Decoders
	tokenRoutes bool
}

type pair struct {
	name         string
	n1, n2       string // JSON string literals (with quotes)
	equalText    bool   // equal after unescaping
	foldEqual    bool   // equal under case-insensitive matching ignoring '_' and '-'
	foldField    string // the struct field (JSON name) they fold to
	intEqual     bool
	floatEqual   bool
	textKeyEqual bool
	control      bool
}

func pairs() []pair {
	return []pair{
		{name: "a,a", n1: `"a"`, n2: `"a"`, equalText: true, foldEqual: true, foldField: "a"},
		{name: `a,\u0061`, n1: `"a"`, n2: `"\u0061"`, equalText: true, foldEqual: true, foldField: "a"},
		{name: "A,a", n1: `"A"`, n2: `"a"`, foldEqual: true, foldField: "a"},
		{name: "a_b,AB", n1: `"a_b"`, n2: `"AB"`, foldEqual: true, foldField: "ab"},
		// a name that is longer in bytes than any field name and still folds to one (KELVIN SIGN folds to k)
		{name: "kk,KELVIN KELVIN", n1: `"kk"`, n2: `"\u212a\u212a"`, foldEqual: true, foldField: "kk"},
		{name: "KELVIN k,Kk", n1: "\"\u212ak\"", n2: `"Kk"`, foldEqual: true, foldField: "kk"},
		{name: "0,-0", n1: `"0"`, n2: `"-0"`, intEqual: true, floatEqual: true},
		{name: "1,1.0", n1: `"1"`, n2: `"1.0"`, floatEqual: true},
		{name: "1,1e0", n1: `"1"`, n2: `"1e0"`, floatEqual: true},
		{name: "1/2,01/2", n1: `"1/2"`, n2: `"01/2"`, textKeyEqual: true},
		{name: "a,b (control)", n1: `"a"`, n2: `"b"`, control: true},
		{name: "z,z", n1: `"z"`, n2: `"z"`, equalText: true, foldEqual: true, foldField: "z"},
		{name: "LF short / long escape", n1: `"\n"`, n2: `"\u000a"`, equalText: true},
		{name: "quote short / long escape", n1: `"\""`, n2: `"\u0022"`, equalText: true},
		{name: "tab in the middle, long / short escape", n1: `"a\u0009b"`, n2: `"a\tb"`, equalText: true},
		{name: "backslash short / long escape", n1: `"\\"`, n2: `"\u005C"`, equalText: true},
		{name: "LF / CR escapes (control)", n1: `"\n"`, n2: `"\u000d"`, control: true},
	}
}

func targets() []target {
	txt := func(p *pair) bool { return p.equalText }
	return []target{
		{name: "struct (exact names)", typ: reflect.TypeOf(exactS{}), same: txt},
		{name: "struct (case:ignore fields)", typ: reflect.TypeOf(foldS{}), same: func(p *pair) bool { return p.equalText || (p.foldEqual && (p.foldField == "a" || p.foldField == "ab" || p.foldField == "kk")) }},
		{name: "struct + MatchCaseInsensitiveNames", typ: reflect.TypeOf(plainS{}), opts: []jsonv2.Options{jsonv2.MatchCaseInsensitiveNames(true)}, same: func(p *pair) bool { return p.equalText || p.foldEqual }},
		{name: "map[string]int", typ: reflect.TypeOf(map[string]int{}), same: txt},
		{name: "map[NamedString]int", typ: reflect.TypeOf(map[typeuniv.NamedString]int{}), same: txt},
		{name: "map[int]int", typ: reflect.TypeOf(map[int]int{}), same: func(p *pair) bool { return p.equalText || p.intEqual }, numericFillers: true},
		{name: "map[float64]int", typ: reflect.TypeOf(map[float64]int{}), same: func(p *pair) bool { return p.equalText || p.floatEqual }, numericFillers: true},
		{name: "map[TextKey]int", typ: reflect.TypeOf(map[typeuniv.TextKey]int{}), same: func(p *pair) bool { return p.equalText || p.textKeyEqual }, textFillers: true},
		{name: "any", typ: reflect.TypeOf((*any)(nil)).Elem(), same: txt},
		{name: "map[string]any", typ: reflect.TypeOf(map[string]any{}), same: txt},
		{name: "struct with embedded fallback map", typ: reflect.TypeOf(fallbackMapS{}), same: txt},
		{name: "struct with embedded fallback raw value", typ: reflect.TypeOf(fallbackRawS{}), same: txt},
		{name: "jsontext.Value", typ: reflect.TypeOf(jsontext.Value{}), same: txt, tokenRoutes: true},
		{name: "value of a skipped unknown member", typ: reflect.TypeOf(noFieldS{}), same: txt, docWrap: func(p string) string { return `{"extra":` + p + `,"z":1}` }},
		{name: "nested in the value of a skipped unknown member", typ: reflect.TypeOf(noFieldS{}), same: txt, docWrap: func(p string) string { return `{"z":1,"extra":[0,{"in":` + p + `}]}` }},
		{name: "struct without the field (skipped unknown)", typ: reflect.TypeOf(noFieldS{}), same: txt},
	}
}

// usable: can the names of p be decoded by the target at all (e.g. "a" is not an int key)?
func usable(t *target, p *pair) bool {
	isNum := func(lit string) bool {
		s := strings.Trim(lit, `"`)
		return s != "" && strings.Trim(s, "0123456789.e-") == ""
	}
	switch t.name {
	case "map[int]int":
		return (p.n1 == `"0"` || p.n1 == `"1"`) && (p.n2 == `"-0"` || p.n2 == `"0"`) // only integer literals
	case "map[float64]int":
		return isNum(p.n1) && isNum(p.n2)
	case "map[TextKey]int":
		return strings.Contains(p.n1, "/")
	}
	return true
}

// context wraps the payload position.
type context struct {
	name string
	wrap func(t reflect.Type) reflect.Type
	doc  func(payload string) string
	get  func(v reflect.Value) reflect.Value // navigate from the decoded root to the payload value
}

func contexts() []context {
	id := context{"root", func(t reflect.Type) reflect.Type { return t }, func(p string) string { return p }, func(v reflect.Value) reflect.Value { return v }}
	arr := context{"array element", func(t reflect.Type) reflect.Type { return reflect.SliceOf(t) }, func(p string) string { return "[" + p + "]" }, func(v reflect.Value) reflect.Value { return v.Index(0) }}
	mem := context{"member value", func(t reflect.Type) reflect.Type { return reflect.MapOf(reflect.TypeOf(""), t) }, func(p string) string { return `{"m":` + p + `}` }, func(v reflect.Value) reflect.Value { return v.MapIndex(reflect.ValueOf("m")) }}
	ptr := context{"behind pointer in struct, depth 3", func(t reflect.Type) reflect.Type {
		return reflect.SliceOf(reflect.StructOf([]reflect.StructField{{Name: "P", Type: reflect.PointerTo(t), Tag: `json:"p"`}}))
	}, func(p string) string { return `[{"p":` + p + `}]` }, func(v reflect.Value) reflect.Value { return v.Index(0).Field(0).Elem() }}
	ifc := context{"behind interface holding pointer", func(t reflect.Type) reflect.Type { return reflect.TypeOf((*any)(nil)).Elem() }, func(p string) string { return p }, nil}
	return []context{id, arr, mem, ptr, ifc}
}

// payload builds the object: fillers before/after and the two names at the given positions.
func payload(t *target, p *pair, nfill, pos1, pos2 int) string {
	filler := func(i int) string {
		switch {
		case t.numericFillers:
			return fmt.Sprintf(`"%d"`, 100+i)
		case t.textFillers:
			return fmt.Sprintf(`"%d/%d"`, 10+i%100, 9+i/100) // both components stay inside int8
		}
		return fmt.Sprintf(`"f%d"`, i)
	}
	total := nfill + 2
	var ms []string
	fi := 0
	for i := 0; i < total; i++ {
		switch i {
		case pos1:
			ms = append(ms, p.n1+":1")
		case pos2:
			ms = append(ms, p.n2+":2")
		default:
			ms = append(ms, filler(fi)+":9")
			fi++
		}
	}
	return "{" + strings.Join(ms, ",") + "}"
}

type Case struct {
	Part    string `json:"part"`
	Target  string `json:"target,omitempty"`
	Pair    string `json:"pair,omitempty"`
	Context string `json:"context,omitempty"`
	Fill    int    `json:"fillers,omitempty"`
	Pos1    int    `json:"pos1,omitempty"`
	Pos2    int    `json:"pos2,omitempty"`
	Prepop  bool   `json:"prepopulated,omitempty"`
	Other   bool   `json:"prepopulated_unrelated,omitempty"` // the target holds only entries unrelated to the colliding names
	Cut     int    `json:"cut,omitempty"`                    // 0: []byte input; k>0: a reader delivering the first k bytes, then the rest; -n: a reader delivering n bytes per Read
	Doc     string `json:"doc,omitempty"`
}

// cutReader delivers data[:cut] first and then the rest (cut>0), or chunk bytes per Read (cut<0).
type cutReader struct {
	data []byte
	pos  int
	cut  int
}

func (c *cutReader) Read(p []byte) (int, error) {
	if c.pos >= len(c.data) {
		return 0, io.EOF
	}
	n := len(c.data) - c.pos
	if c.cut > 0 && c.pos < c.cut {
		n = c.cut - c.pos
	} else if c.cut < 0 {
		n = min(n, -c.cut)
	}
	n = min(n, len(p))
	copy(p, c.data[c.pos:c.pos+n])
	c.pos += n
	return n, nil
}

// decodeVia decodes through Unmarshal (cut == 0) or UnmarshalRead over a cutReader.
func decodeVia(doc []byte, cut int, out any, opts ...jsonv2.Options) error {
	if cut == 0 {
		return jsonv2.Unmarshal(doc, out, opts...)
	}
	return jsonv2.UnmarshalRead(&cutReader{data: doc, cut: cut}, out, opts...)
}

// tokenRoutes reads the document with Decoder.SkipValue and with a ReadToken loop.
func tokenRoutes(doc string, cut int, wantErr bool) string {
	for _, dup := range []bool{false, true} {
		for route := 0; route < 2; route++ {
			var d *jsontext.Decoder
			if cut == 0 {
				d = jsontext.NewDecoder(bytes.NewReader([]byte(doc)), jsontext.AllowDuplicateNames(dup))
			} else {
				d = jsontext.NewDecoder(&cutReader{data: []byte(doc), cut: cut}, jsontext.AllowDuplicateNames(dup))
			}
			var err error
			if route == 0 {
				err = d.SkipValue()
			} else {
				for i := 0; err == nil && i < 1<<16; i++ {
					_, err = d.ReadToken()
				}
				if err == io.EOF {
					err = nil
				}
			}
			if (err != nil) != (wantErr && !dup) {
				return fmt.Sprintf("%s with AllowDuplicateNames(%v): err=%v, but the document has two equal names = %v", []string{"Decoder.SkipValue", "ReadToken loop"}[route], dup, err, wantErr)
			}
		}
	}
	return ""
}

// checkDup decodes the document into the target under default options and under AllowDuplicateNames.
func checkDup(t *target, p *pair, c *context, nfill, pos1, pos2 int, prepop bool) (doc string, msg string) {
	return checkDupVia(t, p, c, nfill, pos1, pos2, prepop, false, 0)
}

func checkDupVia(t *target, p *pair, c *context, nfill, pos1, pos2 int, prepop, other bool, cut int) (doc string, msg string) {
	defer func() {
		if r := recover(); r != nil {
			msg = fmt.Sprintf("library panic: %v", r)
		}
	}()
	pl := payload(t, p, nfill, pos1, pos2)
	if t.docWrap != nil {
		pl = t.docWrap(pl)
	}
	doc = c.doc(pl)
	if t.tokenRoutes && !prepop && !other {
		if m := tokenRoutes(doc, cut, t.same(p)); m != "" {
			return doc, m
		}
	}
	mk := func() reflect.Value {
		root := reflect.New(c.wrap(t.typ))
		if c.name == "behind interface holding pointer" {
			inner := reflect.New(t.typ)
			if prepop {
				prepopulate(inner.Elem(), t, p)
			}
			if other {
				prepopulateOther(inner.Elem(), t)
			}
			root.Elem().Set(inner)
			return root
		}
		if prepop && c.name == "root" {
			prepopulate(root.Elem(), t, p)
		}
		if other && c.name == "root" {
			prepopulateOther(root.Elem(), t)
		}
		return root
	}
	wantErr := t.same(p)
	root := mk()
	err := decodeVia([]byte(doc), cut, root.Interface(), t.opts...)
	if (err != nil) != wantErr {
		return doc, fmt.Sprintf("default options: err=%v, but the two names %s / %s resolve to the same name, field or key = %v", err, p.n1, p.n2, wantErr)
	}
	root2 := mk()
	opts := append([]jsonv2.Options{jsontext.AllowDuplicateNames(true)}, t.opts...)
	err2 := decodeVia([]byte(doc), cut, root2.Interface(), opts...)
	if err2 != nil {
		return doc, fmt.Sprintf("AllowDuplicateNames(true): unexpected error %v", err2)
	}
	if !wantErr {
		// no duplicate in the input: the option must change nothing
		if !reflect.DeepEqual(root.Elem().Interface(), root2.Elem().Interface()) {
			return doc, fmt.Sprintf("duplicate-free input decodes differently with AllowDuplicateNames: %#v vs %#v", root.Elem().Interface(), root2.Elem().Interface())
		}
		return doc, ""
	}
	// later member wins for the colliding scalar (value 2)
	if got, ok := winner(root2, t, p, c); ok && got != 2 {
		return doc, fmt.Sprintf("AllowDuplicateNames(true): colliding member holds %d, want the later value 2", got)
	}
	return doc, ""
}

// prepopulateOther fills the target with entries whose keys are unrelated to every name of the document.
func prepopulateOther(v reflect.Value, t *target) {
	switch v.Kind() {
	case reflect.Map:
		key := `"unrelated"`
		switch {
		case t.numericFillers:
			key = `"99999"`
		case t.textFillers:
			key = `"99/99"`
		}
		tmp := reflect.New(v.Type())
		if jsonv2.Unmarshal([]byte(`{`+key+`:7}`), tmp.Interface()) == nil {
			v.Set(tmp.Elem())
		}
	case reflect.Interface:
		v.Set(reflect.ValueOf(map[string]any{"unrelated": 7.0}))
	case reflect.Struct:
		for i := 0; i < v.NumField(); i++ {
			if f := v.Field(i); f.Kind() == reflect.Map && f.CanSet() {
				tmp := reflect.New(f.Type())
				if jsonv2.Unmarshal([]byte(`{"unrelated":7}`), tmp.Interface()) == nil {
					f.Set(tmp.Elem())
				}
			}
		}
	}
}

func prepopulate(v reflect.Value, t *target, p *pair) {
	switch v.Kind() {
	case reflect.Map:
		m := reflect.MakeMap(v.Type())
		// a key equal to the duplicated one and an unrelated one
		k := reflect.New(v.Type().Key())
		name := strings.Trim(p.n1, `"`)
		if jsonv2.Unmarshal([]byte(p.n1), k.Interface()) != nil {
			// non-string key kinds parse from the bare literal
			if err := jsonv2.Unmarshal([]byte(`{`+p.n1+`:0}`), reflect.New(v.Type()).Interface()); err != nil {
				return
			}
			tmp := reflect.New(v.Type())
			jsonv2.Unmarshal([]byte(`{`+p.n1+`:7}`), tmp.Interface())
			v.Set(tmp.Elem())
			return
		}
		_ = name
		ev := reflect.New(v.Type().Elem()).Elem()
		if ev.Kind() == reflect.Int {
			ev.SetInt(7)
		} else if ev.Kind() == reflect.Interface {
			ev.Set(reflect.ValueOf(7.0))
		}
		m.SetMapIndex(k.Elem(), ev)
		v.Set(m)
	case reflect.Struct:
		for i := 0; i < v.NumField(); i++ {
			if v.Field(i).Kind() == reflect.Int {
				v.Field(i).SetInt(7)
			}
		}
	case reflect.Interface:
		v.Set(reflect.ValueOf(map[string]any{strings.Trim(p.n1, `"`): 7.0}))
	}
}

// winner extracts the value stored for the colliding member when that is possible for the target.
func winner(root reflect.Value, t *target, p *pair, c *context) (int, bool) {
	if c.get == nil {
		return 0, false
	}
	v := c.get(root.Elem())
	switch x := v.Interface().(type) {
	case map[string]int:
		n, ok := x[unq(p.n2)]
		return n, ok
	case map[string]any:
		f, ok := x[unq(p.n2)].(float64)
		return int(f), ok
	case map[int]int:
		return x[0], p.intEqual
	case map[float64]int:
		if p.n1 == `"1"` {
			return x[1], true
		}
		return x[0], true
	case exactS:
		switch unq(p.n2) {
		case "a":
			return x.A, true
		case "z":
			return x.Z, true
		}
	case foldS:
		switch p.foldField {
		case "a":
			return x.A, true
		case "ab":
			return x.AB, true
		case "kk":
			return x.KK, true
		case "z":
			return x.Z, true
		}
	case plainS:
		switch p.foldField {
		case "a":
			return x.A, true
		case "kk":
			return x.KK, true
		case "ab":
			return x.AB, true
		case "z":
			return x.Z, true
		}
	case any:
		if m, ok := x.(map[string]any); ok {
			f, ok := m[unq(p.n2)].(float64)
			return int(f), ok
		}
	}
	return 0, false
}

func unq(lit string) string {
	s, _ := refjson.Unquote([]byte(lit), true)
	return s
}

// ---- invalid UTF-8 on input ----

func checkUTF8(t *target, bad string, inName bool) (doc string, msg string) {
	defer func() {
		if r := recover(); r != nil {
			msg = fmt.Sprintf("library panic: %v", r)
		}
	}()
	if inName {
		doc = `{"k` + bad + `":1}`
	} else {
		doc = `{"k":"v` + bad + `"}`
	}
	if t.numericFillers || t.textFillers {
		return doc, ""
	}
	var root reflect.Value
	mk := func() reflect.Value {
		typ := t.typ
		if !inName {
			switch t.typ.Kind() {
			case reflect.Map:
				typ = reflect.MapOf(t.typ.Key(), reflect.TypeOf((*any)(nil)).Elem())
			case reflect.Struct:
				typ = reflect.TypeOf(struct {
					K string `json:"k"`
				}{})
			}
		}
		return reflect.New(typ)
	}
	root = mk()
	if err := jsonv2.Unmarshal([]byte(doc), root.Interface(), t.opts...); err == nil {
		return doc, "ill-formed UTF-8 in the input accepted under default options"
	}
	root = mk()
	opts := append([]jsonv2.Options{jsontext.AllowInvalidUTF8(true)}, t.opts...)
	if err := jsonv2.Unmarshal([]byte(doc), root.Interface(), opts...); err != nil {
		return doc, fmt.Sprintf("AllowInvalidUTF8(true): unexpected error %v", err)
	}
	// each ill-formed byte -> one U+FFFD
	want := refjson.Sanitize(bad)
	// inspect the decoded Go strings themselves (re-marshaling would substitute U+FFFD once more and hide raw bytes)
	var strs []string
	collectStrings(root.Elem(), &strs)
	found := false
	for _, s := range strs {
		if !utf8.ValidString(s) {
			return doc, fmt.Sprintf("AllowInvalidUTF8(true): the decoded value holds the Go string %q, which still contains ill-formed UTF-8 (want one U+FFFD per ill-formed byte)", s)
		}
		found = found || strings.Contains(s, want)
	}
	if (t.typ.Kind() == reflect.Map || t.typ.Kind() == reflect.Interface) && !found {
		return doc, fmt.Sprintf("AllowInvalidUTF8(true): decoded strings %q do not contain the text with one U+FFFD per ill-formed byte %q", strs, want)
	}
	return doc, ""
}

// ---- marshal side: collisions ----

type collideKey int

func (collideKey) MarshalText() ([]byte, error) { return []byte("same"), nil }

type fbField struct {
	A int            `json:"a"`
	X map[string]int `json:",embed"`
}
type fbFold struct {
	A int            `json:"a,case:ignore"`
	X map[string]int `json:",embed"`
}
type fbRaw struct {
	A int            `json:"a"`
	X jsontext.Value `json:",embed"`
}

func marshalCases() []struct {
	name    string
	v       any
	opts    []jsonv2.Options
	mustErr bool // a collision is certain: default options must report an error
} {
	u := jsontext.AllowInvalidUTF8(true)
	return []struct {
		name    string
		v       any
		opts    []jsonv2.Options
		mustErr bool
	}{
		{"map keys colliding after U+FFFD substitution", map[string]int{"\xff": 1, "\xfe": 2}, []jsonv2.Options{u}, true},
		{"map keys colliding after U+FFFD substitution (3 keys, nested)", []any{map[string]any{"a\xff": 1, "a\xfe": 2, "a�": 3}}, []jsonv2.Options{u}, true},
		{"NamedString keys colliding", map[typeuniv.NamedString]int{"\xc0": 1, "\xc1": 2}, []jsonv2.Options{u}, true},
		{"embedded fallback map repeating a field name", fbField{A: 1, X: map[string]int{"a": 2}}, nil, true},
		{"embedded fallback map with a distinct name (control)", fbField{A: 1, X: map[string]int{"b": 2}}, nil, false},
		{"embedded fallback map repeating a case:ignore field name in another case", fbFold{A: 1, X: map[string]int{"A": 2}}, nil, false},
		{"embedded raw value repeating a field name", fbRaw{A: 1, X: jsontext.Value(`{"a":2}`)}, nil, true},
		{"embedded raw value with internal duplicates", fbRaw{A: 1, X: jsontext.Value(`{"b":2,"b":3}`)}, nil, true},
		{"embedded raw value with escaped duplicate of a field", fbRaw{A: 1, X: jsontext.Value(`{"a":2}`)}, nil, true},
		{"text-marshaler keys that collide", map[collideKey]int{1: 1, 2: 2}, nil, true},
		{"int and equal-text keys in map[any]", map[any]int{1: 1, "1": 2}, nil, true},
		{"raw value member with duplicate names", map[string]jsontext.Value{"k": jsontext.Value(`{"x":1,"x":2}`)}, nil, true},
		{"raw value with escaped duplicate", []jsontext.Value{jsontext.Value(`{"x":1,"x":2}`)}, nil, true},
		{"float keys -0 and 0 are one Go key (control)", map[float64]int{0: 1}, nil, false},
	}
}

func checkMarshal(i int) string {
	mc := marshalCases()[i]
	b, err := jsonv2.Marshal(mc.v, mc.opts...)
	if err == nil {
		o := refjson.Opts{AllowInvalidUTF8: len(mc.opts) > 0}
		if !refjson.Valid(b, o) {
			return fmt.Sprintf("Marshal returned nil with duplicate names / malformed output %q", b)
		}
		if mc.mustErr {
			return fmt.Sprintf("Marshal returned nil for a value whose names collide: %q", b)
		}
	}
	// with AllowDuplicateNames the same call succeeds
	b2, err2 := jsonv2.Marshal(mc.v, append([]jsonv2.Options{jsontext.AllowDuplicateNames(true), jsonv2.Deterministic(true)}, mc.opts...)...)
	if err2 != nil {
		return fmt.Sprintf("AllowDuplicateNames(true): unexpected error %v", err2)
	}
	if !refjson.Valid(b2, refjson.Opts{AllowDupNames: true, AllowInvalidUTF8: true}) {
		return fmt.Sprintf("AllowDuplicateNames(true): malformed output %q", b2)
	}
	return ""
}

func replayCase(cs Case) string {
	ts, ps, cx := targets(), pairs(), contexts()
	switch cs.Part {
	case "duplicate":
		for ti := range ts {
			for pi := range ps {
				for ci := range cx {
					if ts[ti].name == cs.Target && ps[pi].name == cs.Pair && cx[ci].name == cs.Context {
						_, m := checkDupVia(&ts[ti], &ps[pi], &cx[ci], cs.Fill, cs.Pos1, cs.Pos2, cs.Prepop, cs.Other, cs.Cut)
						return m
					}
				}
			}
		}
	case "marshal":
		return checkMarshal(cs.Fill)
	case "marshal-grid":
		if cs.Fill < len(mgCarriers()) && cs.Pos1 < len(namePairs()) {
			return checkMarshalGrid(cs.Fill, cs.Pos1, cs.Pos2)
		}
	}
	return ""
}

func Replay(r *evid.Run, raw json.RawMessage) {
	var cs Case
	if json.Unmarshal(raw, &cs) != nil {
		return
	}
	r.Evaluations.Add(1)
	r.Nontrivial.Add(2)
	r.Sample(cs)
	if msg := replayCase(cs); msg != "" {
		fmt.Println("replay fails:", msg)
		r.Violation("replay", msg, cs, nil)
	} else {
		fmt.Println("replay passes")
	}
}

func Run(r *evid.Run) {
	r.Rule("unmarshal: 16 target shapes (the whole payload as / nested in the value of a member the struct does not know; the raw-value documents also through Decoder.SkipValue and a ReadToken loop; struct exact / case:ignore / MatchCaseInsensitiveNames, maps with string / named string / int / float64 / TextMarshaler keys, any, map[string]any, embedded fallback map and raw value, raw value, struct skipping the member) x 17 name pairs (equal, names longer in bytes than every field name that still fold to one, differently escaped incl. the short and six-character spellings of LF / quote / tab / backslash, case variants, '_'-variants, numerically equal integer and float keys, equal text keys, control) x 5 contexts (root, array element, member value, behind pointer at depth 3, behind interface) x filler counts {0,3,5,66,70} x every position pair of the two names (all pairs for small objects; first/last/around the 64-name switch for wide ones) x zero targets, targets pre-populated with the colliding key and targets pre-populated with unrelated entries only x input as []byte and streamed (every two-chunk split of the small documents, 1/7/64-byte reads for all): default options reject iff the names resolve to the same name/field/key (resolver table written from the docs); AllowDuplicateNames accepts with the later member winning and changes nothing on duplicate-free input. Ill-formed UTF-8: 24 ill-formed byte patterns in names and values x targets x {default: error, AllowInvalidUTF8: one U+FFFD per byte}. Marshal: 14 colliding-name constructions: never a nil error with duplicate names. evaluations = Unmarshal/Marshal scenario pairs; distinct_nontrivial = distinct scenarios with a colliding pair or ill-formed bytes")
	r.Assume("resolver table (which name pairs resolve to the same field/key per target shape) written from the documentation")
	ts, ps, cx := targets(), pairs(), contexts()
	type unit struct{ ti, pi, ci int }
	var units []unit
	for ti := range ts {
		for pi := range ps {
			if !usable(&ts[ti], &ps[pi]) {
				continue
			}
			for ci := range cx {
				units = append(units, unit{ti, pi, ci})
			}
		}
	}
	fills := []int{0, 3, 5, 66}
	if r.Tier == "thorough" {
		fills = []int{0, 1, 3, 5, 62, 63, 64, 65, 66, 70, 130}
	}
	enum.Parallel(r, len(units), func(w *enum.Worker) func(int) {
		var cur Case
		w.Describe = func() any { return cur }
		var n, nt int64
		w.Done = func() { r.Evaluations.Add(n); r.Nontrivial.Add(nt) }
		return func(u int) {
			un := units[u]
			t, p, c := &ts[un.ti], &ps[un.pi], &cx[un.ci]
			for _, nf := range fills {
				total := nf + 2
				var posPairs [][2]int
				if total <= 7 {
					for i := 0; i < total; i++ {
						for j := i + 1; j < total; j++ {
							posPairs = append(posPairs, [2]int{i, j})
						}
					}
				} else {
					for _, i := range []int{0, 1, 63, 64, 65} {
						for _, j := range []int{1, 64, 65, 66, total - 1} {
							if i < j && j < total {
								posPairs = append(posPairs, [2]int{i, j})
							}
						}
					}
				}
				for _, pp := range posPairs {
					one := func(prepop, other bool, cut int) {
						cur = Case{Part: "duplicate", Target: t.name, Pair: p.name, Context: c.name, Fill: nf, Pos1: pp[0], Pos2: pp[1], Prepop: prepop, Other: other, Cut: cut}
						n++
						if !p.control {
							nt++
						}
						if doc, m := checkDupVia(t, p, c, nf, pp[0], pp[1], prepop, other, cut); m != "" {
							cs := cur
							cs.Doc = doc
							if len(cs.Doc) > 300 {
								cs.Doc = cs.Doc[:300] + "..."
							}
							r.Violation(fmt.Sprintf("c08|dup|%s|%s|%s|%d|%d|%d|%v|%v|%d", t.name, p.name, c.name, nf, pp[0], pp[1], prepop, other, cut), m, cs, func() bool { return replayCase(cs) != "" })
						}
					}
					one(false, false, 0)
					one(true, false, 0)
					one(false, true, 0)
					// streamed input: every two-chunk split of small documents; fixed chunk sizes for all
					docLen := len(c.doc(payload(t, p, nf, pp[0], pp[1])))
					if total <= 4 || (r.Tier == "thorough" && total <= 7) {
						for cut := 1; cut < docLen; cut++ {
							one(false, false, cut)
						}
					}
					for _, chunk := range []int{-1, -7, -64} {
						one(false, false, chunk)
						if chunk == -7 {
							one(false, true, chunk)
						}
					}
				}
				w.Beat()
			}
		}
	})
	r.Sample(Case{Part: "duplicate", Target: "map[float64]int", Pair: "1,1e0", Context: "behind pointer in struct, depth 3", Fill: 3, Pos1: 0, Pos2: 4, Prepop: true})
	r.Bound("duplicates: %d (target, pair, context) combinations x filler counts %v x position pairs x zero/pre-populated", len(units), fills)
	// ill-formed UTF-8
	bads := []string{"\xff", "\x80", "\xc0\x80", "\xc2", "\xe0\x80\x80", "\xed\xa0\x80", "\xed\xbf\xbf", "\xf0\x80\x80\x80", "\xf4\x90\x80\x80", "\xf8", "\xe2\x82", "\xf0\x9f\x98", "a\xffb", "\xff\xff", "\xc3\x28", "\xa0\xa1", "\xe2\x28\xa1", "\xe2\x82\x28", "\xf0\x28\x8c\xbc", "\xf0\x90\x28\xbc", "\xf0\x28\x8c\x28", "\xfe", "\xef\xbf", "\xc1\xbf"}
	var n int64
	for ti := range ts {
		for _, bad := range bads {
			for _, inName := range []bool{true, false} {
				n++
				if doc, m := checkUTF8(&ts[ti], bad, inName); m != "" {
					r.Violation(fmt.Sprintf("c08|utf8|%s|%q|%v", ts[ti].name, bad, inName), m, Case{Part: "utf8", Target: ts[ti].name, Doc: doc}, nil)
				}
			}
		}
	}
	for _, bad := range bads {
		for _, v := range []any{bad, []string{"ok", bad}, map[string]string{"k": bad}, map[string]int{bad: 1}, struct{ S string }{bad}, any(bad), &bad} {
			n++
			if _, err := jsonv2.Marshal(v); err == nil {
				r.Violation(fmt.Sprintf("c08|utf8-marshal|%q|%T", bad, v), "Go string with ill-formed UTF-8 marshaled without error under default options", Case{Part: "utf8-marshal", Doc: fmt.Sprintf("%q in %T", bad, v)}, nil)
			}
			b, err := jsonv2.Marshal(v, jsontext.AllowInvalidUTF8(true))
			if err != nil || !strings.Contains(string(b), refjson.Sanitize(bad)) || !refjson.Valid(b, refjson.Opts{}) {
				r.Violation(fmt.Sprintf("c08|utf8-marshal-allow|%q|%T", bad, v), fmt.Sprintf("AllowInvalidUTF8(true): got %q, %v; want one U+FFFD per ill-formed byte", b, err), Case{Part: "utf8-marshal", Doc: fmt.Sprintf("%q in %T", bad, v)}, nil)
			}
		}
	}
	for i := range marshalCases() {
		n++
		if m := checkMarshal(i); m != "" {
			r.Violation(fmt.Sprintf("c08|marshal|%d", i), marshalCases()[i].name+": "+m, Case{Part: "marshal", Fill: i, Doc: marshalCases()[i].name}, nil)
		}
	}
	r.Evaluations.Add(n)
	r.Nontrivial.Add(n)
	marshalGrid(r)
	firstValFamily(r)
	wideStructFamily(r)
	r.Sample(Case{Part: "marshal", Doc: "map keys colliding after U+FFFD substitution"})
	r.Bound("ill-formed UTF-8: %d byte patterns x 14 targets x name/value position, and x 7 Go value shapes on the marshal side; %d colliding-name marshal constructions", len(bads), len(marshalCases()))
}
