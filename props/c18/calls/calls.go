// Package calls is the alphabet of heterogeneous library calls used by the C18 checks:
// every call has fixed arguments and yields a result that must depend on nothing else.
// It has no dependency on the scheduler shim so that the free-running -race pass can use it too.
package calls

import (
	"bytes"
	"errors"
	"fmt"
	"io"
	"math"
	"sort"
	"strings"
	"time"

	jsonv2 "github.com/go-json-experiment/json"
	"github.com/go-json-experiment/json/jsontext"
	jsonv1 "github.com/go-json-experiment/json/v1"
)

// Yield is called at entry and exit of user-supplied methods (a scheduling point under the explorer).
var Yield = func() {}

// Result of one call. Kept holds what the library handed back (not copied); Snap is its rendering
// at return time. Render(Kept) must still equal Snap after any later call.
type Result struct {
	Snap string
	Kept any
}

// Render renders a kept value canonically.
func Render(v any) string {
	switch x := v.(type) {
	case nil:
		return "<nil>"
	case []byte:
		return "bytes:" + string(x)
	case jsontext.Value:
		return "value:" + string(x)
	case map[string]any:
		ks := make([]string, 0, len(x))
		for k := range x {
			ks = append(ks, k)
		}
		sort.Strings(ks)
		var sb strings.Builder
		sb.WriteString("map{")
		for _, k := range ks {
			fmt.Fprintf(&sb, "%q:%s,", k, Render(x[k]))
		}
		sb.WriteString("}")
		return sb.String()
	case []any:
		var sb strings.Builder
		sb.WriteString("[")
		for _, e := range x {
			sb.WriteString(Render(e) + ",")
		}
		sb.WriteString("]")
		return sb.String()
	case string:
		return fmt.Sprintf("%q", x)
	case [2]any:
		return Render(x[0]) + "|" + Render(x[1])
	case error:
		return errKey(x)
	}
	return fmt.Sprintf("%v", v)
}

func errKey(err error) string {
	if err == nil {
		return "ok"
	}
	var sem *jsonv2.SemanticError
	if errors.As(err, &sem) {
		// every field a caller can read (the message text is left out: its wording varies between processes);
		// JSONValue is rendered from the error object each time, so a value aliasing a recycled buffer shows up
		return fmt.Sprintf("SemanticError@%d%q kind=%v value=%q type=%v", sem.ByteOffset, sem.JSONPointer, sem.JSONKind, string(sem.JSONValue), sem.GoType)
	}
	var syn *jsontext.SyntacticError
	if errors.As(err, &syn) {
		return fmt.Sprintf("SyntacticError@%d%q", syn.ByteOffset, syn.JSONPointer)
	}
	if errors.Is(err, errWriter) {
		return "writer-error"
	}
	return "error:" + fmt.Sprintf("%T", err)
}

func mk(out any, err error) Result {
	var e any = "ok"
	if err != nil {
		e = err // the error object itself is kept and rendered again after later calls
	}
	kept := [2]any{out, e}
	return Result{Snap: Render(kept), Kept: kept}
}

// ---- fixtures ----

type small struct {
	ID   int              `json:"id"`
	Name string           `json:"name"`
	Tags []string         `json:"tags,omitempty"`
	M    map[string][]int `json:"m"`
	P    *small           `json:"p,omitempty"`
	F    float64          `json:"f"`
}

type panicker struct{ N int }

var errInjectedPanic = errors.New("injected user panic")

func (p panicker) MarshalJSONTo(e *jsontext.Encoder) error {
	Yield()
	e.WriteToken(jsontext.BeginObject)
	e.WriteToken(jsontext.String("k"))
	e.WriteToken(jsontext.BeginArray)
	e.WriteToken(jsontext.Int(1))
	panic(errInjectedPanic)
}

func (p *panicker) UnmarshalJSONFrom(d *jsontext.Decoder) error {
	Yield()
	d.ReadToken()
	d.ReadToken()
	panic(errInjectedPanic)
}

type reenter struct{ V int }

func (r reenter) MarshalJSON() ([]byte, error) {
	Yield()
	b, err := jsonv2.Marshal(map[string]any{"inner": []int{r.V, r.V + 1}, "z": "<>"}, jsonv2.Deterministic(true), jsontext.EscapeForHTML(true))
	Yield()
	return b, err
}

var errWriter = errors.New("writer failed")

type failWriter struct {
	n     int
	limit int
}

func (w *failWriter) Write(p []byte) (int, error) {
	if w.n+len(p) > w.limit {
		k := w.limit - w.n
		if k < 0 {
			k = 0
		}
		w.n += k
		return k, errWriter
	}
	w.n += len(p)
	return len(p), nil
}

type plainWriter struct{ b []byte }

func (w *plainWriter) Write(p []byte) (int, error) { w.b = append(w.b, p...); return len(p), nil }

type chunkReader struct {
	b []byte
	n int
}

func (c *chunkReader) Read(p []byte) (int, error) {
	if len(c.b) == 0 {
		return 0, io.EOF
	}
	k := min(len(c.b), len(p), c.n)
	copy(p, c.b[:k])
	c.b = c.b[k:]
	return k, nil
}

// deepTracked is one shared value: 1000 plain arrays, then named map / named slice / pointer levels (the kinds whose
// addresses the encoder tracks once it is that deep), and an ill-formed string at the bottom. Marshal refuses it under
// default options and accepts it under AllowInvalidUTF8; both calls walk the very same maps, slices and pointers.
type trackedMap map[string]any
type trackedSlice []any
type trackedNode struct{ Next any }

var deepTracked = func() any {
	var v any = "ill-formed \xff leaf"
	for i := 0; i < 9; i++ {
		switch i % 3 {
		case 0:
			v = trackedMap{"k": v, "j": trackedMap{}}
		case 1:
			v = trackedSlice{v}
		case 2:
			v = &trackedNode{Next: v}
		}
	}
	for i := 0; i < 1000; i++ {
		v = []any{v}
	}
	return v
}()

var wideObject = func() []byte {
	var sb strings.Builder
	sb.WriteString("{")
	for i := 1299; i >= 0; i-- {
		fmt.Fprintf(&sb, `"k%04d":%d`, i, i%5)
		if i > 0 {
			sb.WriteString(",")
		}
	}
	sb.WriteString("}")
	return []byte(sb.String())
}()

func deep(n int) any {
	var v any = "leaf"
	for i := 0; i < n; i++ {
		if i%2 == 0 {
			v = []any{v}
		} else {
			v = map[string]any{"k": v}
		}
	}
	return v
}

type optStruct struct {
	Count  int               `json:"count,string"`
	FooBar string            `json:"foo_bar,case:ignore"`
	Empty  []int             `json:"empty,omitempty"`
	Zero   *optStruct        `json:"zero,omitzero"`
	D      time.Duration     `json:"d,format:units"`
	Raw    jsontext.Value    `json:"raw"`
	X      map[string]any    `json:",embed"`
	Emb    map[int]time.Time `json:"emb,omitempty"`
}

// reUn re-enters Unmarshal from inside its own UnmarshalJSON (two buffered decoders alive at once).
type reUn struct {
	Inner map[string]any
	Raw   string
}

func (r *reUn) UnmarshalJSON(b []byte) error {
	Yield()
	r.Raw = string(b)
	err := jsonv2.Unmarshal(b, &r.Inner)
	Yield()
	return err
}

// embRaw has an embedded raw value; marshaling fails unless it holds an object.
type embRaw struct {
	A int            `json:"a"`
	X jsontext.Value `json:",embed"`
}

type texter struct{ A, B int }

func (t texter) MarshalText() ([]byte, error) {
	Yield()
	return fmt.Appendf(nil, "%d<%d", t.A, t.B), nil
}
func (t *texter) UnmarshalText(b []byte) error {
	Yield()
	_, err := fmt.Sscanf(string(b), "%d<%d", &t.A, &t.B)
	return err
}

// BigSize is the size of the large document (raised in the thorough tier).
var BigSize = 64 << 10

func recoverAs(f func() Result) (r Result) {
	defer func() {
		if p := recover(); p != nil {
			if p == errInjectedPanic || fmt.Sprint(p) == errInjectedPanic.Error() {
				r = mk(nil, errors.New("user panic (recovered by caller)"))
				r.Snap = "recovered-user-panic"
				r.Kept = nil
				return
			}
			r = Result{Snap: fmt.Sprintf("LIBRARY-PANIC: %v", p)}
		}
	}()
	return f()
}

// Call is one element of the alphabet.
type Call struct {
	Name string
	Run  func() Result
}

// Alphabet returns the call alphabet, simplest first.
func Alphabet() []Call {
	smallV := small{ID: 7, Name: "n<", Tags: []string{"a", "b"}, M: map[string][]int{"k": {1, 2}, "j": {}}, P: &small{ID: 8}, F: 1.5}
	detMap := map[string]any{"b": 1.0, "a": []any{"x", map[string]any{"z": 1.0, "y": 2.0}}, "c": map[string]any{}}
	cyc := map[string]any{}
	cyc["self"] = []any{cyc}
	rep := `{"name":"alpha","items":[{"name":"alpha","kind":"PREFIX00aSUFFIX99"},{"name":"beta","kind":"PREFIX00bSUFFIX99"},{"name":"alpha","kind":"PREFIX00aSUFFIX99"}],"kind":"PREFIX00bSUFFIX99"}`
	return []Call{
		{"Marshal(small struct)", func() Result { b, err := jsonv2.Marshal(smallV, jsonv2.Deterministic(true)); return mk(b, err) }},
		{"Marshal(map[string][]int with closing arrays)", func() Result {
			b, err := jsonv2.Marshal(map[string][]int{"k": {1, 2}}, jsonv2.Deterministic(true))
			return mk(b, err)
		}},
		{"Marshal failing at depth 3 (NaN)", func() Result {
			b, err := jsonv2.Marshal([]any{"aaaaaaaaaaaaaaaaaaaa", "bbbb", map[string]any{"k": []any{math.NaN()}}}, jsonv2.Deterministic(true))
			return mk(b, err)
		}},
		{"Marshal Deterministic map, HTML escaped, multiline", func() Result {
			b, err := jsonv2.Marshal(detMap, jsonv2.Deterministic(true), jsontext.EscapeForHTML(true), jsontext.Multiline(true))
			return mk(b, err)
		}},
		{"Marshal 1001-deep value", func() Result { b, err := jsonv2.Marshal(deep(1001)); return mk(len(b), err) }},
		{"Marshal failing below 1005 tracked containers (ill-formed leaf)", func() Result {
			b, err := jsonv2.Marshal(deepTracked, jsonv2.Deterministic(true))
			return mk(len(b), err)
		}},
		{"Marshal of the same tracked containers with AllowInvalidUTF8", func() Result {
			b, err := jsonv2.Marshal(deepTracked, jsonv2.Deterministic(true), jsontext.AllowInvalidUTF8(true))
			return mk(len(b), err)
		}},
		{"Canonicalize of a 1300-member object in descending order", func() Result {
			v := append(jsontext.Value(nil), wideObject...)
			err := v.Canonicalize()
			return mk(fmt.Sprintf("%d %s", len(v), v[:min(len(v), 40)]), err)
		}},
		{"Marshal cyclic value", func() Result { b, err := jsonv2.Marshal(cyc); return mk(len(b) > 0, err) }},
		{"Marshal with panicking MarshalJSONTo at depth 2", func() Result {
			return recoverAs(func() Result { b, err := jsonv2.Marshal([]any{1, map[string]any{"p": panicker{1}}}); return mk(b, err) })
		}},
		{"Marshal large string", func() Result {
			b, err := jsonv2.Marshal([]string{strings.Repeat("x", BigSize), "<tail>"})
			return mk(fmt.Sprintf("%d:%s", len(b), b[len(b)-12:]), err)
		}},
		{"MarshalWrite(bytes.Buffer)", func() Result {
			var bb bytes.Buffer
			err := jsonv2.MarshalWrite(&bb, smallV, jsonv2.Deterministic(true), jsontext.SpaceAfterComma(true))
			return mk(bb.Bytes(), err)
		}},
		{"MarshalWrite(plain writer)", func() Result {
			w := &plainWriter{}
			err := jsonv2.MarshalWrite(w, []any{smallV, "s"}, jsonv2.Deterministic(true))
			return mk(w.b, err)
		}},
		{"MarshalWrite(failing writer)", func() Result {
			w := &failWriter{limit: 90}
			err := jsonv2.MarshalWrite(w, []any{strings.Repeat("y", 200), smallV, strings.Repeat("z", 5000)}, jsonv2.Deterministic(true))
			return mk(w.n, err)
		}},
		{"Marshal(user MarshalJSON re-entering Marshal)", func() Result {
			b, err := jsonv2.Marshal([]any{reenter{1}, map[string]reenter{"r": {5}}}, jsonv2.Deterministic(true))
			return mk(b, err)
		}},
		{"Unmarshal(any) with repeated strings", func() Result {
			in := []byte(rep)
			var v any
			err := jsonv2.Unmarshal(in, &v)
			for i := range in {
				in[i] = '#' // the caller reuses its input buffer
			}
			return mk(v, err)
		}},
		{"Unmarshal failing at depth 3", func() Result {
			var v small
			err := jsonv2.Unmarshal([]byte(`{"id":1,"p":{"p":{"tags":["a",5]}}}`), &v)
			return mk(v.ID, err)
		}},
		{"Unmarshal(AllowDuplicateNames)", func() Result {
			var v map[string]any
			err := jsonv2.Unmarshal([]byte(`{"a":1,"a":{"b":2},"a":{"c":3}}`), &v, jsontext.AllowDuplicateNames(true))
			return mk(v, err)
		}},
		{"UnmarshalRead(chunked reader)", func() Result {
			var v any
			err := jsonv2.UnmarshalRead(&chunkReader{b: []byte(rep), n: 7}, &v)
			return mk(v, err)
		}},
		{"UnmarshalRead of a 24 KiB document from a plain reader", func() Result {
			var sb strings.Builder
			sb.WriteString("[")
			for i := 0; i < 1500; i++ {
				fmt.Fprintf(&sb, `{"i":%d,"s":"x%d"},`, i, i)
			}
			sb.WriteString(`"end"]`)
			var v []any
			err := jsonv2.UnmarshalRead(&chunkReader{b: []byte(sb.String()), n: 1 << 20}, &v)
			return mk(fmt.Sprintf("%d %v", len(v), v[len(v)-1]), err)
		}},
		{"UnmarshalRead failing with a syntax error (plain reader)", func() Result {
			var v any
			err := jsonv2.UnmarshalRead(&chunkReader{b: []byte(`[1, 2, {"a": x}]`), n: 1 << 20}, &v)
			return mk(v, err)
		}},
		{"UnmarshalRead failing with a conversion error (chunked reader, error kept)", func() Result {
			var v struct {
				A int8
				B string
			}
			err := jsonv2.UnmarshalRead(&chunkReader{b: []byte(`{"B":"before","A":3000,"C":"` + strings.Repeat("after", 40) + `"}`), n: 16}, &v)
			return mk(v.B, err)
		}},
		{"Unmarshal failing with a conversion error, input overwritten afterwards (error kept)", func() Result {
			in := []byte(`{"k":[1000, "s"]}`)
			var v map[string][]int8
			err := jsonv2.Unmarshal(in, &v)
			for i := range in {
				in[i] = '#'
			}
			return mk(len(v), err)
		}},
		{"Marshal failing on an embedded raw value that is not an object", func() Result {
			b, err := jsonv2.Marshal([]any{embRaw{1, jsontext.Value(`{"k":2}`)}, embRaw{2, jsontext.Value(`[1,2]`)}}, jsonv2.Deterministic(true))
			return mk(b, err)
		}},
		{"Unmarshal with UnmarshalJSON re-entering Unmarshal (nested, twice)", func() Result {
			var v struct {
				P reUn
				L []reUn
			}
			err := jsonv2.Unmarshal([]byte(`{"P":{"a":[1,{"b":"x"}]},"L":[{"c":1},{"d":{"e":[true]}}]}`), &v)
			return mk(fmt.Sprintf("%s %s %d %s", v.P.Raw, Render(v.P.Inner), len(v.L), Render(v.L[len(v.L)-1].Inner)), err)
		}},
		{"Unmarshal with panicking UnmarshalJSONFrom at depth 2", func() Result {
			return recoverAs(func() Result {
				var v struct{ A []map[string]*panicker }
				err := jsonv2.Unmarshal([]byte(`{"A":[{"p":{"x":[1,2]}}]}`), &v)
				return mk(len(v.A), err)
			})
		}},
		{"Value.IsValid(invalid) + Format(ReorderRawObjects)", func() Result {
			ok := jsontext.Value(`{"a":1,"a":2}`).IsValid()
			v := jsontext.Value(`{"b": [1, {"z":1,"y":2}], "a": "<"}`)
			err := v.Format(jsontext.ReorderRawObjects(true), jsontext.EscapeForHTML(true))
			return mk(fmt.Sprintf("%v %s", ok, v), err)
		}},
		{"AppendFormat failing", func() Result {
			dst := []byte("pre:")
			out, err := jsontext.AppendFormat(dst, `{"a":[1,2,}`, jsontext.Multiline(true))
			return mk(out, err)
		}},
		{"Marshal struct with string/omitempty/omitzero/format/unknown members", func() Result {
			v := optStruct{Count: 12, FooBar: "x", Empty: []int{}, D: 90 * time.Second, Raw: jsontext.Value(` {"r" : [1 , 2]} `), X: map[string]any{"u": "<&>"}}
			b, err := jsonv2.Marshal(&v, jsonv2.Deterministic(true))
			return mk(b, err)
		}},
		{"Unmarshal struct (case-insensitive, string-tagged, unknown members, RejectUnknownMembers off)", func() Result {
			var v optStruct
			err := jsonv2.Unmarshal([]byte(`{"count":"34","FOO-BAR":"y","d":"1m30s","raw":[1, 2],"other":{"k":[true]},"emb":{"5":"2001-02-03T04:05:06Z"}}`), &v)
			return mk(fmt.Sprintf("%d %q %v %s %v %v", v.Count, v.FooBar, v.D, v.Raw, Render(map[string]any(v.X)), v.Emb[5].Unix()), err)
		}},
		{"Unmarshal struct with RejectUnknownMembers (fails)", func() Result {
			var v optStruct
			err := jsonv2.Unmarshal([]byte(`{"count":"1","other":1}`), &v, jsonv2.RejectUnknownMembers(true), jsonv2.MatchCaseInsensitiveNames(true))
			return mk(v.Count, err)
		}},
		{"Marshal with caller-supplied marshal functions", func() Result {
			ms := jsonv2.JoinMarshalers(
				jsonv2.MarshalFunc(func(b bool) ([]byte, error) { Yield(); return []byte(`"B"`), nil }),
				jsonv2.MarshalToFunc(func(e *jsontext.Encoder, i int) error {
					Yield()
					return e.WriteToken(jsontext.String(fmt.Sprint("i", i)))
				}))
			b, err := jsonv2.Marshal(map[string]any{"a": true, "b": []int{1, 2}, "c": map[string]bool{"x": false}}, jsonv2.WithMarshalers(ms), jsonv2.Deterministic(true))
			return mk(b, err)
		}},
		{"Marshal/Unmarshal text-method map keys", func() Result {
			b, err := jsonv2.Marshal(map[texter]int{{1, 2}: 3, {0, 9}: 4}, jsonv2.Deterministic(true))
			var back map[texter]int
			err2 := jsonv2.Unmarshal(b, &back)
			return mk(fmt.Sprintf("%s %v %v", b, len(back), err2), err)
		}},
		{"MarshalEncode with call-scoped options on a caller-owned Encoder", func() Result {
			var bb bytes.Buffer
			e := jsontext.NewEncoder(&bb)
			err := jsonv2.MarshalEncode(e, map[string]any{"n": 1.0, "s": "<"}, jsonv2.StringifyNumbers(true), jsonv2.Deterministic(true), jsontext.EscapeForHTML(true))
			err2 := jsonv2.MarshalEncode(e, []any{1.0, "<"})
			return mk(fmt.Sprintf("%s|%v", bb.Bytes(), err2), err)
		}},
		{"UnmarshalDecode of three stream values with call-scoped options", func() Result {
			d := jsontext.NewDecoder(&chunkReader{b: []byte(`{"a":"1"} {"a":2} [`), n: 3})
			var v1 map[string]int
			err1 := jsonv2.UnmarshalDecode(d, &v1, jsonv2.StringifyNumbers(true))
			var v2 map[string]int
			err2 := jsonv2.UnmarshalDecode(d, &v2)
			var v3 any
			err3 := jsonv2.UnmarshalDecode(d, &v3)
			return mk(fmt.Sprintf("%v %v %v %v %v", v1, errKey(err1), v2, errKey(err2), v3), err3)
		}},
		{"v1 Marshal + Unmarshal (legacy option set)", func() Result {
			b, err := jsonv1.Marshal(map[string]any{"b": []byte("hi"), "a": "<\xff>", "n": nil, "z": [2]int{}})
			var v struct {
				A string
				B []byte
				N *int
			}
			err2 := jsonv1.Unmarshal([]byte(`{"a":"x","A":"y","b":"aGk=","n":null,"junk":[1,{"a":1,"a":2}]}`), &v)
			return mk(fmt.Sprintf("%s %q %s %v", b, v.A, v.B, err2), err)
		}},
		{"Value.Canonicalize + Compact + Indent", func() Result {
			v := jsontext.Value(` {"b" : 1.0e2, "a\u0041" : ["\u003c", -0.0, 1E400], "": {}} `)
			c := append(jsontext.Value(nil), v...)
			err := c.Canonicalize()
			k := append(jsontext.Value(nil), v...)
			err2 := k.Compact()
			i := append(jsontext.Value(nil), v...)
			err3 := i.Indent(jsontext.WithIndentPrefix(" "), jsontext.WithIndent("  "))
			return mk(fmt.Sprintf("%s|%s|%v|%s|%v", c, k, err2, i, err3), err)
		}},
		{"Marshal map[int]string without Deterministic (order-insensitive rendering)", func() Result {
			b, err := jsonv2.Marshal(map[int]string{3: "c", 1: "a", 2: "b", 10: "j"})
			var back map[string]any
			err2 := jsonv2.Unmarshal(b, &back)
			return mk(fmt.Sprintf("%d %s %v", len(b), Render(back), err2), err)
		}},
		{"Token-level Encoder + Decoder round", func() Result {
			var bb bytes.Buffer
			e := jsontext.NewEncoder(&bb, jsontext.SpaceAfterColon(true))
			e.WriteToken(jsontext.BeginObject)
			e.WriteToken(jsontext.String("k"))
			e.WriteValue(jsontext.Value(`[1, "<", {"a": null}]`))
			err := e.WriteToken(jsontext.EndObject)
			d := jsontext.NewDecoder(bytes.NewReader(bb.Bytes()))
			v, err2 := d.ReadValue()
			return mk(fmt.Sprintf("%s|%s|%v", bb.Bytes(), v, err2), err)
		}},
	}
}

// ---- Deterministic(true): identical bytes for every map insertion order ----

func perms(n int) [][]int {
	var out [][]int
	var rec func(cur []int, used int)
	rec = func(cur []int, used int) {
		if len(cur) == n {
			out = append(out, append([]int(nil), cur...))
			return
		}
		for i := 0; i < n; i++ {
			if used&(1<<i) == 0 {
				rec(append(cur, i), used|1<<i)
			}
		}
	}
	rec(nil, 0)
	return out
}

// orders returns insertion orders of n keys: all permutations for n<=6, otherwise identity, reversal,
// every rotation and every transposition of the identity.
func orders(n int) [][]int {
	if n <= 6 {
		return perms(n)
	}
	id := make([]int, n)
	for i := range id {
		id[i] = i
	}
	out := [][]int{id}
	rev := make([]int, n)
	for i := range rev {
		rev[i] = n - 1 - i
	}
	out = append(out, rev)
	for r := 1; r < n; r++ {
		o := make([]int, n)
		for i := range o {
			o[i] = (i + r) % n
		}
		out = append(out, o)
	}
	for a := 0; a < n; a++ {
		for b := a + 1; b < n; b++ {
			o := append([]int(nil), id...)
			o[a], o[b] = o[b], o[a]
			out = append(out, o)
		}
	}
	return out
}

// DetFamily is one map construction parameterised by the insertion order of its keys.
type DetFamily struct {
	Name  string
	N     int
	Build func(order []int) any
}

// DetFamilies lists map constructions whose Deterministic(true) encoding must not depend on insertion order.
func DetFamilies() []DetFamily {
	skeys := []string{"b", "a", "\u00e9", "aa", "", "B", "\U0001F600", "\uffff", "a\x00", "~", "10", "9", "z", "zz", "k14", "k15", "k16", "k17", "k18", "k19"}
	mkS := func(n int) DetFamily {
		return DetFamily{fmt.Sprintf("map[string]int with %d keys", n), n, func(o []int) any {
			m := map[string]int{}
			for _, i := range o {
				m[skeys[i]] = i
			}
			return m
		}}
	}
	return []DetFamily{
		mkS(5), mkS(9), mkS(20),
		{"map[string]any behind any (untyped fast path)", 6, func(o []int) any {
			m := map[string]any{}
			for _, i := range o {
				m[skeys[i]] = []any{float64(i), map[string]any{skeys[(i+1)%6]: nil, skeys[(i+2)%6]: true}}
			}
			return []any{m}
		}},
		{"map[int]string (numeric keys sorted as text)", 6, func(o []int) any {
			ks := []int{10, 9, -1, 100, 0, -10}
			m := map[int]string{}
			for _, i := range o {
				m[ks[i]] = "v"
			}
			return m
		}},
		{"map[float64]bool", 5, func(o []int) any {
			ks := []float64{1.5, -0.0, 1e21, 1e-7, 100}
			m := map[float64]bool{}
			for _, i := range o {
				m[ks[i]] = true
			}
			return m
		}},
		{"map[texter]int (text-method keys)", 5, func(o []int) any {
			m := map[texter]int{}
			for _, i := range o {
				m[texter{i % 3, 9 - i}] = i
			}
			return m
		}},
		{"map in struct in map", 4, func(o []int) any {
			type in struct {
				M map[string][]int `json:"m"`
			}
			outer := map[string]in{}
			for _, i := range o {
				inner := map[string][]int{}
				for _, j := range o {
					inner[skeys[j]] = []int{i, j}
				}
				outer[skeys[i]] = in{inner}
			}
			return outer
		}},
	}
}

// DetDigest marshals every insertion order of every family with Deterministic(true) through
// Marshal, MarshalWrite and MarshalEncode; all bytes within a family must be identical.
// It returns one line per family (name + the bytes) and the first disagreement found.
func DetDigest(count func(n int)) (lines []string, bad string) {
	for _, f := range DetFamilies() {
		var ref []byte
		for k, o := range orders(f.N) {
			v := f.Build(o)
			b, err := jsonv2.Marshal(v, jsonv2.Deterministic(true))
			var bb bytes.Buffer
			err2 := jsonv2.MarshalWrite(&bb, v, jsonv2.Deterministic(true))
			w := &plainWriter{}
			e := jsontext.NewEncoder(w)
			err3 := jsonv2.MarshalEncode(e, v, jsonv2.Deterministic(true))
			count(3)
			if err != nil || err2 != nil || err3 != nil {
				return lines, fmt.Sprintf("%s, insertion order %v: errors %v %v %v", f.Name, o, err, err2, err3)
			}
			if k == 0 {
				ref = b
			}
			if !bytes.Equal(b, ref) || !bytes.Equal(bb.Bytes(), ref) || !bytes.Equal(bytes.TrimSuffix(w.b, []byte("\n")), ref) {
				return lines, fmt.Sprintf("%s: Deterministic(true) bytes depend on the insertion order / entry point: order %v gives %s | %s | %s, first order gave %s", f.Name, o, b, bb.Bytes(), w.b, ref)
			}
			// without Deterministic: the same members in some order
			nb, err := jsonv2.Marshal(v)
			count(1)
			var x, y any
			if err != nil || jsonv2.Unmarshal(nb, &x) != nil || jsonv2.Unmarshal(ref, &y) != nil || Render(x) != Render(y) {
				return lines, fmt.Sprintf("%s: without Deterministic the output %s does not hold the same members as %s", f.Name, nb, ref)
			}
		}
		lines = append(lines, f.Name+" => "+string(ref))
	}
	return lines, ""
}
