// Package calls is the alphabet of heterogeneous library calls used by the C18 checks:
// every call has fixed arguments and yields a result that must depend on nothing else.
// It has no dependency on the scheduler shim so that the free-running -race pass can use it too.
package calls

import (
	"bytes"
	"errors"
	"fmt"
	"io"
	"math"
	"sort"
	"strings"

	jsonv2 "github.com/go-json-experiment/json"
	"github.com/go-json-experiment/json/jsontext"
)

// Yield is called at entry and exit of user-supplied methods (a scheduling point under the explorer).
var Yield = func() {}

// Result of one call. Kept holds what the library handed back (not copied); Snap is its rendering
// at return time. Render(Kept) must still equal Snap after any later call.
type Result struct {
	Snap string
	Kept any
}

// Render renders a kept value canonically.
func Render(v any) string {
	switch x := v.(type) {
	case nil:
		return "<nil>"
	case []byte:
		return "bytes:" + string(x)
	case jsontext.Value:
		return "value:" + string(x)
	case map[string]any:
		ks := make([]string, 0, len(x))
		for k := range x {
			ks = append(ks, k)
		}
		sort.Strings(ks)
		var sb strings.Builder
		sb.WriteString("map{")
		for _, k := range ks {
			fmt.Fprintf(&sb, "%q:%s,", k, Render(x[k]))
		}
		sb.WriteString("}")
		return sb.String()
	case []any:
		var sb strings.Builder
		sb.WriteString("[")
		for _, e := range x {
			sb.WriteString(Render(e) + ",")
		}
		sb.WriteString("]")
		return sb.String()
	case string:
		return fmt.Sprintf("%q", x)
	case [2]any:
		return Render(x[0]) + "|" + Render(x[1])
	}
	return fmt.Sprintf("%v", v)
}

func errKey(err error) string {
	if err == nil {
		return "ok"
	}
	var sem *jsonv2.SemanticError
	if errors.As(err, &sem) {
		return fmt.Sprintf("SemanticError@%d%q", sem.ByteOffset, sem.JSONPointer)
	}
	var syn *jsontext.SyntacticError
	if errors.As(err, &syn) {
		return fmt.Sprintf("SyntacticError@%d%q", syn.ByteOffset, syn.JSONPointer)
	}
	if errors.Is(err, errWriter) {
		return "writer-error"
	}
	return "error:" + fmt.Sprintf("%T", err)
}

func mk(out any, err error) Result {
	kept := [2]any{out, errKey(err)}
	return Result{Snap: Render(kept), Kept: kept}
}

// ---- fixtures ----

type small struct {
	ID   int              `json:"id"`
	Name string           `json:"name"`
	Tags []string         `json:"tags,omitempty"`
	M    map[string][]int `json:"m"`
	P    *small           `json:"p,omitempty"`
	F    float64          `json:"f"`
}

type panicker struct{ N int }

var errInjectedPanic = errors.New("injected user panic")

func (p panicker) MarshalJSONTo(e *jsontext.Encoder) error {
	Yield()
	e.WriteToken(jsontext.BeginObject)
	e.WriteToken(jsontext.String("k"))
	e.WriteToken(jsontext.BeginArray)
	e.WriteToken(jsontext.Int(1))
	panic(errInjectedPanic)
}

func (p *panicker) UnmarshalJSONFrom(d *jsontext.Decoder) error {
	Yield()
	d.ReadToken()
	d.ReadToken()
	panic(errInjectedPanic)
}

type reenter struct{ V int }

func (r reenter) MarshalJSON() ([]byte, error) {
	Yield()
	b, err := jsonv2.Marshal(map[string]any{"inner": []int{r.V, r.V + 1}, "z": "<>"}, jsonv2.Deterministic(true), jsontext.EscapeForHTML(true))
	Yield()
	return b, err
}

var errWriter = errors.New("writer failed")

type failWriter struct {
	n     int
	limit int
}

func (w *failWriter) Write(p []byte) (int, error) {
	if w.n+len(p) > w.limit {
		k := w.limit - w.n
		if k < 0 {
			k = 0
		}
		w.n += k
		return k, errWriter
	}
	w.n += len(p)
	return len(p), nil
}

type plainWriter struct{ b []byte }

func (w *plainWriter) Write(p []byte) (int, error) { w.b = append(w.b, p...); return len(p), nil }

type chunkReader struct {
	b []byte
	n int
}

func (c *chunkReader) Read(p []byte) (int, error) {
	if len(c.b) == 0 {
		return 0, io.EOF
	}
	k := min(len(c.b), len(p), c.n)
	copy(p, c.b[:k])
	c.b = c.b[k:]
	return k, nil
}

func deep(n int) any {
	var v any = "leaf"
	for i := 0; i < n; i++ {
		if i%2 == 0 {
			v = []any{v}
		} else {
			v = map[string]any{"k": v}
		}
	}
	return v
}

// BigSize is the size of the large document (raised in the thorough tier).
var BigSize = 64 << 10

func recoverAs(f func() Result) (r Result) {
	defer func() {
		if p := recover(); p != nil {
			if p == errInjectedPanic || fmt.Sprint(p) == errInjectedPanic.Error() {
				r = mk(nil, errors.New("user panic (recovered by caller)"))
				r.Snap = "recovered-user-panic"
				r.Kept = nil
				return
			}
			r = Result{Snap: fmt.Sprintf("LIBRARY-PANIC: %v", p)}
		}
	}()
	return f()
}

// Call is one element of the alphabet.
type Call struct {
	Name string
	Run  func() Result
}

// Alphabet returns the call alphabet, simplest first.
func Alphabet() []Call {
	smallV := small{ID: 7, Name: "n<", Tags: []string{"a", "b"}, M: map[string][]int{"k": {1, 2}, "j": {}}, P: &small{ID: 8}, F: 1.5}
	detMap := map[string]any{"b": 1.0, "a": []any{"x", map[string]any{"z": 1.0, "y": 2.0}}, "c": map[string]any{}}
	cyc := map[string]any{}
	cyc["self"] = []any{cyc}
	rep := `{"name":"alpha","items":[{"name":"alpha","kind":"PREFIX00aSUFFIX99"},{"name":"beta","kind":"PREFIX00bSUFFIX99"},{"name":"alpha","kind":"PREFIX00aSUFFIX99"}],"kind":"PREFIX00bSUFFIX99"}`
	return []Call{
		{"Marshal(small struct)", func() Result { b, err := jsonv2.Marshal(smallV, jsonv2.Deterministic(true)); return mk(b, err) }},
		{"Marshal(map[string][]int with closing arrays)", func() Result {
			b, err := jsonv2.Marshal(map[string][]int{"k": {1, 2}}, jsonv2.Deterministic(true))
			return mk(b, err)
		}},
		{"Marshal failing at depth 3 (NaN)", func() Result {
			b, err := jsonv2.Marshal([]any{"aaaaaaaaaaaaaaaaaaaa", "bbbb", map[string]any{"k": []any{math.NaN()}}}, jsonv2.Deterministic(true))
			return mk(b, err)
		}},
		{"Marshal Deterministic map, HTML escaped, multiline", func() Result {
			b, err := jsonv2.Marshal(detMap, jsonv2.Deterministic(true), jsontext.EscapeForHTML(true), jsontext.Multiline(true))
			return mk(b, err)
		}},
		{"Marshal 1001-deep value", func() Result { b, err := jsonv2.Marshal(deep(1001)); return mk(len(b), err) }},
		{"Marshal cyclic value", func() Result { b, err := jsonv2.Marshal(cyc); return mk(len(b) > 0, err) }},
		{"Marshal with panicking MarshalJSONTo at depth 2", func() Result {
			return recoverAs(func() Result { b, err := jsonv2.Marshal([]any{1, map[string]any{"p": panicker{1}}}); return mk(b, err) })
		}},
		{"Marshal large string", func() Result {
			b, err := jsonv2.Marshal([]string{strings.Repeat("x", BigSize), "<tail>"})
			return mk(fmt.Sprintf("%d:%s", len(b), b[len(b)-12:]), err)
		}},
		{"MarshalWrite(bytes.Buffer)", func() Result {
			var bb bytes.Buffer
			err := jsonv2.MarshalWrite(&bb, smallV, jsonv2.Deterministic(true), jsontext.SpaceAfterComma(true))
			return mk(bb.Bytes(), err)
		}},
		{"MarshalWrite(plain writer)", func() Result {
			w := &plainWriter{}
			err := jsonv2.MarshalWrite(w, []any{smallV, "s"}, jsonv2.Deterministic(true))
			return mk(w.b, err)
		}},
		{"MarshalWrite(failing writer)", func() Result {
			w := &failWriter{limit: 90}
			err := jsonv2.MarshalWrite(w, []any{strings.Repeat("y", 200), smallV, strings.Repeat("z", 5000)}, jsonv2.Deterministic(true))
			return mk(w.n, err)
		}},
		{"Marshal(user MarshalJSON re-entering Marshal)", func() Result {
			b, err := jsonv2.Marshal([]any{reenter{1}, map[string]reenter{"r": {5}}}, jsonv2.Deterministic(true))
			return mk(b, err)
		}},
		{"Unmarshal(any) with repeated strings", func() Result {
			in := []byte(rep)
			var v any
			err := jsonv2.Unmarshal(in, &v)
			for i := range in {
				in[i] = '#' // the caller reuses its input buffer
			}
			return mk(v, err)
		}},
		{"Unmarshal failing at depth 3", func() Result {
			var v small
			err := jsonv2.Unmarshal([]byte(`{"id":1,"p":{"p":{"tags":["a",5]}}}`), &v)
			return mk(v.ID, err)
		}},
		{"Unmarshal(AllowDuplicateNames)", func() Result {
			var v map[string]any
			err := jsonv2.Unmarshal([]byte(`{"a":1,"a":{"b":2},"a":{"c":3}}`), &v, jsontext.AllowDuplicateNames(true))
			return mk(v, err)
		}},
		{"UnmarshalRead(chunked reader)", func() Result {
			var v any
			err := jsonv2.UnmarshalRead(&chunkReader{b: []byte(rep), n: 7}, &v)
			return mk(v, err)
		}},
		{"Unmarshal with panicking UnmarshalJSONFrom at depth 2", func() Result {
			return recoverAs(func() Result {
				var v struct{ A []map[string]*panicker }
				err := jsonv2.Unmarshal([]byte(`{"A":[{"p":{"x":[1,2]}}]}`), &v)
				return mk(len(v.A), err)
			})
		}},
		{"Value.IsValid(invalid) + Format(ReorderRawObjects)", func() Result {
			ok := jsontext.Value(`{"a":1,"a":2}`).IsValid()
			v := jsontext.Value(`{"b": [1, {"z":1,"y":2}], "a": "<"}`)
			err := v.Format(jsontext.ReorderRawObjects(true), jsontext.EscapeForHTML(true))
			return mk(fmt.Sprintf("%v %s", ok, v), err)
		}},
		{"AppendFormat failing", func() Result {
			dst := []byte("pre:")
			out, err := jsontext.AppendFormat(dst, `{"a":[1,2,}`, jsontext.Multiline(true))
			return mk(out, err)
		}},
		{"Token-level Encoder + Decoder round", func() Result {
			var bb bytes.Buffer
			e := jsontext.NewEncoder(&bb, jsontext.SpaceAfterColon(true))
			e.WriteToken(jsontext.BeginObject)
			e.WriteToken(jsontext.String("k"))
			e.WriteValue(jsontext.Value(`[1, "<", {"a": null}]`))
			err := e.WriteToken(jsontext.EndObject)
			d := jsontext.NewDecoder(bytes.NewReader(bb.Bytes()))
			v, err2 := d.ReadValue()
			return mk(fmt.Sprintf("%s|%s|%v", bb.Bytes(), v, err2), err)
		}},
	}
}
