//go:build verifshim

// Package c18: calls are isolated from one another - no history or concurrency dependence.
// Stateless model checking of the real library under a controlled scheduler: the library is built
// against a shim of package sync (build overlay), every shimmed operation is a scheduling point and
// every sync.Pool answer is a data choice; executions are enumerated depth-first with a preemption
// bound and a pool-deviation bound, and every call's result is compared with its isolated baseline.
package c18

import (
	"encoding/json"
	"fmt"
	"os"
	"os/exec"
	"strings"
	"time"

	"github.com/go-json-experiment/json/verifshim"

	"verif/internal/evid"
	"verif/props/c18/calls"
)

// ---- controlled scheduler ----

type thread struct {
	id     int
	resume chan struct{}
	done   bool
	cond   func() bool
	body   func()
	panic  any
}

type point struct {
	kind           byte // 's' scheduling choice, 'p' pool answer
	n              int
	chosen         int
	runningEnabled bool
	op             string
}

type execution struct {
	threads    []*thread
	cur        *thread
	back       chan struct{}
	prefix     []int
	points     []point
	steps      int
	deadlock   bool
	overrun    bool
	divergence string
	active     bool
	lastOp     string
}

const horizon = 200000

func (x *execution) choose(kind byte, n int, runningEnabled bool, op string) int {
	if n <= 1 {
		return 0
	}
	idx := len(x.points)
	c := 0
	if idx < len(x.prefix) {
		c = x.prefix[idx]
		if c >= n {
			x.divergence = fmt.Sprintf("replayed choice %d at point %d (%s) out of range %d", c, idx, op, n)
			c = 0
		}
	}
	x.points = append(x.points, point{kind, n, c, runningEnabled, op})
	return c
}

func (x *execution) enabled() []*thread {
	var out []*thread
	ok := func(t *thread) bool { return !t.done && (t.cond == nil || t.cond()) }
	if x.cur != nil && ok(x.cur) {
		out = append(out, x.cur)
	}
	for _, t := range x.threads {
		if t != x.cur && ok(t) {
			out = append(out, t)
		}
	}
	return out
}

// Point implements verifshim.Controller: the running harness thread hands control back to the scheduler.
func (x *execution) Point(op string, obj any) {
	if !x.active || x.cur == nil {
		return
	}
	// fast path: nobody else could run
	others := false
	for _, t := range x.threads {
		if t != x.cur && !t.done {
			others = true
			break
		}
	}
	if !others {
		return
	}
	t := x.cur
	x.lastOp = op
	x.back <- struct{}{}
	<-t.resume
}

func (x *execution) Block(op string, cond func() bool) {
	if !x.active || x.cur == nil {
		return
	}
	t := x.cur
	t.cond = cond
	x.lastOp = op
	x.back <- struct{}{}
	<-t.resume
	t.cond = nil
}

// PoolGet implements verifshim.Controller: options are [most recent item, New, older items...].
func (x *execution) PoolGet(p *verifshim.Pool, n int) int {
	if !x.active {
		return n - 1
	}
	if n == 0 {
		return -1
	}
	c := x.choose('p', n+1, false, "Pool.Get")
	switch {
	case c == 0:
		return n - 1
	case c == 1:
		return -1
	default:
		return c - 2
	}
}

// run executes the thread bodies under the schedule given by prefix (then default choices).
func (x *execution) run() {
	x.back = make(chan struct{})
	x.active = true
	verifshim.SetController(x)
	defer func() { x.active = false; verifshim.SetController(nil) }()
	for _, t := range x.threads {
		t := t
		t.resume = make(chan struct{})
		go func() {
			<-t.resume
			defer func() {
				if p := recover(); p != nil {
					t.panic = p
				}
				t.done = true
				x.back <- struct{}{}
			}()
			t.body()
		}()
	}
	for {
		en := x.enabled()
		alive := 0
		for _, t := range x.threads {
			if !t.done {
				alive++
			}
		}
		if alive == 0 {
			return
		}
		if len(en) == 0 {
			x.deadlock = true
			return
		}
		runningEnabled := x.cur != nil && en[0] == x.cur
		c := x.choose('s', len(en), runningEnabled, x.lastOp)
		t := en[c]
		x.cur = t
		t.resume <- struct{}{}
		<-x.back
		x.steps++
		if x.steps > horizon {
			x.overrun = true
			return
		}
	}
}

// ---- scenarios ----

// Scenario: each thread runs its calls in order.
type Scenario struct {
	Threads [][]int `json:"threads"`
	Warm    bool    `json:"warm"` // type caches and pools pre-populated by one uncontrolled pass of the same calls
}

type outcome struct {
	results   [][]calls.Result
	x         *execution
	warmPanic string
}

// safeRun executes a call outside the scheduler, turning an escaping panic into a result.
func safeRun(c calls.Call) (res calls.Result) {
	defer func() {
		if p := recover(); p != nil {
			res = calls.Result{Snap: fmt.Sprintf("LIBRARY-PANIC: %v", p)}
		}
	}()
	return c.Run()
}

func runScenario(alpha []calls.Call, sc Scenario, prefix []int) *outcome {
	verifshim.SetController(nil)
	verifshim.ResetAll()
	o := &outcome{results: make([][]calls.Result, len(sc.Threads))}
	if sc.Warm {
		for _, th := range sc.Threads {
			for _, c := range th {
				if res := safeRun(alpha[c]); strings.HasPrefix(res.Snap, "LIBRARY-PANIC") && o.warmPanic == "" {
					o.warmPanic = fmt.Sprintf("warm-up call %q: %s", alpha[c].Name, res.Snap)
				}
			}
		}
	}
	x := &execution{prefix: prefix}
	o.x = x
	for ti, th := range sc.Threads {
		ti, th := ti, th
		o.results[ti] = make([]calls.Result, 0, len(th))
		x.threads = append(x.threads, &thread{id: ti, body: func() {
			for _, c := range th {
				o.results[ti] = append(o.results[ti], alpha[c].Run())
			}
		}})
	}
	calls.Yield = func() { x.Point("user-callback", nil) }
	x.run()
	calls.Yield = func() {}
	return o
}

// judge compares an execution with the isolated baselines.
func judge(alpha []calls.Call, base []string, sc Scenario, o *outcome) string {
	x := o.x
	switch {
	case o.warmPanic != "":
		return "panic escaped the library during the sequential warm-up history: " + o.warmPanic
	case x.divergence != "":
		return "HARNESS: nondeterministic replay: " + x.divergence
	case x.deadlock:
		return "deadlock: no enabled thread although some have not finished"
	case x.overrun:
		return fmt.Sprintf("no termination within %d scheduling steps", horizon)
	}
	for ti, t := range x.threads {
		if t.panic != nil {
			return fmt.Sprintf("thread %d: panic escaped the library: %v", ti, t.panic)
		}
	}
	for ti, th := range sc.Threads {
		if len(o.results[ti]) != len(th) {
			return fmt.Sprintf("thread %d executed %d of %d calls", ti, len(o.results[ti]), len(th))
		}
		for ci, c := range th {
			res := o.results[ti][ci]
			if res.Snap != base[c] {
				return fmt.Sprintf("thread %d call %d %q: result %s differs from its isolated baseline %s", ti, ci, alpha[c].Name, trunc(res.Snap), trunc(base[c]))
			}
			if res.Kept != nil {
				if now := calls.Render(res.Kept); now != res.Snap {
					return fmt.Sprintf("thread %d call %d %q: the value handed back was altered by a later call: was %s, now %s", ti, ci, alpha[c].Name, trunc(res.Snap), trunc(now))
				}
			}
		}
	}
	return ""
}

func trunc(s string) string {
	if len(s) > 160 {
		return s[:100] + " ... " + s[len(s)-50:]
	}
	return s
}

// ---- explorer ----

type stats struct {
	executions, points, maxPoints, deviating int64
	outcomes                                 map[string]int64
}

// explore enumerates all executions of the scenario within the bounds (iterative DFS).
func explore(r *evid.Run, alpha []calls.Call, base []string, sc Scenario, boundPre, boundPool int, st *stats, part string) {
	stack := [][]int{nil}
	for len(stack) > 0 {
		if r.Expired() {
			r.NotExhaustive("internal deadline reached during exploration")
			return
		}
		prefix := stack[len(stack)-1]
		stack = stack[:len(stack)-1]
		o := runScenario(alpha, sc, prefix)
		st.executions++
		st.points += int64(len(o.x.points))
		if n := int64(len(o.x.points)); n > st.maxPoints {
			st.maxPoints = n
		}
		sig := signature(o)
		st.outcomes[sig]++
		if sig != "default" {
			st.deviating++
		}
		if msg := judge(alpha, base, sc, o); msg != "" {
			cs := Case{Part: part, Scenario: sc, Schedule: choices(o.x.points), Names: names(alpha, sc)}
			r.Violation(fmt.Sprintf("c18|%s|%v|%v|%v", part, sc.Threads, sc.Warm, cs.Schedule), msg, cs, func() bool { return ReplayCase(alpha, base, cs) != "" })
			if r.TooMany() {
				return
			}
		}
		pre, pool := 0, 0
		for i, pt := range o.x.points {
			if i >= len(prefix) {
				for alt := 1; alt < pt.n; alt++ {
					cp, cd := pre, pool
					if pt.kind == 's' {
						if pt.runningEnabled {
							cp++
						}
					} else {
						cd++
					}
					if cp > boundPre || cd > boundPool {
						continue
					}
					next := make([]int, i+1)
					for k := 0; k < i; k++ {
						next[k] = o.x.points[k].chosen
					}
					next[i] = alt
					stack = append(stack, next)
				}
			}
			if pt.chosen != 0 {
				if pt.kind == 's' {
					if pt.runningEnabled {
						pre++
					}
				} else {
					pool++
				}
			}
		}
	}
}

func choices(pts []point) []int {
	out := make([]int, len(pts))
	for i, p := range pts {
		out[i] = p.chosen
	}
	// trailing defaults are implied
	for len(out) > 0 && out[len(out)-1] == 0 {
		out = out[:len(out)-1]
	}
	return out
}

func names(alpha []calls.Call, sc Scenario) [][]string {
	out := make([][]string, len(sc.Threads))
	for i, th := range sc.Threads {
		for _, c := range th {
			out[i] = append(out[i], alpha[c].Name)
		}
	}
	return out
}

// signature classifies an execution by its numbers of preemptions and pool deviations.
func signature(o *outcome) string {
	pre, pool := 0, 0
	for _, p := range o.x.points {
		if p.chosen != 0 {
			if p.kind == 's' {
				pre++
			} else {
				pool++
			}
		}
	}
	if pre+pool == 0 {
		return "default"
	}
	return fmt.Sprintf("thread switches away from default=%d pool deviations=%d", pre, pool)
}

type Case struct {
	Part     string     `json:"part"`
	Scenario Scenario   `json:"scenario"`
	Schedule []int      `json:"schedule"`
	Names    [][]string `json:"calls"`
}

// ReplayCase re-executes one recorded schedule twice (determinism guard) and judges it.
func ReplayCase(alpha []calls.Call, base []string, cs Case) string {
	a := judge(alpha, base, cs.Scenario, runScenario(alpha, cs.Scenario, cs.Schedule))
	b := judge(alpha, base, cs.Scenario, runScenario(alpha, cs.Scenario, cs.Schedule))
	if a != b {
		return "HARNESS: the same schedule gave different observations: " + a + " / " + b
	}
	return a
}

func baselines(alpha []calls.Call) (base []string, msg string) {
	verifshim.SetController(nil)
	base = make([]string, len(alpha))
	for i, c := range alpha {
		verifshim.ResetAll()
		base[i] = safeRun(c).Snap
		if strings.HasPrefix(base[i], "LIBRARY-PANIC") {
			return base, fmt.Sprintf("call %q panics in isolation: %s", c.Name, base[i])
		}
		if again := safeRun(c).Snap; again != base[i] {
			return base, fmt.Sprintf("call %q: second execution (warm caches, pooled objects) gives %s, first gave %s", c.Name, trunc(again), trunc(base[i]))
		}
	}
	return base, ""
}

func Replay(r *evid.Run, raw json.RawMessage) {
	var cs Case
	if json.Unmarshal(raw, &cs) != nil {
		return
	}
	alpha := calls.Alphabet()
	base, _ := baselines(alpha)
	r.States.Add(1)
	r.Transitions.Add(1)
	r.Sample(cs)
	if msg := ReplayCase(alpha, base, cs); msg != "" {
		fmt.Println("replay fails:", msg)
		r.Violation("replay", msg, cs, nil)
	} else {
		fmt.Println("replay passes")
	}
}

// ---- run ----

type shardResult struct {
	Executions int64            `json:"executions"`
	Deviating  int64            `json:"deviating"`
	Points     int64            `json:"points"`
	MaxPoints  int64            `json:"max_points"`
	Outcomes   map[string]int64 `json:"outcomes"`
	Violations []shardViolation `json:"violations"`
	Capped     bool             `json:"capped"`
	Base       []string         `json:"base"` // isolated baselines and Deterministic(true) outputs of this process
	DetEvals   int64            `json:"det_evals"`
}
type shardViolation struct {
	Key, What string
	Case      Case
}

// pick returns the indices of the calls whose name contains one of the given fragments (each must match exactly one call).
func pick(alpha []calls.Call, frags ...string) []int {
	var out []int
	for _, f := range frags {
		hit := -1
		for i, c := range alpha {
			if strings.Contains(c.Name, f) {
				if hit >= 0 {
					panic("ambiguous call name fragment: " + f)
				}
				hit = i
			}
		}
		if hit < 0 {
			panic("no call matches: " + f)
		}
		out = append(out, hit)
	}
	return out
}

// scenarios builds the scenario list of a tier.
func scenarios(alpha []calls.Call, tier string) (hist, conc []Scenario) {
	n := len(alpha)
	var rec func(cur []int, L int, menu []int)
	rec = func(cur []int, L int, menu []int) {
		if len(cur) > 0 {
			hist = append(hist, Scenario{Threads: [][]int{append([]int(nil), cur...)}}, Scenario{Threads: [][]int{append([]int(nil), cur...)}, Warm: true})
		}
		if len(cur) == L {
			return
		}
		for _, i := range menu {
			rec(append(cur, i), L, menu)
		}
	}
	all := make([]int, n)
	for i := range all {
		all[i] = i
	}
	rec(nil, 2, all)
	if tier == "thorough" {
		// histories of three calls over a sub-alphabet (failures, panicking user code, large data, pooled writers, options,
		// streaming reads, kept errors, re-entrant user code), selected by name so that the alphabet may grow
		sub := pick(alpha, "Marshal(small struct)", "failing at depth 3 (NaN)", "panicking MarshalJSONTo", "MarshalWrite(plain writer)", "MarshalWrite(failing writer)",
			"Unmarshal(any) with repeated strings", "24 KiB document", "conversion error (chunked reader", "embedded raw value that is not an object", "re-entering Unmarshal", "panicking UnmarshalJSONFrom", "caller-supplied marshal functions")
		var rec3 func(cur []int)
		rec3 = func(cur []int) {
			if len(cur) == 3 {
				hist = append(hist, Scenario{Threads: [][]int{append([]int(nil), cur...)}}, Scenario{Threads: [][]int{append([]int(nil), cur...)}, Warm: true})
				return
			}
			for _, i := range sub {
				rec3(append(cur, i))
			}
		}
		rec3(nil)
	}
	// concurrent: every ordered pair of calls on two threads (cold and warm). The three calls that walk more than a
	// thousand containers or members take part in every history above; on two threads they are paired with each other
	// and with two small calls (quick), and with every call (thorough).
	heavy := map[int]bool{}
	for _, i := range pick(alpha, "failing below 1005 tracked containers", "same tracked containers with AllowInvalidUTF8", "Canonicalize of a 1300-member object") {
		heavy[i] = true
	}
	partners := map[int]bool{}
	for _, i := range pick(alpha, "Marshal(small struct)", "Value.Canonicalize + Compact + Indent") {
		partners[i] = true
	}
	for a := 0; a < n; a++ {
		for b := a; b < n; b++ {
			if tier != "thorough" && (heavy[a] || heavy[b]) && !((heavy[a] || partners[a]) && (heavy[b] || partners[b])) {
				continue
			}
			conc = append(conc, Scenario{Threads: [][]int{{a}, {b}}}, Scenario{Threads: [][]int{{a}, {b}}, Warm: true})
		}
	}
	if tier == "thorough" {
		// 2 calls each on a reduced alphabet, and three threads
		sel := pick(alpha, "Marshal(small struct)", "panicking MarshalJSONTo", "MarshalWrite(plain writer)", "Unmarshal(any) with repeated strings",
			"conversion error (chunked reader", "embedded raw value that is not an object", "re-entering Unmarshal")
		for _, a := range sel {
			for _, b := range sel {
				for _, c := range sel {
					conc = append(conc, Scenario{Threads: [][]int{{a, b}, {c, a}}, Warm: true})
				}
			}
		}
		for _, a := range sel {
			for _, b := range sel {
				for _, c := range sel {
					if a <= b && b <= c {
						conc = append(conc, Scenario{Threads: [][]int{{a}, {b}, {c}}})
					}
				}
			}
		}
	}
	return hist, conc
}

func runShard(r *evid.Run, shard, nshards int) *shardResult {
	alpha := calls.Alphabet()
	if r.Tier == "thorough" {
		calls.BigSize = 1 << 20
	}
	res := &shardResult{Outcomes: map[string]int64{}}
	base, msg := baselines(alpha)
	if msg != "" {
		res.Violations = append(res.Violations, shardViolation{"c18|baseline|" + msg, msg, Case{Part: "baseline"}})
		return res
	}
	res.Base = append([]string(nil), base...)
	lines, bad := calls.DetDigest(func(n int) { res.DetEvals += int64(n) })
	if bad != "" {
		res.Violations = append(res.Violations, shardViolation{"c18|deterministic|" + bad[:min(60, len(bad))], bad, Case{Part: "deterministic"}})
	}
	res.Base = append(res.Base, lines...)
	hist, conc := scenarios(alpha, r.Tier)
	st := &stats{outcomes: res.Outcomes}
	preB, poolB := 2, 1
	histPool := 2
	for i, sc := range hist {
		if i%nshards != shard {
			continue
		}
		explore(r, alpha, base, sc, 0, histPool, st, "history")
	}
	for i, sc := range conc {
		if i%nshards != shard {
			continue
		}
		explore(r, alpha, base, sc, preB, poolB, st, "schedule")
	}
	res.Executions, res.Points, res.MaxPoints, res.Deviating = st.executions, st.points, st.maxPoints, st.deviating
	return res
}

// Run is the parent: it shards the scenario list over child processes (the shimmed library state is
// process-global, so one process explores one execution at a time).
func Run(r *evid.Run) {
	if s := os.Getenv("VERIF_C18_SHARD"); s != "" {
		var shard, n int
		fmt.Sscanf(s, "%d/%d", &shard, &n)
		res := runShardCollect(r, shard, n)
		b, _ := json.Marshal(res)
		fmt.Printf("C18SHARD %s\n", b)
		os.Exit(0)
	}
	r.Rule("stateless model checking of the real library built against a shim of package sync: call alphabet of 36 heterogeneous calls (successes, failures at depth, panicking user code recovered by the caller, large and 1001-deep documents, cyclic values, failing writers, re-entrant user marshalers, interning-heavy decoding, formatting, struct option tags, caller-supplied functions, text-method map keys, call-scoped options on caller-owned coders, v1 entry points, maps without Deterministic). (c) Deterministic(true): 8 map constructions x every insertion order of their keys (all permutations up to 6 keys; identity, reversal, rotations and transpositions for 9 and 20 keys) x Marshal/MarshalWrite/MarshalEncode give identical bytes, and without the option the same members; the isolated baselines and these bytes are computed independently in each of the 12 exploration processes and must agree across processes. (a) histories: every call sequence up to length 2 (thorough: also every sequence of 3 calls over a 12-call sub-alphabet) on one thread x every sync.Pool answer (most recent item / New / any older item) with <=2 deviations, from cold caches and from warm caches+pools; (b) schedules: two (thorough: up to three) threads, all interleavings at the shimmed operations (Pool.Get/Put, Map.Load/Store/LoadOrStore, Once.Do entry/exit, OnceValue, atomic Load/Store) and user-callback entry/exit with <=2 preemptions x <=1 pool deviation. Oracle: each call's rendered result equals its isolated baseline (fresh caches, empty pools); values handed back are re-rendered after all later calls (aliasing); no deadlock, no panic escaping the library, termination within the step horizon; the same schedule replayed twice gives identical observations. distinct_nontrivial = executions whose schedule contains at least one preemption or non-default pool answer; states = executions explored; transitions = scheduling/pool choice points taken; traces = complete executions validated; an auxiliary free-running -race pass over the same call alphabet is reported separately and is not part of the exhaustive claim")
	r.Assume("scheduling points only at synchronisation operations and user callbacks: unsynchronised data races are outside the exhaustive part (auxiliary -race pass)", "the shim implements the documented contracts of sync.Pool/Map/Once (Pool may return any item or call New)", "memory-model reorderings are not modelled")
	nshards := 12
	type child struct {
		out []byte
		err error
	}
	ch := make(chan child, nshards)
	for i := 0; i < nshards; i++ {
		go func(i int) {
			cmd := exec.Command(os.Args[0], os.Args[1:]...)
			cmd.Env = append(os.Environ(), fmt.Sprintf("VERIF_C18_SHARD=%d/%d", i, nshards))
			out, err := cmd.Output()
			ch <- child{out, err}
		}(i)
	}
	outcomes := map[string]int64{}
	var maxPts int64
	var firstBase []string
	for i := 0; i < nshards; i++ {
		c := <-ch
		var res shardResult
		ok := false
		for _, line := range strings.Split(string(c.out), "\n") {
			if rest, found := strings.CutPrefix(line, "C18SHARD "); found {
				ok = json.Unmarshal([]byte(rest), &res) == nil
			}
		}
		if !ok {
			r.Violation("c18|shard-crash", fmt.Sprintf("an exploration shard crashed or produced no result: %v: %s", c.err, trunc(string(c.out))), Case{Part: "shard"}, nil)
			continue
		}
		// across processes: every process must compute the same isolated baselines and Deterministic(true) bytes
		if firstBase == nil {
			firstBase = res.Base
		} else if len(res.Base) != len(firstBase) {
			if len(res.Violations) == 0 {
				r.Violation("c18|process|count", "two processes produced different numbers of baselines", Case{Part: "process"}, nil)
			}
		} else {
			for k := range firstBase {
				if firstBase[k] != res.Base[k] {
					r.Violation(fmt.Sprintf("c18|process|%d", k), fmt.Sprintf("the same call gives different results in two fresh processes: %s vs %s", trunc(firstBase[k]), trunc(res.Base[k])), Case{Part: "process"}, nil)
					break
				}
			}
		}
		r.Evaluations.Add(res.DetEvals)
		r.States.Add(res.Executions)
		r.Traces.Add(res.Executions)
		r.Transitions.Add(res.Points)
		r.Evaluations.Add(res.Executions)
		r.Nontrivial.Add(res.Deviating)
		if res.MaxPoints > maxPts {
			maxPts = res.MaxPoints
		}
		for k, v := range res.Outcomes {
			outcomes[k] += v
		}
		if res.Capped {
			r.NotExhaustive("a shard hit its internal deadline")
		}
		for _, v := range res.Violations {
			v := v
			r.Violation(v.Key, v.What, v.Case, nil)
		}
	}
	r.Extra("distinct_interleaving_signatures", len(outcomes))
	r.Extra("max_choice_points_in_one_execution", maxPts)
	alpha := calls.Alphabet()
	hist, conc := scenarios(alpha, r.Tier)
	r.Sample(Case{Part: "schedule", Scenario: conc[len(conc)/3], Names: names(alpha, conc[len(conc)/3]), Schedule: []int{0, 0, 1}})
	r.Sample(Case{Part: "history", Scenario: hist[len(hist)/2], Names: names(alpha, hist[len(hist)/2])})
	r.Bound("histories: %d single-thread scenarios (all call sequences up to the tier's length, cold and warm) x pool deviations <=2; schedules: %d multi-thread scenarios x preemptions <=2 x pool deviations <=1; %d call kinds; explored in %d processes", len(hist), len(conc), len(alpha), nshards)
	racePass(r)
}

func runShardCollect(r *evid.Run, shard, n int) *shardResult {
	// violations are collected through a private Run so that the parent reports them
	sub := evid.New(r.Prop, r.Tier, r.Level)
	sub.Deadline = r.Deadline
	res := runShard(sub, shard, n)
	for _, v := range sub.Reported() {
		var cs Case
		json.Unmarshal(v.Replay, &cs)
		res.Violations = append(res.Violations, shardViolation{v.Key, v.What, cs})
	}
	res.Capped = sub.Capped()
	return res
}

// racePass runs the pre-built free-running -race binary (auxiliary, not exhaustive).
func racePass(r *evid.Run) {
	bin := os.Getenv("VERIF_C18_RACE_BIN")
	if bin == "" {
		r.Extra("race_pass", "not run (binary not provided)")
		return
	}
	start := time.Now()
	cmd := exec.Command(bin, r.Tier)
	out, err := cmd.CombinedOutput()
	s := string(out)
	if strings.Contains(s, "WARNING: DATA RACE") {
		first := s[strings.Index(s, "WARNING: DATA RACE"):]
		r.Violation("c18|race|"+firstFrames(first), "data race reported by the free-running -race pass: "+trunc(first), Case{Part: "race"}, nil)
	} else if err != nil || !strings.Contains(s, "RACEPASS ok") {
		r.Violation("c18|race-run", fmt.Sprintf("the -race pass failed: %v: %s", err, trunc(s)), Case{Part: "race"}, nil)
	}
	r.Extra("race_pass", fmt.Sprintf("free-running pass on 16 goroutines with the real sync package under -race: %.1fs, %s", time.Since(start).Seconds(), strings.TrimSpace(lastLine(s))))
}

func firstFrames(s string) string {
	lines := strings.Split(s, "\n")
	if len(lines) > 6 {
		lines = lines[:6]
	}
	return strings.Join(lines, ";")
}

func lastLine(s string) string {
	ls := strings.Split(strings.TrimSpace(s), "\n")
	return ls[len(ls)-1]
}
