// Package c05: decoding is independent of how the input arrives or is consumed.
// Environment-answer exploration: the harness owns the io.Reader and enumerates what each
// Read call answers (where it cuts, empty reads, data together with EOF, transient faults),
// crossed with every interleaving of ReadToken/ReadValue/SkipValue/PeekKind.
package c05

import (
	"bytes"
	"encoding/json"
	"errors"
	"fmt"
	"io"
	"reflect"
	"strconv"
	"strings"

	jsonv2 "github.com/go-json-experiment/json"
	"github.com/go-json-experiment/json/jsontext"

	"verif/internal/enum"
	"verif/internal/evid"
	"verif/internal/refjson"
	"verif/internal/views"
)

var errInjected = errors.New("injected transient read fault")

// sched is one reader schedule.
type Sched struct {
	Cuts    uint64 `json:"cuts"`     // bit i set: a Read never crosses the boundary before byte i+1 (i.e. stops after byte i)
	Chunk   int    `json:"chunk"`    // if >0: additionally deliver at most Chunk bytes per Read
	Empty   bool   `json:"empty"`    // every delivery is preceded by a (0, nil) read
	DataEOF bool   `json:"data_eof"` // the last bytes are returned together with io.EOF
	FaultAt int    `json:"fault_at"` // if >0: the FaultAt-th Read call (1-based) returns the transient error first
}

// reader is the harness-owned io.Reader.
type reader struct {
	data    []byte
	pos     int
	s       Sched
	calls   int
	toggle  bool
	faulted bool
}

func (r *reader) Read(p []byte) (int, error) {
	r.calls++
	if r.s.FaultAt > 0 && r.calls == r.s.FaultAt && !r.faulted {
		r.faulted = true
		return 0, errInjected
	}
	if len(p) == 0 {
		return 0, nil
	}
	if r.s.Empty && !r.toggle && r.pos < len(r.data) {
		r.toggle = true
		return 0, nil
	}
	r.toggle = false
	if r.pos >= len(r.data) {
		return 0, io.EOF
	}
	n := len(r.data) - r.pos
	if n > len(p) {
		n = len(p)
	}
	if r.s.Chunk > 0 && n > r.s.Chunk {
		n = r.s.Chunk
	}
	for i := 1; i < n; i++ { // stop at the first cut inside the delivery
		if q := r.pos + i - 1; q < 64 && r.s.Cuts&(1<<uint(q)) != 0 {
			n = i
			break
		}
	}
	copy(p, r.data[r.pos:r.pos+n])
	r.pos += n
	if r.s.DataEOF && r.pos == len(r.data) {
		return n, io.EOF
	}
	return n, nil
}

// obs is what one decoder call lets the caller observe.
type obs struct {
	op      byte
	kind    byte
	text    string // token text / value bytes
	errKey  string
	off     int64
	depth   int
	index   string
	pointer string
}

func (o obs) String() string {
	return fmt.Sprintf("%c kind=%q text=%q err=%s off=%d depth=%d idx=%s ptr=%q", o.op, o.kind, o.text, o.errKey, o.off, o.depth, o.index, o.pointer)
}

// errKey reduces an error to what the property compares: class, sentinel, offset, pointer (never message text).
func errKey(err error) string {
	if err == nil {
		return "-"
	}
	if err == io.EOF {
		return "EOF"
	}
	var se *jsontext.SyntacticError
	if errors.As(err, &se) {
		k := fmt.Sprintf("Syntactic@%d%q", se.ByteOffset, se.JSONPointer)
		if errors.Is(err, io.ErrUnexpectedEOF) {
			k += "+UnexpectedEOF"
		}
		if errors.Is(err, jsontext.ErrDuplicateName) {
			k += "+Dup"
		}
		if errors.Is(err, jsontext.ErrNonStringName) {
			k += "+NonStringName"
		}
		return k
	}
	if errors.Is(err, errInjected) {
		return "INJECTED"
	}
	if errors.Is(err, io.ErrUnexpectedEOF) {
		return "UnexpectedEOF"
	}
	return fmt.Sprintf("other:%T", err)
}

func positions(d *jsontext.Decoder, o *obs) {
	o.off = d.InputOffset()
	o.depth = d.StackDepth()
	var buf [96]byte
	b := buf[:0]
	for i := 0; i <= o.depth; i++ {
		k, n := d.StackIndex(i)
		b = append(b, byte(k)|' ')
		b = strconv.AppendInt(b, n, 10)
		b = append(b, ' ')
	}
	o.index = string(b)
	o.pointer = string(d.StackPointer())
}

// lastClone holds Token.Clone() of the token returned by the most recent ReadToken of this goroutine's trace.
type cloneKeeper struct {
	tok   jsontext.Token
	text  string
	kind  byte
	valid bool
}

func step(d *jsontext.Decoder, op byte) (o obs, err error) {
	return stepK(d, op, nil)
}

func stepK(d *jsontext.Decoder, op byte, keep *cloneKeeper) (o obs, err error) {
	o.op = op
	switch op {
	case 'T':
		var t jsontext.Token
		t, err = d.ReadToken()
		if err == nil {
			o.kind = byte(t.Kind())
			o.text = t.String()
			if keep != nil && (o.kind == '"' || o.kind == '0') {
				*keep = cloneKeeper{t.Clone(), o.text, o.kind, true}
			}
		}
	case 'V':
		var v jsontext.Value
		v, err = d.ReadValue()
		if err == nil {
			o.kind = byte(v.Kind())
			o.text = string(v)
		}
	case 'S':
		err = d.SkipValue()
	case 'P':
		o.kind = byte(d.PeekKind())
	}
	o.errKey = errKey(err)
	positions(d, &o)
	return o, err
}

// Case is a replayable execution.
type Case struct {
	Input     []byte `json:"input"`
	InputText string `json:"input_text"`
	Program   string `json:"program"` // ops; after the program all-ReadToken until EOF/error
	Sched     Sched  `json:"sched"`
	AllowDup  bool   `json:"allow_dup"`
	// Prime < 0: before the run the decoder has read a stream of small values of -Prime bytes to its end; Prime > 0: before the run the (reused) decoder has decoded one string of Prime bytes from a plain reader, so
	// that its internal buffer has grown as it would have in a longer-lived decoder; 0 = freshly made decoder
	Prime int `json:"prime,omitempty"`
	// Reset family: the Decoder first made ResetAfter ReadToken calls on First (through FirstSched, or a bytes.Buffer),
	// was then Reset onto Input (through Sched) and must behave like a fresh Decoder
	First       []byte `json:"first,omitempty"`
	FirstSched  Sched  `json:"first_sched,omitempty"`
	FirstBuffer bool   `json:"first_buffer,omitempty"`
	ResetAfter  int    `json:"reset_after,omitempty"`
	IsReset     bool   `json:"is_reset,omitempty"`
	// ExplicitFalse: the Decoder is made with AllowDuplicateNames(false) and AllowInvalidUTF8(false) spelled out
	ExplicitFalse bool `json:"explicit_false,omitempty"`
}

// maxSteps bounds one execution: the longest documents (8 KiB boundary sweeps of two-byte values) have ~4100 tokens;
// reaching the bound means the decoder never reports EOF or an error
const maxSteps = 1 << 16

// trace runs the program (then ReadToken until the end) on a decoder over rd and returns the observations.
// checkBuf, if non-nil, is called after every call with the bytes taken from the reader so far.
func trace(dec *jsontext.Decoder, program string, inv func() string, out []obs) ([]obs, string) {
	out = out[:0]
	var keep cloneKeeper
	for i := 0; i < maxSteps; i++ {
		op := byte('T')
		if i < len(program) {
			op = program[i]
		}
		prev := keep
		keep.valid = false
		var kp *cloneKeeper
		if inv != nil {
			kp = &keep
		}
		o, err := stepK(dec, op, kp)
		out = append(out, o)
		// a cloned token stays valid (same kind and text) after the next call has reused the buffer
		if prev.valid && (byte(prev.tok.Kind()) != prev.kind || prev.tok.String() != prev.text) {
			return out, fmt.Sprintf("after call %d (%c): the Clone of the previously returned token changed: now %q, was %q", i+1, op, prev.tok.String(), prev.text)
		}
		if inv != nil {
			if m := inv(); m != "" {
				return out, fmt.Sprintf("after call %d (%c): %s", i+1, op, m)
			}
		}
		if err != nil {
			if op == 'S' || i >= len(program) {
				return out, ""
			}
			// a failed read call inside the program ends the run too (state after errors is compared up to here)
			return out, ""
		}
		if op == 'P' && o.kind == 0 {
			// the error is cached; the next read call reports it
			continue
		}
	}
	return out, "HARNESS: step horizon exceeded (decoder does not reach EOF)"
}

type runner struct {
	dec   *jsontext.Decoder
	base  *jsontext.Decoder
	rd    reader
	a, b  []obs
	cur   Case
	opts  []jsontext.Options
	stats map[string]int64
}

func newRunner() *runner {
	return &runner{dec: jsontext.NewDecoder(bytes.NewReader(nil)), base: jsontext.NewDecoder(bytes.NewReader(nil)), stats: map[string]int64{}}
}

// baseline decodes the whole byte slice at once (a *bytes.Buffer is consumed in one piece).
func (x *runner) baseline(in []byte, program string) []obs {
	x.base.Reset(bytes.NewBuffer(in), x.opts...)
	x.a, _ = trace(x.base, program, nil, x.a)
	return x.a
}

// invariant: bytes taken from the reader == first InputOffset bytes followed by UnreadBuffer.
func (x *runner) invariant() string {
	off := x.dec.InputOffset()
	ub := x.dec.UnreadBuffer()
	taken := x.rd.pos
	if off+int64(len(ub)) != int64(taken) {
		return fmt.Sprintf("InputOffset(%d)+len(UnreadBuffer)(%d) != bytes taken from reader (%d)", off, len(ub), taken)
	}
	if off < 0 || int(off) > taken || !bytes.Equal(ub, x.rd.data[off:taken]) {
		return fmt.Sprintf("UnreadBuffer %q is not the input span [%d:%d] %q", ub, off, taken, x.rd.data[off:taken])
	}
	return ""
}

// chunked runs the program under the schedule and compares with the baseline trace.
func (x *runner) chunked(in []byte, program string, s Sched, base []obs) string {
	x.rd = reader{data: in, s: s}
	x.dec.Reset(&x.rd, x.opts...)
	if s.FaultAt > 0 {
		return x.faulty(in, program, base)
	}
	var msg string
	x.b, msg = trace(x.dec, program, x.invariant, x.b)
	if msg != "" {
		return msg
	}
	return diff(base, x.b)
}

func diff(a, b []obs) string {
	for i := 0; i < len(a) && i < len(b); i++ {
		if a[i] != b[i] {
			return fmt.Sprintf("call %d differs: whole-input decoding {%v}, this schedule {%v}", i+1, a[i], b[i])
		}
	}
	if len(a) != len(b) {
		return fmt.Sprintf("number of calls until EOF/error differs: %d vs %d", len(a), len(b))
	}
	return ""
}

// faulty executes the program with one transient fault; the failed call is retried and every
// observation must equal the fault-free baseline; decoder positions must not move on the failed call.
func (x *runner) faulty(in []byte, program string, base []obs) string {
	var prev obs
	positions(x.dec, &prev)
	pendingPeek := false
	for i := 0; i < len(base); i++ {
		op := base[i].op
		o, err := step(x.dec, op)
		if errors.Is(err, errInjected) || (op == 'P' && o.kind == 0 && base[i].kind != 0 && !pendingPeek) {
			if op == 'S' {
				// SkipValue is outside the retry clause (what it consumed before the fault is not specified), but the reader
				// failed exactly once: no later call may report that fault again, and PeekKind must look at the input again
				for j := 0; j < 3; j++ {
					x.dec.PeekKind()
					if _, e := step(x.dec, 'T'); errors.Is(e, errInjected) {
						return fmt.Sprintf("call %d: SkipValue reported the transient fault; read call #%d after it reports the same fault again although the reader failed only once", i+1, j+1)
					} else if e != nil {
						break
					}
				}
				return ""
			}
			if op == 'P' && err == nil {
				// PeekKind reports failure as kind 0; the cached error is returned (and cleared) by the next read call.
				if o.off != prev.off || o.depth != prev.depth || o.index != prev.index || o.pointer != prev.pointer {
					return fmt.Sprintf("call %d: failed PeekKind moved the decoder: before {%v} after {%v}", i+1, prev, o)
				}
				// drain the cached error with a read call, which must report the injected fault
				_, err2 := step(x.dec, 'T')
				if !errors.Is(err2, errInjected) {
					return fmt.Sprintf("call %d: after a failed PeekKind the next read call returned %v instead of the pending I/O error", i+1, err2)
				}
				o, err = step(x.dec, op) // retry the peek
			} else {
				var after obs
				positions(x.dec, &after)
				if after.off != prev.off || after.depth != prev.depth || after.index != prev.index || after.pointer != prev.pointer {
					return fmt.Sprintf("call %d (%c): transient fault changed decoder state: before {%v} after {%v}", i+1, op, prev, after)
				}
				o, err = step(x.dec, op) // retry
			}
			x.stats["faults-hit"]++
		}
		if m := x.invariant(); m != "" {
			return fmt.Sprintf("after call %d (%c): %s", i+1, op, m)
		}
		if o != base[i] {
			return fmt.Sprintf("call %d differs from the fault-free run: want {%v}, got {%v}", i+1, base[i], o)
		}
		prev = o
		_ = err
	}
	return ""
}

// model compares the baseline trace of a VALID stream against the reference decoder model.
func model(in []byte, program string, base []obs, o refjson.Opts) string {
	m := refjson.NewDecModel(in, o)
	if m == nil {
		return ""
	}
	for i, b := range base {
		var want obs
		want.op = b.op
		switch b.op {
		case 'T':
			t, ok := m.Token()
			if !ok {
				want.errKey = "EOF"
			} else {
				want.errKey = "-"
				want.kind = normKind(t.Kind, in[t.Start])
				switch t.Kind {
				case '"':
					want.text = t.Str
				default:
					want.text = string(in[t.Start:t.End])
				}
			}
		case 'V', 'S':
			span, ok, closer := m.Value()
			switch {
			case !ok:
				want.errKey = "EOF"
			case closer:
				want.errKey = "*" // some syntactic error; positions unchanged
			default:
				want.errKey = "-"
				if b.op == 'V' {
					want.kind = normKind(span[0], span[0])
					want.text = string(span)
				}
			}
		case 'P':
			want.errKey = "-"
			if k := m.Peek(); k != 0 {
				want.kind = normKind(k, in[m.Toks[m.I].Start])
			}
		}
		want.off = int64(m.Off)
		want.depth = m.Depth()
		var ib []byte
		for l := 0; l <= m.Depth(); l++ {
			k, n := m.Index(l)
			ib = append(ib, k|' ')
			ib = strconv.AppendInt(ib, n, 10)
			ib = append(ib, ' ')
		}
		want.index = string(ib)
		want.pointer = m.Pointer()
		got := b
		if want.errKey == "*" {
			if got.errKey == "-" || got.errKey == "EOF" {
				return fmt.Sprintf("call %d: ReadValue/SkipValue at a closing delimiter returned %s", i+1, got.errKey)
			}
			got.errKey = "*"
		}
		if got != want {
			return fmt.Sprintf("call %d: decoder {%v}, reference model {%v}", i+1, got, want)
		}
		if want.errKey != "-" {
			break
		}
	}
	return ""
}

func normKind(k byte, first byte) byte {
	switch k {
	case '0':
		return '0'
	}
	switch {
	case first == '-' || ('0' <= first && first <= '9'):
		return '0'
	}
	return k
}

func report(r *evid.Run, cs Case, msg string) {
	cs.Input = append([]byte(nil), cs.Input...)
	cs.InputText = string(cs.Input)
	// the exploration reuses decoders (Reset), whose internal buffer keeps the capacity reached earlier; find the
	// decoder history (fresh, or primed to a given size) under which this case fails deterministically
	if ReplayCase(cs) == "" {
		for _, p := range []int{-600, -6000, 40, 100, 200, 400, 800, 1600, 3200, 6400, 12800, 25600, 70000} {
			cs.Prime = p
			if ReplayCase(cs) != "" {
				break
			}
			cs.Prime = 0
		}
	}
	key := fmt.Sprintf("c05|%q|%s|%+v|dup=%v", cs.Input, cs.Program, cs.Sched, cs.AllowDup)
	if cs.ExplicitFalse {
		key += "|explicit-false"
	}
	if cs.IsReset {
		cs.First = append([]byte(nil), cs.First...)
		key += fmt.Sprintf("|reset|%d|%.40q|%+v|%v", cs.ResetAfter, cs.First, cs.FirstSched, cs.FirstBuffer)
	}
	r.Violation(key, msg, cs, func() bool { return ReplayCase(cs) != "" })
}

// ReplayCase re-executes one recorded execution twice (determinism guard) and returns the failure message.
func ReplayCase(cs Case) string {
	if cs.IsReset {
		return resetOne(newRunner(), cs)
	}
	if n, ok := strings.CutPrefix(cs.Program, "UnmarshalRead-fallback-"); ok {
		ti := int(n[0] - '0')
		if m := fbOne(cs.Input, ti, cs.Sched, false); m != "" {
			return m
		}
		return fbOne(cs.Input, ti, cs.Sched, true)
	}
	switch cs.Program {
	case "UnmarshalRead":
		return routeUnmarshalRead(cs.Input, cs.Sched)
	case "UnmarshalDecode":
		return routeUnmarshalDecode(cs.Input, cs.Sched)
	}
	one := func() string {
		x := newRunner()
		if cs.AllowDup {
			x.opts = []jsontext.Options{jsontext.AllowDuplicateNames(true)}
		}
		if cs.ExplicitFalse {
			x.opts = []jsontext.Options{jsontext.AllowDuplicateNames(false), jsontext.AllowInvalidUTF8(false)}
		}
		if cs.Prime > 0 {
			doc := append(append([]byte{'"'}, bytes.Repeat([]byte{'x'}, cs.Prime)...), '"')
			x.rd = reader{data: doc}
			x.dec.Reset(&x.rd)
			x.dec.ReadValue()
		}
		if cs.Prime < 0 {
			// a stream of many small values read to its end through a plain reader: besides growing the buffer this makes the
			// decoder discard consumed input (its base offset advances), as in a long-lived decoder
			x.rd = reader{data: bytes.Repeat([]byte("12345 "), -cs.Prime/6+1)}
			x.dec.Reset(&x.rd)
			for {
				if _, err := x.dec.ReadToken(); err != nil {
					break
				}
			}
		}
		base := append([]obs(nil), x.baseline(cs.Input, cs.Program)...)
		if m := model(cs.Input, cs.Program, base, refjson.Opts{AllowDupNames: cs.AllowDup}); m != "" {
			return "model: " + m
		}
		return x.chunked(cs.Input, cs.Program, cs.Sched, base)
	}
	a, b := one(), one()
	if a != b {
		return "HARNESS: nondeterministic replay: " + a + " / " + b
	}
	return a
}

func Replay(r *evid.Run, raw json.RawMessage) {
	var tw struct {
		Typed *TypedCase `json:"typed"`
	}
	if json.Unmarshal(raw, &tw) == nil && tw.Typed != nil {
		tc := tw.Typed
		r.Evaluations.Add(1)
		r.Nontrivial.Add(2)
		r.Sample(tc)
		if tc.Target >= len(typedTargets) || tc.Opts >= len(typedOptSets) {
			return
		}
		if msg := typedOne(tc.Vals, tc.Sep, tc.Sched, tc.Target, tc.Opts); msg != "" {
			fmt.Println("replay fails:", msg)
			r.Violation("replay", msg, tc, nil)
		} else {
			fmt.Println("replay passes")
		}
		return
	}
	var cs Case
	if json.Unmarshal(raw, &cs) != nil {
		return
	}
	r.Evaluations.Add(1)
	r.Nontrivial.Add(2)
	r.Sample(cs)
	if msg := ReplayCase(cs); msg != "" {
		fmt.Println("replay fails:", msg)
		r.Violation("replay", msg, cs, nil)
	} else {
		fmt.Println("replay passes")
	}
}

// programs enumerates op strings: all strings over ops of length n (exhaustive) or the
// deviation-bounded set (default all-T of length n, at most dev positions replaced).
func programs(n int, dev int, ops string) []string {
	var out []string
	if dev < 0 {
		var rec func(p []byte)
		rec = func(p []byte) {
			if len(p) == n {
				out = append(out, string(p))
				return
			}
			for i := 0; i < len(ops); i++ {
				rec(append(p, ops[i]))
			}
		}
		rec(nil)
		return out
	}
	base := bytes.Repeat([]byte{'T'}, n)
	out = append(out, string(base))
	alt := strings.ReplaceAll(ops, "T", "")
	var rec func(start, left int, p []byte)
	rec = func(start, left int, p []byte) {
		if left == 0 {
			return
		}
		for i := start; i < n; i++ {
			for k := 0; k < len(alt); k++ {
				q := append([]byte(nil), p...)
				q[i] = alt[k]
				out = append(out, string(q))
				rec(i+1, left-1, q)
			}
		}
	}
	rec(0, dev, base)
	return out
}

// schedules for an input of n bytes: every cut set (if all) or <=2 cuts plus the one-byte reader, x styles.
func schedules(n int, all bool) []Sched {
	var cuts []uint64
	if n <= 1 {
		cuts = []uint64{0}
	} else if all {
		for c := uint64(0); c < 1<<uint(n-1); c++ {
			cuts = append(cuts, c)
		}
	} else {
		cuts = append(cuts, 0)
		for i := 0; i < n-1 && i < 63; i++ {
			cuts = append(cuts, 1<<uint(i))
			for j := i + 1; j < n-1 && j < 63; j++ {
				cuts = append(cuts, 1<<uint(i)|1<<uint(j))
			}
		}
		if n-1 < 63 {
			cuts = append(cuts, 1<<uint(n-1)-1) // one byte at a time
		}
	}
	var out []Sched
	for _, c := range cuts {
		for style := 0; style < 4; style++ {
			out = append(out, Sched{Cuts: c, Empty: style&1 != 0, DataEOF: style&2 != 0})
		}
	}
	return out
}

type docFilter struct {
	p refjson.Parser
}

// interesting: a valid stream, a viable prefix, or a text whose first error is its last byte.
func (f *docFilter) interesting(b []byte) (ok bool, valid bool) {
	f.p.O = refjson.Opts{Stream: true, NoToks: true}
	res := f.p.Run(b)
	if res.Dead {
		return res.DeadAt == len(b)-1, false
	}
	return true, res.Complete
}

func Run(r *evid.Run) {
	r.Rule("environment-answer exploration of a real jsontext.Decoder: for every document of the class, every call program (ReadToken/ReadValue/SkipValue/PeekKind; exhaustive up to a length, then <=2 deviations from all-ReadToken) is first run on the whole input (*bytes.Buffer) and checked against the reference decoder model (valid streams), then re-run under every reader schedule of the class (all 2^(n-1) cut sets for short inputs, else <=2 cuts and the one-byte reader; x empty reads x data-with-EOF), comparing every call's token/value/error key/InputOffset/StackDepth/StackIndex/StackPointer and the invariant bytes-taken == InputOffset ++ UnreadBuffer; single transient faults before every Read call with retry; buffer-boundary sweeps around 64..8192; UnmarshalRead/UnmarshalDecode vs Unmarshal. evaluations = executions (document x program x schedule); distinct_nontrivial = distinct (document, program, schedule) executions whose schedule has at least one deviation (cut, empty read, data+EOF or fault)")
	r.Assume("reference decoder model (internal/refjson/decmodel.go) for valid streams", "a *bytes.Buffer source is 'the whole byte slice'", "error message text is never compared")
	resetFamily(r)
	nameScopes(r)
	quick := r.Tier != "thorough"
	// class (a): exhaustive on short documents; class (b): deviation-bounded on longer ones
	exhLen, exhProg := 5, 4
	bndLen, bndProg, bndDev := 9, 6, 1
	a1Len, bLen := 5, 3
	if !quick {
		exhLen, exhProg = 6, 5
		bndLen, bndProg, bndDev = 11, 7, 2
		a1Len, bLen = 6, 4
	}
	vs := []views.View{
		{Name: "A1-structural", Alpha: views.A1, MaxLen: a1Len, Prefix: ""},
		{Name: "B-atoms", Alpha: views.B, MaxLen: bLen, Prefix: ""},
	}
	progExh := map[int][]string{}
	progBnd := map[int][]string{}
	for n := 1; n <= 16; n++ {
		progExh[n] = programs(min(n, exhProg), -1, "TVSP")
		progBnd[n] = programs(min(n, bndProg), bndDev, "TVSP")
	}
	progFault := map[int][]string{}
	for n := 1; n <= 16; n++ {
		progFault[n] = programs(min(n, bndProg), 1, "TVPS")
	}
	// the targeted families run first, the large exhaustive enumeration last (an internal deadline then only cuts the latter short)
	boundarySweeps(r)
	unmarshalRoutes(r)
	fallbackRoutes(r)
	typedRoutes(r)
	SparsePointers(r, "c05")
	surrogateSplits(r)
	views.ForAll(r, vs, func(w *enum.Worker, v views.View) func([]byte) {
		x := newRunner()
		var f docFilter
		w.Describe = func() any { return x.cur }
		w.Done = func() { r.Outcomes(x.stats) }
		var evals, nontriv int64
		flush := func() { r.Evaluations.Add(evals); r.Nontrivial.Add(nontriv); evals, nontriv = 0, 0 }
		prevDone := w.Done
		w.Done = func() { flush(); prevDone() }
		sampled := false
		return func(s []byte) {
			if len(s) == 0 || len(s) > bndLen {
				return
			}
			ok, valid := f.interesting(s)
			if !ok {
				return
			}
			if valid {
				x.stats["docs-valid"]++
			} else {
				x.stats["docs-invalid-or-truncated"]++
			}
			in := append([]byte(nil), s...)
			ntok := countTokens(in) + 1
			exhaustive := len(in) <= exhLen
			progs := progBnd[min(ntok, 16)]
			if exhaustive {
				progs = progExh[min(ntok, 16)]
			}
			scheds := schedules(len(in), exhaustive)
			for mode := 0; mode < 3; mode++ {
				dup, explicit := mode == 1, mode == 2
				if mode > 0 && !bytes.Contains(in, []byte(`"`)) {
					continue
				}
				x.opts = nil
				if dup {
					x.opts = []jsontext.Options{jsontext.AllowDuplicateNames(true)}
				}
				if explicit {
					// the defaults spelled out: "present with value false" must behave like "absent"
					x.opts = []jsontext.Options{jsontext.AllowDuplicateNames(false), jsontext.AllowInvalidUTF8(false)}
				}
				for _, p := range progs {
					base := x.baseline(in, p)
					x.cur = Case{Input: in, Program: p, AllowDup: dup, ExplicitFalse: explicit}
					if m := model(in, p, base, refjson.Opts{AllowDupNames: dup}); m != "" {
						report(r, x.cur, "whole-input decoding vs reference model: "+m)
						continue
					}
					for _, sc := range scheds {
						x.cur.Sched = sc
						evals++
						if sc.Cuts != 0 || sc.Empty || sc.DataEOF {
							nontriv++
						}
						if m := x.chunked(in, p, sc, base); m != "" {
							report(r, x.cur, m)
						}
						w.Beat()
					}
					if !sampled && valid && len(in) >= 5 {
						sampled = true
						r.Sample(Case{Input: in, InputText: string(in), Program: p, Sched: scheds[len(scheds)/2], AllowDup: dup})
					}
				}
				// single transient faults: before every Read call, under three reader shapes
				for _, p := range progFault[min(ntok, 16)] {
					base := x.baseline(in, p)
					for _, shape := range []Sched{{}, {Cuts: 1<<uint(min(len(in)-1, 63)) - 1}, {Empty: true, DataEOF: true}} {
						for k := 1; k <= len(in)+3; k++ {
							sc := shape
							sc.FaultAt = k
							x.cur = Case{Input: in, Program: p, Sched: sc, AllowDup: dup, ExplicitFalse: explicit}
							evals++
							nontriv++
							if m := x.chunked(in, p, sc, base); m != "" {
								report(r, x.cur, m)
							}
						}
					}
					w.Beat()
				}
			}
			if evals > 1<<16 {
				flush()
			}
		}
	})
	r.Bound("documents: every interesting (valid, viable or first-error-at-last-byte) string of the views; <=%d bytes: all 2^(n-1) cut sets x 4 styles x all programs of <=%d ops; <=%d bytes: <=2 cuts + one-byte reader x 4 styles x programs with <=%d deviations (length %d); single faults before every Read call x 3 reader shapes x programs with <=1 deviation", exhLen, exhProg, bndLen, bndDev, bndProg)
}

// SparsePointers: StackPointer itself forces the decoder to copy pending member names, so observing it
// after every call can mask stale-name bugs. Here nothing is observed until N calls have been made:
// for every N the pointer then reported (and the error pointer of every truncation of the document)
// must equal the reference model's / the whole-input decoder's.
func SparsePointers(r *evid.Run, keyPrefix string) {
	var docs []string
	mk := func(n int, pad int) string {
		var sb strings.Builder
		sb.WriteString(`{"outer":{`)
		for i := 0; i < n; i++ {
			if i > 0 {
				sb.WriteByte(',')
			}
			fmt.Fprintf(&sb, `"k%02d%s":[%d,{"in%d":"v"}]`, i, strings.Repeat("x", pad), i, i)
		}
		sb.WriteString(`},"tail":[1,2]}`)
		return sb.String()
	}
	sizes := []int{8, 16, 24}
	if r.Tier == "thorough" {
		sizes = []int{8, 16, 24, 40, 80, 160, 330}
	}
	for _, n := range sizes {
		docs = append(docs, mk(n, 0), mk(n, 5))
	}
	docs = append(docs, `[`+mk(10, 1)+`,`+mk(12, 0)+`]`)
	type unit struct {
		doc   int
		chunk int
	}
	var units []unit
	for d := range docs {
		for _, c := range []int{0, 1, 7, 61} {
			units = append(units, unit{d, c})
		}
	}
	enum.Parallel(r, len(units), func(w *enum.Worker) func(int) {
		var cur Case
		w.Describe = func() any { return cur }
		var evals int64
		w.Done = func() { r.Evaluations.Add(evals); r.Nontrivial.Add(evals) }
		dec := jsontext.NewDecoder(bytes.NewReader(nil))
		base := jsontext.NewDecoder(bytes.NewReader(nil))
		return func(u int) {
			in := []byte(docs[units[u].doc])
			sc := Sched{Chunk: units[u].chunk}
			ntok := countTokens(in)
			for _, op := range "TV" {
				for n := 1; n <= ntok; n++ {
					m := refjson.NewDecModel(in, refjson.Opts{})
					rd := &reader{data: in, s: sc}
					dec.Reset(rd)
					ok := true
					for i := 0; i < n && ok; i++ {
						// walk by tokens; the last call is `op` (a token or a whole value)
						if i == n-1 && op == 'V' {
							_, has, closer := m.Value()
							if !has || closer {
								ok = false
								break
							}
							if _, err := dec.ReadValue(); err != nil {
								ok = false
							}
						} else {
							if _, has := m.Token(); !has {
								ok = false
								break
							}
							if _, err := dec.ReadToken(); err != nil {
								ok = false
							}
						}
					}
					if !ok {
						continue
					}
					evals++
					cur = Case{Input: in, Program: fmt.Sprintf("%d tokens then observe (last call %c)", n, op), Sched: sc}
					var msg string
					func() {
						defer func() {
							if p := recover(); p != nil {
								msg = fmt.Sprintf("library panic: %v", p)
							}
						}()
						if got, want := string(dec.StackPointer()), m.Pointer(); got != want {
							msg = fmt.Sprintf("after %d unobserved calls StackPointer = %q, reference model %q", n, got, want)
						}
					}()
					if msg != "" {
						r.Violation(fmt.Sprintf("%s|sparse|doc%d|chunk%d|%c|n=%d", keyPrefix, units[u].doc, sc.Chunk, op, n), msg, cur, nil)
					}
					w.Beat()
				}
			}
			// error pointers of truncated / corrupted documents: token walk and value read, vs whole-input decoding
			for cut := 1; cut < len(in); cut++ {
				for _, corrupt := range []bool{false, true} {
					bad := append([]byte(nil), in[:cut]...)
					if corrupt {
						bad = append(bad, '!')
					}
					for _, op := range "TV" {
						run := func(d *jsontext.Decoder) (key string) {
							defer func() {
								if p := recover(); p != nil {
									key = fmt.Sprintf("library panic: %v", p)
								}
							}()
							var err error
							if op == 'V' {
								d.ReadToken()
								d.ReadToken()
								_, err = d.ReadValue()
							} else {
								for err == nil {
									_, err = d.ReadToken()
								}
							}
							return errKey(err)
						}
						base.Reset(bytes.NewBuffer(bad))
						want := run(base)
						dec.Reset(&reader{data: bad, s: sc})
						got := run(dec)
						evals++
						if got != want {
							cur = Case{Input: bad, Program: fmt.Sprintf("error pointer (%c)", op), Sched: sc}
							r.Violation(fmt.Sprintf("%s|sparse-err|doc%d|chunk%d|%c|cut=%d|%v", keyPrefix, units[u].doc, sc.Chunk, op, cut, corrupt), fmt.Sprintf("final error differs: whole input %s, this reader %s", want, got), cur, nil)
						}
					}
				}
				w.Beat()
			}
		}
	})
	r.Sample(map[string]any{"family": "sparse-pointer", "document": docs[0][:80] + "...", "observe": "StackPointer only after N calls, for every N; error pointer of every truncation"})
	r.Bound("sparse observation: %d documents of %d..%d bytes x 4 reader chunkings x every prefix length N (pointer observed only after N calls) x every truncation/corruption point (error key vs whole-input decoding)", len(docs), len(docs[0]), len(docs[len(docs)-2]))
}

// surrogateSplits: documents with escaped surrogate pairs under ALL cut sets.
func surrogateSplits(r *evid.Run) {
	docs := []string{`["\ud83d\udc4d"]`, `"\uD800\uDC00"`, `{"\udbff\udfff":1}`, `"\ud800\udcff"`, `"\ud83d\ude00x"`, `"\ud800\u0041"`, `"\ud800\ud800"`, `"\udc00"`}
	enum.Parallel(r, len(docs), func(w *enum.Worker) func(int) {
		x := newRunner()
		w.Describe = func() any { return x.cur }
		var evals int64
		w.Done = func() { r.Evaluations.Add(evals); r.Nontrivial.Add(evals) }
		return func(u int) {
			in := []byte(docs[u])
			n := len(in)
			for _, p := range []string{"", "V", "S", "PV"} {
				base := x.baseline(in, p)
				x.cur = Case{Input: in, Program: p}
				if m := model(in, p, base, refjson.Opts{}); m != "" {
					report(r, x.cur, "whole-input decoding vs reference model: "+m)
				}
				for c := uint64(0); c < 1<<uint(n-1); c++ {
					sc := Sched{Cuts: c, DataEOF: c&1 != 0}
					x.cur.Sched = sc
					evals++
					if m := x.chunked(in, p, sc, base); m != "" {
						report(r, x.cur, m)
					}
				}
				w.Beat()
			}
		}
	})
	r.Bound("escaped surrogate pairs: %d documents x ALL 2^(n-1) cut sets x 4 programs", len(docs))
}

func countTokens(b []byte) int {
	res := refjson.Parse(b, refjson.Opts{Stream: true, AllowDupNames: true, AllowInvalidUTF8: true})
	return len(res.Toks)
}

// boundarySweeps places an interesting token at every offset around every internal buffer size.
func boundarySweeps(r *evid.Run) {
	sizes := []int{64, 128, 192}
	if r.Tier == "thorough" {
		sizes = []int{64, 128, 256, 512, 1024, 2048, 4096, 8192}
	}
	tokens := []string{`"\ud83d\udc4d"`, `"\uD800\uDCfF"`, `"👍"`, `"éx\n"`, "\"\xf0\x9f\x98\x80\"", `-12.5e+10`, `0`, `false`, `null`, `{"nameA":[1,{"k":"v"}]}`, `{"a":{"b":{"c":[0,"𐀀"]}}}`, `[01]`, `"\udc4d"`, `{"a":1,"a":2}`, `[1,2`, "\"\xed\xa0\x80\""}
	type unit struct {
		size, tok, hist int
	}
	var units []unit
	for _, s := range sizes {
		for t := range tokens {
			for h := 0; h < 3; h++ {
				units = append(units, unit{s, t, h})
			}
		}
	}
	enum.Parallel(r, len(units), func(w *enum.Worker) func(int) {
		x := newRunner()
		w.Describe = func() any { return x.cur }
		w.Done = func() { r.Outcomes(x.stats) }
		return func(u int) {
			un := units[u]
			tok := tokens[un.tok]
			var evals, nontriv int64
			for delta := -14; delta <= 4; delta++ {
				start := un.size + delta - len(tok)/2
				if start < 2 {
					continue
				}
				// build a document in which tok starts at byte offset `start`
				var doc []byte
				switch un.hist {
				case 0: // many small values inside an array
					doc = append(doc, '[')
					for len(doc) < start-1 {
						doc = append(doc, "1,"...)
					}
					for len(doc) < start {
						doc = append(doc, ' ')
					}
					doc = append(doc, tok...)
					doc = append(doc, `,"tail"]`...)
				case 1: // one long string first (single growth), inside an object so that a name must be remembered
					pad := start - len(`{"long":"","k":`)
					if pad < 0 {
						continue
					}
					doc = append(doc, `{"long":"`...)
					doc = append(doc, bytes.Repeat([]byte{'x'}, pad)...)
					doc = append(doc, `","k":`...)
					doc = append(doc, tok...)
					doc = append(doc, `,"z":[true]}`...)
				case 2: // top-level stream of values
					for len(doc) < start-1 {
						doc = append(doc, "7 "...)
					}
					for len(doc) < start {
						doc = append(doc, '\n')
					}
					doc = append(doc, tok...)
					doc = append(doc, " [9] "...)
				}
				ntok := countTokens(doc)
				// programs: all tokens; all values; token walk with one deviation in the last 12 calls before the end
				progs := []string{"", strings.Repeat("V", ntok+1), "T" + strings.Repeat("V", ntok), strings.Repeat("PT", ntok+1), "TS"}
				for back := 1; back <= 12 && back <= ntok; back++ {
					for _, alt := range "VSP" {
						p := []byte(strings.Repeat("T", ntok-back+1))
						p[len(p)-1] = byte(alt)
						progs = append(progs, string(p))
					}
				}
				scheds := []Sched{{}, {Chunk: 1}, {Chunk: 7}, {Chunk: un.size}, {Chunk: un.size - 1}, {Chunk: un.size + 1}, {Empty: true, DataEOF: true}, {Chunk: 13, DataEOF: true}}
				for _, p := range progs {
					x.opts = nil
					base := x.baseline(doc, p)
					x.cur = Case{Input: doc, Program: p}
					if m := model(doc, p, base, refjson.Opts{}); m != "" {
						report(r, x.cur, "whole-input decoding vs reference model: "+m)
						continue
					}
					for _, sc := range scheds {
						x.cur.Sched = sc
						evals++
						nontriv++
						if m := x.chunked(doc, p, sc, base); m != "" {
							report(r, x.cur, m)
						}
					}
					w.Beat()
				}
				// one transient fault at every Read call of the plain and the 7-byte reader, token walk and value walk
				for _, p := range []string{"", strings.Repeat("V", ntok+1)} {
					base := x.baseline(doc, p)
					for _, shape := range []Sched{{}, {Chunk: 7}} {
						nreads := len(doc)/7 + 12
						if shape.Chunk == 0 {
							nreads = 12
						}
						for k := 1; k <= nreads; k++ {
							sc := shape
							sc.FaultAt = k
							x.cur = Case{Input: doc, Program: p, Sched: sc}
							evals++
							nontriv++
							if m := x.chunked(doc, p, sc, base); m != "" {
								report(r, x.cur, m)
							}
						}
						w.Beat()
					}
				}
			}
			r.Evaluations.Add(evals)
			r.Nontrivial.Add(nontriv)
		}
	})
	r.Sample(map[string]any{"family": "boundary-sweep", "token": tokens[0], "around": sizes, "delta": "[-14,+4]", "histories": []string{"many small array elements", "one long string then member", "top-level stream"}})
	r.Bound("boundary sweeps: %d tokens x offsets delta in [-14,+4] around buffer sizes %v x 3 growth histories x ~40 programs x 8 reader shapes, plus a fault before every Read call", len(tokens), sizes)
}

type errReader struct {
	r   io.Reader
	err error
}

// unmarshalRoutes: UnmarshalRead == Unmarshal, UnmarshalDecode over a stream == Unmarshal of each value.
func unmarshalRoutes(r *evid.Run) {
	lens := views.ForTier(r.Tier)
	v := views.View{Name: "B-atoms", Alpha: views.B, MaxLen: lens.B, Prefix: ""}
	views.ForAll(r, []views.View{v}, func(w *enum.Worker, v views.View) func([]byte) {
		var f docFilter
		var cur Case
		w.Describe = func() any { return cur }
		var evals int64
		w.Done = func() { r.Evaluations.Add(evals); r.Nontrivial.Add(evals) }
		return func(s []byte) {
			ok, valid := f.interesting(s)
			if !ok || len(s) == 0 {
				return
			}
			in := append([]byte(nil), s...)
			for _, sc := range []Sched{{}, {Chunk: 1}, {Chunk: 3, Empty: true}, {Chunk: 2, DataEOF: true}} {
				cur = Case{Input: in, Program: "UnmarshalRead", Sched: sc}
				evals++
				if m := routeUnmarshalRead(in, sc); m != "" {
					report(r, cur, m)
				}
				if !valid {
					continue
				}
				cur.Program = "UnmarshalDecode"
				if m := routeUnmarshalDecode(in, sc); m != "" {
					report(r, cur, m)
				}
			}
		}
	})
	r.Bound("UnmarshalRead vs Unmarshal and UnmarshalDecode-per-value vs Unmarshal on every interesting B-atom document x 4 reader shapes")
}

// routeUnmarshalRead: UnmarshalRead over the schedule equals Unmarshal of the whole slice.
func routeUnmarshalRead(in []byte, sc Sched) (msg string) {
	defer func() {
		if p := recover(); p != nil {
			msg = fmt.Sprintf("library panic: %v", p)
		}
	}()
	var want, got any
	wantErr := jsonv2.Unmarshal(in, &want)
	gotErr := jsonv2.UnmarshalRead(&reader{data: in, s: sc}, &got)
	if (gotErr == nil) != (wantErr == nil) || (wantErr == nil && !reflect.DeepEqual(got, want)) || semKey(gotErr) != semKey(wantErr) {
		return fmt.Sprintf("UnmarshalRead = (%v, %v), Unmarshal = (%v, %v)", got, gotErr, want, wantErr)
	}
	return ""
}

// routeUnmarshalDecode: decoding every value of the stream in turn with UnmarshalDecode equals Unmarshal of each span.
func routeUnmarshalDecode(in []byte, sc Sched) (msg string) {
	defer func() {
		if p := recover(); p != nil {
			msg = fmt.Sprintf("library panic: %v", p)
		}
	}()
	dec := jsontext.NewDecoder(&reader{data: in, s: sc})
	m := refjson.NewDecModel(in, refjson.Opts{})
	for m != nil {
		span, ok, _ := m.Value()
		var a, b any
		err := jsonv2.UnmarshalDecode(dec, &a)
		if !ok {
			if err != io.EOF {
				return fmt.Sprintf("UnmarshalDecode at end of stream returned %v, want io.EOF", err)
			}
			break
		}
		err2 := jsonv2.Unmarshal(span, &b)
		if (err == nil) != (err2 == nil) || !reflect.DeepEqual(a, b) {
			return fmt.Sprintf("UnmarshalDecode value %q = (%v, %v), Unmarshal = (%v, %v)", span, a, err, b, err2)
		}
		if err != nil {
			break
		}
	}
	return ""
}

func semKey(err error) string {
	if err == nil {
		return "-"
	}
	var se *jsonv2.SemanticError
	if errors.As(err, &se) {
		return fmt.Sprintf("Semantic@%d%q", se.ByteOffset, se.JSONPointer)
	}
	return errKey(err)
}

// CheckPositions runs program on the whole input and compares every call's observables
// (offsets, depth, index, pointer, token/value) with the reference decoder model. Used by C16.
func CheckPositions(in []byte, program string) string {
	x := newRunner()
	base := x.baseline(in, program)
	return model(in, program, base, refjson.Opts{})
}

// Programs exposes the program enumerator.
func Programs(n, dev int, ops string) []string { return programs(n, dev, ops) }
