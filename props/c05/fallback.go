package c05

import (
	"bytes"
	"fmt"
	"reflect"
	"strings"

	jsonv2 "github.com/go-json-experiment/json"
	"github.com/go-json-experiment/json/jsontext"

	"verif/internal/enum"
	"verif/internal/evid"
)

// Seventh round: struct targets that keep unknown members in an embedded fallback (a raw value, a map of raw
// values, a map of untyped values). The fallback holds bytes taken from the decoder's buffer, so what it holds
// after UnmarshalRead from a reader that delivers a few bytes at a time must equal what Unmarshal of the slice gives.

type fbRaw struct {
	A int            `json:"a"`
	X jsontext.Value `json:",embed"`
}
type fbRawMap struct {
	A int                       `json:"a"`
	X map[string]jsontext.Value `json:",embed"`
}
type fbAnyMap struct {
	A int            `json:"a"`
	X map[string]any `json:",embed"`
}

var fbTargets = []reflect.Type{reflect.TypeOf(fbRaw{}), reflect.TypeOf(fbRawMap{}), reflect.TypeOf(fbAnyMap{})}

func fbMembers() []string {
	long := strings.Repeat("v", 70)
	return []string{
		`"a":7`, `"unknown":[1,2,3]`, `"other":"v"`, `"o":{"n":null,"m":[{}]}`, `"éx":"` + long + `"`,
		`"` + strings.Repeat("k", 40) + `":-1.5e3`, `"a":"wrong type"`, `"unknown":true`, `"t":[`,
	}
}

func fbOne(doc []byte, ti int, sc Sched, buffer bool) (msg string) {
	defer func() {
		if p := recover(); p != nil {
			msg = fmt.Sprintf("library panic: %v", p)
		}
	}()
	want := reflect.New(fbTargets[ti])
	got := reflect.New(fbTargets[ti])
	wantErr := jsonv2.Unmarshal(doc, want.Interface())
	var gotErr error
	if buffer {
		gotErr = jsonv2.UnmarshalRead(bytes.NewBuffer(append([]byte(nil), doc...)), got.Interface())
	} else {
		gotErr = jsonv2.UnmarshalRead(&reader{data: doc, s: sc}, got.Interface())
	}
	if (gotErr == nil) != (wantErr == nil) || semKey(gotErr) != semKey(wantErr) || !reflect.DeepEqual(got.Elem().Interface(), want.Elem().Interface()) {
		return fmt.Sprintf("UnmarshalRead into %v = (%s, %v), Unmarshal = (%s, %v)", fbTargets[ti], fbShow(got), gotErr, fbShow(want), wantErr)
	}
	return ""
}

func fbShow(v reflect.Value) string {
	s := fmt.Sprintf("%q", fmt.Sprint(v.Elem().Field(1).Interface()))
	if raw, ok := v.Elem().Field(1).Interface().(jsontext.Value); ok {
		s = fmt.Sprintf("%q", string(raw))
	}
	if len(s) > 200 {
		s = s[:200] + "..."
	}
	return fmt.Sprintf("{A:%v X:%s}", v.Elem().Field(0).Interface(), s)
}

func fallbackRoutes(r *evid.Run) {
	mem := fbMembers()
	var docs [][]byte
	seps := [][2]string{{",", ""}, {" , ", " "}, {",\n\t", "\n"}}
	add := func(ms ...string) {
		for _, sp := range seps {
			docs = append(docs, []byte("{"+sp[1]+strings.Join(ms, sp[0])+sp[1]+"}"))
		}
	}
	for i := range mem {
		add(mem[i])
		for j := range mem {
			if j == i {
				continue
			}
			add(mem[i], mem[j])
			if r.Tier != "thorough" && (i+j)%3 != 0 {
				continue
			}
			for k := range mem {
				if k != i && k != j {
					add(mem[i], mem[j], mem[k])
				}
			}
		}
	}
	var scheds []Sched
	for c := 1; c <= 9; c++ {
		for style := 0; style < 4; style++ {
			scheds = append(scheds, Sched{Chunk: c, Empty: style&1 != 0, DataEOF: style&2 != 0})
		}
	}
	scheds = append(scheds, Sched{Chunk: 16}, Sched{Chunk: 63}, Sched{Chunk: 64}, Sched{Chunk: 65}, Sched{})
	enum.Parallel(r, len(docs), func(w *enum.Worker) func(int) {
		var cur Case
		w.Describe = func() any { return cur }
		var evals int64
		w.Done = func() { r.Evaluations.Add(evals); r.Nontrivial.Add(evals) }
		return func(di int) {
			doc := docs[di]
			for ti := range fbTargets {
				for si := 0; si <= len(scheds); si++ {
					var sc Sched
					if si < len(scheds) {
						sc = scheds[si]
					}
					buffer := si == len(scheds)
					evals++
					cur = Case{Input: doc, Program: fmt.Sprintf("UnmarshalRead-fallback-%d", ti), Sched: sc}
					if m := fbOne(doc, ti, sc, buffer); m != "" {
						ti, sc, buffer := ti, sc, buffer
						r.Violation(fmt.Sprintf("c05|fallback|%d|%q|%+v|%v", ti, doc, sc, buffer), m, cur, func() bool { return fbOne(doc, ti, sc, buffer) != "" })
					}
				}
			}
			w.Beat()
		}
	})
	r.Bound("embedded fallbacks: %d documents (1..3 members from a menu of %d known / unknown / escaped-name / long / mistyped / truncated members x 3 white-space styles) x 3 targets (raw value, map of raw values, map of untyped values) x %d reader shapes + bytes.Buffer: UnmarshalRead equals Unmarshal in value and error", len(docs), len(mem), len(scheds))
}
