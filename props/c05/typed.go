package c05

import (
	"bytes"
	"errors"
	"fmt"
	"io"
	"reflect"
	"strings"

	jsonv2 "github.com/go-json-experiment/json"
	"github.com/go-json-experiment/json/jsontext"
	jsonv1 "github.com/go-json-experiment/json/v1"

	"verif/internal/enum"
	"verif/internal/evid"
	"verif/internal/refjson"
)

// ---- streams of values decoded with UnmarshalDecode into typed targets ----
//
// "UnmarshalDecode over a stream equals Unmarshal of each value in turn", for targets that take different
// routes through the json package (struct, user type with UnmarshalJSONFrom, caller-supplied UnmarshalFromFunc,
// any, raw value), under default and legacy error semantics, including values that fail with a conversion error
// in the middle of the stream (decoding continues with the next value), with the errors kept and re-inspected
// after the rest of the stream has been read, and with a transient read fault before every Read call.

type typedT struct {
	A int8   `json:"A"`
	S string `json:"S"`
	L []int  `json:"L"`
}

type fromT struct{ Raw string }

func (f *fromT) UnmarshalJSONFrom(d *jsontext.Decoder) error {
	v, err := d.ReadValue()
	f.Raw = string(v)
	return err
}

type funcT struct{ Raw string }

var funcOpt = jsonv2.WithUnmarshalers(jsonv2.UnmarshalFromFunc(func(d *jsontext.Decoder, f *funcT) error {
	v, err := d.ReadValue()
	f.Raw = string(v)
	return err
}))

var typedTargets = []reflect.Type{reflect.TypeOf(typedT{}), reflect.TypeOf(fromT{}), reflect.TypeOf(funcT{}), reflect.TypeOf((*any)(nil)).Elem(), reflect.TypeOf(jsontext.Value(nil)), reflect.TypeOf(map[string]int8{})}

var typedOptSets = []struct {
	name string
	opts []jsonv2.Options
}{
	{"default", []jsonv2.Options{funcOpt}},
	{"ReportErrorsWithLegacySemantics", []jsonv2.Options{funcOpt, jsonv1.ReportErrorsWithLegacySemantics(true)}},
	{"DefaultOptionsV1", []jsonv2.Options{jsonv1.DefaultOptionsV1(), funcOpt}},
}

func typedValues() []string {
	return []string{
		`{"A":1,"S":"x","L":[1,2]}`,
		`{"A":300,"S":"after-error"}`,
		`{"S":"` + strings.Repeat("long-", 14) + `","A":-5}`,
		`[1, {"A":2}]`,
		`null`,
		`"` + strings.Repeat("s", 61) + `"`,
		`{"A":"1000","L":[4]}`,
		`17`,
	}
}

// errRender renders everything a caller can observe on an error value except message text.
func errRender(err error, base int) string {
	if err == nil {
		return "ok"
	}
	if errors.Is(err, errInjected) {
		return "INJECTED"
	}
	var sem *jsonv2.SemanticError
	if errors.As(err, &sem) {
		inner := ""
		var syn *jsontext.SyntacticError
		if errors.As(sem.Err, &syn) {
			inner = fmt.Sprintf(" inner=Syntactic@%d%q", int(syn.ByteOffset)-base, syn.JSONPointer)
		}
		return fmt.Sprintf("Semantic@%d%q kind=%v value=%q type=%v%s", int(sem.ByteOffset)-base, sem.JSONPointer, sem.JSONKind, string(sem.JSONValue), sem.GoType, inner)
	}
	var syn *jsontext.SyntacticError
	if errors.As(err, &syn) {
		return fmt.Sprintf("Syntactic@%d%q", int(syn.ByteOffset)-base, syn.JSONPointer)
	}
	if err == io.EOF {
		return "io.EOF"
	}
	if errors.Is(err, errInjected) {
		return "INJECTED"
	}
	if errors.Is(err, io.ErrUnexpectedEOF) {
		return "UnexpectedEOF"
	}
	return fmt.Sprintf("other:%T", err)
}

type typedResult struct {
	val string
	err string
}

// typedStream decodes the stream value by value into fresh targets of type t.
// It returns one result per call (rendered at once) and, separately, the errors re-rendered at the end.
func typedStream(in []byte, sc Sched, t reflect.Type, opts []jsonv2.Options, spans [][2]int) (res []typedResult, late []string, msg string) {
	defer func() {
		if p := recover(); p != nil {
			msg = fmt.Sprintf("library panic: %v", p)
		}
	}()
	dec := jsontext.NewDecoder(&reader{data: in, s: sc})
	var kept []error
	var bases []int
	for i := 0; i <= len(spans); i++ {
		p := reflect.New(t)
		err := jsonv2.UnmarshalDecode(dec, p.Interface(), opts...)
		base := 0
		if i < len(spans) {
			base = spans[i][0]
		}
		res = append(res, typedResult{fmt.Sprintf("%+v", p.Elem().Interface()), errRender(err, base)})
		kept = append(kept, err)
		bases = append(bases, base)
		if err != nil {
			// The state of the Decoder after a failed UnmarshalDecode is not specified, so the comparison ends here.
			// The stream is still read on (results ignored) so that the kept error values can be re-inspected
			// after the Decoder's buffer has been reused.
			for k := 0; k < 4 && err != io.EOF; k++ {
				var skip any
				if e2 := jsonv2.UnmarshalDecode(dec, &skip); e2 == io.EOF {
					break
				}
			}
			break
		}
	}
	for i, e := range kept {
		late = append(late, errRender(e, bases[i]))
	}
	return res, late, ""
}

// typedOne compares one (stream, schedule, target, options) execution with per-value Unmarshal.
func typedOne(vals []int, sep string, sc Sched, ti, oi int) string {
	menu := typedValues()
	var in []byte
	var spans [][2]int
	for _, v := range vals {
		in = append(in, sep...)
		spans = append(spans, [2]int{len(in), len(in) + len(menu[v])})
		in = append(in, menu[v]...)
	}
	in = append(in, sep...)
	t, opts := typedTargets[ti], typedOptSets[oi].opts
	got, late, msg := typedStream(in, sc, t, opts, spans)
	if msg != "" {
		return msg
	}
	for i, g := range got {
		if g.err == "INJECTED" {
			if sc.FaultAt == 0 {
				return fmt.Sprintf("call %d reports an injected fault although none was scheduled", i+1)
			}
			return "" // the pending call reported the transient fault; nothing further is specified for UnmarshalDecode
		}
		if late[i] != g.err {
			return fmt.Sprintf("call %d: the error value changed after later calls: at return %s, after the stream was read %s", i+1, g.err, late[i])
		}
		if g.err != "ok" && g.err != "io.EOF" && i < len(spans) {
			// first failing value: compare it with Unmarshal of the value alone, then stop
			p := reflect.New(t)
			werr := jsonv2.Unmarshal(in[spans[i][0]:spans[i][1]], p.Interface(), opts...)
			if want := errRender(werr, 0); want != g.err {
				return fmt.Sprintf("call %d on value %q: UnmarshalDecode over the stream fails with %s, Unmarshal of the value alone gives %s", i+1, in[spans[i][0]:spans[i][1]], g.err, want)
			}
			return ""
		}
		if i == len(spans) {
			if g.err != "io.EOF" {
				return fmt.Sprintf("call %d at the end of the stream returned %s, want io.EOF", i+1, g.err)
			}
			break
		}
		if g.err == "io.EOF" {
			return fmt.Sprintf("call %d returned io.EOF although value %q has not been decoded yet", i+1, in[spans[i][0]:spans[i][1]])
		}
		p := reflect.New(t)
		werr := jsonv2.Unmarshal(in[spans[i][0]:spans[i][1]], p.Interface(), opts...)
		want := typedResult{fmt.Sprintf("%+v", p.Elem().Interface()), errRender(werr, 0)}
		if g != want {
			return fmt.Sprintf("call %d on value %q: UnmarshalDecode over the stream gives (%s, %s), Unmarshal of the value alone gives (%s, %s)", i+1, in[spans[i][0]:spans[i][1]], g.val, g.err, want.val, want.err)
		}
	}
	return ""
}

type TypedCase struct {
	Vals   []int  `json:"values"`
	Sep    string `json:"sep"`
	Sched  Sched  `json:"sched"`
	Target int    `json:"target"`
	Opts   int    `json:"opts"`
}

func typedRoutes(r *evid.Run) {
	menu := typedValues()
	L := 2
	if r.Tier == "thorough" {
		L = 3
	}
	var streams [][]int
	var rec func(cur []int)
	rec = func(cur []int) {
		if len(cur) > 0 {
			streams = append(streams, append([]int(nil), cur...))
		}
		if len(cur) == L {
			return
		}
		for i := range menu {
			rec(append(cur, i))
		}
	}
	rec(nil)
	enum.Parallel(r, len(streams), func(w *enum.Worker) func(int) {
		var cur Case
		w.Describe = func() any { return cur }
		var n int64
		w.Done = func() { r.Evaluations.Add(n); r.Nontrivial.Add(n) }
		return func(u int) {
			vals := streams[u]
			for _, sep := range []string{" ", "\n\t "} {
				total := len(sep)
				for _, v := range vals {
					total += len(menu[v]) + len(sep)
				}
				scheds := []Sched{{}, {Chunk: 1}, {Chunk: 7}, {Chunk: 63}, {Chunk: 64}, {Chunk: 65}, {Chunk: 13, DataEOF: true}, {Chunk: 5, Empty: true}}
				// one transient fault before every Read call of the plain and the 7-byte reader
				for k := 1; k <= 6; k++ {
					scheds = append(scheds, Sched{FaultAt: k})
				}
				for k := 1; k <= total/7+3; k++ {
					scheds = append(scheds, Sched{Chunk: 7, FaultAt: k})
				}
				for ti := range typedTargets {
					for oi := range typedOptSets {
						for _, sc := range scheds {
							n++
							cur = Case{Program: fmt.Sprintf("typed-stream values=%v sep=%q target=%d opts=%d", vals, sep, ti, oi), Sched: sc}
							if m := typedOne(vals, sep, sc, ti, oi); m != "" {
								tc := TypedCase{append([]int(nil), vals...), sep, sc, ti, oi}
								r.Violation(fmt.Sprintf("c05|typed|%v|%q|%+v|%d|%d", vals, sep, sc, ti, oi), fmt.Sprintf("stream of values %v into %v under %s: %s", vals, typedTargets[ti], typedOptSets[oi].name, m), map[string]any{"typed": tc}, func() bool { return typedOne(tc.Vals, tc.Sep, tc.Sched, tc.Target, tc.Opts) != "" })
							}
						}
						w.Beat()
					}
				}
			}
		}
	})
	r.Sample(map[string]any{"family": "typed-stream", "values": []string{menu[1], menu[2]}, "target": "struct", "options": "ReportErrorsWithLegacySemantics", "reader": "7 bytes per Read, fault before Read #3"})
	r.Bound("typed streams: every sequence of <=%d values over %d value texts (objects, a conversion error in the middle, strings longer than the initial buffer, wrong kinds) x 2 separators x %d targets (struct, UnmarshalJSONFrom type, UnmarshalFromFunc type, any, raw value, map) x %d option sets (default, legacy error semantics, v1 defaults) x 8 reader shapes and a transient fault before every Read call: each UnmarshalDecode equals Unmarshal of the value alone (value, error class, offset, pointer, offending JSON value), io.EOF only at the true end, kept errors unchanged after the rest of the stream was read", L, len(menu), len(typedTargets), len(typedOptSets))
}

var _ = refjson.MaxDepth

// ---- Decoder.Reset: a reset Decoder behaves like a new one ----
//
// After any number of calls on input A (through any reader kind, ending anywhere: mid-value, after an error, after
// a long document that grew the buffer and advanced the base offset), Reset onto input B must give exactly the
// observations of a fresh Decoder on B: tokens, offsets, stack pointers, final error.

func resetFamily(r *evid.Run) {
	long := `{"k":"` + strings.Repeat("v", 300) + `","arr":[` + strings.Repeat("123456,", 60) + `0]}`
	as := []string{`{"x":{"y":{"z":1,"w":2},"v":[{"z":3,"y":4}]},"u":{"x":5}}`, `{"a":{"b":[1,2,{"c":"d"}]},"e":null} 7 [`, long + " " + long, `[1,2,x]`, `{"dup":1,"dup":2}`, `"` + strings.Repeat("s", 5000) + `"`, ``}
	bs := []string{`{"x":{"y":{"z":5,"w":6},"v":[{"y":7,"z":8}],"u":9},"u":{"x":0,"y":{"z":1}}}`, `{"x":[true,{"y":"z"}],"w":"` + strings.Repeat("q", 90) + `"} 12`, `[1,}`, `{"p":{"p":{"p":[]}}}`, long}
	shapes := []Sched{{}, {Chunk: 1}, {Chunk: 7}, {Chunk: 64}}
	type unit struct{ a, b int }
	var units []unit
	for a := range as {
		for b := range bs {
			units = append(units, unit{a, b})
		}
	}
	enum.Parallel(r, len(units), func(w *enum.Worker) func(int) {
		x := newRunner()
		var cur Case
		w.Describe = func() any { return cur }
		var n int64
		w.Done = func() { r.Evaluations.Add(n); r.Nontrivial.Add(n) }
		return func(u int) {
			a, b := []byte(as[units[u].a]), []byte(bs[units[u].b])
			ntok := countTokens(a) + 2
			for _, prog := range []string{"", strings.Repeat("V", 64)} {
				for k := 0; k <= ntok && k <= 140; k++ {
					for si, sa := range shapes {
						for _, sb := range []Sched{shapes[(si+1)%len(shapes)], {}} {
							for _, useBuffer := range []bool{false, true} {
								n++
								cur = Case{Input: b, Program: prog, Sched: sb, First: a, FirstSched: sa, FirstBuffer: useBuffer, ResetAfter: k, IsReset: true}
								if msg := resetOne(x, cur); msg != "" {
									report(r, cur, msg)
								}
							}
						}
					}
					w.Beat()
				}
			}
		}
	})
	r.Bound("Decoder.Reset: %d first inputs (nested, two long documents, syntax error, duplicate name, 5 KiB string, empty) x every number of calls made on them x 4 reader shapes + bytes.Buffer x %d second inputs x 2 reader shapes x {token walk, value walk}: the reset Decoder's observations equal a fresh Decoder's", len(as), len(bs))
}

// resetOne executes one case of the Reset family.
func resetOne(x *runner, cs Case) string {
	want := append([]obs(nil), x.baseline(cs.Input, cs.Program)...)
	var dec *jsontext.Decoder
	if cs.FirstBuffer {
		dec = jsontext.NewDecoder(bytes.NewBuffer(append([]byte(nil), cs.First...)))
	} else {
		dec = jsontext.NewDecoder(&reader{data: cs.First, s: cs.FirstSched})
	}
	for i := 0; i < cs.ResetAfter; i++ {
		if _, err := dec.ReadToken(); err != nil {
			break
		}
	}
	dec.Reset(&reader{data: cs.Input, s: cs.Sched})
	if off, d := dec.InputOffset(), dec.StackDepth(); off != 0 || d != 0 || dec.StackPointer() != "" {
		return fmt.Sprintf("right after Reset (made after %d calls on %.60q): InputOffset=%d StackDepth=%d StackPointer=%q, want 0, 0, \"\"", cs.ResetAfter, cs.First, off, d, dec.StackPointer())
	}
	got, msg := trace(dec, cs.Program, nil, nil)
	if msg == "" {
		msg = diff(want, got)
	}
	if msg != "" {
		return fmt.Sprintf("after %d calls on %.60q (reader %+v, bytes.Buffer=%v) and Reset: %s", cs.ResetAfter, cs.First, cs.FirstSched, cs.FirstBuffer, msg)
	}
	return ""
}

// ---- names repeated across nesting levels and siblings ----
//
// Duplicate detection keeps one name set per open object. Every small tree of objects and arrays whose member
// names are drawn from {a, b} (so that a name of a nested object reappears in its parent, in a sibling, in an
// array element) is walked token-wise, value-wise and mixed, with the Allow* options absent, spelled out as false
// and with AllowDuplicateNames(true), under whole-input and one-byte readers, against the reference model.

func nameScopeDocs() []string {
	var gen func(depth int) []string
	memo := map[int][]string{}
	gen = func(depth int) []string {
		if v, ok := memo[depth]; ok {
			return v
		}
		out := []string{`1`}
		if depth > 0 {
			sub := gen(depth - 1)
			out = append(out, `{}`)
			for _, x := range sub {
				out = append(out, `{"a":`+x+`}`, `[`+x+`]`)
				for _, y := range sub {
					if len(x)+len(y) <= 24 {
						out = append(out, `{"a":`+x+`,"b":`+y+`}`, `{"a":`+x+`,"a":`+y+`}`, `{"b":`+x+`,"a":`+y+`}`, `[`+x+`,`+y+`]`)
					}
				}
			}
		}
		memo[depth] = out
		return out
	}
	return gen(3)
}

func nameScopes(r *evid.Run) {
	docs := nameScopeDocs()
	if r.Tier != "thorough" && len(docs) > 6000 {
		// deterministic thinning by stride in the quick tier (the full list runs in the thorough tier)
		var t []string
		for i, d := range docs {
			if i%3 == 0 || len(d) <= 30 {
				t = append(t, d)
			}
		}
		docs = t
	}
	enum.Parallel(r, len(docs), func(w *enum.Worker) func(int) {
		x := newRunner()
		w.Describe = func() any { return x.cur }
		var n int64
		w.Done = func() { r.Evaluations.Add(n); r.Nontrivial.Add(n); r.Outcomes(x.stats) }
		return func(u int) {
			in := []byte(docs[u] + " " + docs[(u*7+1)%len(docs)])
			ntok := countTokens(in) + 1
			progs := []string{"", strings.Repeat("V", ntok), "T" + strings.Repeat("V", ntok), "TT" + strings.Repeat("V", ntok), "TTT" + strings.Repeat("S", ntok), strings.Repeat("TV", ntok), strings.Repeat("PT", ntok)}
			for mode := 0; mode < 3; mode++ {
				x.opts = nil
				switch mode {
				case 1:
					x.opts = []jsontext.Options{jsontext.AllowDuplicateNames(true)}
				case 2:
					x.opts = []jsontext.Options{jsontext.AllowDuplicateNames(false), jsontext.AllowInvalidUTF8(false)}
				}
				for _, p := range progs {
					base := x.baseline(in, p)
					x.cur = Case{Input: in, Program: p, AllowDup: mode == 1, ExplicitFalse: mode == 2}
					n++
					if m := model(in, p, base, refjson.Opts{AllowDupNames: mode == 1}); m != "" {
						report(r, x.cur, "whole-input decoding vs reference model: "+m)
						continue
					}
					for _, sc := range []Sched{{}, {Chunk: 1}, {Chunk: 5, Empty: true}} {
						x.cur.Sched = sc
						n++
						if m := x.chunked(in, p, sc, base); m != "" {
							report(r, x.cur, m)
						}
					}
				}
				w.Beat()
			}
		}
	})
	r.Bound("name scopes: %d documents (every tree of objects / arrays of depth <=3 with <=2 members named from {a,b}, incl. duplicates, as two-value streams) x 7 call programs x {no options, explicit false, AllowDuplicateNames} x 3 reader shapes, against the reference model", len(docs))
}
