package c15

import (
	"bytes"
	"fmt"
	"reflect"
	"strings"

	jsonv2 "github.com/go-json-experiment/json"
	"github.com/go-json-experiment/json/jsontext"

	"verif/internal/enum"
	"verif/internal/evid"
)

// omit options through the streaming entry points: whether an omitempty / omitzero member is present must not
// depend on the entry point or on where the member falls relative to the encoder's buffer. For every value kind
// (incl. the ones whose emptiness is only known after encoding: pointers to empty containers, interfaces holding
// them, user marshalers returning `[]`, `{}`, `""`, `null`) x tag x length L of a preceding string member:
// MarshalWrite to a plain writer, to a bytes.Buffer, and MarshalEncode deliver exactly Marshal's bytes.

type mEmpty struct{ out string }

func (m mEmpty) MarshalJSON() ([]byte, error) { return []byte(m.out), nil }

type mToks struct{ kind byte }

func (m mToks) MarshalJSONTo(e *jsontext.Encoder) error {
	switch m.kind {
	case '[':
		if err := e.WriteToken(jsontext.BeginArray); err != nil {
			return err
		}
		return e.WriteToken(jsontext.EndArray)
	case '{':
		if err := e.WriteToken(jsontext.BeginObject); err != nil {
			return err
		}
		return e.WriteToken(jsontext.EndObject)
	case 'n':
		return e.WriteToken(jsontext.Null)
	}
	return e.WriteToken(jsontext.String(""))
}

type plainW struct{ b []byte }

func (w *plainW) Write(p []byte) (int, error) { w.b = append(w.b, p...); return len(p), nil }

func streamValues() []reflect.Value {
	es, ei, em := "", []int{}, map[string]int{}
	var out []reflect.Value
	for _, oc := range omitCases() {
		out = append(out, oc.val)
	}
	for _, v := range []any{&es, &ei, &em, &struct{}{}, any(ei), any(em), any(es), any(&ei), any([]any{}), any(map[string]any{}), any(nil),
		mEmpty{`[]`}, mEmpty{`{}`}, mEmpty{`""`}, mEmpty{`null`}, mEmpty{`[ ]`}, mEmpty{`0`}, mToks{'['}, mToks{'{'}, mToks{'n'}, mToks{'"'}, &mToks{'['},
		[]any{}, map[string]any{}, jsontext.Value(`[]`), jsontext.Value(`{}`), jsontext.Value(`null`), jsontext.Value(` "" `)} {
		if v == nil {
			out = append(out, reflect.Zero(reflect.TypeOf((*any)(nil)).Elem()))
			continue
		}
		out = append(out, reflect.ValueOf(v))
	}
	return out
}

func anyType() reflect.Type { return reflect.TypeOf((*any)(nil)).Elem() }

func streamOne(vi, ti, L int) string {
	vals := streamValues()
	val := vals[vi]
	tag := []string{"omitempty", "omitzero", "omitzero,omitempty", ""}[ti]
	ft := val.Type()
	// interface-typed members for the values meant to sit behind an interface
	holder := ft
	if vi >= len(omitCases())+4 && vi < len(omitCases())+11 {
		holder = anyType()
	}
	jtag := reflect.StructTag("")
	if tag != "" {
		jtag = reflect.StructTag(`json:",` + tag + `"`)
	}
	st := reflect.StructOf([]reflect.StructField{
		{Name: "P", Type: reflect.TypeOf("")},
		{Name: "F", Type: holder, Tag: jtag},
		{Name: "G", Type: holder, Tag: jtag},
		{Name: "Q", Type: tInt},
	})
	v := reflect.New(st).Elem()
	v.Field(0).SetString(strings.Repeat("x", L))
	if val.IsValid() && !(holder == anyType() && val.Kind() == reflect.Interface && val.IsNil()) {
		v.Field(1).Set(val)
		v.Field(2).Set(val)
	}
	want, err := jsonv2.Marshal(v.Interface())
	if err != nil {
		return ""
	}
	pw := &plainW{}
	if err := jsonv2.MarshalWrite(pw, v.Interface()); err != nil || !bytes.Equal(pw.b, want) {
		return fmt.Sprintf("MarshalWrite(plain writer) delivers %s (err=%v), Marshal returns %s", tail(pw.b), err, tail(want))
	}
	var bb bytes.Buffer
	if err := jsonv2.MarshalWrite(&bb, v.Interface()); err != nil || !bytes.Equal(bb.Bytes(), want) {
		return fmt.Sprintf("MarshalWrite(bytes.Buffer) delivers %s (err=%v), Marshal returns %s", tail(bb.Bytes()), err, tail(want))
	}
	pw2 := &plainW{}
	enc := jsontext.NewEncoder(pw2)
	if err := jsonv2.MarshalEncode(enc, v.Interface()); err != nil || !bytes.Equal(bytes.TrimSuffix(pw2.b, []byte("\n")), want) {
		return fmt.Sprintf("MarshalEncode delivers %s (err=%v), Marshal returns %s", tail(pw2.b), err, tail(want))
	}
	// inside an array written by tokens (the member is not at depth 1)
	pw3 := &plainW{}
	enc = jsontext.NewEncoder(pw3)
	enc.WriteToken(jsontext.BeginArray)
	err = jsonv2.MarshalEncode(enc, v.Interface())
	enc.WriteToken(jsontext.EndArray)
	if err != nil || !bytes.Equal(bytes.TrimSuffix(pw3.b, []byte("\n")), append(append([]byte("["), want...), ']')) {
		return fmt.Sprintf("MarshalEncode inside an array delivers %s (err=%v), Marshal returns %s", tail(pw3.b), err, tail(want))
	}
	return ""
}

func tail(b []byte) string {
	if len(b) > 90 {
		return "..." + string(b[len(b)-90:])
	}
	return string(b)
}

func omitStreaming(r *evid.Run) {
	nv := len(streamValues())
	maxL := 300
	var extra []int
	for _, c := range []int{512, 1024, 2048, 3072, 4096, 8192} {
		for d := -40; d <= 8; d++ {
			extra = append(extra, c+d)
		}
	}
	if r.Tier == "thorough" {
		maxL = 9000
		extra = nil
	}
	var Ls []int
	for L := 0; L <= maxL; L++ {
		Ls = append(Ls, L)
	}
	Ls = append(Ls, extra...)
	type unit struct{ vi, ti int }
	var units []unit
	for vi := 0; vi < nv; vi++ {
		for ti := 0; ti < 4; ti++ {
			units = append(units, unit{vi, ti})
		}
	}
	enum.Parallel(r, len(units), func(w *enum.Worker) func(int) {
		var cur Case
		w.Describe = func() any { return cur }
		var n int64
		w.Done = func() { r.Evaluations.Add(n); r.Nontrivial.Add(n) }
		return func(u int) {
			un := units[u]
			for _, L := range Ls {
				n++
				w.Beat()
				cur = Case{Part: "omit-stream", Index: un.vi, Name: fmt.Sprint(un.ti), Opt: fmt.Sprint(L)}
				if m := streamOne(un.vi, un.ti, L); m != "" {
					cs := cur
					r.Violation(fmt.Sprintf("c15|omit-stream|%d|%d|%d", un.vi, un.ti, L), fmt.Sprintf("value kind #%d (%v), tag #%d, preceding string of %d bytes: %s", un.vi, streamValues()[un.vi].Type(), un.ti, L, m), cs, func() bool { return replayCase(cs) != "" })
				}
			}
			w.Beat()
		}
	})
	r.Bound("omit options while streaming: %d value kinds (the %d of the table above plus pointers to / interfaces holding empty containers, user marshalers returning [] {} \"\" null by bytes and by tokens, raw values) x {omitempty, omitzero, both, none} x preceding string lengths 0..%d%s x {MarshalWrite to a plain writer / bytes.Buffer, MarshalEncode at top level / inside an array}: the bytes delivered equal Marshal's", nv, len(omitCases()), maxL, map[bool]string{true: " and around 512..8192", false: ""}[len(extra) > 0])
}
