package c15

import (
	"fmt"
	"reflect"
	"strings"

	jsonv2 "github.com/go-json-experiment/json"
	jsonv1 "github.com/go-json-experiment/json/v1"

	"verif/internal/evid"
)

// ---- embedded fallbacks at several depths ----
//
// Embedding is documented as "the JSON equivalent of Go struct embedding" with shallowest-wins promotion, and
// a fallback (embedded map or raw value) receives "all possible JSON object members not directly handled by the
// parent struct". With fallbacks reachable through several embedded structs the one at the unique shallowest
// depth is THE fallback; fallbacks tied at the shallowest depth cancel each other (as tied promoted fields do);
// deeper ones never matter. Every arrangement of a root fallback and three embedded structs carrying a fallback
// at depth 1 or 2 is built; Marshal must emit exactly the selected fallback's members and Unmarshal must store an
// unknown member into exactly that map (or nowhere).

var fbMap = reflect.TypeOf(map[string]int(nil))

// fbHolder builds the struct embedded in slot i; an ignored marker field makes the struct types of different
// slots distinct (the same struct type reachable along two embedding paths is outside the documented rules).
func fbHolder(slot, depth int) reflect.Type {
	mark := reflect.StructField{Name: fmt.Sprintf("Mark%d", slot), Type: reflect.TypeOf(0), Tag: `json:"-"`}
	t := reflect.StructOf([]reflect.StructField{mark, {Name: "X", Type: fbMap, Tag: `json:",embed"`}})
	for d := 1; d < depth; d++ {
		t = reflect.StructOf([]reflect.StructField{mark, {Name: "In", Type: t, Tag: `json:",embed"`}})
	}
	return t
}

// fbType builds the root: own fallback (root bit), slots[i] in {0 none, 1 fallback at depth 1, 2 at depth 2}.
func fbType(root bool, slots [3]int) reflect.Type {
	fs := []reflect.StructField{{Name: "A", Type: reflect.TypeOf(0)}}
	if root {
		fs = append(fs, reflect.StructField{Name: "R", Type: fbMap, Tag: `json:",embed"`})
	}
	for i, s := range slots {
		if s > 0 {
			fs = append(fs, reflect.StructField{Name: fmt.Sprintf("E%d", i), Type: fbHolder(i, s), Tag: `json:",embed"`})
		}
	}
	return reflect.StructOf(fs)
}

// fbMaps returns the fallback maps of v (addressable) with their labels and depths, in declaration order.
func fbMaps(v reflect.Value, root bool, slots [3]int) (maps []reflect.Value, labels []string, depths []int) {
	if root {
		maps, labels, depths = append(maps, v.FieldByName("R")), append(labels, "root"), append(depths, 0)
	}
	for i, s := range slots {
		if s == 0 {
			continue
		}
		f := v.FieldByName(fmt.Sprintf("E%d", i))
		for d := 1; d < s; d++ {
			f = f.FieldByName("In")
		}
		maps, labels, depths = append(maps, f.FieldByName("X")), append(labels, fmt.Sprintf("E%d(depth %d)", i, s)), append(depths, s)
	}
	return
}

func fbOne(root bool, slots [3]int) (msg string) {
	defer func() {
		if p := recover(); p != nil {
			msg = fmt.Sprintf("library panic: %v", p)
		}
	}()
	t := fbType(root, slots)
	v := reflect.New(t).Elem()
	maps, labels, depths := fbMaps(v, root, slots)
	// the selected fallback: unique minimum depth
	sel, min, cnt := -1, 99, 0
	for i, d := range depths {
		switch {
		case d < min:
			min, cnt, sel = d, 1, i
		case d == min:
			cnt++
		}
	}
	if cnt != 1 {
		sel = -1
	}
	want := "none (tie at the shallowest depth)"
	if sel >= 0 {
		want = labels[sel]
	}
	if len(maps) == 0 {
		want = "none"
	}
	// Marshal: each fallback holds one distinct member
	for i, m := range maps {
		m.Set(reflect.ValueOf(map[string]int{fmt.Sprintf("k%d", i): i + 1}))
	}
	b, err := jsonv2.Marshal(v.Interface())
	if err != nil {
		return fmt.Sprintf("Marshal failed: %v", err)
	}
	exp := `{"A":0}`
	if sel >= 0 {
		exp = fmt.Sprintf(`{"A":0,"k%d":%d}`, sel, sel+1)
	}
	if string(b) != exp {
		return fmt.Sprintf("fallbacks %v: Marshal = %s, want %s (selected fallback: %s)", labels, b, exp, want)
	}
	// Unmarshal: an unknown member goes to the selected fallback only
	p := reflect.New(t)
	if err := jsonv2.Unmarshal([]byte(`{"A":1,"zz":7}`), p.Interface()); err != nil {
		return fmt.Sprintf("Unmarshal failed: %v", err)
	}
	got, _, _ := fbMaps(p.Elem(), root, slots)
	for i, m := range got {
		has := m.Len() > 0
		if has != (i == sel) {
			return fmt.Sprintf("fallbacks %v: after Unmarshal of an unknown member, %s holds %v; the member belongs into: %s", labels, labels[i], m.Interface(), want)
		}
	}
	// RejectUnknownMembers: an error exactly when there is no fallback to take the member
	err = jsonv2.Unmarshal([]byte(`{"zz":7}`), reflect.New(t).Interface(), jsonv2.RejectUnknownMembers(true))
	if (err != nil) != (sel < 0) {
		return fmt.Sprintf("fallbacks %v: RejectUnknownMembers(true) err=%v; selected fallback: %s", labels, err, want)
	}
	return ""
}

func fallbackFamily(r *evid.Run) {
	var n int64
	for _, root := range []bool{false, true} {
		for a := 0; a < 3; a++ {
			for b := 0; b < 3; b++ {
				for c := 0; c < 3; c++ {
					n++
					slots := [3]int{a, b, c}
					if m := fbOne(root, slots); m != "" {
						r.Violation(fmt.Sprintf("c15|fallback|%v|%v", root, slots), m, Case{Part: "fallback", Name: fmt.Sprint(root, slots)}, nil)
					}
				}
			}
		}
	}
	r.Evaluations.Add(n * 3)
	r.Nontrivial.Add(n)
	r.Bound("embedded fallbacks: a root fallback (present / absent) x three embedded structs each carrying a fallback map at depth 1, at depth 2 or none (%d arrangements): Marshal, Unmarshal of an unknown member and RejectUnknownMembers agree with shallowest-unique-wins", n)
}

var _ = strings.Repeat

// ---- tag options stay on their member, also when its value is refused and decoding continues ----
//
// Under legacy error reporting a conversion error does not stop Unmarshal ("evaluation continues"): the members
// after the refused one are decoded as usual, i.e. exactly as in the same object without the refused member.

type tagNeighbours struct {
	A int `json:",string"`
	B int
	C string
	D bool
	E float64 `json:",string"`
	F []int
	G map[string]int
	H *int
}

func tagStayOne(doc, without string, opts []jsonv2.Options) (msg string) {
	defer func() {
		if p := recover(); p != nil {
			msg = fmt.Sprintf("library panic: %v", p)
		}
	}()
	var with, base tagNeighbours
	err1 := jsonv2.Unmarshal([]byte(doc), &with, opts...)
	err2 := jsonv2.Unmarshal([]byte(without), &base, opts...)
	if err2 != nil {
		return fmt.Sprintf("HARNESS: the object without the refused member fails: %v", err2)
	}
	if err1 == nil {
		return "" // the member was acceptable after all: nothing to compare
	}
	// the refused members keep their zero value; every other member must be as in the baseline
	with.A, with.E, base.A, base.E = 0, 0, 0, 0
	if !reflect.DeepEqual(with, base) {
		return fmt.Sprintf("Unmarshal(%s) reports %v and leaves %+v; without the refused member the same object gives %+v", doc, err1, showJ(with), showJ(base))
	}
	return ""
}

func showJ(v any) string {
	b, _ := jsonv2.Marshal(v, jsonv2.Deterministic(true))
	return string(b)
}

func tagStayFamily(r *evid.Run) {
	rest := `"B":7,"C":"x","D":true,"F":[1,2],"G":{"k":3},"H":4`
	bad := []string{`"A":5`, `"A":"x"`, `"A":true`, `"A":"1.5"`, `"A":[1]`, `"E":1.5`, `"E":"e"`, `"E":{}`}
	optSets := [][]jsonv2.Options{{jsonv1.ReportErrorsWithLegacySemantics(true)}, {jsonv1.DefaultOptionsV1()}}
	var n int64
	for _, b := range bad {
		for oi, opts := range optSets {
			for _, doc := range []string{"{" + b + "," + rest + "}", `{"B":7,` + b + `,"C":"x","D":true,"F":[1,2],"G":{"k":3},"H":4}`} {
				n++
				if m := tagStayOne(doc, "{"+rest+"}", opts); m != "" {
					r.Violation(fmt.Sprintf("c15|tag-stay|%s|%d", doc, oi), m, Case{Part: "tag-stay", Name: doc, Opt: fmt.Sprint(oi)}, nil)
				}
			}
		}
	}
	r.Evaluations.Add(n)
	r.Nontrivial.Add(n)
	r.Bound("tags stay on their member: %d refused values of `string`-tagged members at two positions among 6 untagged members x {ReportErrorsWithLegacySemantics, DefaultOptionsV1}: the untagged members decode as in the object without the refused member", len(bad))
}
