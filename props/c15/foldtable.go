package c15

import (
	"fmt"
	"reflect"
	"strings"
	"unicode"

	jsonv2 "github.com/go-json-experiment/json"

	"verif/internal/evid"
)

// Case-insensitive matching over the whole case-folding table: a field whose name contains rune r must be
// selected by every member of r's fold orbit (the relation of strings.EqualFold, to which fold.go refers), with
// '_' and '-' ignored, and by nothing else.

func orbit(r rune) []rune {
	out := []rune{r}
	for x := unicode.SimpleFold(r); x != r; x = unicode.SimpleFold(x) {
		out = append(out, x)
	}
	return out
}

func foldRunes(tier string) []rune {
	limit := rune(0x0600)
	if tier == "thorough" {
		limit = 0x1FFFF
	}
	var out []rune
	seen := map[rune]bool{}
	add := func(r rune) {
		if !seen[r] && r >= 0x80 && unicode.SimpleFold(r) != r {
			seen[r] = true
			out = append(out, r)
		}
	}
	for r := rune(0x80); r <= limit; r++ {
		add(r)
	}
	// orbits that cross blocks or reach into ASCII: Kelvin, long s, sharp s, Ohm, Angstrom, theta and other Greek symbol variants, Cherokee, Georgian
	for _, r := range []rune{0x212A, 0x017F, 0x1E9E, 0x2126, 0x212B, 0x03F4, 0x03D1, 0x03F1, 0x03F5, 0x03D5, 0x03D6, 0x03C2, 0x1E9B, 0x1C80, 0x1C88, 0xA64A, 0x13A0, 0xAB70, 0x10D0, 0x1C90, 0x2C00, 0xFF21, 0xFF41, 0x10400, 0x10428, 0x1E900, 0x1E922} {
		for _, o := range orbit(r) {
			add(o)
		}
	}
	return out
}

var foldStructs = map[string]reflect.Type{}

func foldOne(r rune, route int) (msg string) {
	defer func() {
		if p := recover(); p != nil {
			msg = fmt.Sprintf("library panic: %v", p)
		}
	}()
	name := "x" + string(r) + "y"
	tag := `json:"` + name
	var opts []jsonv2.Options
	if route == 0 {
		tag += `,case:ignore"`
	} else {
		tag += `"`
		opts = append(opts, jsonv2.MatchCaseInsensitiveNames(true))
	}
	opts = append(opts, jsonv2.RejectUnknownMembers(true))
	t := reflect.StructOf([]reflect.StructField{{Name: "F", Type: tInt, Tag: reflect.StructTag(tag)}, {Name: "G", Type: tInt, Tag: `json:"other"`}})
	try := func(in string) (int64, error) {
		p := reflect.New(t)
		err := jsonv2.Unmarshal([]byte(fmt.Sprintf(`{%q:1}`, in)), p.Interface(), opts...)
		return p.Elem().Field(0).Int(), err
	}
	// ASCII letters that fold with r (K, S) appear in the orbit as well
	for _, o := range orbit(r) {
		for _, in := range []string{"x" + string(o) + "y", "X_" + string(o) + "-Y", "-x" + string(o) + "y_"} {
			if !strings.EqualFold(strings.NewReplacer("_", "", "-", "").Replace(in), name) {
				return fmt.Sprintf("HARNESS: %q is not in the EqualFold class of %q", in, name)
			}
			if got, err := try(in); err != nil || got != 1 {
				return fmt.Sprintf("field named %q (U+%04X): the member name %q (U+%04X), equal under case folding ignoring '_' and '-', is not matched: F=%d err=%v", name, r, in, o, got, err)
			}
		}
	}
	// neighbours outside the orbit select nothing
	for _, d := range []rune{-1, 1} {
		o := r + d
		in := "x" + string(o) + "y"
		if strings.EqualFold(in, name) || !unicode.IsPrint(o) {
			continue
		}
		if got, err := try(in); err == nil || got != 0 {
			return fmt.Sprintf("field named %q (U+%04X): the member name %q (U+%04X) is not equal under case folding but was matched: F=%d err=%v", name, r, in, o, got, err)
		}
	}
	return ""
}

func foldTable(r *evid.Run) {
	rs := foldRunes(r.Tier)
	var n int64
	for _, c := range rs {
		for route := 0; route < 2; route++ {
			n++
			if m := foldOne(c, route); m != "" {
				cs := Case{Part: "fold", Index: int(c), Opt: fmt.Sprint(route)}
				r.Violation(fmt.Sprintf("c15|fold|U+%04X|%d", c, route), m, cs, func() bool { return replayCase(cs) != "" })
			}
		}
	}
	r.Evaluations.Add(n * 4)
	r.Nontrivial.Add(n)
	r.Bound("case folding table: %d non-ASCII runes with a non-trivial fold orbit (quick: below U+0600 plus the orbits that cross blocks or reach ASCII; thorough: all up to U+1FFFF) x {case:ignore tag, MatchCaseInsensitiveNames} x every member of the orbit, plain and with '_' / '-' inserted, plus the two neighbouring code points that must not match", len(rs))
}
