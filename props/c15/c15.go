// Package c15: struct fields map to JSON members by the documented resolution rules.
package c15

import (
	"encoding/json"
	"fmt"
	"reflect"
	"strings"
	"time"

	jsonv2 "github.com/go-json-experiment/json"
	jsonv1 "github.com/go-json-experiment/json/v1"

	"verif/internal/enum"
	"verif/internal/evid"
	"verif/internal/refjson"
)

// ---- description of a struct type graph ----

type fieldD struct {
	Go    string   // Go field name
	JSON  string   // explicit JSON name ("" = none)
	Embed *structD // embedded struct (Go anonymous field or `embed` option)
	Anon  bool     // Go anonymous embedding (else the embed tag option)
	Ptr   bool     // embedded through a pointer
	Fold  int      // 0 none, 1 case:ignore, 2 case:strict
	id    int      // leaf id (sentinel = id+1)
}

type structD struct {
	Fields []fieldD
	typ    reflect.Type
}

var tInt = reflect.TypeOf(0)

func (s *structD) build() reflect.Type {
	if s.typ != nil {
		return s.typ
	}
	var fs []reflect.StructField
	for _, f := range s.Fields {
		sf := reflect.StructField{Name: f.Go, Type: tInt}
		var opts []string
		if f.Embed != nil {
			sf.Type = f.Embed.build()
			if f.Ptr {
				sf.Type = reflect.PointerTo(sf.Type)
			}
			if f.Anon {
				sf.Anonymous = true
			} else {
				opts = append(opts, "embed")
			}
		}
		switch f.Fold {
		case 1:
			opts = append(opts, "case:ignore")
		case 2:
			opts = append(opts, "case:strict")
		}
		if f.JSON != "" || len(opts) > 0 {
			sf.Tag = reflect.StructTag(`json:"` + f.JSON + strings.Join(append([]string{""}, opts...), ",") + `"`)
		}
		fs = append(fs, sf)
	}
	s.typ = reflect.StructOf(fs)
	return s.typ
}

func (s *structD) String() string {
	var parts []string
	for _, f := range s.Fields {
		x := f.Go
		if f.JSON != "" {
			x += fmt.Sprintf("`%s`", f.JSON)
		}
		switch f.Fold {
		case 1:
			x += "~"
		case 2:
			x += "!"
		}
		if f.Embed != nil {
			kind := "embed:"
			if f.Anon {
				kind = "anon:"
			}
			if f.Ptr {
				kind += "*"
			}
			x += "=" + kind + f.Embed.String()
		}
		parts = append(parts, x)
	}
	return "{" + strings.Join(parts, " ") + "}"
}

// ---- the reference resolver (written from doc.go) ----

type cand struct {
	name   string // JSON name
	tagged bool
	depth  int
	path   []int // field index path from the root
	order  int   // depth-first declaration order
	fold   int
	id     int
}

// resolve returns the JSON representable fields in emission order.
func resolve(root *structD) []cand {
	var all []cand
	order := 0
	var walk func(s *structD, depth int, path []int)
	walk = func(s *structD, depth int, path []int) {
		for i, f := range s.Fields {
			p := append(append([]int(nil), path...), i)
			if f.Embed != nil {
				walk(f.Embed, depth+1, p)
				continue
			}
			name := f.Go
			if f.JSON != "" {
				name = f.JSON
			}
			all = append(all, cand{name, f.JSON != "", depth, p, order, f.Fold, f.id})
			order++
		}
	}
	walk(root, 0, nil)
	// dominance: shallowest wins; a single explicitly named field breaks a tie; otherwise all tied fields are dropped
	byName := map[string][]cand{}
	for _, c := range all {
		byName[c.name] = append(byName[c.name], c)
	}
	var out []cand
	for _, c := range all {
		group := byName[c.name]
		minD := group[0].depth
		for _, g := range group {
			if g.depth < minD {
				minD = g.depth
			}
		}
		if c.depth != minD {
			continue
		}
		var top, tagged []cand
		for _, g := range group {
			if g.depth == minD {
				top = append(top, g)
				if g.tagged {
					tagged = append(tagged, g)
				}
			}
		}
		switch {
		case len(top) == 1:
			out = append(out, c)
		case len(tagged) == 1 && c.tagged:
			out = append(out, c)
		}
	}
	return out
}

func fold(s string) string {
	s = strings.ReplaceAll(strings.ReplaceAll(s, "_", ""), "-", "")
	return strings.ToLower(s)
}

// lookup: which field does input name n select? ok=false: unknown; amb=true: ambiguous (error).
func lookup(fields []cand, n string, insensitive bool, delim ...bool) (c cand, ok bool, amb bool) {
	fold := fold
	if len(delim) > 0 && delim[0] {
		fold = strings.ToLower // delimiters stay significant
	}
	for _, f := range fields {
		if f.name == n {
			return f, true, false
		}
	}
	var matches []cand
	for _, f := range fields {
		ci := f.fold == 1 || (insensitive && f.fold != 2)
		if ci && fold(f.name) == fold(n) {
			matches = append(matches, f)
		}
	}
	switch len(matches) {
	case 0:
		return cand{}, false, false
	case 1:
		return matches[0], true, false
	}
	return cand{}, false, true
}

// ---- value helpers ----

// fill sets every leaf to its sentinel and allocates embedded pointers.
func fill(v reflect.Value, s *structD) {
	for i, f := range s.Fields {
		fv := v.Field(i)
		if f.Embed != nil {
			if f.Ptr {
				fv.Set(reflect.New(fv.Type().Elem()))
				fv = fv.Elem()
			}
			fill(fv, f.Embed)
			continue
		}
		fv.SetInt(int64(f.id + 1))
	}
}

// leafAt reads the leaf at path (0 if an embedded pointer on the way is nil).
func leafAt(v reflect.Value, path []int) int64 {
	for _, i := range path {
		if v.Kind() == reflect.Pointer {
			if v.IsNil() {
				return 0
			}
			v = v.Elem()
		}
		v = v.Field(i)
	}
	return v.Int()
}

func allLeaves(s *structD, path []int, f func(path []int)) {
	for i, fd := range s.Fields {
		p := append(append([]int(nil), path...), i)
		if fd.Embed != nil {
			allLeaves(fd.Embed, p, f)
		} else {
			f(p)
		}
	}
}

// hasSameNameSiblings: two non-embedded fields of one struct with the same JSON name (a documented type error).
func invalid(s *structD, seenTypes map[reflect.Type]int) bool {
	names := map[string]bool{}
	for _, f := range s.Fields {
		if f.Embed != nil {
			if invalid(f.Embed, seenTypes) {
				return true
			}
			seenTypes[f.Embed.build()]++
			continue
		}
		n := f.Go
		if f.JSON != "" {
			n = f.JSON
		}
		if names[n] {
			return true
		}
		names[n] = true
	}
	return false
}

type Case struct {
	Part  string `json:"part"`
	Graph string `json:"graph,omitempty"`
	Index int    `json:"index,omitempty"`
	Name  string `json:"name,omitempty"`
	Opt   string `json:"options,omitempty"`
}

var inputNames = []string{"A", "B", "a", "b", "a_", "-B", "zz"}

type optCase struct {
	name   string
	opts   []jsonv2.Options
	insens bool
	reject bool
	delim  bool // v1.MatchCaseSensitiveDelimiter: '_' and '-' are significant when matching case-insensitively
}

var optCases = []optCase{
	{"default", nil, false, false, false},
	{"MatchCaseInsensitiveNames", []jsonv2.Options{jsonv2.MatchCaseInsensitiveNames(true)}, true, false, false},
	{"RejectUnknownMembers", []jsonv2.Options{jsonv2.RejectUnknownMembers(true)}, false, true, false},
	{"MatchCaseInsensitiveNames+RejectUnknownMembers", []jsonv2.Options{jsonv2.MatchCaseInsensitiveNames(true), jsonv2.RejectUnknownMembers(true)}, true, true, false},
	{"MatchCaseInsensitiveNames+MatchCaseSensitiveDelimiter+RejectUnknownMembers", []jsonv2.Options{jsonv2.MatchCaseInsensitiveNames(true), jsonv1.MatchCaseSensitiveDelimiter(true), jsonv2.RejectUnknownMembers(true)}, true, true, true},
	{"MatchCaseSensitiveDelimiter alone", []jsonv2.Options{jsonv1.MatchCaseSensitiveDelimiter(true)}, false, false, true},
	// options spelled out as false, and switched on and off again, are as if absent
	{"MatchCaseInsensitiveNames+MatchCaseSensitiveDelimiter(false)+RejectUnknownMembers", []jsonv2.Options{jsonv2.MatchCaseInsensitiveNames(true), jsonv1.MatchCaseSensitiveDelimiter(false), jsonv2.RejectUnknownMembers(true)}, true, true, false},
	{"MatchCaseSensitiveDelimiter(true) then (false), MatchCaseInsensitiveNames(false) then (true), RejectUnknownMembers(true) then (false)", []jsonv2.Options{jsonv1.MatchCaseSensitiveDelimiter(true), jsonv2.MatchCaseInsensitiveNames(false), jsonv2.RejectUnknownMembers(true), jsonv1.MatchCaseSensitiveDelimiter(false), jsonv2.MatchCaseInsensitiveNames(true), jsonv2.RejectUnknownMembers(false)}, true, false, false},
}

// checkGraph compares Marshal's member list and Unmarshal's field targeting with the resolver.
func checkGraph(root *structD) (msg string) {
	defer func() {
		if p := recover(); p != nil {
			msg = fmt.Sprintf("library panic: %v", p)
		}
	}()
	t := root.build()
	fields := resolve(root)
	// marshal
	v := reflect.New(t).Elem()
	fill(v, root)
	b, err := jsonv2.Marshal(v.Interface())
	if len(fields) == 0 {
		if err == nil && string(b) != "{}" {
			return fmt.Sprintf("no JSON representable field expected, Marshal = %s", b)
		}
	} else {
		if err != nil {
			return fmt.Sprintf("Marshal failed: %v", err)
		}
		tree := refjson.Tree(b, refjson.Opts{})
		if tree == nil || tree.Kind != '{' {
			return fmt.Sprintf("Marshal output %s is not an object", b)
		}
		var want []string
		for _, f := range fields {
			want = append(want, fmt.Sprintf("%s=%d", f.name, f.id+1))
		}
		var got []string
		for i, n := range tree.Names {
			got = append(got, fmt.Sprintf("%s=%s", n, tree.Members[i].Num))
		}
		if strings.Join(got, ",") != strings.Join(want, ",") {
			return fmt.Sprintf("Marshal emits members [%s], documented resolution gives [%s]", strings.Join(got, ","), strings.Join(want, ","))
		}
	}
	if err != nil {
		return "" // a struct without representable fields is a documented error
	}
	// unmarshal: every input name under every option set
	for _, oc := range optCases {
		for _, n := range inputNames {
			f, ok, amb := lookup(fields, n, oc.insens, oc.delim)
			p := reflect.New(t)
			uerr := jsonv2.Unmarshal([]byte(fmt.Sprintf(`{%q:99}`, n)), p.Interface(), oc.opts...)
			where := fmt.Sprintf("Unmarshal({%q:99}) with %s", n, oc.name)
			switch {
			case amb:
				if uerr == nil {
					return where + ": ambiguous case-insensitive match accepted"
				}
				continue
			case !ok:
				if oc.reject {
					if uerr == nil {
						return where + ": unknown member accepted"
					}
					continue
				}
				if uerr != nil {
					return fmt.Sprintf("%s: unknown member must be ignored, got %v", where, uerr)
				}
			default:
				if uerr != nil {
					return fmt.Sprintf("%s: unexpected error %v", where, uerr)
				}
			}
			var bad string
			allLeaves(root, nil, func(path []int) {
				got := leafAt(p.Elem(), path)
				want := int64(0)
				if ok && fmt.Sprint(path) == fmt.Sprint(f.path) {
					want = 99
				}
				if got != want && bad == "" {
					bad = fmt.Sprintf("%s: field at path %v holds %d, want %d (resolver selects %v)", where, path, got, want, f.path)
				}
			})
			if bad != "" {
				return bad
			}
		}
	}
	return ""
}

// ---- generator ----

type leafOpt struct {
	json string // "" untagged, "=" explicit name equal to the Go name, else the explicit name
	fold int
}

var leafOpts = []leafOpt{{"", 0}, {"=", 0}, {"other", 0}, {"a", 0}, {"", 1}, {"=", 2}}

func leaf(goName string, lo leafOpt) fieldD {
	j := lo.json
	switch j {
	case "=":
		j = goName
	case "other":
		j = map[string]string{"A": "B", "B": "A"}[goName]
	}
	return fieldD{Go: goName, JSON: j, Fold: lo.fold}
}

func leaves() []fieldD {
	var out []fieldD
	for _, g := range []string{"A", "B"} {
		for _, lo := range leafOpts {
			out = append(out, leaf(g, lo))
		}
	}
	return out
}

// level0: structs with 1..2 leaf fields (distinct Go names, both declaration orders).
func level0() []*structD {
	var out []*structD
	ls := leaves()
	for _, a := range ls {
		out = append(out, &structD{Fields: []fieldD{a}})
		for _, b := range ls {
			if a.Go != b.Go {
				out = append(out, &structD{Fields: []fieldD{a, b}})
			}
		}
	}
	return out
}

type embedOpt struct {
	child *structD
	anon  bool
	ptr   bool
}

func embeds(children []*structD, kinds [][2]bool) []embedOpt {
	var out []embedOpt
	for _, c := range children {
		for _, k := range kinds {
			out = append(out, embedOpt{c, k[0], k[1]})
		}
	}
	return out
}

func (e embedOpt) field(name string) fieldD {
	return fieldD{Go: name, Embed: clone(e.child), Anon: e.anon, Ptr: e.ptr}
}

var innerKinds = [][2]bool{{true, false}, {true, true}}
var rootKinds = [][2]bool{{true, false}, {true, true}, {false, false}, {false, true}}

// level1: structs with 1..2 fields, leaves or embedded level-0 structs.
func level1(l0 []*structD) (all, single []*structD) {
	ls := leaves()
	es := embeds(l0, innerKinds)
	for _, e := range es {
		s := &structD{Fields: []fieldD{e.field("E1")}}
		all = append(all, s)
		single = append(single, s)
	}
	for _, a := range ls {
		for i, e := range es {
			if i%3 != 0 {
				continue // thin out deterministically: every third embedded option next to a leaf
			}
			all = append(all, &structD{Fields: []fieldD{a, e.field("E1")}}, &structD{Fields: []fieldD{e.field("E1"), a}})
		}
	}
	for i, e1 := range es {
		for j, e2 := range es {
			if (i+j)%17 != 0 {
				continue
			}
			all = append(all, &structD{Fields: []fieldD{e1.field("E1"), e2.field("E2")}})
		}
	}
	return all, single
}

// forEachGraph enumerates the root graphs; stride thins the largest family.
type graphSpace struct {
	l0, l1, l1single []*structD
	rootEmb          []embedOpt // every embedded option at the root
	smallEmb         []embedOpt
	ls               []fieldD
	units            []unit
}
type unit struct {
	kind    int
	a, b, c int
}

func newSpace(tier string) *graphSpace {
	g := &graphSpace{}
	g.l0 = level0()
	g.l1, g.l1single = level1(g.l0)
	g.ls = leaves()
	g.rootEmb = embeds(append(append([]*structD(nil), g.l0...), g.l1...), rootKinds)
	g.smallEmb = embeds(append(append([]*structD(nil), g.l0...), g.l1single...), rootKinds)
	stride := 6
	if tier == "thorough" {
		stride = 1
	}
	for i := range g.ls {
		g.units = append(g.units, unit{0, i, 0, 0})
		for j := range g.ls {
			if g.ls[i].Go != g.ls[j].Go {
				g.units = append(g.units, unit{1, i, j, 0})
			}
		}
	}
	for e := range g.rootEmb {
		g.units = append(g.units, unit{2, e, 0, 0})
		for i := range g.ls {
			if (e+i)%stride == 0 {
				g.units = append(g.units, unit{3, i, e, 0}, unit{4, i, e, 0})
			}
		}
	}
	l0emb := embeds(g.l0, rootKinds)
	for a := range l0emb {
		for b := range g.smallEmb {
			if (a+b)%stride == 0 {
				g.units = append(g.units, unit{5, a, b, 0}, unit{6, a, b, 0})
			}
		}
	}
	// deep chains: root -> E1 -> E1 -> ... (3 or 4 levels) -> level-0 struct, with an optional leaf sibling at one level
	for d := 3; d <= 4; d++ {
		for bottom := range g.l0 {
			for kinds := 0; kinds < 1<<d; kinds++ {
				for sib := 0; sib <= d*len(g.ls); sib++ {
					if (bottom+kinds+sib)%stride != 0 && sib != 0 {
						continue
					}
					g.units = append(g.units, unit{10 + d, bottom, kinds, sib})
				}
			}
		}
	}
	if tier == "thorough" {
		for i := range g.ls {
			for j := range g.ls {
				if g.ls[i].Go == g.ls[j].Go {
					continue
				}
				for e := range g.smallEmb {
					for pos := 0; pos < 3; pos++ {
						g.units = append(g.units, unit{7 + pos, i, j, e})
					}
				}
			}
		}
	}
	return g
}

func (g *graphSpace) build(u unit) *structD {
	l0emb := func(i int) embedOpt { return embeds(g.l0, rootKinds)[i] }
	var s *structD
	switch u.kind {
	case 0:
		s = &structD{Fields: []fieldD{g.ls[u.a]}}
	case 1:
		s = &structD{Fields: []fieldD{g.ls[u.a], g.ls[u.b]}}
	case 2:
		s = &structD{Fields: []fieldD{g.rootEmb[u.a].field("E1")}}
	case 3:
		s = &structD{Fields: []fieldD{g.ls[u.a], g.rootEmb[u.b].field("E1")}}
	case 4:
		s = &structD{Fields: []fieldD{g.rootEmb[u.b].field("E1"), g.ls[u.a]}}
	case 5:
		s = &structD{Fields: []fieldD{l0emb(u.a).field("E1"), g.smallEmb[u.b].field("E2")}}
	case 6:
		s = &structD{Fields: []fieldD{g.smallEmb[u.b].field("E2"), l0emb(u.a).field("E1")}}
	case 13, 14:
		d := u.kind - 10
		cur := clone(g.l0[u.a])
		for lvl := d - 1; lvl >= 0; lvl-- {
			fs := []fieldD{{Go: "E1", Embed: cur, Anon: true, Ptr: u.b&(1<<lvl) != 0}}
			if u.c > 0 && (u.c-1)/len(g.ls) == lvl {
				lf := g.ls[(u.c-1)%len(g.ls)]
				if (u.c+lvl)%2 == 0 {
					fs = append([]fieldD{lf}, fs...)
				} else {
					fs = append(fs, lf)
				}
			}
			cur = &structD{Fields: fs}
		}
		s = cur
	default:
		fs := []fieldD{g.ls[u.a], g.ls[u.b]}
		e := g.smallEmb[u.c].field("E1")
		pos := u.kind - 7
		fs = append(fs[:pos], append([]fieldD{e}, fs[pos:]...)...)
		s = &structD{Fields: fs}
	}
	s = clone(s)
	n := 0
	number(s, &n)
	return s
}

func number(s *structD, n *int) {
	for i := range s.Fields {
		if s.Fields[i].Embed != nil {
			number(s.Fields[i].Embed, n)
		} else {
			s.Fields[i].id = *n
			*n++
		}
	}
}

func clone(s *structD) *structD {
	c := &structD{Fields: append([]fieldD(nil), s.Fields...)}
	for i := range c.Fields {
		if c.Fields[i].Embed != nil {
			c.Fields[i].Embed = clone(c.Fields[i].Embed)
		}
	}
	return c
}

// ---- omitzero / omitempty / string ----

type zeroer struct{ V int }

func (z zeroer) IsZero() bool { return z.V == 7 } // deliberately different from the Go zero value

type omitCase struct {
	name string
	val  reflect.Value
	// zero: omitted under omitzero; empty: omitted under omitempty
	zero, empty bool
	numeric     bool
}

func omitCases() []omitCase {
	one := 1
	var nilp *int
	es := ""
	utcPlus1 := time.Date(1, 1, 1, 1, 0, 0, 0, time.FixedZone("", 3600)) // IsZero() is true, not the Go zero value
	return []omitCase{
		{"int 0", reflect.ValueOf(0), true, false, true},
		{"int 1", reflect.ValueOf(1), false, false, true},
		{"string empty", reflect.ValueOf(""), true, true, false},
		{"string a", reflect.ValueOf("a"), false, false, false},
		{"nil *int", reflect.ValueOf(nilp), true, true, false},
		{"*int to 1", reflect.ValueOf(&one), false, false, true},
		{"*string to empty", reflect.ValueOf(&es), false, true, false},
		{"nil []int", reflect.ValueOf([]int(nil)), true, true, false},
		{"empty []int", reflect.ValueOf([]int{}), false, true, false},
		{"[]int{0}", reflect.ValueOf([]int{0}), false, false, false},
		{"nil map", reflect.ValueOf(map[string]int(nil)), true, true, false},
		{"empty map", reflect.ValueOf(map[string]int{}), false, true, false},
		{"struct{}", reflect.ValueOf(struct{}{}), true, true, false},
		{"struct{X int}{0}", reflect.ValueOf(struct{ X int }{}), true, false, false},
		{"[0]int", reflect.ValueOf([0]int{}), true, true, false},
		{"[1]int{0}", reflect.ValueOf([1]int{}), true, false, false},
		{"nil any", reflect.Zero(reflect.TypeOf((*any)(nil)).Elem()), true, true, false},
		{"float64 0", reflect.ValueOf(0.0), true, false, true},
		{"bool false", reflect.ValueOf(false), true, false, false},
		{"zeroer{0} (IsZero false)", reflect.ValueOf(zeroer{0}), false, false, false},
		{"zeroer{7} (IsZero true)", reflect.ValueOf(zeroer{7}), true, false, false},
		{"time.Time zero instant in +01:00 (IsZero true)", reflect.ValueOf(utcPlus1), true, false, false},
		{"time.Time{}", reflect.ValueOf(time.Time{}), true, false, false},
	}
}

func checkOmit() (n int64, msgs []string) {
	for _, oc := range omitCases() {
		for _, tag := range []string{"", "omitzero", "omitempty", "omitzero,omitempty", "string"} {
			for _, opt := range []string{"default", "OmitZeroStructFields", "OmitEmptyWithLegacySemantics"} {
				n++
				if tag == "string" && !oc.numeric {
					continue
				}
				ft := oc.val.Type()
				jtag := ""
				if tag != "" {
					jtag = `json:",` + tag + `"`
				}
				st := reflect.StructOf([]reflect.StructField{
					{Name: "P", Type: tInt},
					{Name: "F", Type: ft, Tag: reflect.StructTag(jtag)},
					{Name: "Q", Type: ft}, // same value, never tagged: the options must not leak to neighbours
				})
				v := reflect.New(st).Elem()
				v.Field(1).Set(oc.val)
				v.Field(2).Set(oc.val)
				var opts []jsonv2.Options
				if opt == "OmitZeroStructFields" {
					opts = append(opts, jsonv2.OmitZeroStructFields(true))
				}
				if opt == "OmitEmptyWithLegacySemantics" {
					opts = append(opts, jsonv1.OmitEmptyWithLegacySemantics(true))
				}
				b, err := jsonv2.Marshal(v.Interface(), opts...)
				if err != nil {
					msgs = append(msgs, fmt.Sprintf("%s with tag %q (%s): Marshal failed: %v", oc.name, tag, opt, err))
					continue
				}
				tree := refjson.Tree(b, refjson.Opts{})
				has := map[string]*refjson.Value{}
				for i, nm := range tree.Names {
					has[nm] = tree.Members[i]
				}
				global := opt == "OmitZeroStructFields"
				// "empty" is defined by how the value itself encodes under the same options
				empty := oc.empty
				if alone, err := jsonv2.Marshal(oc.val.Interface(), opts...); err == nil {
					switch string(alone) {
					case "null", `""`, "{}", "[]":
						empty = true
					default:
						empty = false
					}
				}
				if opt == "OmitEmptyWithLegacySemantics" {
					// "empty" is a property of the Go value: false, 0, a nil pointer or interface, a string, map, slice or array of length 0
					switch k := oc.val.Kind(); k {
					case reflect.Bool, reflect.Int, reflect.Float64:
						empty = oc.val.IsZero()
					case reflect.Pointer, reflect.Interface:
						empty = oc.val.IsNil()
					case reflect.String, reflect.Map, reflect.Slice, reflect.Array:
						empty = oc.val.Len() == 0
					default:
						empty = false
					}
				}
				wantF := !((strings.Contains(tag, "omitzero") || global) && oc.zero) && !(strings.Contains(tag, "omitempty") && empty)
				wantQ := !(global && oc.zero)
				wantP := !global
				if (has["F"] != nil) != wantF || (has["Q"] != nil) != wantQ || (has["P"] != nil) != wantP {
					msgs = append(msgs, fmt.Sprintf("%s with tag %q (%s): output %s; documented presence: P=%v F=%v Q=%v", oc.name, tag, opt, b, wantP, wantF, wantQ))
					continue
				}
				if tag == "string" && has["F"] != nil && has["F"].Kind != '"' {
					msgs = append(msgs, fmt.Sprintf("%s with `string`: F not quoted in %s", oc.name, b))
				}
				if has["Q"] != nil && oc.numeric && has["Q"].Kind == '"' {
					msgs = append(msgs, fmt.Sprintf("%s: the `string` option leaked to the untagged neighbour: %s", oc.name, b))
				}
			}
		}
	}
	return n, msgs
}

// ---- wide structs ----

func checkWide() (n int64, msgs []string) {
	for _, nf := range []int{63, 64, 65, 66, 97, 129, 130, 200} {
		var fs []reflect.StructField
		for i := 0; i < nf; i++ {
			fs = append(fs, reflect.StructField{Name: fmt.Sprintf("F%d", i), Type: tInt})
		}
		t := reflect.StructOf(fs)
		for i := 0; i < nf; i++ {
			n++
			// field i alone must land in field i
			p := reflect.New(t)
			if err := jsonv2.Unmarshal([]byte(fmt.Sprintf(`{"F%d":5}`, i)), p.Interface()); err != nil || p.Elem().Field(i).Int() != 5 {
				msgs = append(msgs, fmt.Sprintf("%d-field struct: member F%d not stored in its field (%v)", nf, i, err))
			}
			// a duplicate of member i (with other members in between) must be detected
			doc := fmt.Sprintf(`{"F%d":1,"F%d":2,"F%d":3}`, i, (i+1)%nf, i)
			p = reflect.New(t)
			if err := jsonv2.Unmarshal([]byte(doc), p.Interface()); err == nil {
				msgs = append(msgs, fmt.Sprintf("%d-field struct: duplicate of member F%d accepted", nf, i))
			}
		}
		// every ordered pair of distinct members: both accepted, each stored in its own field
		for i := 0; i < nf; i++ {
			for j := 0; j < nf; j++ {
				if i == j {
					continue
				}
				n++
				p := reflect.New(t)
				if err := jsonv2.Unmarshal([]byte(fmt.Sprintf(`{"F%d":5,"F%d":6}`, i, j)), p.Interface()); err != nil || p.Elem().Field(i).Int() != 5 || p.Elem().Field(j).Int() != 6 {
					msgs = append(msgs, fmt.Sprintf("%d-field struct: members F%d and F%d in one object: err=%v, fields hold %d and %d (want 5 and 6)", nf, i, j, err, p.Elem().Field(i).Int(), p.Elem().Field(j).Int()))
					if len(msgs) > 40 {
						return n, msgs
					}
				}
			}
		}
		// all members at once, in declaration order, in reverse and rotated by 64
		for _, order := range []func(k int) int{func(k int) int { return k }, func(k int) int { return nf - 1 - k }, func(k int) int { return (k + 64) % nf }} {
			n++
			var sb strings.Builder
			sb.WriteByte('{')
			for k := 0; k < nf; k++ {
				if k > 0 {
					sb.WriteByte(',')
				}
				fmt.Fprintf(&sb, `"F%d":%d`, order(k), order(k)+1)
			}
			sb.WriteByte('}')
			p := reflect.New(t)
			err := jsonv2.Unmarshal([]byte(sb.String()), p.Interface())
			for k := 0; err == nil && k < nf; k++ {
				if p.Elem().Field(k).Int() != int64(k+1) {
					err = fmt.Errorf("field F%d holds %d", k, p.Elem().Field(k).Int())
				}
			}
			if err != nil {
				msgs = append(msgs, fmt.Sprintf("%d-field struct: an object naming every member once: %v", nf, err))
			}
		}
		// all fields in declaration order on marshal
		v := reflect.New(t).Elem()
		for i := 0; i < nf; i++ {
			v.Field(i).SetInt(int64(i))
		}
		b, _ := jsonv2.Marshal(v.Interface())
		tree := refjson.Tree(b, refjson.Opts{})
		for i := 0; tree != nil && i < nf; i++ {
			if i >= len(tree.Names) || tree.Names[i] != fmt.Sprintf("F%d", i) || tree.Members[i].Num != fmt.Sprint(i) {
				msgs = append(msgs, fmt.Sprintf("%d-field struct: member %d out of place in %s", nf, i, b[:60]))
				break
			}
		}
	}
	return n, msgs
}

func replayCase(cs Case) string {
	if cs.Part == "fold" {
		return foldOne(rune(cs.Index), map[string]int{"0": 0, "1": 1}[cs.Opt])
	}
	if cs.Part == "omit-stream" {
		var ti, L int
		fmt.Sscan(cs.Name, &ti)
		fmt.Sscan(cs.Opt, &L)
		if cs.Index < len(streamValues()) && ti < 4 {
			return streamOne(cs.Index, ti, L)
		}
		return ""
	}
	if cs.Part != "graph" {
		return ""
	}
	sp := newSpace(cs.Opt)
	if cs.Index < len(sp.units) {
		if g := sp.build(sp.units[cs.Index]); g.String() == cs.Graph {
			return checkGraph(g)
		}
	}
	return ""
}

func Replay(r *evid.Run, raw json.RawMessage) {
	var cs Case
	if json.Unmarshal(raw, &cs) != nil {
		return
	}
	r.Evaluations.Add(1)
	r.Nontrivial.Add(2)
	r.Sample(cs)
	if msg := replayCase(cs); msg != "" {
		fmt.Println("replay fails:", msg)
		r.Violation("replay", msg, cs, nil)
	} else {
		fmt.Println("replay passes")
	}
}

func Run(r *evid.Run) {
	r.Rule("every struct type graph from a generator: root with <=R fields, each either a leaf (Go name A/B x {untagged, named A, named B, named a, case:ignore, named B + case:strict}) or an embedded struct (Go anonymous or `embed` option, value or pointer) nested <=2 levels with <=2 fields each - so that equal JSON names at equal and different depths, tagged/untagged ties and case variants are all forced - built with reflect.StructOf; excluded: graphs with two same-named non-embedded fields in one struct (documented error) and graphs in which the same struct type is embedded more than once (undocumented). Oracle: an independent resolver written from doc.go (breadth-first, shallowest wins, a single explicitly named field breaks a tie, otherwise all tied fields dropped, depth-first declaration order; case-sensitive by default, case-insensitive ignoring '_' and '-' where requested with exact match preferred and ambiguity an error; unknown names ignored or rejected): Marshal of a value whose leaves carry distinct sentinels emits exactly the resolver's (name, sentinel) list in order; Unmarshal of {name:99} for 7 name variants x 8 option sets (incl. options spelled out as false and switched on and off again) stores into exactly the resolver's field. Plus omitzero/omitempty/string on 23 value kinds x 5 tags x {default, OmitZeroStructFields, OmitEmptyWithLegacySemantics}, and 63..130-field structs (member i -> field i; duplicate of member i detected, for every i). evaluations = type graphs x calls; distinct_nontrivial = distinct graphs with at least one name collision")
	r.Assume("resolver written from doc.go", "reflect.StructOf builds the same field layouts a declared struct would have")
	sp := newSpace(r.Tier)
	enum.Parallel(r, len(sp.units), func(w *enum.Worker) func(int) {
		var cur Case
		w.Describe = func() any { return cur }
		var n, nt, skipped int64
		w.Done = func() {
			r.Evaluations.Add(n)
			r.Nontrivial.Add(nt)
			r.Counter("graphs excluded (documented type error or repeated embedded type)").Add(skipped)
		}
		return func(u int) {
			g := sp.build(sp.units[u])
			seen := map[reflect.Type]int{}
			if invalid(g, seen) {
				skipped++
				return
			}
			for _, c := range seen {
				if c > 1 {
					skipped++
					return
				}
			}
			cur = Case{Part: "graph", Graph: g.String(), Index: u, Opt: r.Tier}
			n += int64(1 + len(inputNames)*len(optCases))
			names := map[string]int{}
			var count func(s *structD)
			count = func(s *structD) {
				for _, f := range s.Fields {
					if f.Embed != nil {
						count(f.Embed)
					} else if f.JSON != "" {
						names[f.JSON]++
					} else {
						names[f.Go]++
					}
				}
			}
			count(g)
			for _, c := range names {
				if c > 1 {
					nt++
					break
				}
			}
			if m := checkGraph(g); m != "" {
				cs := cur
				r.Violation("c15|graph|"+cs.Graph, m, cs, func() bool { return checkGraph(g) != "" })
			}
		}
	})
	r.Sample(Case{Part: "graph", Graph: sp.build(sp.units[len(sp.units)/2]).String()})
	r.Bound("%d struct type graphs (level-0 structs %d, level-1 structs %d, root embed options %d)", len(sp.units), len(sp.l0), len(sp.l1), len(sp.rootEmb))
	foldTable(r)
	n, msgs := checkOmit()
	r.Evaluations.Add(n)
	r.Nontrivial.Add(n)
	for _, m := range msgs {
		r.Violation("c15|omit|"+m, m, Case{Part: "omit", Name: m}, nil)
	}
	n, msgs = checkWide()
	r.Evaluations.Add(n)
	r.Nontrivial.Add(n)
	for _, m := range msgs {
		r.Violation("c15|wide|"+m, m, Case{Part: "wide", Name: m}, nil)
	}
	fallbackFamily(r)
	tagStayFamily(r)
	r.Bound("omit/string: 23 value kinds x 5 tags x {default, OmitZeroStructFields}; wide structs with 63, 64, 65, 66, 97, 129, 130, 200 fields (every member alone, every ordered pair, all members in three orders, a duplicate of every member)")
	omitStreaming(r)
}
