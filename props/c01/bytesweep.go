package c01

import (
	"bytes"
	"fmt"
	"io"
	"strings"

	jsonv2 "github.com/go-json-experiment/json"
	"github.com/go-json-experiment/json/jsontext"

	"verif/internal/enum"
	"verif/internal/evid"
	"verif/internal/views"
)

// byteSweep: every byte value at every position of template texts that contain every token kind, every
// escape form and multi-byte characters (character-class tests anywhere in the scanners: hex digits,
// digits, literal letters, escape letters, whitespace, UTF-8 lead and continuation bytes).
func byteSweep(r *evid.Run) {
	templates := []string{
		`{"a\u00e9\n\\":[-12.5e+10,true,false,null,"\ud83d\ude00",0.1E-2]}`,
		`["\uABcd\u0fF9","é€😀\/\b\f\r\t\"",1e5,-0]`,
		" [ 1 ,\t{ \"k\" :\n\"v\" }\r] ",
		`"\ud800\udc00\udbff\udfff"`,
	}
	type unit struct{ t, i int }
	var units []unit
	for t, s := range templates {
		for i := range s {
			units = append(units, unit{t, i})
		}
	}
	enum.Parallel(r, len(units), func(w *enum.Worker) func(int) {
		c := newChecker()
		w.Describe = func() any { return Case{Input: c.cur, InputText: string(c.cur)} }
		w.Done = func() { r.Outcomes(c.out); c.out = map[string]int64{} }
		return func(u int) {
			un := units[u]
			b := []byte(templates[un.t])
			for v := 0; v < 256; v++ {
				b[un.i] = byte(v)
				c.all(r, b)
			}
			w.Beat()
		}
	})
	r.Sample(map[string]any{"family": "byte-sweep", "template": templates[0], "position": 7, "byte": "0x10"})
	r.Bound("byte sweep: every byte value 0..255 at every position of %d template texts (%d positions): all token kinds, every escape form, surrogate pairs, 2/3/4-byte characters, all whitespace", len(templates), len(units))
}

// escapeAtoms: every string literal made of <=3 (thorough 4) atoms from an escape-sensitive menu (all boundary
// code units of the surrogate ranges as \u escapes in both cases, neighbours outside the ranges, raw
// multi-byte characters, raw surrogate bytes, plain escapes), as a value and as an object name.
func escapeAtoms(r *evid.Run) {
	atoms := views.EscapeAtoms
	maxLen := 3
	if r.Tier == "thorough" {
		maxLen = 4
	}
	enum.Strings(r, atoms, maxLen, func(w *enum.Worker) func([]byte) {
		c := newChecker()
		w.Describe = func() any { return Case{Input: c.cur, InputText: string(c.cur)} }
		w.Done = func() { r.Outcomes(c.out); c.out = map[string]int64{} }
		buf := make([]byte, 0, 96)
		return func(s []byte) {
			buf = append(append(append(buf[:0], '"'), s...), '"')
			c.all(r, buf)
			buf = append(append(append(buf[:0], `{"`...), s...), `":[0]}`...)
			c.all(r, buf)
		}
	})
	r.Sample(map[string]any{"family": "escape-atoms", "input": `"\udc00\udc00"`})
	r.Bound("escape atoms: every string literal of <=%d atoms over %d escape-sensitive atoms (%d literals), as a value and as an object name", maxLen, len(atoms), enum.Count(len(atoms), maxLen))
}

// padSweep: a small member list (duplicate name in three spellings, unique name, bad number, unpaired
// surrogate, ill-formed byte) placed behind a padding string of every length, after an earlier value or
// inside an array, so that every byte of it falls on every position relative to the decoder's read
// boundaries (64-byte initial buffer and its doublings) while something has already been consumed.
func padSweep(r *evid.Run) {
	tails := []string{`"k":2}`, `"k" :2}`, "\"k\"\n\t: 2}", `"\u006b":2}`, `"j":2}`, `"k":01}`, `"j":"\ud800"}`, "\"j\":\"\xff\"}", `"p":"y"}`, `"j":{"k":1,"k":2}}`}
	maxPad := 150
	if r.Tier == "thorough" {
		maxPad = 600
	}
	enum.Parallel(r, maxPad+1, func(w *enum.Worker) func(int) {
		c := newChecker()
		c.fresh = true
		w.Describe = func() any { return Case{Input: c.cur, InputText: string(c.cur)} }
		w.Done = func() { r.Outcomes(c.out); c.out = map[string]int64{} }
		return func(pad int) {
			p := strings.Repeat("x", pad)
			for _, t := range tails {
				obj := `{"k":1,"p":"` + p + `",` + t
				c.all(r, []byte(`0 `+obj))
				c.all(r, []byte(`[ `+obj+`]`))
				c.all(r, []byte(`{"o":[1],"q":`+obj+`}`))
				w.Beat()
			}
		}
	})
	r.Sample(map[string]any{"family": "pad-sweep", "input": `0 {"k":1,"p":"xxxxxxxxxxxxxxxxxxxxxxxxxxxxxxxxxxxxxxxxxxx","k" :2}`})
	r.Bound("pad sweep: %d member-list tails behind a padding string of every length 0..%d, as second stream value / array element / member value", len(tails), maxPad)
}

var _ = views.B

// abandoned: a Decoder (an explicitly reused one, and the pooled ones behind Value.IsValid / Unmarshal) whose previous
// input was abandoned at any point - every byte prefix of nested documents, i.e. with any number of objects still open -
// must accept a following valid text that repeats the same names at the same nesting levels.
func abandoned(r *evid.Run) {
	as := []string{`{"x":{"y":{"z":1,"w":2},"v":[{"z":3,"y":4}]},"u":{"x":5}}`, `[{"a":{"b":{"c":{"d":1}}}},{"a":2}]`, `{"k":1,"k":2}`, `{"p":{"q":{"r":"s\"`}
	bs := []string{`{"x":{"y":{"z":5,"w":6},"v":[{"y":7,"z":8}],"u":9},"u":{"x":0,"y":{"z":1}}}`, `[{"a":{"b":{"c":{"d":1},"d":2},"c":3},"b":4},{"a":{"a":{"a":{}}}}]`, `{"p":{"q":{"r":1,"q":2},"p":3},"q":{"p":{"q":4}}}`}
	var n int64
	sets := optSets()
	for _, a := range as {
		for i := 0; i <= len(a); i++ {
			prefix := []byte(a[:i])
			for si := range sets {
				s := &sets[si]
				for _, b := range bs {
					n++
					msg := func() (msg string) {
						defer func() {
							if p := recover(); p != nil {
								msg = fmt.Sprintf("library panic: %v", p)
							}
						}()
						// explicitly reused Decoder, abandoned token-wise and value-wise
						for mode := 0; mode < 2; mode++ {
							d := jsontext.NewDecoder(bytes.NewReader(prefix), s.opts...)
							for {
								var err error
								if mode == 0 {
									_, err = d.ReadToken()
								} else {
									_, err = d.ReadValue()
								}
								if err != nil {
									break
								}
							}
							d.Reset(bytes.NewReader([]byte(b)), s.opts...)
							for {
								if _, err := d.ReadToken(); err != nil {
									if err != io.EOF {
										return fmt.Sprintf("a Decoder reused (Reset) after abandoning %q rejects the valid text %s token-wise: %v", prefix, b, err)
									}
									break
								}
							}
							d.Reset(bytes.NewReader([]byte(b)), s.opts...)
							if _, err := d.ReadValue(); err != nil {
								return fmt.Sprintf("a Decoder reused (Reset) after abandoning %q rejects the valid text %s: %v", prefix, b, err)
							}
						}
						// pooled decoders
						jsontext.Value(prefix).IsValid(s.opts...)
						var v any
						jsonv2.Unmarshal(prefix, &v, s.jopts...)
						if !jsontext.Value(b).IsValid(s.opts...) {
							return fmt.Sprintf("after IsValid / Unmarshal of %q, Value.IsValid rejects the valid text %s", prefix, b)
						}
						var v2 any // a fresh target: Unmarshal merges into what the failed call left behind
						if err := jsonv2.Unmarshal([]byte(b), &v2, s.jopts...); err != nil {
							return fmt.Sprintf("after IsValid / Unmarshal of %q, Unmarshal rejects the valid text %s: %v", prefix, b, err)
						}
						return ""
					}()
					if msg != "" {
						r.Violation(fmt.Sprintf("c01|abandoned|%q|%s|%d", prefix, b, si), msg, Case{Input: []byte(b), InputText: b, AllowUTF8: s.utf8, AllowDup: s.dup}, nil)
					}
				}
			}
		}
	}
	r.Evaluations.Add(n * 6)
	r.Nontrivial.Add(n)
	r.Bound("abandoned inputs: every byte prefix of %d nested documents, abandoned token-wise / value-wise / through IsValid and Unmarshal, followed by %d valid texts repeating the same names at the same levels x 5 option sets: the following text is accepted", len(as), len(bs))
}
