// Package c01: the decoder/validator accepts exactly the JSON grammar.
package c01

import (
	"bytes"
	"encoding/json"
	"errors"
	"fmt"
	"io"
	"strings"

	stdjson "encoding/json"

	jsonv2 "github.com/go-json-experiment/json"
	"github.com/go-json-experiment/json/jsontext"

	"verif/internal/enum"
	"verif/internal/evid"
	"verif/internal/refjson"
	"verif/internal/views"
)

type Case struct {
	Input     []byte `json:"input"`
	InputText string `json:"input_text"`
	AllowUTF8 bool   `json:"allow_invalid_utf8"`
	AllowDup  bool   `json:"allow_duplicate_names"`
}

type optSet struct {
	utf8, dup bool
	opts      []jsontext.Options
	jopts     []jsonv2.Options
	ref       refjson.Opts
}

func optSets() []optSet {
	var out []optSet
	for _, u := range []bool{false, true} {
		for _, d := range []bool{false, true} {
			o := []jsontext.Options{jsontext.AllowInvalidUTF8(u), jsontext.AllowDuplicateNames(d)}
			out = append(out, optSet{u, d, o, []jsonv2.Options{o[0], o[1]}, refjson.Opts{AllowInvalidUTF8: u, AllowDupNames: d, NoToks: true}})
		}
	}
	// no options at all (the four sets above spell every option out, also with the value false)
	out = append(out, optSet{false, false, nil, nil, refjson.Opts{NoToks: true}})
	return out
}

// oneByte delivers its data one byte per Read call.
type oneByte struct {
	b []byte
	i int
}

func (o *oneByte) Read(p []byte) (int, error) {
	if o.i >= len(o.b) {
		return 0, io.EOF
	}
	if len(p) == 0 {
		return 0, nil
	}
	p[0] = o.b[o.i]
	o.i++
	return 1, nil
}

type checker struct {
	ob     oneByte
	sets   []optSet
	p      refjson.Parser
	dec    *jsontext.Decoder
	rd     bytes.Reader
	out    map[string]int64
	cur    []byte
	curSet int
	// fresh: use a newly made Decoder for every stream route (a reused Decoder keeps the buffer capacity it grew to on
	// earlier inputs, which moves the read boundaries away from the initial 64 bytes)
	fresh bool
}

func newChecker() *checker {
	return &checker{sets: optSets(), dec: jsontext.NewDecoder(bytes.NewReader(nil)), out: map[string]int64{}}
}

// one checks a single (input, option set) against every entry point. It returns "" if all agree with the model.
func (c *checker) one(b []byte, s *optSet) (msg string) {
	defer func() {
		if p := recover(); p != nil {
			msg = fmt.Sprintf("library panic: %v", p)
		}
	}()
	c.p.O = s.ref
	c.p.O.Stream = false
	single := c.p.Run(b)
	want := single.Complete
	why := single.Why
	c.p.O.Stream = true
	stream := c.p.Run(b)
	wantStream, wantValues := stream.Complete, stream.Values

	// permissive model == standard library's Valid (conformance of the model itself)
	if s.utf8 && s.dup {
		if stdjson.Valid(b) != want {
			panic(fmt.Sprintf("HARNESS: reference recognizer disagrees with encoding/json.Valid on %q: ref=%v", b, want))
		}
	}
	if want {
		c.out["valid"]++
	} else {
		if why == "" {
			why = "incomplete"
		}
		c.out["invalid-"+why]++
	}

	// 1. Value.IsValid
	if got := jsontext.Value(b).IsValid(s.opts...); got != want {
		return fmt.Sprintf("Value.IsValid=%v, reference=%v", got, want)
	}
	// 1b. Value.Kind: the class of the first byte after the leading whitespace ('-' and digits are numbers, anything that
	// cannot start a token is invalid); never a closing delimiter for a valid value
	if got, exp := byte(jsontext.Value(b).Kind()), kindOf(b); got != exp || (want && (got == '}' || got == ']' || got == 0)) {
		return fmt.Sprintf("Value.Kind=%q, first significant byte says %q (valid=%v)", got, exp, want)
	}
	// 2. ReadValue then ReadToken must give io.EOF
	c.rd.Reset(b)
	c.dec.Reset(&c.rd, s.opts...)
	_, err := c.dec.ReadValue()
	got := false
	if err == nil {
		_, err2 := c.dec.ReadToken()
		got = err2 == io.EOF
	} else if err == io.EOF && !(wantStream && wantValues == 0) {
		return "ReadValue returned io.EOF although the input is not empty/whitespace"
	}
	if got != want {
		return fmt.Sprintf("ReadValue+EOF accepted=%v (err=%v), reference=%v", got, err, want)
	}
	// 3. ReadToken loop over the stream
	c.rd.Reset(b)
	if c.fresh {
		c.dec = jsontext.NewDecoder(&c.rd, s.opts...)
	}
	c.dec.Reset(&c.rd, s.opts...)
	tops := 0
	for {
		_, err = c.dec.ReadToken()
		if err != nil {
			break
		}
		if c.dec.StackDepth() == 0 {
			tops++
		}
	}
	gotStream := err == io.EOF
	if gotStream != wantStream {
		return fmt.Sprintf("ReadToken loop: io.EOF=%v (err=%v), reference stream-valid=%v", gotStream, err, wantStream)
	}
	if gotStream && tops != wantValues {
		return fmt.Sprintf("ReadToken loop: %d top-level values, reference %d", tops, wantValues)
	}
	if (gotStream && tops == 1) != want {
		return fmt.Sprintf("ReadToken loop single-text acceptance %v, reference %v", gotStream && tops == 1, want)
	}
	// 4. ReadValue loop over the stream
	c.rd.Reset(b)
	if c.fresh {
		c.dec = jsontext.NewDecoder(&c.rd, s.opts...)
	}
	c.dec.Reset(&c.rd, s.opts...)
	tops = 0
	for {
		_, err = c.dec.ReadValue()
		if err != nil {
			break
		}
		tops++
	}
	if (err == io.EOF) != wantStream {
		return fmt.Sprintf("ReadValue loop: io.EOF=%v (err=%v), reference stream-valid=%v", err == io.EOF, err, wantStream)
	}
	if err == io.EOF && tops != wantValues {
		return fmt.Sprintf("ReadValue loop: %d top-level values, reference %d", tops, wantValues)
	}
	// 4b. the same two decoder routes fed one byte per Read (every token straddles a read boundary)
	c.ob = oneByte{b: b}
	c.dec.Reset(&c.ob, s.opts...)
	_, err = c.dec.ReadValue()
	got = false
	if err == nil {
		_, err2 := c.dec.ReadToken()
		got = err2 == io.EOF
	}
	if got != want {
		return fmt.Sprintf("one-byte reader: ReadValue+EOF accepted=%v (err=%v), reference=%v", got, err, want)
	}
	c.ob = oneByte{b: b}
	c.dec.Reset(&c.ob, s.opts...)
	tops = 0
	for {
		_, err = c.dec.ReadToken()
		if err != nil {
			break
		}
		if c.dec.StackDepth() == 0 {
			tops++
		}
	}
	if (err == io.EOF) != wantStream || (err == io.EOF && tops != wantValues) {
		return fmt.Sprintf("one-byte reader: ReadToken loop io.EOF=%v (err=%v) values=%d, reference stream-valid=%v values=%d", err == io.EOF, err, tops, wantStream, wantValues)
	}
	// 5. Unmarshal into any
	var v any
	err = jsonv2.Unmarshal(b, &v, s.jopts...)
	if err == nil != want {
		if want {
			// only a float64 range error is permitted on a valid text
			var se *jsonv2.SemanticError
			if errors.As(err, &se) && overflows(b) {
				return ""
			}
			// under AllowDuplicateNames a repeated member is merged into the value stored for its first occurrence,
			// which is documented to fail when the two values have different kinds ({"p":"x","p":3})
			if errors.As(err, &se) && s.dup {
				nd := s.ref
				nd.AllowDupNames = false
				if !refjson.Valid(b, nd) {
					return ""
				}
			}
		}
		return fmt.Sprintf("Unmarshal(any) err=%v, reference valid=%v", err, want)
	}
	return ""
}

// kindOf classifies a text by its first byte after leading JSON whitespace.
func kindOf(b []byte) byte {
	for _, c := range b {
		switch c {
		case ' ', '\t', '\n', '\r':
			continue
		case 'n', 't', 'f', '"', '{', '}', '[', ']':
			return c
		case '-', '0', '1', '2', '3', '4', '5', '6', '7', '8', '9':
			return '0'
		}
		return 0
	}
	return 0
}

// overflows reports whether some number token of b overflows float64 (permissive parse).
func overflows(b []byte) bool {
	res := refjson.Parse(b, refjson.Opts{AllowInvalidUTF8: true, AllowDupNames: true})
	for _, t := range res.Toks {
		if t.Kind == '0' {
			if _, ok := refjson.GoImage(&refjson.Value{Kind: '0', Num: string(b[t.Start:t.End])}); !ok {
				return true
			}
		}
	}
	return false
}

func (c *checker) all(r *evid.Run, b []byte) {
	c.cur = b
	nontrivial := false
	for i := range c.sets {
		s := &c.sets[i]
		c.curSet = i
		r.Evaluations.Add(1)
		if msg := c.one(b, s); msg != "" {
			report(r, b, s.utf8, s.dup, msg)
		}
	}
	// non-trivial: a viable prefix of at least 2 bytes or a valid text (the interesting neighbourhood of the grammar)
	c.p.O = refjson.Opts{AllowInvalidUTF8: true, AllowDupNames: true, NoToks: true}
	if res := c.p.Run(b); len(b) >= 2 && !res.Dead {
		nontrivial = true
	}
	if nontrivial {
		r.Nontrivial.Add(1)
	}
}

func report(r *evid.Run, b []byte, u, d bool, msg string) {
	cs := Case{Input: append([]byte(nil), b...), InputText: string(b), AllowUTF8: u, AllowDup: d}
	key := fmt.Sprintf("c01|%q|utf8=%v|dup=%v", b, u, d)
	r.Violation(key, msg, cs, func() bool { return replayCase(cs) != "" })
}

func replayCase(cs Case) string {
	// a case found on a reused Decoder is replayed that way first, then on freshly made Decoders
	for _, fresh := range []bool{false, true} {
		c := newChecker()
		c.fresh = fresh
		for i := range c.sets {
			if c.sets[i].utf8 == cs.AllowUTF8 && c.sets[i].dup == cs.AllowDup {
				if m := c.one(cs.Input, &c.sets[i]); m != "" {
					return m
				}
			}
		}
	}
	return ""
}

// Replay re-executes a single recorded case.
func Replay(r *evid.Run, raw json.RawMessage) {
	var cs Case
	if err := json.Unmarshal(raw, &cs); err != nil {
		fmt.Println("bad replay:", err)
		return
	}
	r.Evaluations.Add(1)
	r.Nontrivial.Add(2)
	r.Sample(cs)
	if msg := replayCase(cs); msg != "" {
		fmt.Println("replay fails:", msg)
		report(r, cs.Input, cs.AllowUTF8, cs.AllowDup, msg)
	} else {
		fmt.Println("replay passes")
	}
}

func Run(r *evid.Run) {
	r.Rule("every string of each alphabet view up to its length bound (all distinct by construction) x 4 Allow* option sets x 7 entry points (IsValid, ReadValue+EOF, ReadToken loop, ReadValue loop, the first two again through a one-byte-per-Read reader, Unmarshal into any) compared with the reference recognizer; plus texts nested exactly d deep for d around the limit of 10000 in ~100 shapes; plus name grids around the 64-name / 1KiB namespace switch with a duplicate at every ordered pair, and the same wide object repeated as sibling element / next stream value / sibling member (stale namespace state). evaluations counts (string, option set); distinct_nontrivial counts distinct strings of >=2 bytes that are viable prefixes of JSON (the grammar's neighbourhood)")
	r.Assume("reference recognizer internal/refjson (cross-checked against encoding/json.Valid on every enumerated string)", "Go runtime")
	lens := views.ForTier(r.Tier)
	vs := views.Views(lens)
	views.ForAll(r, vs, func(w *enum.Worker, v views.View) func([]byte) {
		c := newChecker()
		w.Describe = func() any {
			s := c.sets[c.curSet]
			return Case{Input: append([]byte(nil), c.cur...), InputText: string(c.cur), AllowUTF8: s.utf8, AllowDup: s.dup}
		}
		n := 0
		w.Done = func() { r.Outcomes(c.out); c.out = map[string]int64{} }
		return func(s []byte) {
			c.all(r, s)
			n++
			if n == 777 {
				r.Sample(map[string]any{"view": v.Name, "input": string(s)})
			}
		}
	})
	byteSweep(r)
	escapeAtoms(r)
	padSweep(r)
	abandoned(r)
	nameGrids(r)
	neighbours(r, lens)
	deep(r)
}

// nameGrids: objects with N names around the linear-search -> map switch, a duplicate injected at every ordered pair.
func nameGrids(r *evid.Run) {
	type fam struct {
		name string
		ns   []int
		mk   func(i int) string
	}
	long := strings.Repeat("x", 14)
	fams := []fam{
		{"short-names", rng(60, 70), func(i int) string { return fmt.Sprintf("n%d", i) }},
		{"1KiB-names", rng(60, 70), func(i int) string { return fmt.Sprintf("%s%02d", long, i) }}, // 16 bytes per name: 1024 bytes after 64 names
		{"long-few", rng(9, 15), func(i int) string { return fmt.Sprintf("%s%02d", strings.Repeat("y", 100), i) }},
	}
	if r.Tier == "quick" {
		fams[0].ns = []int{63, 64, 65, 66, 67}
		fams[1].ns = []int{63, 64, 65, 66}
		fams[2].ns = []int{11, 12, 13}
	}
	type unit struct {
		f fam
		n int
	}
	var units []unit
	for _, f := range fams {
		for _, n := range f.ns {
			units = append(units, unit{f, n})
		}
	}
	enum.Parallel(r, len(units), func(w *enum.Worker) func(int) {
		c := newChecker()
		w.Describe = func() any { return Case{Input: c.cur, InputText: string(c.cur)} }
		return func(u int) {
			f, n := units[u].f, units[u].n
			names := make([]string, n)
			for i := range names {
				names[i] = f.mk(i)
			}
			build := func(i, j int, spelling int) []byte {
				var bb bytes.Buffer
				bb.WriteByte('{')
				for k := 0; k < n; k++ {
					if k > 0 {
						bb.WriteByte(',')
					}
					nm := names[k]
					if k == j && i >= 0 {
						nm = names[i]
					}
					if k == j && spelling == 1 {
						// \u-escape the first character
						fmt.Fprintf(&bb, `"\u%04x%s":0`, nm[0], nm[1:])
					} else {
						fmt.Fprintf(&bb, `"%s":0`, nm)
					}
				}
				bb.WriteByte('}')
				return bb.Bytes()
			}
			o := build(-1, -1, 0)
			c.all(r, o)
			// siblings: the same names must be usable again in a sibling / following object (stale namespace state)
			cat := func(parts ...[]byte) []byte { return bytes.Join(parts, nil) }
			c.all(r, cat([]byte("["), o, []byte(","), o, []byte("]")))
			c.all(r, cat(o, []byte("\n"), o))
			c.all(r, cat([]byte(`{"p":`), o, []byte(`,"q":`), o, []byte("}")))
			c.all(r, cat([]byte(`{"p":`), o, []byte(`,"p":`), o, []byte("}")))
			for i := 0; i < n; i++ {
				one := []byte(fmt.Sprintf(`{"%s":1,"z":2}`, names[i]))
				c.all(r, cat([]byte("["), o, []byte(","), one, []byte("]")))
				c.all(r, cat([]byte("["), o, []byte(","), one[:len(one)-1], []byte(fmt.Sprintf(`,"%s":3}]`, names[i]))))
				w.Beat()
			}
			for j := 1; j < n; j++ {
				for i := 0; i < j; i++ {
					for sp := 0; sp < 2; sp++ {
						c.all(r, build(i, j, sp))
						w.Beat()
					}
				}
			}
			r.Outcomes(c.out)
			c.out = map[string]int64{}
		}
	})
	r.Bound("name grids: families short/1KiB/long, N in %v / %v / %v, duplicate at every ordered pair (i<j), raw and \\u-escaped second spelling", fams[0].ns, fams[1].ns, fams[2].ns)
}

func rng(a, b int) []int {
	var out []int
	for i := a; i <= b; i++ {
		out = append(out, i)
	}
	return out
}

// neighbours: the radius-1 edit ball (substitute / insert / delete one byte from a critical alphabet)
// around every valid text found in the B-atom view of small length.
func neighbours(r *evid.Run, lens views.Lens) {
	crit := []byte("[]{}\":,01-+.eE \\untfalsr\x00\x1f\x7f\x80\xff\xc3\xed\xa0/9")
	maxLen := 3
	if r.Tier == "thorough" {
		maxLen = 4
	}
	enum.Strings(r, views.B, maxLen, func(w *enum.Worker) func([]byte) {
		c := newChecker()
		w.Describe = func() any { return Case{Input: c.cur, InputText: string(c.cur)} }
		var p refjson.Parser
		buf := make([]byte, 0, 64)
		return func(s []byte) {
			p.O = refjson.Opts{AllowInvalidUTF8: true, AllowDupNames: true, NoToks: true}
			if !p.Run(s).Complete {
				return
			}
			for i := 0; i <= len(s); i++ {
				if i < len(s) { // delete
					buf = append(append(buf[:0], s[:i]...), s[i+1:]...)
					c.all(r, buf)
				}
				for _, x := range crit {
					buf = append(append(append(buf[:0], s[:i]...), x), s[i:]...) // insert
					c.all(r, buf)
					if i < len(s) && s[i] != x { // substitute
						buf = append(append(append(buf[:0], s[:i]...), x), s[i+1:]...)
						c.all(r, buf)
					}
				}
			}
			r.Outcomes(c.out)
			c.out = map[string]int64{}
		}
	})
	r.Bound("N1: every one-byte insert/substitute (from %d critical bytes)/delete neighbour of every valid text of <=%d B-atoms", len(crit), maxLen)
}
