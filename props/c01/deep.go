package c01

import (
	"fmt"
	"strings"

	"verif/internal/enum"
	"verif/internal/evid"
)

// deep: texts whose maximal nesting is exactly d, for every d around the limit of 10000, in many shapes
// (which containers, what the innermost value is, how it is spelled, where the deep part sits), through
// every entry point and option set, against the reference recognizer (which enforces the limit itself).

type deepShape struct {
	name  string
	build func(d int) string // maximal nesting exactly d
}

func tower(open, close string, d int, inner string) string {
	if d < 0 {
		d = 0
	}
	return strings.Repeat(open, d) + inner + strings.Repeat(close, d)
}

func alternating(d int, inner string) string {
	var sb strings.Builder
	var closers []byte
	for i := 0; i < d; i++ {
		if i%2 == 0 {
			sb.WriteString("[")
			closers = append(closers, ']')
		} else {
			sb.WriteString(`{"k":`)
			closers = append(closers, '}')
		}
	}
	sb.WriteString(inner)
	for i := len(closers) - 1; i >= 0; i-- {
		sb.WriteByte(closers[i])
	}
	return sb.String()
}

func deepShapes() []deepShape {
	var out []deepShape
	// innermost values that add one level (spelled in several ways) or none
	inner1 := []string{"[]", "{}", "[ ]", "{ }", "[\n]", "{\t}", `{"a":0}`, "[0]", `[""]`, `{"":null}`, "[0,0]"}
	inner0 := []string{"0", `""`, "null", "true", "-0.5e1", `"é"`}
	for _, in := range inner1 {
		in := in
		out = append(out,
			deepShape{fmt.Sprintf("arrays around %s", in), func(d int) string { return tower("[", "]", d-1, in) }},
			deepShape{fmt.Sprintf("objects around %s", in), func(d int) string { return tower(`{"a":`, "}", d-1, in) }},
			deepShape{fmt.Sprintf("alternating around %s", in), func(d int) string { return alternating(d-1, in) }},
			deepShape{fmt.Sprintf("arrays around [1,%s,2]", in), func(d int) string { return tower("[", "]", d-2, "[1,"+in+",2]") }},
			deepShape{fmt.Sprintf("objects around {\"x\":1,\"y\":%s}", in), func(d int) string { return tower(`{"a":`, "}", d-2, `{"x":1,"y":`+in+`}`) }},
		)
	}
	for _, in := range inner0 {
		in := in
		out = append(out,
			deepShape{fmt.Sprintf("arrays around %s", in), func(d int) string { return tower("[", "]", d, in) }},
			deepShape{fmt.Sprintf("objects around %s", in), func(d int) string { return tower(`{"a":`, "}", d, in) }},
			deepShape{fmt.Sprintf("alternating around %s", in), func(d int) string { return alternating(d, in) }},
		)
	}
	out = append(out,
		deepShape{"arrays with whitespace", func(d int) string { return tower("[ ", " ]", d, " 1 ") }},
		deepShape{"deep second element", func(d int) string { return "[1," + tower("[", "]", d-1, "2") + "]" }},
		deepShape{"deep second member", func(d int) string { return `{"p":1,"q":` + tower(`{"a":`, "}", d-1, "{}") + `}` }},
		deepShape{"shallow value, then deep value (stream)", func(d int) string { return "[[]] " + tower("[", "]", d-1, "{}") }},
		deepShape{"deep value, then shallow value (stream)", func(d int) string { return tower("[", "]", d-1, "[]") + "\n{}" }},
		deepShape{"duplicate name at the bottom", func(d int) string { return tower("[", "]", d-1, `{"a":1,"a":2}`) }},
		deepShape{"ill-formed UTF-8 at the bottom", func(d int) string { return tower(`{"a":`, "}", d-1, "[\"\xff\"]") }},
		deepShape{"unclosed by one", func(d int) string { s := tower("[", "]", d-1, "{}"); return s[:len(s)-1] }},
	)
	return out
}

func deepDepths(tier string) []int {
	if tier == "thorough" {
		return []int{1, 2, 9990, 9997, 9998, 9999, 10000, 10001, 10002, 10003, 10010, 12000}
	}
	return []int{9999, 10000, 10001, 10002}
}

func deep(r *evid.Run) {
	shs := deepShapes()
	ds := deepDepths(r.Tier)
	type unit struct{ sh, d int }
	var units []unit
	for s := range shs {
		for _, d := range ds {
			units = append(units, unit{s, d})
		}
	}
	enum.Parallel(r, len(units), func(w *enum.Worker) func(int) {
		c := newChecker()
		w.Describe = func() any {
			s := c.sets[c.curSet]
			return Case{Input: append([]byte(nil), c.cur...), InputText: string(c.cur), AllowUTF8: s.utf8, AllowDup: s.dup}
		}
		w.Done = func() { r.Outcomes(c.out); c.out = map[string]int64{} }
		return func(u int) {
			b := []byte(shs[units[u].sh].build(units[u].d))
			c.all(r, b)
			w.Beat()
		}
	})
	r.Bound("depth: %d text shapes (towers of arrays / objects / alternating containers around 11 one-level and 6 scalar innermost values incl. spellings with inner whitespace, the deep part as first / middle / last element or member, two-value streams, duplicate names and ill-formed UTF-8 at the bottom, unclosed texts) x nesting depths %v x 4 option sets x 7 entry points", len(shs), ds)
}

// DeepTexts returns the depth-family documents of a tier (shared with C12, whose formatting functions must
// accept exactly the texts that are valid, nesting limit included).
func DeepTexts(tier string) (names []string, texts [][]byte) {
	for _, sh := range deepShapes() {
		for _, d := range deepDepths(tier) {
			names = append(names, fmt.Sprintf("%s, nesting %d", sh.name, d))
			texts = append(texts, []byte(sh.build(d)))
		}
	}
	return
}
