// Package c04: Marshal then Unmarshal restores the value (round trip).
package c04

import (
	"io"
	"bytes"
	"encoding/json"
	"fmt"
	"math"
	"reflect"
	"strings"
	"sync/atomic"
	"time"

	jsonv2 "github.com/go-json-experiment/json"
	"github.com/go-json-experiment/json/jsontext"
	jsonv1 "github.com/go-json-experiment/json/v1"

	"verif/internal/enum"
	"verif/internal/evid"
	"verif/internal/refjson"
	"verif/internal/typeuniv"
)

type optSet struct {
	name string
	opts []jsonv2.Options
}

func optSets() []optSet {
	det := jsonv2.Deterministic(true)
	sets := []optSet{
		{"default", []jsonv2.Options{det}},
		{"StringifyNumbers", []jsonv2.Options{det, jsonv2.StringifyNumbers(true)}},
		{"FormatNilSliceAsNull+FormatNilMapAsNull", []jsonv2.Options{det, jsonv2.FormatNilSliceAsNull(true), jsonv2.FormatNilMapAsNull(true)}},
		{"OmitZeroStructFields", []jsonv2.Options{det, jsonv2.OmitZeroStructFields(true)}},
		{"Multiline+EscapeForHTML", []jsonv2.Options{det, jsontext.Multiline(true), jsontext.EscapeForHTML(true), jsontext.EscapeForJS(true)}},
		{"DefaultOptionsV1", []jsonv2.Options{jsonv1.DefaultOptionsV1()}},
	}
	v1 := map[string]func(bool) jsonv2.Options{
		"CallMethodsWithLegacySemantics": jsonv1.CallMethodsWithLegacySemantics, "FormatByteArrayAsArray": jsonv1.FormatByteArrayAsArray,
		"FormatBytesWithLegacySemantics": jsonv1.FormatBytesWithLegacySemantics, "FormatDurationAsNano": jsonv1.FormatDurationAsNano,
		"MatchCaseSensitiveDelimiter": jsonv1.MatchCaseSensitiveDelimiter, "MergeWithLegacySemantics": jsonv1.MergeWithLegacySemantics,
		"OmitEmptyWithLegacySemantics": jsonv1.OmitEmptyWithLegacySemantics, "ParseBytesWithLooseRFC4648": jsonv1.ParseBytesWithLooseRFC4648,
		"ParseTimeWithLooseRFC3339": jsonv1.ParseTimeWithLooseRFC3339, "ReportErrorsWithLegacySemantics": jsonv1.ReportErrorsWithLegacySemantics,
		"StringifyWithLegacySemantics": jsonv1.StringifyWithLegacySemantics, "UnmarshalArrayFromAnyLength": jsonv1.UnmarshalArrayFromAnyLength,
	}
	for _, n := range []string{"CallMethodsWithLegacySemantics", "FormatByteArrayAsArray", "FormatBytesWithLegacySemantics", "FormatDurationAsNano", "MatchCaseSensitiveDelimiter", "MergeWithLegacySemantics", "OmitEmptyWithLegacySemantics", "ParseBytesWithLooseRFC4648", "ParseTimeWithLooseRFC3339", "ReportErrorsWithLegacySemantics", "StringifyWithLegacySemantics", "UnmarshalArrayFromAnyLength"} {
		sets = append(sets, optSet{n, []jsonv2.Options{det, v1[n](true)}})
	}
	return sets
}

type Case struct {
	Family string `json:"family"`
	Type   string `json:"type"`
	Index  int    `json:"type_index"`
	Value  int    `json:"value_index"`
	OptSet string `json:"optset"`
	Depth  int    `json:"depth"`
	Detail string `json:"detail,omitempty"`
}

// hasOmit reports whether t (recursively) has omitzero/omitempty fields.
func hasOmit(t reflect.Type, seen map[reflect.Type]bool) bool {
	if seen[t] {
		return false
	}
	seen[t] = true
	switch t.Kind() {
	case reflect.Struct:
		for i := 0; i < t.NumField(); i++ {
			tag := t.Field(i).Tag.Get("json")
			if strings.Contains(tag, "omitzero") || strings.Contains(tag, "omitempty") || hasOmit(t.Field(i).Type, seen) {
				return true
			}
		}
	case reflect.Slice, reflect.Array, reflect.Pointer:
		return hasOmit(t.Elem(), seen)
	case reflect.Map:
		return hasOmit(t.Key(), seen) || hasOmit(t.Elem(), seen)
	}
	return false
}

// equalModNil: deep equality with nil and empty containers identified and float bits compared exactly.
func equalModNil(a, b reflect.Value) bool {
	if a.Type() != b.Type() {
		return false
	}
	switch a.Kind() {
	case reflect.Float32, reflect.Float64:
		return math.Float64bits(a.Float()) == math.Float64bits(b.Float())
	case reflect.Slice:
		if a.Len() != b.Len() {
			return false
		}
		for i := 0; i < a.Len(); i++ {
			if !equalModNil(a.Index(i), b.Index(i)) {
				return false
			}
		}
		return true
	case reflect.Array:
		for i := 0; i < a.Len(); i++ {
			if !equalModNil(a.Index(i), b.Index(i)) {
				return false
			}
		}
		return true
	case reflect.Map:
		if a.Len() != b.Len() {
			return false
		}
		for _, k := range a.MapKeys() {
			bv := b.MapIndex(k)
			if !bv.IsValid() || !equalModNil(a.MapIndex(k), bv) {
				return false
			}
		}
		return true
	case reflect.Pointer:
		if a.IsNil() || b.IsNil() {
			// a pointer to a value that itself encodes as null is indistinguishable from a nil pointer
			return (a.IsNil() || nullLike(a.Elem())) && (b.IsNil() || nullLike(b.Elem()))
		}
		return equalModNil(a.Elem(), b.Elem())
	case reflect.Interface:
		if a.IsNil() || b.IsNil() {
			return a.IsNil() == b.IsNil()
		}
		return equalModNil(a.Elem(), b.Elem())
	case reflect.Struct:
		if t, ok := a.Interface().(time.Time); ok {
			u := b.Interface().(time.Time)
			_, o1 := t.Zone()
			_, o2 := u.Zone()
			return t.Equal(u) && (o1 == o2 || zoneNotCarried.Load())
		}
		for i := 0; i < a.NumField(); i++ {
			if !equalModNil(a.Field(i), b.Field(i)) {
				return false
			}
		}
		return true
	}
	return reflect.DeepEqual(a.Interface(), b.Interface())
}

// zoneNotCarried is set while checking representations that do not carry the zone offset (unix timestamps).
var zoneNotCarried atomic.Bool

// nullLike: values that may be encoded as JSON null (nil container, pointer, interface).
func nullLike(v reflect.Value) bool {
	switch v.Kind() {
	case reflect.Slice, reflect.Map, reflect.Pointer, reflect.Interface:
		return v.IsNil() || (v.Kind() == reflect.Pointer && nullLike(v.Elem()))
	}
	return false
}

// hasInterface reports whether t contains an interface type (an untyped target cannot tell a quoted number from a string).
func hasInterface(t reflect.Type) bool {
	switch t.Kind() {
	case reflect.Interface:
		return true
	case reflect.Slice, reflect.Array, reflect.Pointer:
		return hasInterface(t.Elem())
	case reflect.Map:
		return hasInterface(t.Elem())
	case reflect.Struct:
		for i := 0; i < t.NumField(); i++ {
			if hasInterface(t.Field(i).Type) {
				return true
			}
		}
	}
	return false
}

// roundTrip checks one value under one option set. compareValue: whether Go equality is meaningful.
func roundTrip(v reflect.Value, opts []jsonv2.Options, omit bool, bytesOnly ...bool) (msg string) {
	bytesOnly_ := len(bytesOnly) > 0 && bytesOnly[0]
	defer func() {
		if p := recover(); p != nil {
			msg = fmt.Sprintf("library panic: %v", p)
		}
	}()
	t := v.Type()
	b, err := jsonv2.Marshal(v.Interface(), opts...)
	if err != nil {
		return fmt.Sprintf("Marshal failed: %v", err)
	}
	if !refjson.Valid(b, refjson.Opts{}) {
		return fmt.Sprintf("Marshal output %q is not valid I-JSON", trunc(b))
	}
	p := reflect.New(t)
	if err := jsonv2.Unmarshal(b, p.Interface(), opts...); err != nil {
		return fmt.Sprintf("Unmarshal rejects Marshal's own output %q: %v", trunc(b), err)
	}
	// the same trip through the streaming entry points: MarshalWrite to a plain writer, UnmarshalRead from a plain reader
	var sw streamW
	if err := jsonv2.MarshalWrite(&sw, v.Interface(), opts...); err != nil {
		return fmt.Sprintf("MarshalWrite failed where Marshal succeeded: %v", err)
	}
	ps := reflect.New(t)
	if err := jsonv2.UnmarshalRead(&streamR{b: sw.b}, ps.Interface(), opts...); err != nil {
		return fmt.Sprintf("UnmarshalRead rejects MarshalWrite's own output %q: %v", trunc(sw.b), err)
	}
	if bs, err := jsonv2.Marshal(ps.Elem().Interface(), opts...); err != nil || (!omit && !bytes.Equal(bs, b)) {
		return fmt.Sprintf("MarshalWrite + UnmarshalRead: re-marshaling the decoded value gives %q (%v), first encoding %q", trunc(bs), err, trunc(b))
	}
	b2, err := jsonv2.Marshal(p.Elem().Interface(), opts...)
	if err != nil {
		return fmt.Sprintf("re-Marshal of the decoded value failed: %v", err)
	}
	if !omit {
		if !bytes.Equal(b, b2) {
			return fmt.Sprintf("re-marshaling the decoded value gives %q, first encoding %q", trunc(b2), trunc(b))
		}
		if bytesOnly_ {
			return ""
		}
		if !equalModNil(v, p.Elem()) {
			return fmt.Sprintf("decoded value %#v differs from original %#v (encoding %q)", p.Elem().Interface(), v.Interface(), trunc(b))
		}
		return ""
	}
	// omit options: a fixed point must be reached after one round
	p2 := reflect.New(t)
	if err := jsonv2.Unmarshal(b2, p2.Interface(), opts...); err != nil {
		return fmt.Sprintf("second round: Unmarshal rejects %q: %v", trunc(b2), err)
	}
	b3, err := jsonv2.Marshal(p2.Elem().Interface(), opts...)
	if err != nil || !bytes.Equal(b2, b3) {
		return fmt.Sprintf("no fixed point after one round: %q -> %q -> %q (%v)", trunc(b), trunc(b2), trunc(b3), err)
	}
	return ""
}

// streamW / streamR are a plain io.Writer and io.Reader (not *bytes.Buffer), the reader delivering 7 bytes per call.
type streamW struct{ b []byte }

func (w *streamW) Write(p []byte) (int, error) { w.b = append(w.b, p...); return len(p), nil }

type streamR struct {
	b []byte
	i int
}

func (r *streamR) Read(p []byte) (int, error) {
	if r.i >= len(r.b) {
		return 0, io.EOF
	}
	n := copy(p[:min(len(p), 7)], r.b[r.i:])
	r.i += n
	return n, nil
}

func trunc(b []byte) string {
	if len(b) > 200 {
		return string(b[:200]) + "..."
	}
	return string(b)
}

// universe: depth 2 in both tiers; the quick tier carries 8 element types to the second level, the thorough tier 24.
func universe(depth int) []reflect.Type {
	c := typeuniv.Cfg{Depth: 2, NoInvalid: true, MaxPerLevel: 16}
	if depth >= 2 {
		c.MaxPerLevel = 24
	}
	ts := typeuniv.Universe(c)
	// hand-picked deeper composites (containers of containers of pointer-like elements) present in every tier
	type inner struct {
		P *int
		S []string
		M map[string]*float64 `json:",omitempty"`
	}
	extra := []any{
		map[string][2]*int{}, map[string][2][]int{}, map[int][2]map[string]int{}, []map[string][2]*string{}, map[string][2]inner{}, [][2][]*int8{},
		map[string][]map[string][]int{}, map[string]*[2]*inner{}, [2]map[string][2]any{}, map[string]map[string][2]*bool{}, []*[]*[]int{}, map[uint8][2][]byte{},
		struct{ A [2]map[string]*inner }{}, map[string][]inner{}, [][]inner{},
	}
	seen := map[reflect.Type]bool{}
	for _, t := range ts {
		seen[t] = true
	}
	for _, e := range extra {
		if t := reflect.TypeOf(e); !seen[t] {
			ts = append(ts, t)
		}
	}
	return ts
}

func replayCase(cs Case) string {
	switch cs.Family {
	case "universe":
		ts := universe(cs.Depth)
		if cs.Index >= len(ts) {
			return ""
		}
		t := ts[cs.Index]
		d := typeuniv.Domain(t, true)
		for _, os := range optSets() {
			if os.name == cs.OptSet && cs.Value < len(d) {
				return roundTrip(d[cs.Value], os.opts, hasOmit(t, map[reflect.Type]bool{}) || os.name == "OmitZeroStructFields", os.name == "StringifyNumbers" && hasInterface(t))
			}
		}
	case "format":
		for _, fc := range formatCases(true) {
			if fc.name == cs.Type && cs.Value < len(fc.values) {
				zoneNotCarried.Store(strings.Contains(fc.name, "format:unix"))
				defer zoneNotCarried.Store(false)
				return roundTrip(fc.values[cs.Value], fc.opts, strings.Contains(fc.name, "OmitZero"))
			}
		}
	case "wide":
		return wideOne(cs.Index)
	case "string-tag":
		return stringTagOne(cs.Index, cs.Value, cs.OptSet)
	case "tag-leak":
		return leakOne(cs.Index, cs.OptSet, cs.Depth == 1, cs.Value)
	}
	return ""
}

func Replay(r *evid.Run, raw json.RawMessage) {
	var cs Case
	if json.Unmarshal(raw, &cs) != nil {
		return
	}
	r.Evaluations.Add(1)
	r.Nontrivial.Add(2)
	r.Sample(cs)
	if msg := replayCase(cs); msg != "" {
		fmt.Println("replay fails:", msg)
		r.Violation("replay", msg, cs, nil)
	} else {
		fmt.Println("replay passes")
	}
}

func Run(r *evid.Run) {
	r.Rule("reflect-built type universe (leaves: bool, ints, floats, strings, []byte, [2]byte, named kinds, any; composites: slice, array, map with 6 key kinds, pointer, structs with an 8-entry tag menu; nesting depth d) x each type's exhaustive small value domain (boundary numbers, strings needing escapes, nil/empty/non-empty containers, one-field-at-a-time structs) x 18 symmetric option sets; alternative representations: every format tag on its type over boundary-dense domains (durations: 0, +-1, +-10^k(+-1), +-2^k(+-1), 60^k multiples with fractions, Min/Max; times: second grid x nanosecond grid x zones); structs with 65 and 130 fields and names needing escapes. Oracle: Unmarshal accepts Marshal(v); re-marshal reproduces the bytes (fixed point after one round with omit options); decoded value equals v modulo nil/empty with exact float bits and time.Equal + offset. evaluations = (value, option set) round trips; distinct_nontrivial = distinct round trips of non-zero values")
	r.Assume("Go reflection and the time package as arithmetic oracles")
	depth := 1
	if r.Tier == "thorough" {
		depth = 2
	}
	ts := universe(depth)
	sets := optSets()
	enum.Parallel(r, len(ts), func(w *enum.Worker) func(int) {
		var cur Case
		w.Describe = func() any { return cur }
		var n, nt int64
		w.Done = func() { r.Evaluations.Add(n); r.Nontrivial.Add(nt) }
		return func(u int) {
			t := ts[u]
			omit := hasOmit(t, map[reflect.Type]bool{})
			dom := typeuniv.Domain(t, true)
			for vi, v := range dom {
				for si := range sets {
					os := &sets[si]
					if si >= 6 && u%3 != si%3 && r.Tier != "thorough" {
						continue // quick: individual v1 options on a third of the types each
					}
					cur = Case{Family: "universe", Type: typeuniv.Describe(t), Index: u, Value: vi, OptSet: os.name, Depth: depth}
					n++
					if !v.IsZero() {
						nt++
					}
					if m := roundTrip(v, os.opts, omit || os.name == "OmitZeroStructFields", os.name == "StringifyNumbers" && hasInterface(t)); m != "" {
						cs := cur
						cs.Detail = fmt.Sprintf("%#v", v.Interface())
						r.Violation(fmt.Sprintf("c04|universe|d%d|%s|v%d|%s", depth, cs.Type, vi, os.name), m, cs, func() bool { return replayCase(cs) != "" })
					}
				}
				w.Beat()
			}
		}
	})
	r.Sample(Case{Family: "universe", Type: typeuniv.Describe(ts[len(ts)/2]), Index: len(ts) / 2, Value: 1, OptSet: "default", Depth: depth})
	r.Bound("type universe: %d types (nesting depth 2; %d element types carried to the second level) x their value domains x %d option sets", len(ts), map[int]int{1: 16, 2: 24}[depth], len(sets))
	formats(r)
	tagLeaks(r)
	memberNames(r)
	stringTags(r)
	wide(r)
	float32RoundTrip(r)
}

// float32RoundTrip: every float32 bit pattern (thorough) / an exponent x mantissa grid (quick) survives Marshal+Unmarshal bit-identically.
func float32RoundTrip(r *evid.Run) {
	one := func(bits uint32) string {
		f := math.Float32frombits(bits)
		if f != f || math.IsInf(float64(f), 0) {
			return ""
		}
		b, err := jsonv2.Marshal(f)
		if err != nil {
			return fmt.Sprintf("Marshal(float32 %#x): %v", bits, err)
		}
		var g float32
		if err := jsonv2.Unmarshal(b, &g); err != nil || math.Float32bits(g) != bits {
			return fmt.Sprintf("float32 %#x -> %q -> %#x (%v)", bits, b, math.Float32bits(g), err)
		}
		return ""
	}
	if r.Tier != "thorough" {
		var n int64
		for exp := uint32(0); exp < 255; exp++ {
			for _, m := range []uint32{0, 1, 2, 0x7fffff, 0x400000, 0x3fffff, 0x555555, 0x2aaaaa, 0x7ffffe, 0x000100} {
				for _, sgn := range []uint32{0, 1 << 31} {
					n++
					if msg := one(sgn | exp<<23 | m); msg != "" {
						r.Violation(fmt.Sprintf("c04|float32|%#x", sgn|exp<<23|m), msg, Case{Family: "float32", Index: int(sgn | exp<<23 | m)}, nil)
					}
				}
			}
		}
		r.Evaluations.Add(n)
		r.Nontrivial.Add(n)
		r.Bound("float32 round trip: 255 exponents x 10 mantissa patterns x 2 signs")
		return
	}
	const chunk = 1 << 20
	enum.Parallel(r, (1<<32)/chunk, func(w *enum.Worker) func(int) {
		var cur uint32
		w.Describe = func() any { return Case{Family: "float32", Index: int(cur)} }
		return func(u int) {
			for i := 0; i < chunk; i++ {
				cur = uint32(u*chunk + i)
				if msg := one(cur); msg != "" {
					r.Violation(fmt.Sprintf("c04|float32|%#x", cur), msg, Case{Family: "float32", Index: int(cur)}, nil)
				}
			}
			r.Evaluations.Add(chunk)
			r.Nontrivial.Add(chunk)
			w.Beat()
		}
	})
	r.Bound("float32 round trip: ALL 2^32 bit patterns")
}

type formatCase struct {
	name   string
	values []reflect.Value
	opts   []jsonv2.Options
}

func durations() []time.Duration {
	seen := map[time.Duration]bool{}
	var out []time.Duration
	add := func(d time.Duration) {
		for _, x := range []time.Duration{d, -d} {
			if !seen[x] {
				seen[x] = true
				out = append(out, x)
			}
		}
	}
	add(0)
	p := int64(1)
	for k := 0; k <= 18; k++ {
		add(time.Duration(p))
		add(time.Duration(p - 1))
		add(time.Duration(p + 1))
		p *= 10
	}
	for k := 0; k < 63; k++ {
		add(time.Duration(int64(1) << uint(k)))
		add(time.Duration(int64(1)<<uint(k) - 1))
		add(time.Duration(int64(1)<<uint(k) + 1))
	}
	for _, base := range []time.Duration{time.Minute, time.Hour, 24 * time.Hour, 61 * time.Minute, 3600*time.Second + 1} {
		for _, frac := range []time.Duration{0, 1, 999, 500 * time.Millisecond, 999999999, time.Second + 1, 59*time.Second + 999999999} {
			add(base + frac)
			add(60*base + frac)
		}
	}
	out = append(out, math.MinInt64, math.MaxInt64, math.MinInt64+1, math.MaxInt64-1)
	return out
}

func times() []time.Time {
	var out []time.Time
	secs := []int64{-62135596800, -62135596799, -1, 0, 1, 999999999, 1000000000, 1000000001, 253402300799, 253402300798, -2208988800, 1709164800 /* leap day */, 951782400,
		// around 2^63/1e9 and 2^64/1e9: where seconds*1e9 leaves int64 / uint64 (unixnano and friends)
		9223372036, 9223372037, -9223372036, -9223372037, 18446744073, 18446744074, -18446744073, -18446744074, 19000000000, -19000000000, 9999999999, 10000000000, 19999999999, 20000000000}
	nanos := []int64{0, 1, 999, 1000, 1000000, 999999999, 500000000, 123456789}
	zones := []*time.Location{time.UTC, time.FixedZone("", 23*3600+59*60), time.FixedZone("", -60), time.FixedZone("", 5*3600+30*60)}
	for _, s := range secs {
		for _, n := range nanos {
			for _, z := range zones {
				t := time.Unix(s, n).In(z)
				if y := t.Year(); y < 0 || y > 9999 {
					continue
				}
				out = append(out, t)
			}
		}
	}
	return out
}

func structWith(t reflect.Type, format string) reflect.Type {
	tag := `json:",format:` + format + `"`
	if strings.ContainsAny(format, "- :'") {
		tag = `json:",format:'` + strings.ReplaceAll(format, "'", `\\'`) + `'"`
	}
	return reflect.StructOf([]reflect.StructField{{Name: "F", Type: t, Tag: reflect.StructTag(tag)}})
}

func wrap(st reflect.Type, vs []reflect.Value) []reflect.Value {
	out := make([]reflect.Value, len(vs))
	for i, v := range vs {
		s := reflect.New(st).Elem()
		s.Field(0).Set(v)
		out[i] = s
	}
	return out
}

func formatCases(all bool) []formatCase {
	if all {
		return withExtraOptions(formatCases(false))
	}
	ft := jsonv2.ExperimentalSupportFormatTag(true)
	det := jsonv2.Deterministic(true)
	var out []formatCase
	var durVals, timeVals []reflect.Value
	for _, d := range durations() {
		durVals = append(durVals, reflect.ValueOf(d))
	}
	for _, t := range times() {
		timeVals = append(timeVals, reflect.ValueOf(t))
	}
	tDur, tTime := reflect.TypeOf(time.Duration(0)), reflect.TypeOf(time.Time{})
	for _, f := range []string{"sec", "milli", "micro", "nano", "units", "iso8601"} {
		out = append(out, formatCase{"Duration format:" + f, wrap(structWith(tDur, f), durVals), []jsonv2.Options{det, ft}})
		out = append(out, formatCase{"*Duration format:" + f, wrap(structWith(reflect.PointerTo(tDur), f), ptrs(durVals)), []jsonv2.Options{det, ft}})
	}
	out = append(out, formatCase{"Duration FormatDurationAsNano", durVals, []jsonv2.Options{det, jsonv1.FormatDurationAsNano(true)}})
	out = append(out, formatCase{"map[string]Duration DefaultOptionsV1", mapsOf(durVals), []jsonv2.Options{jsonv1.DefaultOptionsV1()}})
	var wholeSecs []reflect.Value
	for _, t := range times() {
		if t.Nanosecond() == 0 {
			wholeSecs = append(wholeSecs, reflect.ValueOf(t))
		}
	}
	for _, f := range []string{"RFC3339", "RFC3339Nano", "unix", "unixmilli", "unixmicro", "unixnano", "2006-01-02T15:04:05.999999999Z07:00"} {
		vs := timeVals
		if f == "RFC3339" {
			vs = wholeSecs // the layout has no sub-second field
		}
		out = append(out, formatCase{"Time format:" + f, wrap(structWith(tTime, f), vs), []jsonv2.Options{det, ft}})
	}
	out = append(out, formatCase{"Time default", timeVals, []jsonv2.Options{det}})
	out = append(out, formatCase{"Time DefaultOptionsV1", timeVals, []jsonv2.Options{jsonv1.DefaultOptionsV1()}})
	// bytes
	var byteVals, arrVals []reflect.Value
	for _, b := range [][]byte{{}, {0}, {255}, {0, 255}, []byte("any carnal pleas"), []byte("any carnal pleasu"), []byte("any carnal pleasur"), {0xfb, 0xff, 0xfe, 0x3e, 0x3f}, bytes.Repeat([]byte{0xa5}, 100)} {
		byteVals = append(byteVals, reflect.ValueOf(b))
	}
	for _, a := range [][5]byte{{}, {1, 2, 3, 4, 5}, {255, 254, 253, 0x3e, 0x3f}} {
		arrVals = append(arrVals, reflect.ValueOf(a))
	}
	for _, f := range []string{"base64", "base64url", "base32", "base32hex", "base16", "hex", "array"} {
		out = append(out, formatCase{"[]byte format:" + f, wrap(structWith(reflect.TypeOf([]byte(nil)), f), byteVals), []jsonv2.Options{det, ft}})
		out = append(out, formatCase{"[5]byte format:" + f, wrap(structWith(reflect.TypeOf([5]byte{}), f), arrVals), []jsonv2.Options{det, ft}})
	}
	out = append(out, formatCase{"[5]byte FormatByteArrayAsArray", arrVals, []jsonv2.Options{det, jsonv1.FormatByteArrayAsArray(true)}})
	// floats nonfinite
	var fvals []reflect.Value
	for _, f := range []float64{0, 1.5, math.Inf(1), math.Inf(-1), math.MaxFloat64} {
		fvals = append(fvals, reflect.ValueOf(f))
	}
	out = append(out, formatCase{"float64 format:nonfinite", wrap(structWith(reflect.TypeOf(float64(0)), "nonfinite"), fvals), []jsonv2.Options{det, ft}})
	// nil slices/maps
	var svals, mvals []reflect.Value
	svals = append(svals, reflect.ValueOf([]int(nil)), reflect.ValueOf([]int{}), reflect.ValueOf([]int{1}))
	mvals = append(mvals, reflect.ValueOf(map[string]int(nil)), reflect.ValueOf(map[string]int{}), reflect.ValueOf(map[string]int{"a": 1}))
	for _, f := range []string{"emitnull", "emitempty"} {
		out = append(out, formatCase{"[]int format:" + f, wrap(structWith(reflect.TypeOf([]int(nil)), f), svals), []jsonv2.Options{det, ft}})
		out = append(out, formatCase{"map format:" + f, wrap(structWith(reflect.TypeOf(map[string]int(nil)), f), mvals), []jsonv2.Options{det, ft, jsonv2.FormatNilMapAsNull(true)}})
	}
	return out
}

func ptrs(vs []reflect.Value) []reflect.Value {
	out := make([]reflect.Value, 0, len(vs))
	for _, v := range vs {
		p := reflect.New(v.Type())
		p.Elem().Set(v)
		out = append(out, p)
	}
	return out
}

func mapsOf(vs []reflect.Value) []reflect.Value {
	var out []reflect.Value
	for i := 0; i+1 < len(vs); i += 2 {
		m := reflect.MakeMap(reflect.MapOf(reflect.TypeOf(""), vs[i].Type()))
		m.SetMapIndex(reflect.ValueOf("a"), vs[i])
		m.SetMapIndex(reflect.ValueOf("b"), vs[i+1])
		out = append(out, m)
	}
	return out
}

// withExtraOptions repeats every format family under further symmetric option sets: a format tag must round-trip
// whatever other options are in force on both sides.
func withExtraOptions(cases []formatCase) []formatCase {
	out := append([]formatCase(nil), cases...)
	for _, fc := range cases {
		if !strings.Contains(fc.name, "format:") {
			continue
		}
		out = append(out, formatCase{fc.name + " +StringifyNumbers", fc.values, append(append([]jsonv2.Options{}, fc.opts...), jsonv2.StringifyNumbers(true))})
		out = append(out, formatCase{fc.name + " +DefaultOptionsV1", fc.values, append([]jsonv2.Options{jsonv1.DefaultOptionsV1()}, fc.opts...)})
		out = append(out, formatCase{fc.name + " +OmitZeroStructFields+FormatNilSliceAsNull", fc.values, append(append([]jsonv2.Options{}, fc.opts...), jsonv2.OmitZeroStructFields(true), jsonv2.FormatNilSliceAsNull(true))})
	}
	return out
}

func formats(r *evid.Run) {
	cases := formatCases(true)
	enum.Parallel(r, len(cases), func(w *enum.Worker) func(int) {
		var cur Case
		w.Describe = func() any { return cur }
		var n int64
		w.Done = func() { r.Evaluations.Add(n); r.Nontrivial.Add(n) }
		return func(u int) {
			fc := cases[u]
			if strings.Contains(fc.name, "format:unix") {
				return // handled sequentially below (they use a process-wide comparison switch)
			}
			for vi, v := range fc.values {
				cur = Case{Family: "format", Type: fc.name, Value: vi}
				n++
				if m := roundTrip(v, fc.opts, strings.Contains(fc.name, "OmitZero")); m != "" {
					cs := cur
					cs.Detail = fmt.Sprintf("%v", v.Interface())
					r.Violation(fmt.Sprintf("c04|format|%s|v%d", fc.name, vi), m, cs, func() bool { return replayCase(cs) != "" })
				}
			}
		}
	})
	zoneNotCarried.Store(true)
	for _, fc := range cases {
		if !strings.Contains(fc.name, "format:unix") {
			continue
		}
		for vi, v := range fc.values {
			r.Evaluations.Add(1)
			r.Nontrivial.Add(1)
			if m := roundTrip(v, fc.opts, strings.Contains(fc.name, "OmitZero")); m != "" {
				cs := Case{Family: "format", Type: fc.name, Value: vi, Detail: fmt.Sprintf("%v", v.Interface())}
				r.Violation(fmt.Sprintf("c04|format|%s|v%d", fc.name, vi), m, cs, nil)
			}
		}
	}
	zoneNotCarried.Store(false)
	r.Sample(Case{Family: "format", Type: cases[10].name, Value: 3})
	r.Bound("alternative representations: %d (type, format/option) families; %d durations, %d times", len(cases), len(durations()), len(times()))
}

// wide structs: 65 and 130 fields, names needing escapes; every field set one at a time.
func wideTypes() []reflect.Type {
	var out []reflect.Type
	for _, n := range []int{65, 130} {
		var fs []reflect.StructField
		for i := 0; i < n; i++ {
			tag := ""
			switch i % 5 {
			case 1:
				tag = fmt.Sprintf(`json:"f<%d>"`, i)
			case 2:
				tag = fmt.Sprintf(`json:"é%d,omitzero"`, i)
			case 3:
				tag = fmt.Sprintf(`json:"F%d,case:ignore"`, i)
			}
			typ := []reflect.Type{reflect.TypeOf(int64(0)), reflect.TypeOf(""), reflect.TypeOf([]int(nil)), reflect.TypeOf(float32(0))}[i%4]
			fs = append(fs, reflect.StructField{Name: fmt.Sprintf("F%d", i), Type: typ, Tag: reflect.StructTag(tag)})
		}
		out = append(out, reflect.StructOf(fs))
	}
	return out
}

func wideOne(idx int) string {
	ts := wideTypes()
	t := ts[idx%len(ts)]
	fi := idx / len(ts)
	v := reflect.New(t).Elem()
	if fi < t.NumField() {
		f := v.Field(fi)
		switch f.Kind() {
		case reflect.Int64:
			f.SetInt(math.MinInt64 + int64(fi))
		case reflect.String:
			f.SetString(fmt.Sprintf("v%d< ", fi))
		case reflect.Slice:
			f.Set(reflect.ValueOf([]int{fi}))
		case reflect.Float32:
			f.SetFloat(float64(float32(fi) + 0.1))
		}
	} else {
		for i := 0; i < t.NumField(); i++ {
			if v.Field(i).Kind() == reflect.Int64 {
				v.Field(i).SetInt(int64(i) + 1)
			}
		}
	}
	return roundTrip(v, []jsonv2.Options{jsonv2.Deterministic(true)}, true)
}

func wide(r *evid.Run) {
	n := 2 * 131
	for i := 0; i < n; i++ {
		r.Evaluations.Add(1)
		r.Nontrivial.Add(1)
		if m := wideOne(i); m != "" {
			cs := Case{Family: "wide", Index: i}
			r.Violation(fmt.Sprintf("c04|wide|%d", i), m, cs, func() bool { return replayCase(cs) != "" })
		}
	}
	r.Bound("wide structs: 65 and 130 fields (escaped / non-ASCII / case:ignore names, omitzero), each field set alone and all together")
}
