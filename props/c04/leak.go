package c04

import (
	"fmt"
	"reflect"
	"time"

	jsonv2 "github.com/go-json-experiment/json"

	"verif/internal/evid"
)

// tagLeaks: a member carrying `format:` / `string` together with omitempty / omitzero, whose value is empty in
// every way that is only discovered after it has been marshaled (pointer to an empty container, empty container,
// nil), placed before members without tags: the tag options of one member must not reach its neighbours.
// Oracle: every untagged neighbour round-trips exactly, and the encoding of the neighbours is byte-identical to
// their encoding in a struct that has no tagged member at all.

type leakFam struct {
	name   string
	t      reflect.Type
	format string
	vals   []reflect.Value // values of type t (empty and non-empty)
}

func leakFams() []leakFam {
	bs := func(b ...byte) reflect.Value { return reflect.ValueOf(b) }
	return []leakFam{
		{"[]byte base16", reflect.TypeOf([]byte(nil)), "format:base16", []reflect.Value{bs(), reflect.ValueOf([]byte(nil)), bs(0xff, 0xfe)}},
		{"[]byte base32", reflect.TypeOf([]byte(nil)), "format:base32", []reflect.Value{bs(), bs(1)}},
		{"[]byte array", reflect.TypeOf([]byte(nil)), "format:array", []reflect.Value{bs(), bs(1, 2)}},
		{"[]int emitnull", reflect.TypeOf([]int(nil)), "format:emitnull", []reflect.Value{reflect.ValueOf([]int(nil)), reflect.ValueOf([]int{}), reflect.ValueOf([]int{1})}},
		{"map emitempty", reflect.TypeOf(map[string]int(nil)), "format:emitempty", []reflect.Value{reflect.ValueOf(map[string]int(nil)), reflect.ValueOf(map[string]int{}), reflect.ValueOf(map[string]int{"a": 1})}},
		{"Duration units", reflect.TypeOf(time.Duration(0)), "format:units", []reflect.Value{reflect.ValueOf(time.Duration(0)), reflect.ValueOf(90 * time.Second)}},
		{"int string", reflect.TypeOf(0), "string", []reflect.Value{reflect.ValueOf(0), reflect.ValueOf(7)}},
		{"float64 nonfinite", reflect.TypeOf(0.0), "format:nonfinite", []reflect.Value{reflect.ValueOf(0.0), reflect.ValueOf(1.5)}},
	}
}

type neighbours struct {
	B []byte
	C int
	D []int
	E map[string]int
	F string
	G float64
	H *int
}

func leakStruct(f leakFam, omit string, ptr bool) reflect.Type {
	ft := f.t
	if ptr {
		ft = reflect.PointerTo(ft)
	}
	tag := reflect.StructTag(`json:",` + omit + `,` + f.format + `"`)
	nb := reflect.TypeOf(neighbours{})
	fields := []reflect.StructField{{Name: "A", Type: ft, Tag: tag}}
	for i := 0; i < nb.NumField(); i++ {
		fields = append(fields, nb.Field(i))
	}
	fields = append(fields, reflect.StructField{Name: "Z", Type: ft, Tag: tag})
	return reflect.StructOf(fields)
}

func leakOne(fi int, omit string, ptr bool, vi int) (msg string) {
	defer func() {
		if p := recover(); p != nil {
			msg = fmt.Sprintf("library panic: %v", p)
		}
	}()
	f := leakFams()[fi]
	st := leakStruct(f, omit, ptr)
	seven := 7
	nbv := neighbours{B: []byte{0xff, 0xfe}, C: 12, D: []int{1}, E: map[string]int{"k": 1}, F: "s", G: 2.5, H: &seven}
	v := reflect.New(st).Elem()
	set := func(fld reflect.Value) {
		x := f.vals[vi]
		if ptr {
			p := reflect.New(f.t)
			p.Elem().Set(x)
			x = p
		}
		fld.Set(x)
	}
	set(v.Field(0))
	set(v.Field(v.NumField() - 1))
	for i := 0; i < reflect.TypeOf(nbv).NumField(); i++ {
		v.Field(1 + i).Set(reflect.ValueOf(nbv).Field(i))
	}
	opts := []jsonv2.Options{jsonv2.Deterministic(true), jsonv2.ExperimentalSupportFormatTag(true)}
	b, err := jsonv2.Marshal(v.Interface(), opts...)
	if err != nil {
		return fmt.Sprintf("Marshal failed: %v", err)
	}
	back := reflect.New(st)
	if err := jsonv2.Unmarshal(b, back.Interface(), opts...); err != nil {
		return fmt.Sprintf("Unmarshal rejects Marshal's own output %q: %v", b, err)
	}
	var got neighbours
	for i := 0; i < reflect.TypeOf(got).NumField(); i++ {
		reflect.ValueOf(&got).Elem().Field(i).Set(back.Elem().Field(1 + i))
	}
	if !reflect.DeepEqual(got, nbv) {
		return fmt.Sprintf("members without tags do not round-trip next to a `%s,%s` member: %+v -> %q -> %+v", omit, f.format, nbv, b, got)
	}
	// the neighbours alone, in a struct without the tagged members, must be encoded identically
	alone, err := jsonv2.Marshal(nbv, opts...)
	if err != nil {
		return fmt.Sprintf("Marshal of the untagged members alone failed: %v", err)
	}
	var m1, m2 map[string]jsonv2.Options
	_ = m1
	_ = m2
	var full, only map[string]any
	if jsonv2.Unmarshal(b, &full) != nil || jsonv2.Unmarshal(alone, &only) != nil {
		return fmt.Sprintf("outputs are not objects: %q / %q", b, alone)
	}
	for k, want := range only {
		if !reflect.DeepEqual(full[k], want) {
			return fmt.Sprintf("member %q is encoded as %v next to a `%s,%s` member but as %v in a struct without it (%q vs %q)", k, full[k], omit, f.format, want, b, alone)
		}
	}
	return ""
}

func tagLeaks(r *evid.Run) {
	var n int64
	fams := leakFams()
	for fi, f := range fams {
		for _, omit := range []string{"omitempty", "omitzero", "omitempty,omitzero"} {
			for _, ptr := range []bool{false, true} {
				for vi := range f.vals {
					n++
					if m := leakOne(fi, omit, ptr, vi); m != "" {
						cs := Case{Family: "tag-leak", Type: f.name, Index: fi, Value: vi, OptSet: omit, Depth: map[bool]int{true: 1}[ptr]}
						r.Violation(fmt.Sprintf("c04|tag-leak|%s|%s|%v|%d", f.name, omit, ptr, vi), m, cs, func() bool { return leakOne(cs.Index, cs.OptSet, cs.Depth == 1, cs.Value) != "" })
					}
				}
			}
		}
	}
	r.Evaluations.Add(n)
	r.Nontrivial.Add(n)
	r.Sample(Case{Family: "tag-leak", Type: fams[0].name, OptSet: "omitempty", Depth: 1})
	r.Bound("tag leaks: %d (type, format/string) families x {omitempty, omitzero, both} x {value, pointer} x empty and non-empty values, as first and last member around 7 untagged members", len(fams))
}
