package c04

import (
	"fmt"
	"reflect"
	"strconv"
	"strings"
	"time"

	jsonv2 "github.com/go-json-experiment/json"
	"github.com/go-json-experiment/json/jsontext"
	jsonv1 "github.com/go-json-experiment/json/v1"

	"verif/internal/evid"
	"verif/internal/refjson"
)

// tagLeaks: a member carrying `format:` / `string` together with omitempty / omitzero, whose value is empty in
// every way that is only discovered after it has been marshaled (pointer to an empty container, empty container,
// nil), placed before members without tags: the tag options of one member must not reach its neighbours.
// Oracle: every untagged neighbour round-trips exactly, and the encoding of the neighbours is byte-identical to
// their encoding in a struct that has no tagged member at all.

type leakFam struct {
	name   string
	t      reflect.Type
	format string
	vals   []reflect.Value // values of type t (empty and non-empty)
}

func leakFams() []leakFam {
	bs := func(b ...byte) reflect.Value { return reflect.ValueOf(b) }
	return []leakFam{
		{"[]byte base16", reflect.TypeOf([]byte(nil)), "format:base16", []reflect.Value{bs(), reflect.ValueOf([]byte(nil)), bs(0xff, 0xfe)}},
		{"[]byte base32", reflect.TypeOf([]byte(nil)), "format:base32", []reflect.Value{bs(), bs(1)}},
		{"[]byte array", reflect.TypeOf([]byte(nil)), "format:array", []reflect.Value{bs(), bs(1, 2)}},
		{"[]int emitnull", reflect.TypeOf([]int(nil)), "format:emitnull", []reflect.Value{reflect.ValueOf([]int(nil)), reflect.ValueOf([]int{}), reflect.ValueOf([]int{1})}},
		{"map emitempty", reflect.TypeOf(map[string]int(nil)), "format:emitempty", []reflect.Value{reflect.ValueOf(map[string]int(nil)), reflect.ValueOf(map[string]int{}), reflect.ValueOf(map[string]int{"a": 1})}},
		{"Duration units", reflect.TypeOf(time.Duration(0)), "format:units", []reflect.Value{reflect.ValueOf(time.Duration(0)), reflect.ValueOf(90 * time.Second)}},
		{"int string", reflect.TypeOf(0), "string", []reflect.Value{reflect.ValueOf(0), reflect.ValueOf(7)}},
		{"float64 nonfinite", reflect.TypeOf(0.0), "format:nonfinite", []reflect.Value{reflect.ValueOf(0.0), reflect.ValueOf(1.5)}},
	}
}

type neighbours struct {
	B []byte
	C int
	D []int
	E map[string]int
	F string
	G float64
	H *int
}

func leakStruct(f leakFam, omit string, ptr bool) reflect.Type {
	ft := f.t
	if ptr {
		ft = reflect.PointerTo(ft)
	}
	tag := reflect.StructTag(`json:",` + omit + `,` + f.format + `"`)
	nb := reflect.TypeOf(neighbours{})
	fields := []reflect.StructField{{Name: "A", Type: ft, Tag: tag}}
	for i := 0; i < nb.NumField(); i++ {
		fields = append(fields, nb.Field(i))
	}
	fields = append(fields, reflect.StructField{Name: "Z", Type: ft, Tag: tag})
	return reflect.StructOf(fields)
}

func leakOne(fi int, omit string, ptr bool, vi int) (msg string) {
	defer func() {
		if p := recover(); p != nil {
			msg = fmt.Sprintf("library panic: %v", p)
		}
	}()
	f := leakFams()[fi]
	st := leakStruct(f, omit, ptr)
	seven := 7
	nbv := neighbours{B: []byte{0xff, 0xfe}, C: 12, D: []int{1}, E: map[string]int{"k": 1}, F: "s", G: 2.5, H: &seven}
	v := reflect.New(st).Elem()
	set := func(fld reflect.Value) {
		x := f.vals[vi]
		if ptr {
			p := reflect.New(f.t)
			p.Elem().Set(x)
			x = p
		}
		fld.Set(x)
	}
	set(v.Field(0))
	set(v.Field(v.NumField() - 1))
	for i := 0; i < reflect.TypeOf(nbv).NumField(); i++ {
		v.Field(1 + i).Set(reflect.ValueOf(nbv).Field(i))
	}
	opts := []jsonv2.Options{jsonv2.Deterministic(true), jsonv2.ExperimentalSupportFormatTag(true)}
	b, err := jsonv2.Marshal(v.Interface(), opts...)
	if err != nil {
		return fmt.Sprintf("Marshal failed: %v", err)
	}
	back := reflect.New(st)
	if err := jsonv2.Unmarshal(b, back.Interface(), opts...); err != nil {
		return fmt.Sprintf("Unmarshal rejects Marshal's own output %q: %v", b, err)
	}
	var got neighbours
	for i := 0; i < reflect.TypeOf(got).NumField(); i++ {
		reflect.ValueOf(&got).Elem().Field(i).Set(back.Elem().Field(1 + i))
	}
	if !reflect.DeepEqual(got, nbv) {
		return fmt.Sprintf("members without tags do not round-trip next to a `%s,%s` member: %+v -> %q -> %+v", omit, f.format, nbv, b, got)
	}
	// the neighbours alone, in a struct without the tagged members, must be encoded identically
	alone, err := jsonv2.Marshal(nbv, opts...)
	if err != nil {
		return fmt.Sprintf("Marshal of the untagged members alone failed: %v", err)
	}
	var m1, m2 map[string]jsonv2.Options
	_ = m1
	_ = m2
	var full, only map[string]any
	if jsonv2.Unmarshal(b, &full) != nil || jsonv2.Unmarshal(alone, &only) != nil {
		return fmt.Sprintf("outputs are not objects: %q / %q", b, alone)
	}
	for k, want := range only {
		if !reflect.DeepEqual(full[k], want) {
			return fmt.Sprintf("member %q is encoded as %v next to a `%s,%s` member but as %v in a struct without it (%q vs %q)", k, full[k], omit, f.format, want, b, alone)
		}
	}
	return ""
}

func tagLeaks(r *evid.Run) {
	var n int64
	fams := leakFams()
	for fi, f := range fams {
		for _, omit := range []string{"omitempty", "omitzero", "omitempty,omitzero"} {
			for _, ptr := range []bool{false, true} {
				for vi := range f.vals {
					n++
					if m := leakOne(fi, omit, ptr, vi); m != "" {
						cs := Case{Family: "tag-leak", Type: f.name, Index: fi, Value: vi, OptSet: omit, Depth: map[bool]int{true: 1}[ptr]}
						r.Violation(fmt.Sprintf("c04|tag-leak|%s|%s|%v|%d", f.name, omit, ptr, vi), m, cs, func() bool { return leakOne(cs.Index, cs.OptSet, cs.Depth == 1, cs.Value) != "" })
					}
				}
			}
		}
	}
	r.Evaluations.Add(n)
	r.Nontrivial.Add(n)
	r.Sample(Case{Family: "tag-leak", Type: fams[0].name, OptSet: "omitempty", Depth: 1})
	r.Bound("tag leaks: %d (type, format/string) families x {omitempty, omitzero, both} x {value, pointer} x empty and non-empty values, as first and last member around 7 untagged members", len(fams))
}

// ---- member names of every character class ----
//
// The name of a member may hold any characters the tag syntax allows: DEL and C1 controls, non-printable runes beyond
// the BMP, characters the escape options care about, line separators, multi-byte characters. Marshal must write a
// valid, decodable spelling of each and Unmarshal must find the field again, under the default and the escape options.

func memberNames(r *evid.Run) {
	names := []string{"\x7f", "a\x7fb", "\U000e0001", "\U000e0001x", "\u0080", "\u2028", "\u2029", "<>&", "\u00e9", "\U0001F600", "with space", "tab\there", "nul\x00", "\ufeff", "\ufffd", "\u00ad", "a\u200bb", "-", "\u00fcn\u00ef", "\U00010000"}
	optSets := [][]jsonv2.Options{{jsonv2.Deterministic(true)}, {jsontext.EscapeForHTML(true), jsontext.EscapeForJS(true)}, {jsonv1.DefaultOptionsV1()}, {jsonv2.StringifyNumbers(true), jsonv2.OmitZeroStructFields(true)}}
	var n, skipped int64
	for ni, name := range names {
		// the name as it stands, or single-quoted where the tag syntax asks for it
		var st reflect.Type
		for si, spelled := range []string{name, "'" + strings.NewReplacer(`\`, `\\`, `'`, `\'`).Replace(name) + "'"} {
			if name == "-" && si == 0 {
				continue // a bare "-" means "ignore this field"; the name "-" has to be quoted
			}
			st = reflect.StructOf([]reflect.StructField{{Name: "A", Type: reflect.TypeOf(0)}, {Name: "N", Type: reflect.TypeOf(0), Tag: reflect.StructTag(`json:` + strconv.Quote(spelled))}, {Name: "Z", Type: reflect.TypeOf("")}})
			if _, err := jsonv2.Marshal(reflect.New(st).Elem().Interface()); err == nil || !strings.Contains(err.Error(), "tag") {
				break
			}
			st = nil
		}
		if st == nil {
			skipped++
			continue
		}
		v := reflect.New(st).Elem()
		v.Field(0).SetInt(1)
		v.Field(1).SetInt(7)
		v.Field(2).SetString("z")
		for oi, opts := range optSets {
			n++
			msg := func() (msg string) {
				defer func() {
					if p := recover(); p != nil {
						msg = fmt.Sprintf("library panic: %v", p)
					}
				}()
				b, err := jsonv2.Marshal(v.Interface(), opts...)
				if err != nil {
					return fmt.Sprintf("Marshal failed: %v", err)
				}
				tree := refjsonTree(b)
				if tree == nil || len(tree) != 3 || tree[1] != name {
					return fmt.Sprintf("Marshal output %q does not carry the member name %q as its second name", b, name)
				}
				back := reflect.New(st)
				if err := jsonv2.Unmarshal(b, back.Interface(), opts...); err != nil {
					return fmt.Sprintf("Unmarshal rejects Marshal's own output %q: %v", b, err)
				}
				if back.Elem().Field(1).Int() != 7 {
					return fmt.Sprintf("the member named %q was not stored back into its field (output %q)", name, b)
				}
				return ""
			}()
			if msg != "" {
				r.Violation(fmt.Sprintf("c04|member-name|%d|%d", ni, oi), fmt.Sprintf("struct member named %q, option set #%d: %s", name, oi, msg), Case{Family: "member-name", Index: ni, Value: oi}, nil)
			}
		}
	}
	r.Evaluations.Add(n)
	r.Nontrivial.Add(n)
	r.Bound("member names: %d names (DEL, C1 control, non-printable runes beyond the BMP, U+2028/9, HTML characters, NUL, BOM, U+FFFD, soft hyphen, zero-width space, '-', multi-byte) x 4 option sets: the output is valid, carries the name, and decodes back into the field (%d names not expressible as a tag were skipped)", len(names), skipped)
}

// refjsonTree returns the member names of a JSON object text in order (nil if the text is not a valid object).
func refjsonTree(b []byte) []string {
	t := refjson.Tree(b, refjson.Opts{})
	if t == nil || t.Kind != '{' {
		return nil
	}
	return t.Names
}
