package c04

import (
	"fmt"
	"reflect"
	"strings"

	jsonv2 "github.com/go-json-experiment/json"

	"verif/internal/evid"
)

// Seventh round: the `string` tag on string, number and bool members and on pointers to them, with texts that look
// like JSON literals ("null", "true", "7", a quoted null), under every option set (several legacy options change
// what the tag means; each alone must still round-trip).

func stringTagTypes() []reflect.Type {
	base := []reflect.Type{reflect.TypeOf(""), reflect.TypeOf(0), reflect.TypeOf(uint8(0)), reflect.TypeOf(0.0), reflect.TypeOf(false)}
	var out []reflect.Type
	for _, b := range base {
		for _, ft := range []reflect.Type{b, reflect.PointerTo(b), reflect.PointerTo(reflect.PointerTo(b))} {
			for _, tag := range []string{`json:",string"`, `json:"s,string"`, `json:",string,omitzero"`} {
				out = append(out, reflect.StructOf([]reflect.StructField{
					{Name: "N", Type: reflect.TypeOf(0), Tag: `json:"n,string"`},
					{Name: "S", Type: ft, Tag: reflect.StructTag(tag)},
				}))
			}
		}
	}
	return out
}

func stringTagLeaves(t reflect.Type) []reflect.Value {
	var out []reflect.Value
	switch t.Kind() {
	case reflect.String:
		for _, s := range []string{"", "null", `"null"`, "nul", "NULL", " null", "true", "7", "-0", `"`, `\`, "\"\"", "é", "<&>", " "} {
			out = append(out, reflect.ValueOf(s))
		}
	case reflect.Int:
		for _, i := range []int{0, 7, -1, 1 << 53, -1 << 63} {
			out = append(out, reflect.ValueOf(i))
		}
	case reflect.Uint8:
		out = append(out, reflect.ValueOf(uint8(0)), reflect.ValueOf(uint8(255)))
	case reflect.Float64:
		for _, f := range []float64{0, 1.5, -1e300, 5e-324} {
			out = append(out, reflect.ValueOf(f))
		}
	case reflect.Bool:
		out = append(out, reflect.ValueOf(false), reflect.ValueOf(true))
	}
	return out
}

func stringTagValues(st reflect.Type) []reflect.Value {
	ft := st.Field(1).Type
	depth := 0
	leaf := ft
	for leaf.Kind() == reflect.Pointer {
		leaf = leaf.Elem()
		depth++
	}
	var out []reflect.Value
	mk := func(f reflect.Value) {
		s := reflect.New(st).Elem()
		s.Field(0).SetInt(7)
		s.Field(1).Set(f)
		out = append(out, s)
	}
	for _, lv := range stringTagLeaves(leaf) {
		v := lv
		for i := 0; i < depth; i++ {
			p := reflect.New(v.Type())
			p.Elem().Set(v)
			v = p
		}
		mk(v)
	}
	if depth > 0 {
		mk(reflect.Zero(ft))
	}
	if depth > 1 {
		p := reflect.New(ft.Elem()) // pointer to a nil pointer
		mk(p)
	}
	return out
}

func stringTagOne(ti, vi int, optName string) string {
	ts := stringTagTypes()
	if ti >= len(ts) {
		return ""
	}
	vs := stringTagValues(ts[ti])
	for _, os := range optSets() {
		if os.name == optName && vi < len(vs) {
			// Which (member type, option set) pairs give the tag a meaning is the library's documented business
			// (v2: numeric members only; legacy: also strings and bools, one pointer level); where Marshal refuses
			// the value it is outside the property. Wherever Marshal succeeds the round trip is demanded.
			if _, err := jsonv2.Marshal(vs[vi].Interface(), os.opts...); err != nil {
				return ""
			}
			omit := strings.Contains(string(ts[ti].Field(1).Tag), "omitzero") || os.name == "OmitZeroStructFields"
			return roundTrip(vs[vi], os.opts, omit)
		}
	}
	return ""
}

func stringTags(r *evid.Run) {
	ts := stringTagTypes()
	var n int64
	for ti, t := range ts {
		for vi := range stringTagValues(t) {
			for _, os := range optSets() {
				n++
				if m := stringTagOne(ti, vi, os.name); m != "" {
					cs := Case{Family: "string-tag", Type: t.String(), Index: ti, Value: vi, OptSet: os.name}
					r.Violation(fmt.Sprintf("c04|stringtag|%d|%d|%s", ti, vi, os.name), m, cs, func() bool { return replayCase(cs) != "" })
				}
			}
		}
	}
	r.Evaluations.Add(n)
	r.Nontrivial.Add(n)
	r.Bound("string tag: %d struct types (string / int / uint8 / float64 / bool members, plain, behind one and two pointers, 3 tag spellings) x literal-looking texts and boundary numbers, nil pointers x %d option sets", len(ts), len(optSets()))
}
