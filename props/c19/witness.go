package c19

import (
	stdjson "encoding/json"
	"errors"
	"fmt"
	"reflect"
	"sort"
	"strings"
	"sync/atomic"
	"time"

	jsonv2 "github.com/go-json-experiment/json"
	"github.com/go-json-experiment/json/jsontext"
	jsonv1 "github.com/go-json-experiment/json/v1"

	"verif/internal/enum"
	"verif/internal/evid"
	"verif/internal/typeuniv"
)

// ---- witness operations: for every boolean option at least one operation whose result the option changes ----
//
// The last-wins map reading of the property implies, for every operation w and boolean option o (all of
// which default to false under the v2 entry points):
//   w(o(false)) = w()                      an explicit false is the default
//   w(o(true), o(false)) = w()             a later false cancels an earlier true
//   w(o(false), o(true)) = w(o(true))      and conversely
//   the same with either side pre-joined by JoinOptions
//   w(o(true), DefaultOptionsV2()) = w()   for the legacy options (and = w(o(true)) for all others)
//   w(DefaultOptionsV1(), DefaultOptionsV2()) = w(DefaultOptionsV2()) = w()
//   w(DefaultOptionsV1(), o(true)) = w(DefaultOptionsV1()) for the legacy options
// A site that tests the presence of an option instead of its value, or forgets one of the options in
// DefaultOptionsV2, breaks one of these on the operation that witnesses that option.

type nb byte

type ptrRecv struct{ N int }

func (p *ptrRecv) MarshalJSON() ([]byte, error) { return []byte(`"PM"`), nil }

type witness struct {
	name string
	run  func(opts ...jsonv2.Options) string
}

func errClass(err error) string {
	if err == nil {
		return "ok"
	}
	var sem *jsonv2.SemanticError
	var syn *jsontext.SyntacticError
	switch {
	case errors.As(err, &sem):
		return fmt.Sprintf("%T>SemanticError@%d%s", err, sem.ByteOffset, sem.JSONPointer)
	case errors.As(err, &syn):
		return fmt.Sprintf("%T>SyntacticError@%d%s", err, syn.ByteOffset, syn.JSONPointer)
	}
	return fmt.Sprintf("%T", err)
}

func mw(name string, v any, fixed ...jsonv2.Options) witness {
	return witness{"Marshal " + name, func(opts ...jsonv2.Options) string {
		b, err := jsonv2.Marshal(v, append(append([]jsonv2.Options{}, opts...), fixed...)...) // fixed options last: they hold whatever the caller passes
		return fmt.Sprintf("%s|%s", b, errClass(err))
	}}
}

func uw[T any](name, text string, init func() T, fixed ...jsonv2.Options) witness {
	return witness{"Unmarshal " + name, func(opts ...jsonv2.Options) string {
		t := init()
		err := jsonv2.Unmarshal([]byte(text), &t, append(append([]jsonv2.Options{}, opts...), fixed...)...)
		out, _ := stdjson.Marshal(t) // rendering only (standard library)
		return fmt.Sprintf("%s|%s", out, errClass(err))
	}}
}

func zero[T any]() func() T { return func() T { var z T; return z } }

func witnesses() []witness {
	type mergeT struct {
		A int
		L []struct{ X, Y int }
		P *int
	}
	five := 5
	return []witness{
		mw("numbers", []any{1, 2.5, int8(-3)}),
		mw("nil slice member", struct{ S []int }{}),
		mw("nil map member", struct{ M map[string]int }{}),
		mw("zero members", struct {
			A int
			B string
			C *int
		}{}),
		mw("string needing escapes", "<&>  "),
		mw("ill-formed string", "a\xffb"),
		mw("unknown-member map repeating a field name", struct {
			A int            `json:"a"`
			X map[string]int `json:",unknown"`
		}{1, map[string]int{"a": 2}}),
		mw("raw value", jsontext.Value(` {"b":"A<","a":[1.0,1e1,0.10,100000000000000000000]} `)),
		mw("nested containers", []any{1, map[string]int{"a": 2}, []int{}}),
		mw("pointer-receiver method on a non-addressable member", struct{ P ptrRecv }{}),
		mw("byte array", [2]byte{1, 2}),
		mw("slice of named bytes", []nb{1, 2}),
		mw("duration", struct{ D time.Duration }{1500}),
		mw("omitempty on zero number, false and nil pointer", struct {
			A int  `json:",omitempty"`
			B bool `json:",omitempty"`
			C *int `json:",omitempty"`
			D string
		}{}),
		mw("string tag on bool and string", struct {
			B bool   `json:",string"`
			S string `json:",string"`
			N int    `json:",string"`
		}{true, "s", 7}),
		mw("unsupported kind", struct{ C chan int }{}),
		mw("case-variant field names", struct {
			AB int `json:"a_b"`
			Ab int `json:"AB"`
		}{1, 2}),
		uw("case variant", `{"ab":1,"a_B":2}`, zero[struct{ AB int }]()),
		uw("case variant with delimiter (case-insensitive matching on)", `{"a_B":2}`, zero[struct{ AB int }](), jsonv2.MatchCaseInsensitiveNames(true)),
		uw("unknown member", `{"zz":1,"A":2}`, zero[struct{ A int }]()),
		uw("duplicate name", `{"A":1,"A":2}`, zero[struct{ A int }]()),
		uw("duplicate name into any", `{"A":1,"A":2}`, zero[any]()),
		uw("ill-formed string", "{\"S\":\"\xff\"}", zero[struct{ S string }]()),
		uw("merge into populated value", `{"A":null,"L":[{"Y":2}],"P":null}`, func() mergeT {
			p := five
			return mergeT{A: 5, L: []struct{ X, Y int }{{X: 1}, {X: 3}}, P: &p}
		}),
		uw("base64 with line breaks", `{"B":"AQ\r\nI="}`, zero[struct{ B []byte }]()),
		uw("loose RFC 3339 time (one-digit hour)", `{"T":"2000-01-01T1:02:03Z"}`, zero[struct{ T time.Time }]()),
		uw("loose RFC 3339 time (comma fraction)", `{"T":"2000-01-01T01:02:03,5Z"}`, zero[struct{ T time.Time }]()),
		uw("array of the wrong length", `{"A":[1],"B":[1,2,3]}`, zero[struct{ A, B [2]int }]()),
		uw("byte array from array", `{"BA":[1,2]}`, zero[struct{ BA [2]byte }]()),
		uw("byte array from base64", `{"BA":"AQI="}`, zero[struct{ BA [2]byte }]()),
		uw("duration from number", `{"D":1500}`, zero[struct{ D time.Duration }]()),
		uw("named bytes from base64", `{"NB":"AQI="}`, zero[struct{ NB []nb }]()),
		uw("named bytes from array", `{"NB":[1,2]}`, zero[struct{ NB []nb }]()),
		uw("string-tagged bool", `{"B":"true","N":"7"}`, zero[struct {
			B bool `json:",string"`
			N int  `json:",string"`
		}]()),
		uw("quoted number without tag", `{"I":"5"}`, zero[struct{ I int }]()),
		uw("two conversion errors", `{"I":"x","J":2,"K":{}}`, zero[struct{ I, J, K int }]()),
		uw("syntax error after a member", `{"I":1,"J":2,}`, zero[struct{ I, J int }]()),
		{"Format raw value", func(opts ...jsonv2.Options) string {
			v := jsontext.Value(` {"b":"A<","a":[1.0,1e1,0.10],"b":2} `)
			err := v.Format(append(append([]jsonv2.Options{}, opts...), jsontext.AllowDuplicateNames(true))...)
			return fmt.Sprintf("%s|%s", v, errClass(err))
		}},
		{"IsValid", func(opts ...jsonv2.Options) string {
			return fmt.Sprint(jsontext.Value(`{"a":1,"a":2}`).IsValid(opts...), jsontext.Value("\"\xff\"").IsValid(opts...))
		}},
	}
}

// indentStrings: WithIndent / WithIndentPrefix hand back exactly the string they were given, alone, joined and in the output.
func indentStrings(r *evid.Run) {
	var strs []string
	var gen func(cur string)
	gen = func(cur string) {
		strs = append(strs, cur)
		if len(cur) == 6 {
			return
		}
		gen(cur + " ")
		gen(cur + "\t")
	}
	gen("")
	var n int64
	for _, s := range strs {
		for which := 0; which < 2; which++ {
			n++
			var o jsonv2.Options
			var got1, got2 string
			var ok1, ok2 bool
			var want string
			if which == 0 {
				o = jsontext.WithIndent(s)
				got1, ok1 = jsonv2.GetOption(o, jsontext.WithIndent)
				got2, ok2 = jsonv2.GetOption(jsonv2.JoinOptions(jsontext.WithIndentPrefix("\t"), o, jsonv2.Deterministic(true)), jsontext.WithIndent)
				want = "[\n" + s + "1,\n" + s + "[\n" + s + s + "2\n" + s + "]\n]"
			} else {
				o = jsontext.WithIndentPrefix(s)
				got1, ok1 = jsonv2.GetOption(o, jsontext.WithIndentPrefix)
				got2, ok2 = jsonv2.GetOption(jsonv2.JoinOptions(jsontext.WithIndent(" "), o, jsonv2.Deterministic(true)), jsontext.WithIndentPrefix)
				want = "[\n" + s + "\t1,\n" + s + "\t[\n" + s + "\t\t2\n" + s + "\t]\n" + s + "]"
			}
			b, err := jsonv2.Marshal([]any{1, []any{2}}, o)
			if !ok1 || !ok2 || got1 != s || got2 != s || err != nil || string(b) != want {
				name := []string{"WithIndent", "WithIndentPrefix"}[which]
				r.Violation(fmt.Sprintf("c19|indent-string|%s|%q", name, s), fmt.Sprintf("%s(%q): GetOption returns %q (present=%v), after joining %q (present=%v); Marshal writes %q (%v), want %q", name, s, got1, ok1, got2, ok2, b, err, want), Case{Part: "indent-string", Note: fmt.Sprintf("%s(%q)", name, s)}, nil)
			}
		}
	}
	r.Evaluations.Add(n)
	r.Nontrivial.Add(n)
	r.Bound("indent strings: every string of <=6 blanks and tabs (%d) through WithIndent and WithIndentPrefix: GetOption returns it, alone and joined, and Marshal indents with exactly it", len(strs))
}

func witnessLaws(r *evid.Run) {
	ws := witnesses()
	v1, v2 := jsonv1.DefaultOptionsV1(), jsonv2.DefaultOptionsV2()
	witnessed := map[string]int{}
	var n int64
	bad := func(o boolOpt, w witness, law, got, want string) {
		key := fmt.Sprintf("c19|witness|%s|%s|%s", o.name, w.name, law)
		r.Violation(key, fmt.Sprintf("%s, option %s: %s: got %s, want %s", w.name, o.name, law, got, want), Case{Part: "witness", Atoms: []string{o.name}, Note: w.name + " :: " + law}, nil)
	}
	for _, w := range ws {
		w := w
		func() {
			defer func() {
				if p := recover(); p != nil {
					r.Violation("c19|witness-panic|"+w.name, fmt.Sprintf("library panic in %s: %v", w.name, p), Case{Part: "witness", Note: w.name}, nil)
				}
			}()
			base := w.run()
			underV1 := w.run(v1)
			n += 2
			if got := w.run(v2); got != base {
				r.Violation("c19|witness|V2|"+w.name, fmt.Sprintf("%s: DefaultOptionsV2() alone changes the result: %s vs %s", w.name, got, base), Case{Part: "witness", Note: w.name}, nil)
			}
			if got := w.run(v1, v2); got != base {
				r.Violation("c19|witness|V1V2|"+w.name, fmt.Sprintf("%s: DefaultOptionsV1() then DefaultOptionsV2() = %s, plain v2 = %s", w.name, got, base), Case{Part: "witness", Note: w.name}, nil)
			}
			if got := w.run(v2, v1); got != underV1 {
				r.Violation("c19|witness|V2V1|"+w.name, fmt.Sprintf("%s: DefaultOptionsV2() then DefaultOptionsV1() = %s, DefaultOptionsV1() alone = %s", w.name, got, underV1), Case{Part: "witness", Note: w.name}, nil)
			}
			for _, o := range boolOpts {
				t, f := o.ctor(true), o.ctor(false)
				on := w.run(t)
				if on != base {
					witnessed[o.name]++
				}
				check := func(law, got, want string) {
					n++
					if got != want {
						bad(o, w, law, got, want)
					}
				}
				check("w(o(false)) = w()", w.run(f), base)
				check("w(o(true), o(false)) = w()", w.run(t, f), base)
				check("w(o(false), o(true)) = w(o(true))", w.run(f, t), on)
				check("w(JoinOptions(o(true)), o(false)) = w()", w.run(jsonv2.JoinOptions(t), f), base)
				check("w(o(true), JoinOptions(o(false))) = w()", w.run(t, jsonv2.JoinOptions(f)), base)
				check("w(JoinOptions(o(true), o(false))) = w()", w.run(jsonv2.JoinOptions(t, f)), base)
				check("w(JoinOptions(o(true))) = w(o(true))", w.run(jsonv2.JoinOptions(t)), on)
				check("w(DefaultOptionsV2(), o(true)) = w(o(true))", w.run(v2, t), on)
				check("w(DefaultOptionsV2(), JoinOptions(o(false), o(true))) = w(o(true))", w.run(v2, jsonv2.JoinOptions(f, t)), on)
				if o.v1 {
					check("w(o(true), DefaultOptionsV2()) = w()", w.run(t, v2), base)
					check("w(DefaultOptionsV1(), o(true)) = w(DefaultOptionsV1())", w.run(v1, t), underV1)
					check("w(DefaultOptionsV1(), o(false), o(true)) = w(DefaultOptionsV1())", w.run(v1, f, t), underV1)
					check("w(DefaultOptionsV1(), o(false), DefaultOptionsV2()) = w()", w.run(v1, f, v2), base)
				} else {
					check("w(o(true), DefaultOptionsV2()) = w(o(true))", w.run(t, v2), on)
					check("w(DefaultOptionsV1(), o(true), o(false)) = w(DefaultOptionsV1())", w.run(v1, t, f), underV1)
				}
			}
		}()
	}
	var missing []string
	for _, o := range boolOpts {
		if witnessed[o.name] == 0 {
			missing = append(missing, o.name)
		}
	}
	sort.Strings(missing)
	r.Extra("boolean_options_with_a_witness_operation", len(boolOpts)-len(missing))
	r.Extra("boolean_options_without_witness", missing)
	r.Evaluations.Add(n)
	r.Nontrivial.Add(n)
	r.Bound("witness laws: %d operations x %d boolean options x 13 last-wins laws (explicit false = default, an option acts alone as it does after DefaultOptionsV2(), later setter wins in both directions, pre-joined spellings, DefaultOptionsV2 cancels exactly the legacy options, DefaultOptionsV1 already contains them); %d options change the result of at least one operation", len(ws), len(boolOpts), len(boolOpts)-len(missing))
}

// ---- Compact / Indent / Canonicalize are documented as Format with an initial option list followed by the caller's ----

func formatWrappers(r *evid.Run) {
	docs := []string{` {"b" : [1.0, "A<", {"k":null , "j":[]}], "a":{"x":1e1,"x":2}} `, `[1,[2,[3,{"a":[]}]]]`, `"s"`, `{"a":1,"a":2`, "[\"\xff\"]"}
	type wrap struct {
		name string
		init []jsontext.Options
		call func(v *jsontext.Value, opts ...jsontext.Options) error
	}
	wraps := []wrap{
		{"Compact", []jsontext.Options{jsontext.AllowDuplicateNames(true), jsontext.AllowInvalidUTF8(true), jsontext.PreserveRawStrings(true)}, (*jsontext.Value).Compact},
		{"Indent", []jsontext.Options{jsontext.AllowDuplicateNames(true), jsontext.AllowInvalidUTF8(true), jsontext.PreserveRawStrings(true), jsontext.Multiline(true)}, (*jsontext.Value).Indent},
		{"Canonicalize", []jsontext.Options{jsontext.CanonicalizeRawInts(true), jsontext.CanonicalizeRawFloats(true), jsontext.ReorderRawObjects(true)}, (*jsontext.Value).Canonicalize},
	}
	var callerAtoms []atom
	for _, a := range atoms() {
		if _, ok := a.opt.(jsontext.Options); ok || a.opt == nil {
			callerAtoms = append(callerAtoms, a)
		}
	}
	var n int64
	try := func(w wrap, seq []atom) {
		var opts []jsontext.Options
		var names []string
		for _, a := range seq {
			opts = append(opts, a.opt)
			names = append(names, a.name)
		}
		for _, doc := range docs {
			n++
			v1 := jsontext.Value(doc)
			e1 := w.call(&v1, opts...)
			v2 := jsontext.Value(doc)
			e2 := v2.Format(append(append([]jsontext.Options{}, w.init...), opts...)...)
			v3, e3 := jsontext.AppendFormat(nil, []byte(doc), append(append([]jsontext.Options{}, w.init...), opts...)...)
			if (e1 == nil) != (e2 == nil) || string(v1) != string(v2) {
				r.Violation(fmt.Sprintf("c19|wrapper|%s|%v|%s", w.name, names, doc), fmt.Sprintf("Value.%s(%v) on %q gives %q (%v); Format with the documented initial options followed by the same caller options gives %q (%v)", w.name, names, doc, v1, e1, v2, e2), Case{Part: "wrapper", Atoms: names, Note: w.name + " " + doc}, nil)
			}
			if (e3 == nil) != (e2 == nil) || (e2 == nil && string(v3) != string(v2)) {
				r.Violation(fmt.Sprintf("c19|appendformat|%s|%v|%s", w.name, names, doc), fmt.Sprintf("AppendFormat with %v on %q gives %q (%v), Value.Format gives %q (%v)", names, doc, v3, e3, v2, e2), Case{Part: "wrapper", Atoms: names, Note: "AppendFormat " + doc}, nil)
			}
		}
	}
	for _, w := range wraps {
		try(w, nil)
		for _, a := range callerAtoms {
			try(w, []atom{a})
			for _, b := range callerAtoms {
				try(w, []atom{a, b})
			}
		}
	}
	r.Evaluations.Add(n)
	r.Nontrivial.Add(n)
	r.Bound("format wrappers: Value.Compact/Indent/Canonicalize(caller options) == Value.Format(documented initial options ++ caller options) == AppendFormat, for all caller option sequences of length <=2 over %d atoms x %d documents", len(callerAtoms), len(docs))
}

// ---- the last-wins laws over the generated type universe, on chains of two Unmarshal calls ----
//
// The hand-written witnesses cover each option once; the sites where an option is consulted are many (one per
// kind of Go value). Here every type of the universe is decoded twice in a row into the same target (every ordered
// pair of texts taken from its value domain plus null), so that merge/null/zeroing behaviour is observable, and
// the result under {} is compared with the results under each legacy option set explicitly to false, under
// true-then-false, under DefaultOptionsV2 and under DefaultOptionsV1 followed by DefaultOptionsV2.

func universeLaws(r *evid.Run) {
	cfg := typeuniv.Cfg{Depth: 1, NoInvalid: true}
	ts := typeuniv.Universe(cfg)
	v1, v2 := jsonv1.DefaultOptionsV1(), jsonv2.DefaultOptionsV2()
	type variant struct {
		name string
		opts []jsonv2.Options
		like int // index of the variant it must equal
	}
	variants := []variant{{"no options", nil, 0}, {"DefaultOptionsV1()", []jsonv2.Options{v1}, 1}}
	variants = append(variants, variant{"DefaultOptionsV2()", []jsonv2.Options{v2}, 0}, variant{"DefaultOptionsV1(), DefaultOptionsV2()", []jsonv2.Options{v1, v2}, 0},
		variant{"DefaultOptionsV2(), DefaultOptionsV1()", []jsonv2.Options{v2, v1}, 1})
	for _, o := range boolOpts {
		t, f := o.ctor(true), o.ctor(false)
		variants = append(variants, variant{o.name + "(false)", []jsonv2.Options{f}, 0}, variant{o.name + "(true), " + o.name + "(false)", []jsonv2.Options{t, f}, 0})
		if o.v1 {
			variants = append(variants, variant{"DefaultOptionsV1(), " + o.name + "(true)", []jsonv2.Options{v1, t}, 1}, variant{o.name + "(true), DefaultOptionsV2()", []jsonv2.Options{t, v2}, 0})
		}
	}
	var chains atomic.Int64
	enum.Parallel(r, len(ts), func(w *enum.Worker) func(int) {
		var cur Case
		w.Describe = func() any { return cur }
		var n int64
		w.Done = func() { r.Evaluations.Add(n); r.Nontrivial.Add(n) }
		return func(u int) {
			t := ts[u]
			texts := []string{"null"}
			for i, rv := range typeuniv.Domain(t, true) {
				if i >= 4 {
					break
				}
				if b, err := jsonv2.Marshal(rv.Interface(), jsonv2.Deterministic(true)); err == nil {
					texts = append(texts, string(b))
				}
			}
			run := func(a, b string, opts []jsonv2.Options) string {
				defer func() { recover() }()
				p := reflect.New(t)
				e1 := jsonv2.Unmarshal([]byte(a), p.Interface(), opts...)
				e2 := jsonv2.Unmarshal([]byte(b), p.Interface(), opts...)
				out, e3 := jsonv2.Marshal(p.Elem().Interface(), jsonv2.Deterministic(true), jsontext.AllowInvalidUTF8(true))
				return fmt.Sprintf("%s|%v|%v|%v", out, e1 != nil, e2 != nil, e3 != nil)
			}
			for _, a := range texts {
				for _, b := range texts {
					res := make([]string, len(variants))
					for vi, va := range variants {
						n++
						res[vi] = run(a, b, va.opts)
					}
					chains.Add(1)
					for vi, va := range variants {
						if res[vi] != res[va.like] {
							cur = Case{Part: "universe-laws", Note: fmt.Sprintf("%s: %s then %s", typeuniv.Describe(t), a, b), Atoms: []string{va.name}}
							r.Violation(fmt.Sprintf("c19|universe-laws|%s|%s|%s|%s", typeuniv.Describe(t), a, b, va.name), fmt.Sprintf("%s: Unmarshal(%s) then Unmarshal(%s) into one target under {%s} gives %s, under {%s} gives %s", typeuniv.Describe(t), a, b, va.name, res[vi], variants[va.like].name, res[va.like]), cur, nil)
							break
						}
					}
				}
			}
			w.Beat()
		}
	})
	r.Bound("universe laws: %d generated types x every ordered pair of <=5 texts (null and the encodings of 4 domain values) decoded one after the other into one target x %d option spellings (each boolean option false / true-then-false, legacy options on top of DefaultOptionsV1, DefaultOptionsV2 after them): %d chains", len(ts), len(variants), chains.Load())
}

// ---- the caller's option list is only read ----
//
// "Options ... apply only where scoped": a call receives its options as a variadic slice; when the caller passes a
// prefix of a longer list (list[:k]...) the call must leave list[k:] alone, with the process-wide format-tag
// switch off and on (the switch makes every entry point add one option of its own to what it was given).

func callerListUntouched(r *evid.Run) {
	mk := func() []jsonv2.Options {
		return []jsonv2.Options{jsonv2.Deterministic(true), jsonv2.StringifyNumbers(true), jsontext.AllowDuplicateNames(true), jsonv2.FormatNilSliceAsNull(true), jsontext.EscapeForHTML(true), jsonv2.OmitZeroStructFields(true)}
	}
	snap := func(l []jsonv2.Options) string {
		s := ""
		for _, o := range l {
			s += fmt.Sprintf("%T:%v;", o, o)
		}
		return s
	}
	val := map[string]any{"b": 2, "a": []int(nil)}
	calls := []struct {
		name string
		run  func(opts ...jsonv2.Options)
	}{
		{"Marshal", func(opts ...jsonv2.Options) { jsonv2.Marshal(val, opts...) }},
		{"MarshalWrite", func(opts ...jsonv2.Options) { jsonv2.MarshalWrite(new(strings.Builder), val, opts...) }},
		{"MarshalEncode", func(opts ...jsonv2.Options) {
			jsonv2.MarshalEncode(jsontext.NewEncoder(new(strings.Builder)), val, opts...)
		}},
		{"Unmarshal", func(opts ...jsonv2.Options) { var v any; jsonv2.Unmarshal([]byte(`{"a":1}`), &v, opts...) }},
		{"UnmarshalRead", func(opts ...jsonv2.Options) {
			var v any
			jsonv2.UnmarshalRead(strings.NewReader(`{"a":1}`), &v, opts...)
		}},
		{"UnmarshalDecode", func(opts ...jsonv2.Options) {
			var v any
			jsonv2.UnmarshalDecode(jsontext.NewDecoder(strings.NewReader(`{"a":1}`)), &v, opts...)
		}},
	}
	var n int64
	for _, global := range []bool{false, true} {
		jsonv2.ExperimentalGlobalSupportFormatTag(global)
		for _, c := range calls {
			for k := 0; k <= 6; k++ {
				n++
				list := mk()
				before := snap(list)
				func() {
					defer func() { recover() }()
					c.run(list[:k]...)
				}()
				if after := snap(list); after != before {
					r.Violation(fmt.Sprintf("c19|caller-list|%s|%d|%v", c.name, k, global), fmt.Sprintf("%s(list[:%d]...) with the global format-tag switch %v changed the caller's option list: %s -> %s", c.name, k, global, before, after), Case{Part: "caller-list", Note: c.name}, nil)
				}
			}
		}
	}
	jsonv2.ExperimentalGlobalSupportFormatTag(false)
	r.Evaluations.Add(n)
	r.Nontrivial.Add(n)
	r.Bound("caller's option list: 6 entry points x every prefix length of a 6-option list x the process-wide format-tag switch off/on: the elements behind the prefix are unchanged")
}
