// Package c19: options compose as last-wins maps and apply only where scoped.
package c19

import (
	"bytes"
	"encoding/json"
	"errors"
	"fmt"
	"math"
	"reflect"
	"strings"
	"sync/atomic"

	jsonv2 "github.com/go-json-experiment/json"
	"github.com/go-json-experiment/json/jsontext"
	jsonv1 "github.com/go-json-experiment/json/v1"

	"verif/internal/enum"
	"verif/internal/evid"
	"verif/internal/typeuniv"
)

// ---- the reference model: a map from option key to (value, present) ----

type state map[string]any // key -> value; absence = not present

type atom struct {
	name  string
	opt   jsonv2.Options
	apply func(s state)
}

type key struct {
	name string
	get  func(o jsonv2.Options) (any, bool)
}

type boolOpt struct {
	name string
	ctor func(bool) jsonv2.Options
	v1   bool // member of DefaultOptionsV1 / V2
}

func wrapText(f func(bool) jsontext.Options) func(bool) jsonv2.Options {
	return func(b bool) jsonv2.Options { return f(b) }
}

var boolOpts = []boolOpt{
	{"StringifyNumbers", jsonv2.StringifyNumbers, false},
	{"Deterministic", jsonv2.Deterministic, true},
	{"FormatNilSliceAsNull", jsonv2.FormatNilSliceAsNull, true},
	{"FormatNilMapAsNull", jsonv2.FormatNilMapAsNull, true},
	{"OmitZeroStructFields", jsonv2.OmitZeroStructFields, false},
	{"MatchCaseInsensitiveNames", jsonv2.MatchCaseInsensitiveNames, true},
	{"RejectUnknownMembers", jsonv2.RejectUnknownMembers, false},
	{"AllowDuplicateNames", wrapText(jsontext.AllowDuplicateNames), true},
	{"AllowInvalidUTF8", wrapText(jsontext.AllowInvalidUTF8), true},
	{"EscapeForHTML", wrapText(jsontext.EscapeForHTML), true},
	{"EscapeForJS", wrapText(jsontext.EscapeForJS), true},
	{"PreserveRawStrings", wrapText(jsontext.PreserveRawStrings), true},
	{"CanonicalizeRawInts", wrapText(jsontext.CanonicalizeRawInts), false},
	{"CanonicalizeRawFloats", wrapText(jsontext.CanonicalizeRawFloats), false},
	{"ReorderRawObjects", wrapText(jsontext.ReorderRawObjects), false},
	{"SpaceAfterColon", wrapText(jsontext.SpaceAfterColon), false},
	{"SpaceAfterComma", wrapText(jsontext.SpaceAfterComma), false},
	{"Multiline", wrapText(jsontext.Multiline), false},
	{"CallMethodsWithLegacySemantics", jsonv1.CallMethodsWithLegacySemantics, true},
	{"FormatByteArrayAsArray", jsonv1.FormatByteArrayAsArray, true},
	{"FormatBytesWithLegacySemantics", jsonv1.FormatBytesWithLegacySemantics, true},
	{"FormatDurationAsNano", jsonv1.FormatDurationAsNano, true},
	{"MatchCaseSensitiveDelimiter", jsonv1.MatchCaseSensitiveDelimiter, true},
	{"MergeWithLegacySemantics", jsonv1.MergeWithLegacySemantics, true},
	{"OmitEmptyWithLegacySemantics", jsonv1.OmitEmptyWithLegacySemantics, true},
	{"ParseBytesWithLooseRFC4648", jsonv1.ParseBytesWithLooseRFC4648, true},
	{"ParseTimeWithLooseRFC3339", jsonv1.ParseTimeWithLooseRFC3339, true},
	{"ReportErrorsWithLegacySemantics", jsonv1.ReportErrorsWithLegacySemantics, true},
	{"StringifyWithLegacySemantics", jsonv1.StringifyWithLegacySemantics, true},
	{"UnmarshalArrayFromAnyLength", jsonv1.UnmarshalArrayFromAnyLength, true},
}

var (
	mA = jsonv2.MarshalFunc(func(v int8) ([]byte, error) { return []byte(`"mA"`), nil })
	mB = jsonv2.MarshalFunc(func(v int8) ([]byte, error) { return []byte(`"mB"`), nil })
	uA = jsonv2.UnmarshalFunc(func(b []byte, v *int8) error { *v = 11; return nil })
	uB = jsonv2.UnmarshalFunc(func(b []byte, v *int8) error { *v = 22; return nil })
)

func keys() []key {
	var ks []key
	for _, b := range boolOpts {
		b := b
		ks = append(ks, key{b.name, func(o jsonv2.Options) (any, bool) { v, ok := jsonv2.GetOption(o, b.ctor); return v, ok }})
	}
	ks = append(ks,
		key{"Indent", func(o jsonv2.Options) (any, bool) { v, ok := jsonv2.GetOption(o, jsontext.WithIndent); return v, ok }},
		key{"IndentPrefix", func(o jsonv2.Options) (any, bool) {
			v, ok := jsonv2.GetOption(o, jsontext.WithIndentPrefix)
			return v, ok
		}},
		key{"Marshalers", func(o jsonv2.Options) (any, bool) { v, ok := jsonv2.GetOption(o, jsonv2.WithMarshalers); return v, ok }},
		key{"Unmarshalers", func(o jsonv2.Options) (any, bool) {
			v, ok := jsonv2.GetOption(o, jsonv2.WithUnmarshalers)
			return v, ok
		}},
	)
	return ks
}

func atoms() []atom {
	var as []atom
	set := func(k string, v any) func(state) { return func(s state) { s[k] = v } }
	for _, b := range boolOpts {
		as = append(as, atom{b.name + "(true)", b.ctor(true), set(b.name, true)}, atom{b.name + "(false)", b.ctor(false), set(b.name, false)})
	}
	for _, ind := range []string{"", "\t", " "} {
		ind := ind
		as = append(as, atom{fmt.Sprintf("WithIndent(%q)", ind), jsontext.WithIndent(ind), func(s state) { s["Indent"] = ind; s["Multiline"] = true }})
	}
	for _, p := range []string{"", " "} {
		p := p
		as = append(as, atom{fmt.Sprintf("WithIndentPrefix(%q)", p), jsontext.WithIndentPrefix(p), func(s state) { s["IndentPrefix"] = p; s["Multiline"] = true }})
	}
	as = append(as,
		atom{"WithMarshalers(nil)", jsonv2.WithMarshalers(nil), set("Marshalers", (*jsonv2.Marshalers)(nil))},
		atom{"WithMarshalers(A)", jsonv2.WithMarshalers(mA), set("Marshalers", mA)},
		atom{"WithMarshalers(B)", jsonv2.WithMarshalers(mB), set("Marshalers", mB)},
		atom{"WithUnmarshalers(nil)", jsonv2.WithUnmarshalers(nil), set("Unmarshalers", (*jsonv2.Unmarshalers)(nil))},
		atom{"WithUnmarshalers(A)", jsonv2.WithUnmarshalers(uA), set("Unmarshalers", uA)},
		atom{"WithUnmarshalers(B)", jsonv2.WithUnmarshalers(uB), set("Unmarshalers", uB)},
		atom{"DefaultOptionsV1()", jsonv1.DefaultOptionsV1(), func(s state) {
			for _, b := range boolOpts {
				if b.v1 {
					s[b.name] = true
				}
			}
		}},
		atom{"DefaultOptionsV2()", jsonv2.DefaultOptionsV2(), func(s state) {
			for _, b := range boolOpts {
				if b.v1 {
					s[b.name] = false
				}
			}
		}},
		atom{"JoinOptions(Deterministic(true),WithIndent(\" \"))", jsonv2.JoinOptions(jsonv2.Deterministic(true), jsontext.WithIndent(" ")), func(s state) {
			s["Deterministic"] = true
			s["Indent"] = " "
			s["Multiline"] = true
		}},
		atom{"JoinOptions(DefaultOptionsV1(),EscapeForHTML(false))", jsonv2.JoinOptions(jsonv1.DefaultOptionsV1(), jsontext.EscapeForHTML(false)), func(s state) {
			for _, b := range boolOpts {
				if b.v1 {
					s[b.name] = true
				}
			}
			s["EscapeForHTML"] = false
		}},
		atom{"nil", nil, func(s state) {}},
		atom{"JoinOptions()", jsonv2.JoinOptions(), func(s state) {}},
	)
	return as
}

// compare checks GetOption for every key against the model.
func compare(o jsonv2.Options, s state, ks []key) string {
	for _, k := range ks {
		got, ok := k.get(o)
		want, wok := s[k.name]
		if ok != wok {
			return fmt.Sprintf("GetOption(%s) present=%v, last-wins map model says %v", k.name, ok, wok)
		}
		if !ok && got != nil && !reflect.ValueOf(got).IsZero() {
			return fmt.Sprintf("GetOption(%s) reports the option as absent but returns %v, not the zero value", k.name, got)
		}
		if ok && !reflect.DeepEqual(got, want) {
			return fmt.Sprintf("GetOption(%s) = %v, last setter supplied %v", k.name, got, want)
		}
	}
	return ""
}

type Case struct {
	Part  string   `json:"part"`
	Atoms []string `json:"atoms,omitempty"`
	Note  string   `json:"note,omitempty"`
}

// ---- behavioural corpus ----

type corpusT struct {
	N  int            `json:"n"`
	S  string         `json:"s,omitempty"`
	M  map[string]int `json:"m"`
	L  []int          `json:"l"`
	I8 int8           `json:"i8"`
	F  float64        `json:",string"`
	A  any            `json:"a"`
	B  []byte         `json:"b"`
	R  jsontext.Value `json:"r"`
}

func corpusValues() []any {
	return []any{
		corpusT{N: 1, S: "<a> ", M: map[string]int{"b": 2, "a": 1, "c": 3}, L: nil, I8: 5, F: 1.5, A: map[string]any{"z": 1.0, "y": []any{}}, B: []byte{1, 2}, R: jsontext.Value(`{"q": "A"}`)},
		corpusT{},
		map[string]any{"k": []any{1.0, "x", nil}, "j": map[string]any{}},
		[]any{int8(3), "s", 2.5, true},
	}
}

var corpusTexts = []string{
	`{"n":1,"s":"x","m":{"a":1},"l":[1,2],"i8":3,"F":"2.5","a":{"k":[1,null]},"b":"AQI=","r":{"q":1}}`,
	`{"N":2,"unknown":1}`,
	`{"n":1,"n":2}`,
	`{"m":null,"l":null,"a":"text"}`,
	`{"F":"oops"}`,
	`[1,2`,
	`{"i8":300}`,
}

func marshalAll(v any, opts ...jsonv2.Options) string {
	b, err := jsonv2.Marshal(v, opts...)
	return fmt.Sprintf("%s|%v", b, err != nil)
}

func unmarshalAll(text string, opts ...jsonv2.Options) string {
	var t corpusT
	err := jsonv2.Unmarshal([]byte(text), &t, opts...)
	b, _ := jsonv2.Marshal(t, jsonv2.Deterministic(true))
	return fmt.Sprintf("%s|%v", b, err != nil)
}

func optsOf(as []atom) []jsonv2.Options {
	out := make([]jsonv2.Options, len(as))
	for i, a := range as {
		out[i] = a.opt
	}
	return out
}

// checkSeq: algebra and spelling equivalence for one atom sequence.
func checkSeq(seq []atom, ks []key, behaviour bool) (msg string) {
	defer func() {
		if p := recover(); p != nil {
			msg = fmt.Sprintf("library panic: %v", p)
		}
	}()
	s := state{}
	for _, a := range seq {
		a.apply(s)
	}
	os := optsOf(seq)
	joined := jsonv2.JoinOptions(os...)
	if m := compare(joined, s, ks); m != "" {
		return "JoinOptions(all): " + m
	}
	if len(seq) == 1 && os[0] != nil {
		// a single option value queried as it is, without going through JoinOptions
		if m := compare(os[0], s, ks); m != "" {
			return "the option value itself, not joined: " + m
		}
	}
	if len(seq) >= 2 {
		left := jsonv2.JoinOptions(jsonv2.JoinOptions(os[:len(os)-1]...), os[len(os)-1])
		right := jsonv2.JoinOptions(os[0], jsonv2.JoinOptions(os[1:]...))
		if m := compare(left, s, ks); m != "" {
			return "JoinOptions(JoinOptions(a..),z): " + m
		}
		if m := compare(right, s, ks); m != "" {
			return "JoinOptions(a,JoinOptions(..z)): " + m
		}
	}
	if !behaviour {
		return ""
	}
	for _, v := range corpusValues() {
		a := marshalAll(v, append([]jsonv2.Options{jsonv2.Deterministic(true)}, os...)...)
		b := marshalAll(v, jsonv2.Deterministic(true), joined)
		c := marshalAll(v, jsonv2.JoinOptions(jsonv2.Deterministic(true), jsonv2.JoinOptions(os...)))
		// Deterministic may be overridden inside the sequence; map order is then free, so compare only when it stays on
		if det, _ := jsonv2.GetOption(jsonv2.JoinOptions(append([]jsonv2.Options{jsonv2.Deterministic(true)}, os...)...), jsonv2.Deterministic); !det {
			continue
		}
		if a != b || a != c {
			return fmt.Sprintf("Marshal differs between separately passed / joined / nested options: %s / %s / %s", a, b, c)
		}
	}
	for _, text := range corpusTexts {
		a := unmarshalAll(text, os...)
		b := unmarshalAll(text, joined)
		c := unmarshalAll(text, jsonv2.JoinOptions(jsonv2.JoinOptions(os...)))
		if a != b || a != c {
			return fmt.Sprintf("Unmarshal(%s) differs between separately passed / joined / nested options: %s / %s / %s", text, a, b, c)
		}
	}
	return ""
}

// ---- scoping ----

type scopeT struct {
	A int     `json:"a"`
	S int64   `json:",string"`
	F float64 `json:",string"`
	M map[string]scopeT
	L []scopeT
	Z any
}

// scopeInner/scopeOuter: a string-tagged field promoted through an embedded pointer to an unexported struct
// type cannot be allocated by Unmarshal (documented error); the error exit must not leave field-scoped flags behind.
type scopeInner struct {
	S int `json:",string"`
}
type scopeOuter struct {
	A int `json:"a"`
	*scopeInner
}

// scopeF additionally has a format-tagged field (only usable with ExperimentalSupportFormatTag).
type scopeF struct {
	A int    `json:"a"`
	S int64  `json:",string"`
	B []byte `json:",format:base16"`
}

// encode-side values whose marshaling fails inside a member carrying a `string` or `format` tag
type failM struct{}

func (failM) MarshalJSON() ([]byte, error) { return nil, errors.New("failM refuses") }

type scopeFail1 struct {
	A int     `json:"a"`
	F float64 `json:",string"`
}
type scopeFail2 struct {
	X failM `json:",string"`
	A int
}
type scopeFail3 struct {
	A int
	B failM  `json:",format:base16"`
	C []byte `json:",format:base16"`
}
type scopeFail4 struct {
	A  int         `json:",string"`
	In scopeFail1  `json:"in"`
	P  *scopeFail2 `json:",omitzero"`
}

func snapshot(o jsonv2.Options, ks []key) string {
	var sb strings.Builder
	for _, k := range ks {
		v, ok := k.get(o)
		fmt.Fprintf(&sb, "%s=%v/%v;", k.name, v, ok)
	}
	return sb.String()
}

func scoping(r *evid.Run, ks []key) {
	baseSets := [][]jsonv2.Options{nil, {jsontext.AllowDuplicateNames(true)}, {jsonv2.Deterministic(true), jsontext.SpaceAfterComma(true)}, {jsonv1.DefaultOptionsV1()}, {jsonv2.ExperimentalSupportFormatTag(true), jsontext.AllowDuplicateNames(true)}}
	extraSets := [][]jsonv2.Options{nil, {jsonv2.StringifyNumbers(true)}, {jsonv2.RejectUnknownMembers(true), jsonv2.MatchCaseInsensitiveNames(true)}, {jsonv2.FormatNilSliceAsNull(true), jsonv2.OmitZeroStructFields(true)}, {jsonv2.WithMarshalers(mA), jsonv2.WithUnmarshalers(uA)}, {jsonv2.ExperimentalSupportFormatTag(true)},
		// per-call options that the call refuses (whitespace may not change on a caller-owned Encoder; the Allow* options may not
		// change at a name position): the refusal is an error exit like any other
		{jsonv2.StringifyNumbers(true), jsonv2.Deterministic(true), jsontext.SpaceAfterComma(true)}, {jsontext.Multiline(true), jsonv2.StringifyNumbers(true)},
		{jsontext.WithIndent(" "), jsonv2.FormatNilSliceAsNull(true)}, {jsontext.AllowDuplicateNames(true), jsonv2.StringifyNumbers(true)}, {jsontext.AllowInvalidUTF8(true), jsonv2.OmitZeroStructFields(true)},
		{jsontext.SpaceAfterComma(false), jsontext.AllowDuplicateNames(false), jsonv2.Deterministic(true)}}
	// per-call options that cannot change the output of these coders (an indent string without Multiline): never refused
	firstHarmless := len(extraSets)
	extraSets = append(extraSets, []jsonv2.Options{jsontext.WithIndent("  "), jsontext.Multiline(false)}, []jsonv2.Options{jsontext.WithIndentPrefix("\t\t"), jsontext.Multiline(false), jsonv2.StringifyNumbers(true)},
		[]jsonv2.Options{jsontext.Multiline(false)}, []jsonv2.Options{jsontext.WithIndent("\t"), jsontext.WithIndentPrefix(" "), jsontext.Multiline(false), jsonv2.FormatNilSliceAsNull(true)})
	// decode side: documents with an error at every stage (string-tagged fields, nested, format-tagged, unknown members, syntax)
	docs := []string{
		`{"a":1}`, `{"S":"12","F":"1.5"}`, `{"a":1,"S":"1"}`, `{"S":"x"}`, `{"S":12}`, `{"F":"1e999"}`, `{"a":"no"}`, `{"M":{"k":{"S":"bad"}}}`, `{"L":[{"a":1},{"S":"bad"}]}`, `{"M":{"k":{"a":1}},"a":true}`,
		`{"B":"zz"}`, `{"B":"00ff"}`, `{"unknown":{"deep":[1,2,{"x":null}]}}`, `{"a":1,"a":2}`, `{"a":1`, `{"Z":{"k":[1,{"j":"v"}]},"S":"3","a":[]}`, `[1]`,
	}
	var n, nOK, nErr, nEncOK, nEncErr int64
	for bi, base := range baseSets {
		for ei, extra := range extraSets {
			for _, doc := range docs {
				n++
				dec := jsontext.NewDecoder(strings.NewReader(doc+" 123 "+doc), base...)
				before := snapshot(dec.Options(), ks)
				var t scopeT
				var tf scopeF
				var target any = &t
				if ei == 5 {
					target = &tf
				}
				if strings.Contains(doc, `"S":"1"`) && ei%2 == 0 {
					target = new(scopeOuter)
				}
				err := jsonv2.UnmarshalDecode(dec, target, extra...)
				if err != nil {
					nErr++
				} else {
					nOK++
				}
				after := snapshot(dec.Options(), ks)
				if before != after {
					r.Violation(fmt.Sprintf("c19|scope-dec|%d|%d|%s", bi, ei, doc), fmt.Sprintf("Decoder options changed by UnmarshalDecode (err=%v): before %s after %s", err, diffSnap(before, after), ""), Case{Part: "scoping", Note: fmt.Sprintf("UnmarshalDecode(%s) base#%d extra#%d", doc, bi, ei)}, nil)
					continue
				}
				// the decoder keeps working with its own options: the next value must decode as it would on a fresh decoder
				if err == nil {
					var x, y any
					e1 := jsonv2.UnmarshalDecode(dec, &x)
					fresh := jsontext.NewDecoder(strings.NewReader(" 123 "+doc), base...)
					e2 := jsonv2.UnmarshalDecode(fresh, &y)
					if (e1 == nil) != (e2 == nil) || !reflect.DeepEqual(x, y) {
						r.Violation(fmt.Sprintf("c19|scope-dec-next|%d|%d|%s", bi, ei, doc), fmt.Sprintf("value after an UnmarshalDecode with extra options decodes as (%v,%v), fresh decoder gives (%v,%v)", x, e1, y, e2), Case{Part: "scoping", Note: doc}, nil)
					}
				}
			}
			// encode side
			vals := []any{scopeFail1{F: math.NaN()}, scopeFail2{}, scopeFail3{}, scopeFail4{A: 1, In: scopeFail1{F: math.Inf(1)}}, []any{scopeFail2{}}, map[string]any{"k": scopeFail3{}},
				scopeT{A: 1, S: 2, F: 1.5}, scopeT{M: map[string]scopeT{"k": {L: []scopeT{{Z: make(chan int)}}}}}, scopeT{Z: map[string]any{"a": []any{1.0, func() {}}}}, []any{1, "a"}, map[string]any{"\xff": 1}}
			for vi, v := range append(vals, vals[6], vals[9], vals[6], vals[9]) {
				n++
				var bb bytes.Buffer
				enc := jsontext.NewEncoder(&bb, base...)
				if vi >= len(vals) {
					// the same values with the Encoder inside an array / at a member-name position
					enc.WriteToken(jsontext.BeginArray)
					if vi >= len(vals)+2 {
						enc.WriteToken(jsontext.BeginObject)
					}
				}
				before := snapshot(enc.Options(), ks)
				err := jsonv2.MarshalEncode(enc, v, extra...)
				after := snapshot(enc.Options(), ks)
				if before != after {
					r.Violation(fmt.Sprintf("c19|scope-enc|%d|%d|%d", bi, ei, vi), fmt.Sprintf("Encoder options changed by MarshalEncode (err=%v): %s", err, diffSnap(before, after)), Case{Part: "scoping", Note: fmt.Sprintf("MarshalEncode value#%d base#%d extra#%d", vi, bi, ei)}, nil)
				}
				if err != nil {
					nEncErr++
				} else {
					nEncOK++
				}
				// options given per call act like options given up front
				if vi < len(vals) {
					want, werr := jsonv2.Marshal(v, append(append([]jsonv2.Options{}, base...), extra...)...)
					switch {
					case err == nil && (werr != nil || bb.String() != string(want)+"\n"):
						r.Violation(fmt.Sprintf("c19|scope-enc-eq|%d|%d|%d", bi, ei, vi), fmt.Sprintf("MarshalEncode with per-call options wrote %q, Marshal with the same options up front gives %q (%v)", bb.String(), want, werr), Case{Part: "scoping", Note: fmt.Sprintf("MarshalEncode value#%d base#%d extra#%d", vi, bi, ei)}, nil)
					case err != nil && werr == nil && ei >= firstHarmless:
						r.Violation(fmt.Sprintf("c19|scope-enc-refused|%d|%d|%d", bi, ei, vi), fmt.Sprintf("MarshalEncode refuses per-call options that cannot affect the output: %v (Marshal with them up front gives %q)", err, want), Case{Part: "scoping", Note: fmt.Sprintf("MarshalEncode value#%d base#%d extra#%d", vi, bi, ei)}, nil)
					}
				}
			}
		}
	}
	// a snapshot taken with JoinOptions inside a user function must not alias the coder's live options
	for _, single := range []bool{true, false} {
		n++
		var snap jsonv2.Options
		var inside string
		fn := jsonv2.MarshalToFunc(func(e *jsontext.Encoder, v int8) error {
			if single {
				snap = jsonv2.JoinOptions(e.Options())
			} else {
				snap = jsonv2.JoinOptions(e.Options(), nil)
			}
			inside = snapshot(snap, ks)
			return e.WriteToken(jsontext.Int(int64(v)))
		})
		var bb bytes.Buffer
		enc := jsontext.NewEncoder(&bb, jsontext.AllowDuplicateNames(true))
		jsonv2.MarshalEncode(enc, []int8{1}, jsonv2.WithMarshalers(fn), jsonv2.StringifyNumbers(true), jsonv2.Deterministic(true))
		enc.Reset(&bb, jsontext.EscapeForHTML(true))
		if now := snapshot(snap, ks); now != inside {
			r.Violation(fmt.Sprintf("c19|snapshot|%v", single), "an Options value obtained with JoinOptions(enc.Options()) changed after the call returned / the Encoder was reset: "+diffSnap(inside, now), Case{Part: "scoping", Note: "JoinOptions snapshot aliasing"}, nil)
		}
	}
	r.Outcomes(map[string]int64{"scoping: UnmarshalDecode succeeded": nOK, "scoping: UnmarshalDecode failed": nErr, "scoping: MarshalEncode succeeded": nEncOK, "scoping: MarshalEncode failed": nEncErr})
	r.Evaluations.Add(n)
	r.Nontrivial.Add(n)
	r.Bound("scoping: %d coder base option sets x %d per-call option sets x %d documents (errors at every stage: string-/format-tagged fields, nested, unknown, duplicate, syntax) for UnmarshalDecode and 11 values for MarshalEncode (among them string- and format-tagged members whose value fails to marshal, at top level and nested): every option key of the coder identical before and after; a successful MarshalEncode writes what Marshal with the same options up front returns; an indent string without Multiline is never refused; JoinOptions snapshots do not alias live coder options", len(baseSets), len(extraSets), len(docs))
}

func diffSnap(a, b string) string {
	as, bs := strings.Split(a, ";"), strings.Split(b, ";")
	var out []string
	for i := range as {
		if i < len(bs) && as[i] != bs[i] {
			out = append(out, as[i]+" -> "+bs[i])
		}
	}
	return strings.Join(out, ", ")
}

// ---- irrelevance ----

func irrelevance(r *evid.Run) {
	marshalOnly := []jsonv2.Options{jsonv2.Deterministic(true), jsonv2.FormatNilSliceAsNull(true), jsonv2.FormatNilMapAsNull(true), jsonv2.OmitZeroStructFields(true), jsonv2.WithMarshalers(mA),
		jsontext.EscapeForHTML(true), jsontext.EscapeForJS(true), jsontext.PreserveRawStrings(true), jsontext.CanonicalizeRawInts(true), jsontext.CanonicalizeRawFloats(true), jsontext.ReorderRawObjects(true),
		jsontext.SpaceAfterColon(true), jsontext.SpaceAfterComma(true), jsontext.Multiline(true), jsontext.WithIndent("  "), jsontext.WithIndentPrefix(" ")}
	unmarshalOnly := []jsonv2.Options{jsonv2.RejectUnknownMembers(true), jsonv2.WithUnmarshalers(uA)}
	var n int64
	for _, text := range corpusTexts {
		base := unmarshalAll(text)
		for i, o := range marshalOnly {
			n++
			if got := unmarshalAll(text, o); got != base {
				r.Violation(fmt.Sprintf("c19|irrelevant-u|%d|%s", i, text), fmt.Sprintf("a marshal/encode-only option (#%d) changed Unmarshal(%s): %s vs %s", i, text, got, base), Case{Part: "irrelevance", Note: text}, nil)
			}
		}
		// decoder-level: token stream unaffected by encode-only options
		for i, o := range marshalOnly[5:] {
			n++
			d1 := jsontext.NewDecoder(strings.NewReader(text))
			d2 := jsontext.NewDecoder(strings.NewReader(text), o)
			for {
				t1, e1 := d1.ReadToken()
				t2, e2 := d2.ReadToken()
				if (e1 == nil) != (e2 == nil) || (e1 == nil && (t1.Kind() != t2.Kind() || t1.String() != t2.String())) {
					r.Violation(fmt.Sprintf("c19|irrelevant-d|%d|%s", i, text), "an encode-only option changed the Decoder's token stream", Case{Part: "irrelevance", Note: text}, nil)
					break
				}
				if e1 != nil {
					break
				}
			}
		}
		// IsValid ignores everything but the two Allow* options
		for i, o := range append(append([]jsonv2.Options{}, marshalOnly[5:]...), jsonv2.StringifyNumbers(true), jsonv2.RejectUnknownMembers(true)) {
			n++
			if jsontext.Value(text).IsValid() != jsontext.Value(text).IsValid(o) {
				r.Violation(fmt.Sprintf("c19|irrelevant-v|%d|%s", i, text), "an option other than AllowDuplicateNames/AllowInvalidUTF8 changed IsValid", Case{Part: "irrelevance", Note: text}, nil)
			}
		}
	}
	for vi, v := range corpusValues() {
		base := marshalAll(v, jsonv2.Deterministic(true))
		for i, o := range unmarshalOnly {
			n++
			if got := marshalAll(v, jsonv2.Deterministic(true), o); got != base {
				r.Violation(fmt.Sprintf("c19|irrelevant-m|%d|%d", i, vi), fmt.Sprintf("an unmarshal-only option (#%d) changed Marshal: %s vs %s", i, got, base), Case{Part: "irrelevance"}, nil)
			}
		}
	}
	r.Evaluations.Add(n)
	r.Nontrivial.Add(n)
	r.Bound("irrelevance: %d marshal/encode-only options on Unmarshal and the Decoder, %d unmarshal-only options on Marshal, non-Allow* options on IsValid, over the corpus", len(marshalOnly), len(unmarshalOnly))
}

// ---- v1 == v2 + DefaultOptionsV1; DefaultOptionsV2 cancels ----

type v1T struct {
	A    int
	B    []byte
	C    [2]byte
	D    map[string]int `json:",omitempty"`
	E    *int           `json:",omitempty"`
	F    float64        `json:",string"`
	G    any
	name string
}

func v1v2(r *evid.Run, ks []key) {
	var n int64
	one := 1
	vals := []any{v1T{A: 1, B: []byte{1}, C: [2]byte{1, 2}, D: map[string]int{}, E: &one, F: 1.5, G: map[string]any{"b": 1.0, "a": "<x>"}}, v1T{}, map[string]any{"z": nil, "a": []any{}}, []any{nil, " ", 1e21}, "a\xffb", map[int]string{2: "b", 1: "a"}}
	for vi, v := range vals {
		n++
		b1, e1 := jsonv1.Marshal(v)
		b2, e2 := jsonv2.Marshal(v, jsonv1.DefaultOptionsV1())
		if (e1 == nil) != (e2 == nil) || !bytes.Equal(b1, b2) {
			r.Violation(fmt.Sprintf("c19|v1marshal|%d", vi), fmt.Sprintf("v1.Marshal = %s (%v), v2.Marshal with DefaultOptionsV1 = %s (%v)", b1, e1, b2, e2), Case{Part: "v1v2"}, nil)
		}
		b3, e3 := jsonv2.Marshal(v, jsonv1.DefaultOptionsV1(), jsonv2.DefaultOptionsV2(), jsonv2.Deterministic(true))
		b4, e4 := jsonv2.Marshal(v, jsonv2.Deterministic(true))
		if (e3 == nil) != (e4 == nil) || !bytes.Equal(b3, b4) {
			r.Violation(fmt.Sprintf("c19|v2cancel|%d", vi), fmt.Sprintf("Marshal with DefaultOptionsV1 then DefaultOptionsV2 = %s (%v), plain v2 = %s (%v)", b3, e3, b4, e4), Case{Part: "v1v2"}, nil)
		}
	}
	texts := append([]string{`{"a":1,"A":2,"B":"AQ==","C":[1,2],"D":null,"F":"2","G":[1,{"k":null}]}`, `{"C":[1]}`, `{"C":[1,2,3]}`, `{"A":"x","G":1}`, `{"A":1,"A":2}`, "{\"G\":\"\xff\"}"}, corpusTexts...)
	for ti, text := range texts {
		n++
		var t1, t2, t3, t4 v1T
		e1 := jsonv1.Unmarshal([]byte(text), &t1)
		e2 := jsonv2.Unmarshal([]byte(text), &t2, jsonv1.DefaultOptionsV1())
		var se1, se2 *jsontext.SyntacticError
		if (e1 == nil) != (e2 == nil) || (errors.As(e2, &se2) && !reflect.DeepEqual(t1, t2)) || (e1 == nil && !reflect.DeepEqual(t1, t2)) {
			_ = se1
			r.Violation(fmt.Sprintf("c19|v1unmarshal|%d", ti), fmt.Sprintf("v1.Unmarshal(%s) = %+v (%v), v2 with DefaultOptionsV1 = %+v (%v)", text, t1, e1, t2, e2), Case{Part: "v1v2"}, nil)
		}
		e3 := jsonv2.Unmarshal([]byte(text), &t3, jsonv1.DefaultOptionsV1(), jsonv2.DefaultOptionsV2())
		e4 := jsonv2.Unmarshal([]byte(text), &t4)
		if (e3 == nil) != (e4 == nil) || !reflect.DeepEqual(t3, t4) {
			r.Violation(fmt.Sprintf("c19|v2cancel-u|%d", ti), fmt.Sprintf("Unmarshal(%s) with DefaultOptionsV1 then DefaultOptionsV2 = %+v (%v), plain v2 = %+v (%v)", text, t3, e3, t4, e4), Case{Part: "v1v2"}, nil)
		}
	}
	// every v1 option reads (false, true) after V1 then V2
	j := jsonv2.JoinOptions(jsonv1.DefaultOptionsV1(), jsonv2.DefaultOptionsV2())
	for _, b := range boolOpts {
		n++
		v, ok := jsonv2.GetOption(j, b.ctor)
		if b.v1 && (v || !ok) {
			r.Violation("c19|v2cancel-get|"+b.name, fmt.Sprintf("after DefaultOptionsV1 then DefaultOptionsV2, GetOption(%s) = (%v,%v), want (false,true)", b.name, v, ok), Case{Part: "v1v2"}, nil)
		}
		if !b.v1 && ok {
			r.Violation("c19|v2cancel-get|"+b.name, fmt.Sprintf("DefaultOptionsV1/V2 set %s which is not one of the documented legacy options", b.name), Case{Part: "v1v2"}, nil)
		}
	}
	r.Evaluations.Add(n)
	r.Nontrivial.Add(n)
	r.Bound("v1 == v2 + DefaultOptionsV1 on %d values and %d texts; DefaultOptionsV2 cancels every legacy option (GetOption and behaviour)", len(vals), len(texts))
}

// universe: the v1/v2 equalities, DefaultOptionsV2 cancellation and option irrelevance over the generated type universe.
func universe(r *evid.Run) {
	cfg := typeuniv.Cfg{Depth: 1, NoInvalid: true}
	if r.Tier == "thorough" {
		cfg = typeuniv.Cfg{Depth: 2, NoInvalid: true, MaxPerLevel: 60}
	}
	ts := typeuniv.Universe(cfg)
	unmarshalOnly := []jsonv2.Options{jsonv2.RejectUnknownMembers(true), jsonv2.WithUnmarshalers(uA)}
	marshalOnly := []jsonv2.Options{jsonv2.Deterministic(true), jsonv2.FormatNilSliceAsNull(true), jsonv2.FormatNilMapAsNull(true), jsonv2.OmitZeroStructFields(true), jsonv2.WithMarshalers(mA),
		jsontext.EscapeForHTML(true), jsontext.EscapeForJS(true), jsontext.PreserveRawStrings(true), jsontext.CanonicalizeRawInts(true), jsontext.CanonicalizeRawFloats(true), jsontext.ReorderRawObjects(true),
		jsontext.SpaceAfterColon(true), jsontext.SpaceAfterComma(true), jsontext.Multiline(true), jsontext.WithIndent("  "), jsontext.WithIndentPrefix(" ")}
	var same, errs atomic.Int64
	enum.Parallel(r, len(ts), func(w *enum.Worker) func(int) {
		var cur Case
		w.Describe = func() any { return cur }
		var n int64
		w.Done = func() { r.Evaluations.Add(n); r.Nontrivial.Add(n) }
		return func(u int) {
			t := ts[u]
			bad := func(vi int, what string) {
				cs := Case{Part: "universe", Note: fmt.Sprintf("%s value #%d", typeuniv.Describe(t), vi)}
				r.Violation(fmt.Sprintf("c19|universe|%s|%d|%.40s", typeuniv.Describe(t), vi, what), what, cs, nil)
			}
			for vi, rv := range typeuniv.Domain(t, true) {
				cur = Case{Part: "universe", Note: fmt.Sprintf("%s value #%d", typeuniv.Describe(t), vi)}
				v := rv.Interface()
				n++
				b1, e1 := jsonv1.Marshal(v)
				b2, e2 := jsonv2.Marshal(v, jsonv1.DefaultOptionsV1())
				if (e1 == nil) != (e2 == nil) || !bytes.Equal(b1, b2) {
					bad(vi, fmt.Sprintf("v1.Marshal = %s (%v) but v2.Marshal with DefaultOptionsV1 = %s (%v)", b1, e1, b2, e2))
				}
				b3, e3 := jsonv2.Marshal(v, jsonv1.DefaultOptionsV1(), jsonv2.DefaultOptionsV2(), jsonv2.Deterministic(true))
				b4, e4 := jsonv2.Marshal(v, jsonv2.Deterministic(true))
				if (e3 == nil) != (e4 == nil) || !bytes.Equal(b3, b4) {
					bad(vi, fmt.Sprintf("Marshal with DefaultOptionsV1 then DefaultOptionsV2 = %s (%v) but plain v2 = %s (%v)", b3, e3, b4, e4))
				}
				for i, o := range unmarshalOnly {
					if b5, e5 := jsonv2.Marshal(v, jsonv2.Deterministic(true), o); (e5 == nil) != (e4 == nil) || !bytes.Equal(b5, b4) {
						bad(vi, fmt.Sprintf("unmarshal-only option #%d changed Marshal: %s (%v) vs %s (%v)", i, b5, e5, b4, e4))
					}
				}
				if e1 != nil || e4 != nil {
					errs.Add(1)
					continue
				}
				// decode side, on both spellings of the value
				for _, text := range [][]byte{b1, b4} {
					p1, p2, p3, p4 := reflect.New(t), reflect.New(t), reflect.New(t), reflect.New(t)
					u1 := jsonv1.Unmarshal(text, p1.Interface())
					u2 := jsonv2.Unmarshal(text, p2.Interface(), jsonv1.DefaultOptionsV1())
					if (u1 == nil) != (u2 == nil) || (u1 == nil && !reflect.DeepEqual(p1.Elem().Interface(), p2.Elem().Interface())) {
						bad(vi, fmt.Sprintf("v1.Unmarshal(%s) = %v (%v) but v2.Unmarshal with DefaultOptionsV1 = %v (%v)", text, p1.Elem(), u1, p2.Elem(), u2))
					}
					u3 := jsonv2.Unmarshal(text, p3.Interface(), jsonv1.DefaultOptionsV1(), jsonv2.DefaultOptionsV2())
					u4 := jsonv2.Unmarshal(text, p4.Interface())
					if (u3 == nil) != (u4 == nil) || !reflect.DeepEqual(p3.Elem().Interface(), p4.Elem().Interface()) {
						bad(vi, fmt.Sprintf("Unmarshal(%s) with DefaultOptionsV1 then DefaultOptionsV2 = %v (%v) but plain v2 = %v (%v)", text, p3.Elem(), u3, p4.Elem(), u4))
					}
					for i, o := range marshalOnly {
						p5 := reflect.New(t)
						u5 := jsonv2.Unmarshal(text, p5.Interface(), o)
						if (u5 == nil) != (u4 == nil) || !reflect.DeepEqual(p5.Elem().Interface(), p4.Elem().Interface()) {
							bad(vi, fmt.Sprintf("marshal/encode-only option #%d changed Unmarshal(%s): %v (%v) vs %v (%v)", i, text, p5.Elem(), u5, p4.Elem(), u4))
						}
					}
					n += 3
				}
				same.Add(1)
			}
			w.Beat()
		}
	})
	r.Outcomes(map[string]int64{"universe values compared on both sides (marshal succeeded)": same.Load(), "universe values whose marshal fails identically": errs.Load()})
	r.Bound("universe: %d generated types (depth %d) x their value domains: v1.Marshal/Unmarshal == v2 + DefaultOptionsV1, DefaultOptionsV1 followed by DefaultOptionsV2 == plain v2, %d unmarshal-only options never change Marshal, %d marshal/encode-only options never change Unmarshal", len(ts), cfg.Depth, len(unmarshalOnly), len(marshalOnly))
}

func replayCase(cs Case) string {
	if cs.Part != "algebra" {
		return ""
	}
	all := atoms()
	for _, a := range atoms() {
		if a.opt != nil {
			all = append(all, atom{"JoinOptions(" + a.name + ")", jsonv2.JoinOptions(a.opt), a.apply})
		}
	}
	var seq []atom
	for _, n := range cs.Atoms {
		for _, a := range all {
			if a.name == n {
				seq = append(seq, a)
			}
		}
	}
	return checkSeq(seq, keys(), true)
}

func Replay(r *evid.Run, raw json.RawMessage) {
	var cs Case
	if json.Unmarshal(raw, &cs) != nil {
		return
	}
	r.Evaluations.Add(1)
	r.Nontrivial.Add(2)
	r.Sample(cs)
	if msg := replayCase(cs); msg != "" {
		fmt.Println("replay fails:", msg)
		r.Violation("replay", msg, cs, nil)
	} else {
		fmt.Println("replay passes")
	}
}

func Run(r *evid.Run) {
	r.Rule("atoms = every exported option constructor of json, jsontext and v1 with every argument class (30 boolean options x {true,false}, WithIndent x 3, WithIndentPrefix x 2, WithMarshalers/WithUnmarshalers x {nil,A,B}, DefaultOptionsV1, DefaultOptionsV2, nested JoinOptions, nil, empty join). All atom sequences up to length L (full alphabet) and L+1 (sub-alphabet): GetOption (value and presence) of all 34 keys on JoinOptions(seq), on left- and right-nested joins and on a single option value as it is equals a last-wins map model (couplings: WithIndent/WithIndentPrefix imply Multiline; DefaultOptionsV1/V2 set exactly the documented legacy options); on a behaviour subset, Marshal/Unmarshal with the options passed separately, joined and nested agree on an option-sensitive corpus. Irrelevance of encode-only / decode-only options; coder options identical before and after MarshalEncode/UnmarshalDecode with per-call options on success and on every error exit; JoinOptions snapshots do not alias; v1 functions == v2 + DefaultOptionsV1; DefaultOptionsV2 cancels. evaluations = sequences / scenarios; distinct_nontrivial = distinct sequences in which a later atom overrides an earlier one")
	r.Assume("last-wins map model with the documented couplings")
	ks := keys()
	prim := atoms()
	as := append([]atom(nil), prim...)
	// every atom also in pre-joined form: JoinOptions(x) is a different dynamic type (an option struct) and is
	// merged by a different branch of the join than the bare option value
	for _, a := range prim {
		if a.opt != nil {
			as = append(as, atom{"JoinOptions(" + a.name + ")", jsonv2.JoinOptions(a.opt), a.apply})
		}
	}
	full, sub := 2, 3
	if r.Tier == "thorough" {
		full, sub = 3, 5
	}
	// sub-alphabet: first 14 boolean options (true only for odd, both for even) + non-boolean atoms
	var subAlpha []atom
	for i, a := range prim {
		if i >= 60 || (i < 28 && i%4 != 3) {
			subAlpha = append(subAlpha, a)
		}
	}
	for _, a := range as[len(prim):] {
		switch a.name {
		case `JoinOptions(WithIndent(" "))`, "JoinOptions(WithMarshalers(A))", "JoinOptions(WithUnmarshalers(B))", "JoinOptions(Deterministic(false))", "JoinOptions(DefaultOptionsV2())":
			subAlpha = append(subAlpha, a)
		}
	}
	run := func(alpha []atom, length int, behaviourEvery int) {
		k := len(alpha)
		units := k
		if length >= 2 {
			units = k * k
		}
		enum.Parallel(r, units, func(w *enum.Worker) func(int) {
			var cur Case
			w.Describe = func() any { return cur }
			var n, nt int64
			w.Done = func() { r.Evaluations.Add(n); r.Nontrivial.Add(nt) }
			seq := make([]atom, length)
			return func(u int) {
				var rec func(pos int)
				count := 0
				rec = func(pos int) {
					if pos == length {
						n++
						count++
						// override present?
						s := state{}
						over := false
						for _, a := range seq {
							before := len(s)
							a.apply(s)
							if len(s) == before && a.opt != nil {
								over = true
							}
						}
						if over {
							nt++
						}
						names := make([]string, length)
						for i := range seq {
							names[i] = seq[i].name
						}
						cur = Case{Part: "algebra", Atoms: names}
						if m := checkSeq(seq, ks, (u+count)%behaviourEvery == 0); m != "" {
							cs := Case{Part: "algebra", Atoms: append([]string(nil), names...)}
							r.Violation("c19|algebra|"+strings.Join(names, ","), m, cs, func() bool { return replayCase(cs) != "" })
						}
						return
					}
					for i := range alpha {
						seq[pos] = alpha[i]
						rec(pos + 1)
					}
				}
				if length == 1 {
					seq[0] = alpha[u]
					rec(1)
					return
				}
				seq[0], seq[1] = alpha[u/k], alpha[u%k]
				rec(2)
				w.Beat()
			}
		})
		r.Bound("algebra: all %d^%d atom sequences (behavioural spelling equivalence on every %d-th)", k, length, behaviourEvery)
	}
	run(as, 1, 1)
	run(as, full, 7)
	run(subAlpha, sub, 29)
	r.Sample(Case{Part: "algebra", Atoms: []string{"DefaultOptionsV1()", "WithIndent(\" \")", "Multiline(false)"}})
	irrelevance(r)
	witnessLaws(r)
	indentStrings(r)
	formatWrappers(r)
	scoping(r, ks)
	v1v2(r, ks)
	universe(r)
	universeLaws(r)
	callerListUntouched(r)
}
