// Package c14: Unmarshal merges JSON objects into existing values and replaces everything else.
package c14

import (
	"encoding/json"
	"fmt"
	"reflect"
	"sort"
	"strings"
	"sync/atomic"

	jsonv2 "github.com/go-json-experiment/json"
	"github.com/go-json-experiment/json/jsontext"
	jsonv1 "github.com/go-json-experiment/json/v1"

	"verif/internal/enum"
	"verif/internal/evid"
	"verif/internal/refjson"
)

type S2 struct {
	X int
	Y *int
	Z []string
}
type S struct {
	A   int
	B   string
	P   *S2
	M   map[string]int
	L   []int
	I   any
	Arr [2]int
	N   *int
	E   S2
	MS  map[string]S2
	LA  []any
}
type Emb struct {
	S2
	K map[string]*S2
}

type EmbP struct {
	*S2
	Q map[string][]int
}
type Unk struct {
	M map[string]*S2
	U map[string]any `json:",embed"`
}
// fallback maps whose entries are structs / pointers to structs / maps (an entry named again must be merged)
type UnkS struct {
	A int
	U map[string]S2 `json:",embed"`
}
type UnkP struct {
	U map[string]*S2 `json:",embed"`
	B string
}
type UnkM struct {
	A int
	U map[string]map[string]int `json:",embed"`
}
type BA struct {
	A [4]byte
	P *[3]byte
	S []byte
	N [2]int
}
type PL struct {
	L  *[]int
	PM *map[string]int
	PP **map[string]*int
}
type Tagged struct {
	A int            `json:"a,omitzero"`
	B []string       `json:"b,omitempty"`
	C map[string]int `json:"c,omitempty"`
	D *Tagged        `json:"d,omitzero"`
	E float64        `json:"e,string"`
	F bool           `json:"F,case:ignore"`
}

func rootTypes() []reflect.Type {
	return append(rootTypes0(), reflect.TypeOf(UnkS{}), reflect.TypeOf(UnkP{}), reflect.TypeOf(UnkM{}), reflect.TypeOf(BA{}), reflect.TypeOf(map[string][4]byte{}), reflect.TypeOf(EmbP{}), reflect.TypeOf(Unk{}), reflect.TypeOf(PL{}), reflect.TypeOf(Tagged{}),
		reflect.TypeOf(map[string]*map[string]int{}), reflect.TypeOf([2][]int{}), reflect.TypeOf([][2]int{}), reflect.TypeOf(map[string]struct {
			A *int
			B []string
		}{}), reflect.TypeOf([]map[string]*S2{}), reflect.TypeOf(map[string]map[string]map[string]any{}), reflect.TypeOf(&[]*[]any{}),
		reflect.TypeOf([2]any{}), reflect.TypeOf([1]any{}), reflect.TypeOf(map[string][1]any{}), reflect.TypeOf([2]map[string]int{}), reflect.TypeOf([2][]int{}), reflect.TypeOf([2]*S2{}), reflect.TypeOf(struct{ A [2]any }{}), reflect.TypeOf([][1]any{}), reflect.TypeOf([1][1]any{}))
}

func rootTypes0() []reflect.Type {
	return []reflect.Type{
		reflect.TypeOf(S{}), reflect.TypeOf(&S{}), reflect.TypeOf(map[string]S2{}), reflect.TypeOf(map[string]*S2{}), reflect.TypeOf([]S2{}), reflect.TypeOf([]any{}),
		reflect.TypeOf(map[string]any{}), reflect.TypeOf((*any)(nil)).Elem(), reflect.TypeOf([2]S2{}), reflect.TypeOf(map[string][]int{}), reflect.TypeOf(map[string]map[string]int{}),
		reflect.TypeOf([]*S2{}), reflect.TypeOf(Emb{}), reflect.TypeOf(map[int]any{}), reflect.TypeOf(struct{ V any }{}), reflect.TypeOf([]map[string]any{}), reflect.TypeOf(map[string][2]*int{}),
		reflect.TypeOf(struct{ P **S2 }{}), reflect.TypeOf(map[string][]any{}), reflect.TypeOf([][]any{}),
	}
}

// texts generates JSON texts fitting type t.
func texts(t reflect.Type, depth int) []string {
	switch t.Kind() {
	case reflect.Int:
		return []string{"1", "2", "null"}
	case reflect.String:
		return []string{`"a"`, `"b"`, "null", `""`}
	case reflect.Bool:
		return []string{"true", "null"}
	case reflect.Float64:
		return []string{`"1.5"`, `"2"`, "null"} // only used for the string-tagged member
	case reflect.Pointer:
		return texts(t.Elem(), depth)
	case reflect.Interface:
		out := []string{"1", `"s"`, "null", "[1]", `[{"q":1}]`, `{"a":1}`, `{"b":2}`, "[]", "[1,2,3]", `[{"r":2},{"q":3}]`}
		if depth > 0 {
			out = append(out, `{"a":{"x":1}}`, `{"a":{"y":2},"b":3}`, `{"a":{"x":{"p":1}}}`, `{"a":{"x":{"q":2}}}`, `{"a":null}`, `{"a":[1,2]}`)
		}
		return out
	case reflect.Slice, reflect.Array:
		if t.Elem().Kind() == reflect.Uint8 {
			// binary data: strings decoding to 0..5 bytes (shorter, equal and longer than the Go arrays used)
			return []string{"null", `""`, `"AQ=="`, `"AQI="`, `"AQID"`, `"BQYHCA=="`, `"CQoLDA0="`, `"/w=="`}
		}
		out := []string{"null", "[]"}
		if depth <= 0 {
			return append(out, "[1]"[:0])
		}
		e := texts(t.Elem(), depth-1)
		pick := func(i int) string { return e[i%len(e)] }
		out = append(out, "["+pick(0)+"]", "["+pick(0)+","+pick(1)+"]", "["+pick(1)+","+pick(0)+","+pick(3)+"]")
		if len(e) > 5 {
			out = append(out, "["+pick(5)+","+pick(6)+"]", "["+pick(7)+"]")
		}
		// element kinds that could (wrongly) be merged in place: every ordered pair of object-valued elements
		switch ek := t.Elem().Kind(); ek {
		case reflect.Interface, reflect.Struct, reflect.Map, reflect.Pointer:
			var objs []string
			for _, x := range e {
				if strings.HasPrefix(x, "{") && len(objs) < 5 {
					objs = append(objs, x)
				}
			}
			for i := range objs {
				out = append(out, "["+objs[i]+"]")
				for j := range objs {
					if i != j {
						out = append(out, "["+objs[i]+","+objs[j]+"]")
					}
				}
			}
		}
		return out
	case reflect.Map:
		out := []string{"null", "{}"}
		if depth <= 0 {
			return out
		}
		e := texts(t.Elem(), depth-1)
		pick := func(i int) string { return e[i%len(e)] }
		k := func(i int) string {
			if t.Key().Kind() == reflect.Int {
				return fmt.Sprintf(`"%d"`, i)
			}
			return fmt.Sprintf(`"k%d"`, i)
		}
		out = append(out, "{"+k(0)+":"+pick(0)+"}", "{"+k(1)+":"+pick(1)+"}", "{"+k(0)+":"+pick(1)+","+k(2)+":"+pick(0)+"}")
		for i := 3; i < len(e) && i < 9; i++ {
			out = append(out, "{"+k(0)+":"+pick(i)+"}")
		}
		return out
	case reflect.Struct:
		out := []string{"null", "{}", `{"zz":1}`}
		if depth <= 0 {
			return out
		}
		type fld struct {
			name string
			vals []string
		}
		var fs []fld
		var collect func(t reflect.Type)
		collect = func(t reflect.Type) {
			for i := 0; i < t.NumField(); i++ {
				f := t.Field(i)
				if f.Anonymous {
					ft := f.Type
					if ft.Kind() == reflect.Pointer {
						ft = ft.Elem()
					}
					collect(ft)
					continue
				}
				name := f.Name
				if tag, ok := f.Tag.Lookup("json"); ok {
					if n, _, _ := strings.Cut(tag, ","); n != "" {
						name = n
					}
					if strings.Contains(tag, "embed") && f.Type.Kind() == reflect.Map {
						// fallback map for members not matching any field: member names u1, u2 with values fitting the element type
						ev := texts(f.Type.Elem(), depth-1)
						if f.Type.Elem().Kind() == reflect.Interface {
							ev = []string{"1", `{"x":1}`, `{"y":2}`, "null", "[1]", `{"x":{"p":1}}`, `{"x":{"q":2}}`}
						}
						fs = append(fs, fld{"u1", ev}, fld{"u2", ev[len(ev)/2:]})
						continue
					}
				}
				fs = append(fs, fld{name, texts(f.Type, depth-1)})
			}
		}
		collect(t)
		// each field alone with each of its values; then two combinations of all fields
		for _, f := range fs {
			for _, v := range f.vals {
				out = append(out, fmt.Sprintf(`{"%s":%s}`, f.name, v))
			}
		}
		var all1, all2 []string
		for i, f := range fs {
			all1 = append(all1, fmt.Sprintf(`"%s":%s`, f.name, f.vals[0]))
			all2 = append(all2, fmt.Sprintf(`"%s":%s`, f.name, f.vals[(i+1)%len(f.vals)]))
		}
		out = append(out, "{"+strings.Join(all1, ",")+"}", "{"+strings.Join(all2, ",")+`,"zz":2}`)
		return out
	}
	return []string{"null"}
}

// merge computes merge(j1, j2) on value trees: objects union recursively, otherwise the j2 side.
func merge(a, b *refjson.Value) *refjson.Value {
	if a == nil || a.Kind != '{' || b.Kind != '{' {
		return b
	}
	out := &refjson.Value{Kind: '{'}
	idx := map[string]int{}
	for i, n := range a.Names {
		idx[n] = len(out.Names)
		out.Names = append(out.Names, n)
		out.Members = append(out.Members, a.Members[i])
	}
	for i, n := range b.Names {
		if k, ok := idx[n]; ok {
			out.Members[k] = merge(out.Members[k], b.Members[i])
		} else {
			idx[n] = len(out.Names)
			out.Names = append(out.Names, n)
			out.Members = append(out.Members, b.Members[i])
		}
	}
	return out
}

var lawApplied atomic.Int64

type Case struct {
	Type  string   `json:"type"`
	Chain []string `json:"chain"`
}

// checkChain applies the chain sequentially and in merged form.
func checkChain(t reflect.Type, chain []string) (msg string) {
	if msg = checkChainOpts(t, chain, nil); msg != "" {
		return msg
	}
	// spelling the defaults out must change nothing (option plumbing: "specified" is not "true")
	if len(chain) == 2 {
		if msg = checkChainOpts(t, chain, []jsonv2.Options{jsonv2.DefaultOptionsV2()}); msg != "" {
			return "with DefaultOptionsV2() passed explicitly: " + msg
		}
		if msg = checkChainOpts(t, chain, []jsonv2.Options{jsonv1.MergeWithLegacySemantics(false), jsontext.AllowDuplicateNames(false)}); msg != "" {
			return "with MergeWithLegacySemantics(false) passed explicitly: " + msg
		}
		// arrays may take inputs of any length: missing elements are zeroed, also for byte arrays written as strings
		if msg = checkChainOpts(t, chain, []jsonv2.Options{jsonv1.UnmarshalArrayFromAnyLength(true)}); msg != "" {
			return "with UnmarshalArrayFromAnyLength(true): " + msg
		}
	}
	return ""
}

func checkChainOpts(t reflect.Type, chain []string, opts []jsonv2.Options) (msg string) {
	defer func() {
		if p := recover(); p != nil {
			msg = fmt.Sprintf("library panic: %v", p)
		}
	}()
	seq := reflect.New(t)
	var acc *refjson.Value
	for _, j := range chain {
		if err := jsonv2.Unmarshal([]byte(j), seq.Interface(), opts...); err != nil {
			return "" // the law only speaks about chains that succeed
		}
		tr := refjson.Tree([]byte(j), refjson.Opts{})
		if tr == nil {
			return "HARNESS: generated text is invalid: " + j
		}
		acc = merge(acc, tr)
	}
	merged := refjson.Canonicalish(acc)
	one := reflect.New(t)
	if err := jsonv2.Unmarshal(merged, one.Interface(), opts...); err != nil {
		return "" // e.g. an array longer than the Go array after merging is not expressible
	}
	lawApplied.Add(1)
	if !reflect.DeepEqual(seq.Elem().Interface(), one.Elem().Interface()) {
		return fmt.Sprintf("sequential unmarshal gives %s, unmarshal of merge %s gives %s", show(seq.Elem().Interface()), merged, show(one.Elem().Interface()))
	}
	return ""
}

func show(v any) string {
	b, err := jsonv2.Marshal(v, jsonv2.Deterministic(true))
	if err != nil {
		return fmt.Sprintf("%#v", v)
	}
	return string(b)
}

func replayCase(cs Case) string {
	if strings.HasPrefix(cs.Type, "scalar:") {
		var bi, si, oi int
		if n, _ := fmt.Sscanf(cs.Type, "scalar:%d:%d:%d", &bi, &si, &oi); n == 3 && bi < len(scalarBases()) && si < len(scalarShapes(scalarBases()[bi])) && oi < len(scalarOptSets) {
			return scalarOne(bi, si, oi, cs.Chain)
		}
		return ""
	}
	for _, t := range rootTypes() {
		if t.String() == cs.Type {
			return checkChain(t, cs.Chain)
		}
	}
	return ""
}

func Replay(r *evid.Run, raw json.RawMessage) {
	var cs Case
	if json.Unmarshal(raw, &cs) != nil {
		return
	}
	r.Evaluations.Add(1)
	r.Nontrivial.Add(2)
	r.Sample(cs)
	if msg := replayCase(cs); msg != "" {
		fmt.Println("replay fails:", msg)
		r.Violation("replay", msg, cs, nil)
	} else {
		fmt.Println("replay passes")
	}
}

func Run(r *evid.Run) {
	r.Rule("40 merge-capable root types (structs with scalar / pointer / map / slice / array / any / embedded members, maps of structs / pointers / slices / maps / any, slices of structs / pointers / any / maps, arrays, pointer-to-pointer fields, embedded pointers, unknown-member fallback maps, pointers to slices and maps, omit/string/case tags) x texts generated to fit each type (absent, null, every value variant, unknown members, arrays of different lengths, overlapping and disjoint keys, nested objects below any) x ALL ordered pairs (j1, j2) (each also with DefaultOptionsV2() and with MergeWithLegacySemantics(false) spelled out explicitly) and chains of length 3 over a stride (thorough: ALL chains of 3, and chains of 4 over a third of the middle texts): unmarshaling the chain sequentially into one value DeepEquals unmarshaling merge(j1..jk) into a zero value, where merge is computed on reference value trees (objects union recursively, everything else takes the later side); chains where a step fails are outside the law. evaluations = chains executed; distinct_nontrivial = distinct chains in which every step succeeded and at least one object member was merged or replaced")
	r.Assume("reference value tree + the merge definition of the property statement")
	ts := rootTypes()
	depth := 2
	if r.Tier == "thorough" {
		depth = 3
	}
	type unit struct {
		t  int
		j1 int
	}
	all := make([][]string, len(ts))
	var units []unit
	for ti, t := range ts {
		set := map[string]bool{}
		for _, x := range texts(t, depth) {
			if x != "" {
				set[x] = true
			}
		}
		for x := range set {
			all[ti] = append(all[ti], x)
		}
		sort.Strings(all[ti])
		for j := range all[ti] {
			units = append(units, unit{ti, j})
		}
	}
	enum.Parallel(r, len(units), func(w *enum.Worker) func(int) {
		var cur Case
		w.Describe = func() any { return cur }
		var n, nt int64
		w.Done = func() { r.Evaluations.Add(n); r.Nontrivial.Add(nt) }
		run := func(t reflect.Type, chain []string) {
			cur = Case{Type: t.String(), Chain: chain}
			n++
			w.Beat()
			if strings.Count(chain[0], "{")+strings.Count(chain[len(chain)-1], "{") >= 2 {
				nt++
			}
			if m := checkChain(t, chain); m != "" {
				cs := Case{Type: t.String(), Chain: append([]string(nil), chain...)}
				r.Violation(fmt.Sprintf("c14|%s|%s", cs.Type, strings.Join(chain, " >> ")), m, cs, func() bool { return replayCase(cs) != "" })
			}
		}
		return func(u int) {
			un := units[u]
			t, set := ts[un.t], all[un.t]
			j1 := set[un.j1]
			for _, j2 := range set {
				run(t, []string{j1, j2})
			}
			// chains of 3: third element over a stride of the set (quick) or the full set (thorough)
			if r.Tier == "thorough" {
				// every chain of 3, and chains of 4 whose two middle texts run over every third text
				for a := 0; a < len(set); a++ {
					for b := 0; b < len(set); b++ {
						run(t, []string{j1, set[a], set[b]})
						if a%3 == un.j1%3 && b%3 == (un.j1+a)%3 {
							for c := (a + b) % 2; c < len(set); c += 2 {
								run(t, []string{j1, set[a], set[b], set[c]})
							}
						}
					}
				}
			} else {
				stride := 4
				for a := un.j1 % 2; a < len(set); a += stride {
					for b := (un.j1 + a) % 3; b < len(set); b += 3 {
						run(t, []string{j1, set[a], set[b]})
					}
				}
			}
			w.Beat()
		}
	})
	scalarFamily(r)
	r.Outcomes(map[string]int64{"chains where every step succeeded (law compared)": lawApplied.Load()})
	total := 0
	for _, s := range all {
		total += len(s)
	}
	r.Sample(Case{Type: "[]interface {}", Chain: []string{`[{"a":1},{"b":2},{"c":3}]`, `[{"x":1},{"y":2}]`}})
	r.Sample(Case{Type: "interface {}", Chain: []string{`{"a":{"x":1}}`, `{"a":{"y":2}}`}})
	r.Bound("%d root types, %d generated texts in total, all ordered pairs per type plus chains of 3 (thorough: all of them, and chains of 4)", len(ts), total)
}
