package c14

import (
	"fmt"
	"reflect"
	"strings"

	jsonv2 "github.com/go-json-experiment/json"
	jsonv1 "github.com/go-json-experiment/json/v1"

	"verif/internal/evid"
)

// Scalar destinations: a later null zeroes, a later "" / 0 / false replaces, whatever the option spelling and
// wherever the scalar sits (root, struct member plain and `string`-tagged, behind a pointer member, map entry,
// array and slice element).

type namedInt int16
type namedStr string

type scalarShape struct {
	name string
	typ  reflect.Type
	wrap func(string) string
}

func scalarBases() []reflect.Type {
	return []reflect.Type{reflect.TypeOf(int(0)), reflect.TypeOf(int8(0)), reflect.TypeOf(int64(0)), reflect.TypeOf(namedInt(0)), reflect.TypeOf(uint(0)), reflect.TypeOf(uint8(0)), reflect.TypeOf(uint64(0)),
		reflect.TypeOf(float32(0)), reflect.TypeOf(float64(0)), reflect.TypeOf(""), reflect.TypeOf(namedStr("")), reflect.TypeOf(false)}
}

func scalarShapes(b reflect.Type) []scalarShape {
	id := func(s string) string { return s }
	mem := func(s string) string { return `{"V":` + s + `}` }
	out := []scalarShape{
		{"root", b, id},
		{"struct member", reflect.StructOf([]reflect.StructField{{Name: "V", Type: b}, {Name: "W", Type: reflect.TypeOf(0)}}), mem},
		{"pointer member", reflect.StructOf([]reflect.StructField{{Name: "V", Type: reflect.PointerTo(b)}}), mem},
		{"map entry", reflect.MapOf(reflect.TypeOf(""), b), func(s string) string { return `{"k":` + s + `}` }},
		{"array element", reflect.ArrayOf(1, b), func(s string) string { return `[` + s + `]` }},
		{"member of a struct in a map", reflect.MapOf(reflect.TypeOf(""), reflect.PointerTo(reflect.StructOf([]reflect.StructField{{Name: "V", Type: b}}))), func(s string) string { return `{"k":{"V":` + s + `}}` }},
	}
	switch b.Kind() {
	case reflect.String, reflect.Bool:
	default:
		out = append(out, scalarShape{"string-tagged member", reflect.StructOf([]reflect.StructField{{Name: "V", Type: b, Tag: `json:",string"`}}), mem},
			scalarShape{"string-tagged pointer member", reflect.StructOf([]reflect.StructField{{Name: "V", Type: reflect.PointerTo(b), Tag: `json:",string"`}}), mem})
	}
	return out
}

func scalarTexts(b reflect.Type, quoted bool) []string {
	switch b.Kind() {
	case reflect.String:
		return []string{`"a"`, `""`, "null", `"b"`}
	case reflect.Bool:
		return []string{"true", "false", "null"}
	}
	if quoted {
		return []string{`"1"`, `"0"`, "null", `"2"`}
	}
	return []string{"1", "0", "null", "2"}
}

var scalarOptSets = []struct {
	name string
	opts []jsonv2.Options
	num  bool // numbers are written as JSON strings
}{
	{"no options", nil, false},
	{"DefaultOptionsV2()", []jsonv2.Options{jsonv2.DefaultOptionsV2()}, false},
	{"MergeWithLegacySemantics(false)", []jsonv2.Options{jsonv1.MergeWithLegacySemantics(false)}, false},
	{"StringifyNumbers(true)", []jsonv2.Options{jsonv2.StringifyNumbers(true)}, true},
	{"StringifyNumbers(true), DefaultOptionsV2() first", []jsonv2.Options{jsonv2.DefaultOptionsV2(), jsonv2.StringifyNumbers(true)}, true},
}

func scalarOne(bi, si, oi int, chain []string) string {
	b := scalarBases()[bi]
	sh := scalarShapes(b)[si]
	os := scalarOptSets[oi]
	docs := make([]string, len(chain))
	for i, c := range chain {
		docs[i] = sh.wrap(c)
	}
	return checkChainOpts(sh.typ, docs, os.opts)
}

func scalarFamily(r *evid.Run) {
	var n int64
	before := lawApplied.Load()
	bases := scalarBases()
	for bi, b := range bases {
		for si, sh := range scalarShapes(b) {
			for oi, os := range scalarOptSets {
				quoted := os.num || strings.HasPrefix(sh.name, "string-tagged")
				tx := scalarTexts(b, quoted)
				var chains [][]string
				for _, a := range tx {
					for _, c := range tx {
						chains = append(chains, []string{a, c})
						for _, d := range tx {
							chains = append(chains, []string{a, c, d})
						}
					}
				}
				for _, ch := range chains {
					n++
					if m := scalarOne(bi, si, oi, ch); m != "" {
						cs := Case{Type: fmt.Sprintf("scalar:%d:%d:%d", bi, si, oi), Chain: ch}
						r.Violation(fmt.Sprintf("c14|scalar|%v|%s|%s|%s", b, sh.name, os.name, strings.Join(ch, " >> ")), fmt.Sprintf("%v as %s, %s, chain %s: %s", b, sh.name, os.name, strings.Join(ch, " >> "), m), cs, func() bool { return replayCase(cs) != "" })
					}
				}
			}
		}
	}
	r.Evaluations.Add(n)
	r.Nontrivial.Add(lawApplied.Load() - before)
	r.Bound("scalar destinations: %d scalar types (signed, unsigned, named, float, string, bool) x up to 8 positions (root, struct member, pointer member, map entry, array element, member of a struct held in a map, `string`-tagged member and pointer member) x %d option spellings (none, DefaultOptionsV2(), MergeWithLegacySemantics(false), StringifyNumbers(true) alone and after DefaultOptionsV2()) x every chain of 2 and 3 texts over {value, zero value (0 / \"\" / false), null, other value}", len(bases), len(scalarOptSets))
}
