// Package mtypes declares (by generation) named types for every assignment of method receivers to
// the marshal/unmarshal interfaces, all of which log their invocation and then execute the
// behaviour the harness has installed (engine E6 of DESIGN.md). The package state is global:
// checks using it run their cases sequentially.
package mtypes

import (
	"errors"
	"reflect"

	json "github.com/go-json-experiment/json"
	"github.com/go-json-experiment/json/jsontext"
)

//go:generate python3 ../../tools/gen_mtypes.py

// MType describes one generated type.
type MType struct {
	Name   string
	Kind   string // S struct{X int}, T string, M map[string]int, L []int
	Assign string // per method: 0 absent, v value receiver, p pointer receiver
	Type   reflect.Type
	FuncT  func(tag string) *json.Marshalers   // MarshalToFunc on T
	FuncP  func(tag string) *json.Marshalers   // MarshalToFunc on *T
	FuncU  func(tag string) *json.Unmarshalers // UnmarshalFromFunc on *T
}

// Call is one logged method invocation.
type Call struct {
	Type    string
	Method  string
	PtrRecv bool
	NilRecv bool
}

// Log collects the invocations of the current case.
var Log []Call

// ErrUser is the error returned by scripts that fail.
var ErrUser = errors.New("user error")

// Op is one coder operation of a script.
type Op struct {
	Tok   jsontext.Token // WriteToken if Raw == nil
	Raw   jsontext.Value // WriteValue
	Label string
	Read  byte // decoder side: 'T' ReadToken, 'V' ReadValue, 'S' SkipValue
	// Delegate: call json.MarshalEncode(e, Inner{}) / json.UnmarshalDecode(d, &Inner{}), i.e. a nested user call
	Delegate bool
	// Via selects what the nested call is handled by: 0 = Inner's own MarshalJSONTo / UnmarshalJSONFrom method,
	// 'f' = a caller-supplied function for InnerFn (InnerFuncs must be among the call's options),
	// 'j' = InnerJ's MarshalJSON / UnmarshalJSON method, 'p' = no user code at all (a plain string)
	Via byte
}

// Inner is a value whose own MarshalJSONTo / UnmarshalJSONFrom handles exactly one value.
type Inner struct{}

func (Inner) MarshalJSONTo(e *jsontext.Encoder) error      { return e.WriteToken(jsontext.String("inner")) }
func (*Inner) UnmarshalJSONFrom(d *jsontext.Decoder) error { return d.SkipValue() }

// InnerFn has no methods: it is handled by the functions of InnerMarshalers / InnerUnmarshalers.
type InnerFn struct{}

// InnerJ uses the []byte-based methods.
type InnerJ struct{}

func (InnerJ) MarshalJSON() ([]byte, error) { return []byte(`"inner"`), nil }
func (*InnerJ) UnmarshalJSON([]byte) error  { return nil }

// InnerMarshalers / InnerUnmarshalers handle InnerFn through coder-taking functions.
var InnerMarshalers = json.MarshalToFunc(func(e *jsontext.Encoder, _ InnerFn) error { return e.WriteToken(jsontext.String("inner")) })
var InnerUnmarshalers = json.UnmarshalFromFunc(func(d *jsontext.Decoder, _ *InnerFn) error { return d.SkipValue() })

// Script is the behaviour of a coder-taking method or function.
type Script struct {
	Ops          []Op
	Ret          int  // 0 nil, 1 ErrUser, 2 errors.ErrUnsupported
	IgnoreErrors bool // continue after a failed coder call instead of returning its error
	CoderErr     error
}

// Behaviour installed by the harness.
var (
	ToScript    *Script                      // MarshalJSONTo / UnmarshalJSONFrom
	JSONOut     func() ([]byte, error)       // MarshalJSON
	TextOut     func() ([]byte, error)       // MarshalText
	AppendOut   func([]byte) ([]byte, error) // AppendText
	FromScript  *Script
	JSONIn      func([]byte) error
	TextIn      func([]byte) error
	InsideTo    func(e *jsontext.Encoder) // optional probe executed inside MarshalJSONTo before the script
	InsideFrom  func(d *jsontext.Decoder)
	FuncScripts map[string]*Script // behaviour of caller-supplied functions by tag; default: write/read one value
)

// Reset installs the default behaviours: every method produces a distinguishable valid string.
func Reset() {
	Log = Log[:0]
	ToScript = &Script{Ops: []Op{{Tok: jsontext.String("To"), Label: `"To"`}}}
	JSONOut = func() ([]byte, error) { return []byte(`"JSON"`), nil }
	TextOut = func() ([]byte, error) { return []byte("Text"), nil }
	AppendOut = func(b []byte) ([]byte, error) { return append(b, "Append"...), nil }
	FromScript = &Script{Ops: []Op{{Read: 'V'}}}
	JSONIn = func([]byte) error { return nil }
	TextIn = func([]byte) error { return nil }
	InsideTo, InsideFrom = nil, nil
	FuncScripts = map[string]*Script{}
}

// RunEnc executes a script against an Encoder.
func (s *Script) RunEnc(e *jsontext.Encoder) error {
	s.CoderErr = nil
	for _, op := range s.Ops {
		var err error
		if op.Delegate {
			switch op.Via {
			case 'f':
				err = json.MarshalEncode(e, InnerFn{})
			case 'j':
				err = json.MarshalEncode(e, InnerJ{})
			case 'p':
				err = json.MarshalEncode(e, "inner")
			default:
				err = json.MarshalEncode(e, Inner{})
			}
		} else if op.Raw != nil {
			err = e.WriteValue(op.Raw)
		} else {
			err = e.WriteToken(op.Tok)
		}
		if err != nil {
			if s.CoderErr == nil {
				s.CoderErr = err
			}
			if !s.IgnoreErrors {
				return err
			}
		}
	}
	return s.ret()
}

// RunDec executes a script against a Decoder.
func (s *Script) RunDec(d *jsontext.Decoder) error {
	s.CoderErr = nil
	for _, op := range s.Ops {
		var err error
		if op.Delegate {
			switch op.Via {
			case 'f':
				err = json.UnmarshalDecode(d, new(InnerFn))
			case 'j':
				err = json.UnmarshalDecode(d, new(InnerJ))
			case 'p':
				err = json.UnmarshalDecode(d, new(any))
			default:
				err = json.UnmarshalDecode(d, new(Inner))
			}
		}
		switch op.Read {
		case 'T':
			_, err = d.ReadToken()
		case 'V':
			_, err = d.ReadValue()
		case 'S':
			err = d.SkipValue()
		}
		if err != nil {
			if s.CoderErr == nil {
				s.CoderErr = err
			}
			if !s.IgnoreErrors {
				return err
			}
		}
	}
	return s.ret()
}

func (s *Script) ret() error {
	switch s.Ret {
	case 1:
		return ErrUser
	case 2:
		return errors.ErrUnsupported
	}
	return nil
}

func doTo(name string, ptr, isNil bool, e *jsontext.Encoder) error {
	Log = append(Log, Call{name, "MarshalJSONTo", ptr, isNil})
	if InsideTo != nil {
		InsideTo(e)
	}
	return ToScript.RunEnc(e)
}
func doJSON(name string, ptr, isNil bool) ([]byte, error) {
	Log = append(Log, Call{name, "MarshalJSON", ptr, isNil})
	return JSONOut()
}
func doAppend(name string, ptr, isNil bool, b []byte) ([]byte, error) {
	Log = append(Log, Call{name, "AppendText", ptr, isNil})
	return AppendOut(b)
}
func doText(name string, ptr, isNil bool) ([]byte, error) {
	Log = append(Log, Call{name, "MarshalText", ptr, isNil})
	return TextOut()
}
func undoFrom(name string, ptr, isNil bool, d *jsontext.Decoder) error {
	Log = append(Log, Call{name, "UnmarshalJSONFrom", ptr, isNil})
	if InsideFrom != nil {
		InsideFrom(d)
	}
	return FromScript.RunDec(d)
}
func undoJSON(name string, ptr, isNil bool, b []byte) error {
	Log = append(Log, Call{name, "UnmarshalJSON", ptr, isNil})
	return JSONIn(b)
}
func undoText(name string, ptr, isNil bool, b []byte) error {
	Log = append(Log, Call{name, "UnmarshalText", ptr, isNil})
	return TextIn(b)
}

func doFunc(tag string, e *jsontext.Encoder) error {
	Log = append(Log, Call{tag, "MarshalToFunc", false, false})
	if s := FuncScripts[tag]; s != nil {
		return s.RunEnc(e)
	}
	return e.WriteToken(jsontext.String(tag))
}

func undoFunc(tag string, d *jsontext.Decoder) error {
	Log = append(Log, Call{tag, "UnmarshalFromFunc", false, false})
	if s := FuncScripts[tag]; s != nil {
		return s.RunDec(d)
	}
	_, err := d.ReadValue()
	return err
}
