// Package c17: user-defined (un)marshalers are dispatched and policed as documented.
package c17

import (
	"bytes"
	"encoding/json"
	"errors"
	"fmt"
	"reflect"
	"strings"

	jsonv2 "github.com/go-json-experiment/json"
	"github.com/go-json-experiment/json/jsontext"

	"verif/internal/evid"
	"verif/internal/refjson"
	"verif/props/mtypes"
)

type Case struct {
	Part     string   `json:"part"`
	Type     string   `json:"type"`
	Position string   `json:"position"`
	Funcs    string   `json:"funcs,omitempty"`
	Script   []string `json:"script,omitempty"`
	Ret      int      `json:"ret,omitempty"`
	Ignore   bool     `json:"ignore_errors,omitempty"`
	Carrier  string   `json:"carrier,omitempty"`
	Input    string   `json:"input,omitempty"`
}

var defaultRep = map[string]string{"S": `{"X":0}`, "T": `""`, "M": `{}`, "L": `[]`}

// position describes where a value of the type under test sits.
type position struct {
	name    string
	keyOnly bool // needs a comparable type
	// build returns the Go value to marshal; v is a fresh addressable zero value of the type.
	build func(t reflect.Type) any
	embed func(rep string) string // expected JSON around the representation
	null  bool                    // the position holds a nil pointer: output null, no calls
	isKey bool
}

func st(fields ...reflect.StructField) reflect.Type { return reflect.StructOf(fields) }

func positions() []position {
	return []position{
		{name: "top-level value", build: func(t reflect.Type) any { return reflect.New(t).Elem().Interface() }, embed: func(r string) string { return r }},
		{name: "top-level pointer", build: func(t reflect.Type) any { return reflect.New(t).Interface() }, embed: func(r string) string { return r }},
		{name: "nil pointer", null: true, build: func(t reflect.Type) any { return reflect.Zero(reflect.PointerTo(t)).Interface() }, embed: func(r string) string { return "null" }},
		{name: "field of addressable struct", build: func(t reflect.Type) any {
			return reflect.New(st(reflect.StructField{Name: "F", Type: t})).Interface()
		}, embed: func(r string) string { return `{"F":` + r + `}` }},
		{name: "field of non-addressable struct", build: func(t reflect.Type) any {
			return reflect.New(st(reflect.StructField{Name: "F", Type: t})).Elem().Interface()
		}, embed: func(r string) string { return `{"F":` + r + `}` }},
		{name: "slice element", build: func(t reflect.Type) any {
			return reflect.MakeSlice(reflect.SliceOf(t), 1, 1).Interface()
		}, embed: func(r string) string { return `[` + r + `]` }},
		{name: "element of non-addressable array", build: func(t reflect.Type) any {
			return reflect.New(reflect.ArrayOf(1, t)).Elem().Interface()
		}, embed: func(r string) string { return `[` + r + `]` }},
		{name: "element of addressable array", build: func(t reflect.Type) any {
			return reflect.New(reflect.ArrayOf(1, t)).Interface()
		}, embed: func(r string) string { return `[` + r + `]` }},
		{name: "map value", build: func(t reflect.Type) any {
			m := reflect.MakeMap(reflect.MapOf(reflect.TypeOf(""), t))
			m.SetMapIndex(reflect.ValueOf("k"), reflect.Zero(t))
			return m.Interface()
		}, embed: func(r string) string { return `{"k":` + r + `}` }},
		{name: "map key", keyOnly: true, isKey: true, build: func(t reflect.Type) any {
			m := reflect.MakeMap(reflect.MapOf(t, reflect.TypeOf(0)))
			m.SetMapIndex(reflect.Zero(t), reflect.ValueOf(1))
			return m.Interface()
		}, embed: func(r string) string { return `{` + r + `:1}` }},
		{name: "inside interface field", build: func(t reflect.Type) any {
			s := reflect.New(st(reflect.StructField{Name: "F", Type: reflect.TypeOf((*any)(nil)).Elem()})).Elem()
			s.Field(0).Set(reflect.Zero(t))
			return s.Interface()
		}, embed: func(r string) string { return `{"F":` + r + `}` }},
		{name: "pointer to pointer", build: func(t reflect.Type) any {
			p := reflect.New(t)
			pp := reflect.New(p.Type())
			pp.Elem().Set(p)
			return pp.Interface()
		}, embed: func(r string) string { return r }},
		{name: "non-nil pointer field", build: func(t reflect.Type) any {
			s := reflect.New(st(reflect.StructField{Name: "F", Type: reflect.PointerTo(t)})).Elem()
			s.Field(0).Set(reflect.New(t))
			return s.Interface()
		}, embed: func(r string) string { return `{"F":` + r + `}` }},
		{name: "nil pointer field", null: true, build: func(t reflect.Type) any {
			return reflect.New(st(reflect.StructField{Name: "F", Type: reflect.PointerTo(t)})).Elem().Interface()
		}, embed: func(r string) string { return `{"F":null}` }},
	}
}

// funcList describes a caller-supplied function list and its expected effect.
type funcList struct {
	name  string
	build func(mt *mtypes.MType) *jsonv2.Marshalers
	// calls: the function tags invoked in order; winner: tag whose output is used ("" = none, fall through to methods)
	calls  []string
	winner string
	setup  func()
}

func unsupported(tags ...string) func() {
	return func() {
		for _, t := range tags {
			mtypes.FuncScripts[t] = &mtypes.Script{Ret: 2}
		}
	}
}

func funcLists() []funcList {
	return []funcList{
		{name: "none", build: func(mt *mtypes.MType) *jsonv2.Marshalers { return nil }},
		{name: "func on T", build: func(mt *mtypes.MType) *jsonv2.Marshalers { return mt.FuncT("F1") }, calls: []string{"F1"}, winner: "F1"},
		{name: "func on *T", build: func(mt *mtypes.MType) *jsonv2.Marshalers { return mt.FuncP("F1") }, calls: []string{"F1"}, winner: "F1"},
		{name: "first unsupported, second on *T", build: func(mt *mtypes.MType) *jsonv2.Marshalers {
			return jsonv2.JoinMarshalers(mt.FuncT("F1"), mt.FuncP("F2"))
		}, calls: []string{"F1", "F2"}, winner: "F2", setup: unsupported("F1")},
		{name: "nested joins, all unsupported", build: func(mt *mtypes.MType) *jsonv2.Marshalers {
			return jsonv2.JoinMarshalers(jsonv2.JoinMarshalers(mt.FuncP("F1")), nil, jsonv2.JoinMarshalers(mt.FuncT("F2"), mt.FuncT("F3")))
		}, calls: []string{"F1", "F2", "F3"}, winner: "", setup: unsupported("F1", "F2", "F3")},
		{name: "two on T, first wins", build: func(mt *mtypes.MType) *jsonv2.Marshalers {
			return jsonv2.JoinMarshalers(jsonv2.JoinMarshalers(mt.FuncT("F1"), mt.FuncP("F2")))
		}, calls: []string{"F1"}, winner: "F1"},
	}
}

// expectMarshal computes, from the documentation, the method calls and the representation used.
func expectMarshal(mt *mtypes.MType, fl *funcList, toUnsupported bool) (calls []mtypes.Call, rep string) {
	for _, tag := range fl.calls {
		calls = append(calls, mtypes.Call{Type: tag, Method: "MarshalToFunc"})
	}
	if fl.winner != "" {
		return calls, `"` + fl.winner + `"`
	}
	methods := []string{"MarshalJSONTo", "MarshalJSON", "AppendText", "MarshalText"}
	reps := []string{`"To"`, `"JSON"`, `"Append"`, `"Text"`}
	for i, m := range methods {
		if mt.Assign[i] == '0' {
			continue
		}
		calls = append(calls, mtypes.Call{Type: mt.Name, Method: m, PtrRecv: mt.Assign[i] == 'p'})
		if i == 0 && toUnsupported {
			continue // an untouched ErrUnsupported from MarshalJSONTo falls through
		}
		return calls, reps[i]
	}
	return calls, defaultRep[mt.Kind]
}

func marshalDispatch(r *evid.Run) {
	poss := positions()
	fls := funcLists()
	var n int64
	for ti := range mtypes.MTypes {
		mt := &mtypes.MTypes[ti]
		for pi := range poss {
			pos := &poss[pi]
			if pos.keyOnly && (mt.Kind == "M" || mt.Kind == "L") {
				continue
			}
			for fi := range fls {
				for _, toUnsup := range []bool{false, true} {
					if toUnsup && mt.Assign[0] == '0' {
						continue
					}
					n++
					cs := Case{Part: "marshal-dispatch", Type: mt.Name, Position: pos.name, Funcs: fls[fi].name, Ret: map[bool]int{true: 2}[toUnsup]}
					if msg := marshalDispatchOne(mt, pos, &fls[fi], toUnsup); msg != "" {
						r.Violation(fmt.Sprintf("c17|md|%s|%s|%s|%v", mt.Name, pos.name, fls[fi].name, toUnsup), msg, cs, func() bool { return replayCase(cs) != "" })
					}
				}
			}
		}
	}
	r.Evaluations.Add(n)
	r.Nontrivial.Add(n)
	r.Sample(Case{Part: "marshal-dispatch", Type: "MS_pv0p", Position: "field of non-addressable struct", Funcs: "first unsupported, second on *T"})
	r.Bound("marshal dispatch: %d method types (3^4 receiver assignments x 4 kinds) x %d positions x %d caller function lists x MarshalJSONTo answering / returning ErrUnsupported untouched", len(mtypes.MTypes), len(poss), len(fls))
}

func marshalDispatchOne(mt *mtypes.MType, pos *position, fl *funcList, toUnsup bool) (msg string) {
	defer func() {
		if p := recover(); p != nil {
			msg = fmt.Sprintf("library panic: %v", p)
		}
	}()
	mtypes.Reset()
	if fl.setup != nil {
		fl.setup()
	}
	if toUnsup {
		mtypes.ToScript = &mtypes.Script{Ret: 2}
	}
	v := pos.build(mt.Type)
	var opts []jsonv2.Options
	if ms := fl.build(mt); ms != nil {
		opts = append(opts, jsonv2.WithMarshalers(ms))
	}
	got, err := jsonv2.Marshal(v, opts...)
	log := append([]mtypes.Call(nil), mtypes.Log...)
	if pos.null {
		if err != nil || string(got) != pos.embed("") || len(log) != 0 {
			return fmt.Sprintf("nil pointer: got %q err=%v calls=%v; want null and no method or function call", got, err, log)
		}
		return ""
	}
	wantCalls, rep := expectMarshal(mt, fl, toUnsup)
	if pos.isKey && !strings.HasPrefix(rep, `"`) {
		// the key does not encode as a JSON string: an error is required
		if err == nil {
			return fmt.Sprintf("map key encoded as non-string accepted: %q", got)
		}
		return ""
	}
	if err != nil {
		return fmt.Sprintf("unexpected error %v (calls %v)", err, log)
	}
	if want := pos.embed(rep); string(got) != want {
		return fmt.Sprintf("output %q, documented dispatch gives %q (calls %v)", got, want, log)
	}
	for _, c := range log {
		if c.NilRecv {
			return fmt.Sprintf("method %s called on a nil pointer", c.Method)
		}
	}
	if !reflect.DeepEqual(log, wantCalls) {
		return fmt.Sprintf("calls %v, documented order gives %v", log, wantCalls)
	}
	// the same caller function list passed in other spellings (next to pre-joined option sets that carry
	// unrelated non-boolean options) must dispatch identically
	if len(opts) == 1 {
		for si, sh := range optionShapes(opts[0], false) {
			mtypes.Reset()
			if fl.setup != nil {
				fl.setup()
			}
			if toUnsup {
				mtypes.ToScript = &mtypes.Script{Ret: 2}
			}
			got2, err2 := jsonv2.Marshal(pos.build(mt.Type), sh...)
			if err2 != nil || string(got2) != string(got) || !reflect.DeepEqual(append([]mtypes.Call(nil), mtypes.Log...), log) {
				return fmt.Sprintf("option spelling #%d of the same function list: output %q err=%v calls %v; passed alone: %q calls %v", si+1, got2, err2, mtypes.Log, got, log)
			}
		}
	}
	return ""
}

// optionShapes returns other spellings of passing the single option o: followed / preceded by a pre-joined
// option set holding an unrelated non-boolean option, pre-joined itself, next to a boolean-only joined set.
func optionShapes(o jsonv2.Options, unmarshal bool) [][]jsonv2.Options {
	var other jsonv2.Options = jsonv2.WithUnmarshalers(jsonv2.UnmarshalFunc(func([]byte, *chan int) error { return nil }))
	if unmarshal {
		other = jsonv2.WithMarshalers(jsonv2.MarshalFunc(func(chan int) ([]byte, error) { return nil, nil }))
	}
	return [][]jsonv2.Options{
		{o, jsonv2.JoinOptions(other)},
		{jsonv2.JoinOptions(other), o},
		{jsonv2.JoinOptions(o)},
		{o, jsonv2.JoinOptions(jsonv2.RejectUnknownMembers(false), jsonv2.FormatNilSliceAsNull(false))},
		{jsonv2.JoinOptions(o, other), jsonv2.JoinOptions(other)},
	}
}

// ---- unmarshal dispatch ----

func unmarshalDispatch(r *evid.Run) {
	var n int64
	type upos struct {
		name  string
		build func(t reflect.Type) (ptr any)
		embed func(in string) string
	}
	uposs := []upos{
		{"top-level", func(t reflect.Type) any { return reflect.New(t).Interface() }, func(in string) string { return in }},
		{"struct field", func(t reflect.Type) any { return reflect.New(st(reflect.StructField{Name: "F", Type: t})).Interface() }, func(in string) string { return `{"F":` + in + `}` }},
		{"slice element", func(t reflect.Type) any { return reflect.New(reflect.SliceOf(t)).Interface() }, func(in string) string { return `[` + in + `]` }},
		{"map value", func(t reflect.Type) any { return reflect.New(reflect.MapOf(reflect.TypeOf(""), t)).Interface() }, func(in string) string { return `{"k":` + in + `}` }},
		{"pointer field", func(t reflect.Type) any {
			return reflect.New(st(reflect.StructField{Name: "F", Type: reflect.PointerTo(t)})).Interface()
		}, func(in string) string { return `{"F":` + in + `}` }},
		{"array element", func(t reflect.Type) any { return reflect.New(reflect.ArrayOf(1, t)).Interface() }, func(in string) string { return `[` + in + `]` }},
		{"inside interface holding *T", func(t reflect.Type) any {
			var a any = reflect.New(t).Interface()
			return &a
		}, func(in string) string { return in }},
	}
	natural := map[string]string{"S": `{"X":1}`, "T": `"in"`, "M": `{"a":1}`, "L": `[1]`}
	for ti := range mtypes.UTypes {
		mt := &mtypes.UTypes[ti]
		for _, up := range uposs {
			for _, fl := range []string{"none", "func on *T", "func unsupported"} {
				for _, fromUnsup := range []bool{false, true} {
					if fromUnsup && mt.Assign[0] == '0' {
						continue
					}
					n++
					cs := Case{Part: "unmarshal-dispatch", Type: mt.Name, Position: up.name, Funcs: fl, Ret: map[bool]int{true: 2}[fromUnsup]}
					one := func() (msg string) {
						defer func() {
							if p := recover(); p != nil {
								msg = fmt.Sprintf("library panic: %v", p)
							}
						}()
						mtypes.Reset()
						var opts []jsonv2.Options
						var want []mtypes.Call
						done := false
						switch fl {
						case "func on *T":
							opts = append(opts, jsonv2.WithUnmarshalers(mt.FuncU("F1")))
							want = append(want, mtypes.Call{Type: "F1", Method: "UnmarshalFromFunc"})
							done = true
						case "func unsupported":
							opts = append(opts, jsonv2.WithUnmarshalers(jsonv2.JoinUnmarshalers(mt.FuncU("F1"), mt.FuncU("F2"))))
							mtypes.FuncScripts["F1"] = &mtypes.Script{Ret: 2}
							mtypes.FuncScripts["F2"] = &mtypes.Script{Ret: 2}
							want = append(want, mtypes.Call{Type: "F1", Method: "UnmarshalFromFunc"}, mtypes.Call{Type: "F2", Method: "UnmarshalFromFunc"})
						}
						if fromUnsup {
							mtypes.FromScript = &mtypes.Script{Ret: 2}
						}
						in := natural[mt.Kind]
						if !done {
							for i, m := range []string{"UnmarshalJSONFrom", "UnmarshalJSON", "UnmarshalText"} {
								if mt.Assign[i] == '0' {
									continue
								}
								want = append(want, mtypes.Call{Type: mt.Name, Method: m, PtrRecv: mt.Assign[i] == 'p'})
								if i == 0 && fromUnsup {
									continue
								}
								if i == 2 {
									in = `"in"` // text unmarshalers take a JSON string
								}
								done = true
								break
							}
						}
						ptr := up.build(mt.Type)
						err := jsonv2.Unmarshal([]byte(up.embed(in)), ptr, opts...)
						log := append([]mtypes.Call(nil), mtypes.Log...)
						if err != nil {
							return fmt.Sprintf("unexpected error %v (calls %v)", err, log)
						}
						for _, c := range log {
							if c.NilRecv {
								return fmt.Sprintf("method %s called on a nil pointer", c.Method)
							}
						}
						if !reflect.DeepEqual(log, want) {
							return fmt.Sprintf("calls %v, documented order gives %v", log, want)
						}
						if len(opts) == 1 {
							for si, sh := range optionShapes(opts[0], true) {
								mtypes.Log = mtypes.Log[:0]
								ptr2 := up.build(mt.Type)
								err2 := jsonv2.Unmarshal([]byte(up.embed(in)), ptr2, sh...)
								if err2 != nil || !reflect.DeepEqual(append([]mtypes.Call(nil), mtypes.Log...), log) {
									return fmt.Sprintf("option spelling #%d of the same function list: err=%v calls %v; passed alone: calls %v", si+1, err2, mtypes.Log, log)
								}
							}
						}
						return ""
					}
					if msg := one(); msg != "" {
						r.Violation(fmt.Sprintf("c17|ud|%s|%s|%s|%v", mt.Name, up.name, fl, fromUnsup), msg, cs, nil)
					}
				}
			}
		}
	}
	r.Evaluations.Add(n)
	r.Nontrivial.Add(n)
	r.Bound("unmarshal dispatch: %d method types (3^3 x 4 kinds) x %d positions x 3 function lists x UnmarshalJSONFrom answering / returning ErrUnsupported untouched", len(mtypes.UTypes), len(uposs))
}

// ---- policing of coder-taking user code: every script up to a length bound ----

// ScriptOps is the encoder-side script alphabet.
func ScriptOps() []mtypes.Op {
	return []mtypes.Op{
		{Tok: jsontext.Null, Label: "null"},
		{Tok: jsontext.String("k"), Label: `"k"`},
		{Tok: jsontext.Int(1), Label: "1"},
		{Tok: jsontext.BeginObject, Label: "{"},
		{Tok: jsontext.EndObject, Label: "}"},
		{Tok: jsontext.BeginArray, Label: "["},
		{Tok: jsontext.EndArray, Label: "]"},
		{Raw: jsontext.Value(`{"a":1}`), Label: `V:{"a":1}`},
		{Raw: jsontext.Value(`1 2`), Label: `V:1 2`},
	}
}

// DelegateOps are the nested-call operations: the encoder is handed to json.MarshalEncode for a value that is
// handled by a method taking the coder, by a caller-supplied function, by a []byte method, or by no user code.
func DelegateOps() []mtypes.Op {
	return []mtypes.Op{
		{Delegate: true, Label: "MarshalEncode(inner)"},
		{Delegate: true, Via: 'f', Label: "MarshalEncode(inner handled by MarshalToFunc)"},
		{Delegate: true, Via: 'j', Label: "MarshalEncode(inner with MarshalJSON)"},
		{Delegate: true, Via: 'p', Label: "MarshalEncode(plain string)"},
	}
}

func modelOp(op mtypes.Op) refjson.EncOp {
	if op.Delegate {
		return refjson.EncOp{Kind: '"', Str: "inner", Label: op.Label}
	}
	if op.Raw != nil {
		return refjson.EncOp{Raw: true, Text: string(op.Raw), Label: op.Label}
	}
	switch op.Label {
	case "null":
		return refjson.EncOp{Kind: 'n', Label: op.Label}
	case `"k"`:
		return refjson.EncOp{Kind: '"', Str: "k", Label: op.Label}
	case "1":
		return refjson.EncOp{Kind: '0', Num: "1", Label: op.Label}
	}
	return refjson.EncOp{Kind: op.Label[0], Label: op.Label}
}

// ScriptPos is a position for script policing: the value under test is preceded by pre and followed by post.
type ScriptPos struct {
	Name  string
	Build func(carrier reflect.Type) any
	Pre   []refjson.EncOp
	Post  []refjson.EncOp
}

func s(k byte) refjson.EncOp     { return refjson.EncOp{Kind: k} }
func str(x string) refjson.EncOp { return refjson.EncOp{Kind: '"', Str: x} }
func num(x string) refjson.EncOp { return refjson.EncOp{Kind: '0', Num: x} }

func ScriptPositions() []ScriptPos {
	tInt := reflect.TypeOf(0)
	return []ScriptPos{
		{"top-level", func(c reflect.Type) any { return reflect.New(c).Interface() }, nil, nil},
		{"first field of two", func(c reflect.Type) any {
			return reflect.New(st(reflect.StructField{Name: "A", Type: c}, reflect.StructField{Name: "B", Type: tInt})).Interface()
		}, []refjson.EncOp{s('{'), str("A")}, []refjson.EncOp{str("B"), num("0"), s('}')}},
		{"last field", func(c reflect.Type) any {
			return reflect.New(st(reflect.StructField{Name: "B", Type: tInt}, reflect.StructField{Name: "A", Type: c})).Interface()
		}, []refjson.EncOp{s('{'), str("B"), num("0"), str("A")}, []refjson.EncOp{s('}')}},
		{"middle slice element", func(c reflect.Type) any {
			return reflect.New(st(reflect.StructField{Name: "X", Type: tInt}, reflect.StructField{Name: "S", Type: reflect.SliceOf(c)}, reflect.StructField{Name: "Y", Type: tInt})).Interface()
		}, nil, nil},
		{"map value", func(c reflect.Type) any {
			m := reflect.MakeMap(reflect.MapOf(reflect.TypeOf(""), c))
			m.SetMapIndex(reflect.ValueOf("k"), reflect.Zero(c))
			return m.Interface()
		}, []refjson.EncOp{s('{'), str("k")}, []refjson.EncOp{s('}')}},
		{"map key", func(c reflect.Type) any {
			m := reflect.MakeMap(reflect.MapOf(c, tInt))
			m.SetMapIndex(reflect.Zero(c), reflect.ValueOf(1))
			return m.Interface()
		}, []refjson.EncOp{s('{')}, []refjson.EncOp{num("1"), s('}')}},
		{"behind pointer field, then sibling", func(c reflect.Type) any {
			v := reflect.New(st(reflect.StructField{Name: "P", Type: reflect.PointerTo(c)}, reflect.StructField{Name: "B", Type: tInt}))
			v.Elem().Field(0).Set(reflect.New(c))
			return v.Interface()
		}, []refjson.EncOp{s('{'), str("P")}, []refjson.EncOp{str("B"), num("0"), s('}')}},
		{"behind interface element", func(c reflect.Type) any {
			return []any{1, reflect.New(c).Interface(), "z"}
		}, []refjson.EncOp{s('['), num("1")}, []refjson.EncOp{str("z"), s(']')}},
		{"array element", func(c reflect.Type) any {
			return reflect.New(reflect.ArrayOf(2, c)).Interface()
		}, nil, nil},
	}
}

// expectScript runs the script on the reference encoder model placed at the position and returns
// whether Marshal must succeed and, if so, the exact output. fallback is the representation used
// when the script returns ErrUnsupported without having touched the coder.
func expectScript(pre, post []refjson.EncOp, ops []mtypes.Op, ret int, ignore bool, fallback []refjson.EncOp, repeat int, allowDup bool) (ok bool, out []byte) {
	m := refjson.NewEncModel(refjson.FmtOpts{OmitTopNewline: true, AllowDup: allowDup})
	for _, op := range pre {
		if !m.Apply(op) {
			panic("HARNESS: position prefix rejected by the model")
		}
	}
	for rep := 0; rep < repeat; rep++ {
		callDepth := m.Depth()
		_, len0 := m.Index(callDepth)
		coderErr := false
		for _, op := range ops {
			mo := modelOp(op)
			accepted := false
			if (mo.Kind == '}' || mo.Kind == ']') && !mo.Raw && m.Depth() <= callDepth {
				accepted = false // user code may not end a container it did not begin
			} else {
				accepted = m.Apply(mo)
			}
			if !accepted {
				coderErr = true
				if !ignore {
					return false, nil
				}
			}
		}
		_ = coderErr
		_, len1 := m.Index(min(callDepth, m.Depth()))
		untouched := m.Depth() == callDepth && len1 == len0
		exactlyOne := m.Depth() == callDepth && len1 == len0+1
		switch ret {
		case 1:
			return false, nil
		case 2:
			if !untouched {
				return false, nil
			}
			for _, op := range fallback {
				if !m.Apply(op) {
					return false, nil
				}
			}
		default:
			if !exactlyOne {
				return false, nil
			}
		}
	}
	for _, op := range post {
		if !m.Apply(op) {
			return false, nil // e.g. a duplicate name produced by the user value
		}
	}
	if m.Depth() != 0 {
		return false, nil
	}
	return true, m.Out
}

type carrier struct {
	name     string
	typ      reflect.Type
	opts     func() []jsonv2.Options
	fallback []refjson.EncOp // default representation of the carrier type when the user code is skipped
	keyOK    bool
}

func carriers() []carrier {
	find := func(name string) *mtypes.MType {
		for i := range mtypes.MTypes {
			if mtypes.MTypes[i].Name == name {
				return &mtypes.MTypes[i]
			}
		}
		panic(name)
	}
	structDefault := []refjson.EncOp{s('{'), str("X"), num("0"), s('}')}
	strDefault := []refjson.EncOp{str("")}
	return []carrier{
		{"MarshalJSONTo (pointer receiver) on struct", find("MS_p000").Type, func() []jsonv2.Options { return nil }, structDefault, false},
		{"MarshalJSONTo (value receiver) on string", find("MT_v000").Type, func() []jsonv2.Options { return nil }, strDefault, true},
		{"MarshalToFunc on struct type", find("MS_0000").Type, func() []jsonv2.Options {
			mtypes.FuncScripts["F"] = mtypes.ToScript
			return []jsonv2.Options{jsonv2.WithMarshalers(find("MS_0000").FuncP("F"))}
		}, structDefault, false},
		{"MarshalToFunc on string type", find("MT_0000").Type, func() []jsonv2.Options {
			mtypes.FuncScripts["F"] = mtypes.ToScript
			return []jsonv2.Options{jsonv2.WithMarshalers(find("MT_0000").FuncT("F"))}
		}, strDefault, true},
	}
}

// RunScript marshals the position with the carrier executing the script and compares with the model.
func RunScript(pos *ScriptPos, c *carrier, ops []mtypes.Op, ret int, ignore bool) (msg string) {
	defer func() {
		if p := recover(); p != nil {
			msg = fmt.Sprintf("library panic: %v", p)
		}
	}()
	mtypes.Reset()
	mtypes.ToScript = &mtypes.Script{Ops: ops, Ret: ret, IgnoreErrors: ignore}
	opts := c.opts()
	for _, op := range ops {
		if op.Delegate && op.Via == 'f' {
			// the nested call is handled by a caller-supplied function: join it behind the carrier's own functions
			cur, _ := jsonv2.GetOption(jsonv2.JoinOptions(opts...), jsonv2.WithMarshalers)
			opts = append(opts, jsonv2.WithMarshalers(jsonv2.JoinMarshalers(cur, mtypes.InnerMarshalers)))
			break
		}
	}
	v := pos.Build(c.typ)
	pre, post, repeat := pos.Pre, pos.Post, 1
	switch pos.Name {
	case "middle slice element":
		// filled below: {"X":0,"S":[<>,<>,<>],"Y":0} with three elements executing the same script
		rv := reflect.ValueOf(v).Elem()
		rv.Field(1).Set(reflect.MakeSlice(rv.Field(1).Type(), 3, 3))
		pre = []refjson.EncOp{s('{'), str("X"), num("0"), str("S"), s('[')}
		post = []refjson.EncOp{s(']'), str("Y"), num("0"), s('}')}
		repeat = 3
	case "array element":
		pre, post, repeat = []refjson.EncOp{s('[')}, []refjson.EncOp{s(']')}, 2
	}
	wantOK, wantOut := expectScript(pre, post, ops, ret, ignore, c.fallback, repeat, false)
	got, err := jsonv2.Marshal(v, opts...)
	if PanicsOnly {
		return ""
	}
	// Inside objects that Marshal writes itself the Encoder's own duplicate-name tracking may be switched
	// off (Marshal tracks names another way), so a user-written member NAME equal to an existing one is
	// either rejected by the Encoder (no effect) or accepted as a token (then the call is non-singular).
	// Both end safely; when the two readings disagree, only the safety clauses are checked.
	if ok2, out2 := expectScript(pre, post, ops, ret, ignore, c.fallback, repeat, true); ok2 != wantOK || !bytes.Equal(out2, wantOut) {
		if err == nil && (!refjson.Valid(got, refjson.Opts{}) || !(bytes.Equal(got, wantOut) && wantOK)) {
			return fmt.Sprintf("Marshal returned nil error with output %q (reference readings: %q / %q)", got, wantOut, out2)
		}
		return ""
	}
	if err == nil {
		if !refjson.Valid(got, refjson.Opts{}) {
			return fmt.Sprintf("Marshal returned nil error with malformed output %q", got)
		}
		if !wantOK {
			return fmt.Sprintf("Marshal succeeded with %q although the user code did not write exactly one value (or returned an error / used the coder before ErrUnsupported)", got)
		}
		if !bytes.Equal(got, wantOut) {
			return fmt.Sprintf("output %q, reference model %q", got, wantOut)
		}
		return ""
	}
	if wantOK {
		return fmt.Sprintf("Marshal failed (%v) although the user code wrote exactly one value; expected %q", err, wantOut)
	}
	return ""
}

func scripts(maxLen int, f func(ops []mtypes.Op, labels []string)) {
	alpha := ScriptOps()
	var rec func(cur []mtypes.Op, labels []string)
	rec = func(cur []mtypes.Op, labels []string) {
		f(cur, labels)
		if len(cur) == maxLen {
			return
		}
		for _, op := range alpha {
			rec(append(cur[:len(cur):len(cur)], op), append(labels[:len(labels):len(labels)], op.Label))
		}
	}
	rec(nil, nil)
}

func marshalPolicing(r *evid.Run, prop string) {
	maxLen := 3
	if r.Tier == "thorough" {
		maxLen = 5
	}
	poss := ScriptPositions()
	cars := carriers()
	var n, nt int64
	scripts(maxLen, func(ops []mtypes.Op, labels []string) {
		for ret := 0; ret < 3; ret++ {
			for _, ignore := range []bool{false, true} {
				for pi := range poss {
					for ci := range cars {
						if poss[pi].Name == "map key" && !cars[ci].keyOK {
							continue
						}
						n++
						if len(ops) > 1 {
							nt++
						}
						if msg := RunScript(&poss[pi], &cars[ci], ops, ret, ignore); msg != "" {
							cs := Case{Part: "marshal-script", Position: poss[pi].Name, Carrier: cars[ci].name, Script: append([]string(nil), labels...), Ret: ret, Ignore: ignore}
							r.Violation(fmt.Sprintf("%s|ms|%s|%s|%s|%d|%v", prop, cs.Position, cs.Carrier, strings.Join(labels, " "), ret, ignore), msg, cs, func() bool { return replayCase(cs) != "" })
						}
					}
				}
			}
		}
	})
	// nested delegation: the script first hands the encoder to json.MarshalEncode for a value with its own
	// MarshalJSONTo (a nested user call), then continues with every script of <= maxLen+1 further calls
	for _, deleg := range DelegateOps() {
		scripts(maxLen+1, func(ops []mtypes.Op, labels []string) {
			full := append([]mtypes.Op{deleg}, ops...)
			lab := append([]string{deleg.Label}, labels...)
			for ret := 0; ret < 3; ret += 2 {
				for pi := range poss {
					for ci := 0; ci < len(cars); ci += 2 {
						if poss[pi].Name == "map key" && !cars[ci].keyOK {
							continue
						}
						n++
						nt++
						if msg := RunScript(&poss[pi], &cars[ci], full, ret, true); msg != "" {
							cs := Case{Part: "marshal-script", Position: poss[pi].Name, Carrier: cars[ci].name, Script: append([]string(nil), lab...), Ret: ret, Ignore: true}
							r.Violation(fmt.Sprintf("%s|ms|%s|%s|%s|%d|true", prop, cs.Position, cs.Carrier, strings.Join(lab, " "), ret), msg, cs, func() bool { return replayCase(cs) != "" })
						}
					}
				}
			}
		})
	}
	r.Bound("nested delegation: json.MarshalEncode of a value handled by its own MarshalJSONTo / by a caller-supplied MarshalToFunc / by its MarshalJSON / by no user code, followed by every script of <=%d further calls (errors ignored) x {nil, ErrUnsupported} x %d positions x 2 carriers (method, function)", maxLen+1, len(poss))
	r.Evaluations.Add(n)
	r.Nontrivial.Add(nt)
	r.Sample(Case{Part: "marshal-script", Position: "first field of two", Carrier: cars[0].name, Script: []string{"null", "}", "{", `"k"`, "1"}, Ret: 0})
	r.Bound("marshal policing: every script of <=%d coder calls over %d operations x return {nil, error, ErrUnsupported} x {stop at, ignore} coder errors x %d positions x %d carriers (MarshalJSONTo on pointer/value receivers, MarshalToFunc)", maxLen, len(ScriptOps()), len(poss), len(cars))
}

// MarshalPolicing is also the adversarial-user-code part of C02.
func MarshalPolicing(r *evid.Run, prop string) { marshalPolicing(r, prop) }

// PanicsOnly restricts reporting to library panics (used by C20's no-panic sweep over the same script space).
var PanicsOnly bool

// MarshalPolicingPanics runs the script space with the no-panic oracle only.
func MarshalPolicingPanics(r *evid.Run, prop string) {
	PanicsOnly = true
	defer func() { PanicsOnly = false }()
	marshalPolicing(r, prop)
}

// ---- unmarshal policing ----

type uscriptPos struct {
	name  string
	build func(c reflect.Type) any
	doc   func(val string) string
	path  int // number of tokens before the value
}

func unmarshalPolicing(r *evid.Run) {
	maxLen := 3
	if r.Tier == "thorough" {
		maxLen = 5
	}
	find := func(name string) *mtypes.MType {
		for i := range mtypes.UTypes {
			if mtypes.UTypes[i].Name == name {
				return &mtypes.UTypes[i]
			}
		}
		panic(name)
	}
	tInt := reflect.TypeOf(0)
	poss := []uscriptPos{
		{"top-level", func(c reflect.Type) any { return reflect.New(c).Interface() }, func(v string) string { return v }, 0},
		{"first field of two", func(c reflect.Type) any {
			return reflect.New(st(reflect.StructField{Name: "A", Type: c}, reflect.StructField{Name: "B", Type: tInt})).Interface()
		}, func(v string) string { return `{"A":` + v + `,"B":1}` }, 2},
		{"last field", func(c reflect.Type) any {
			return reflect.New(st(reflect.StructField{Name: "B", Type: tInt}, reflect.StructField{Name: "A", Type: c})).Interface()
		}, func(v string) string { return `{"B":1,"A":` + v + `}` }, 4},
		{"middle slice element", func(c reflect.Type) any { return reflect.New(reflect.SliceOf(reflect.PointerTo(c))).Interface() }, func(v string) string { return `[null,` + v + `,null]` }, 2},
		{"map value", func(c reflect.Type) any { return reflect.New(reflect.MapOf(reflect.TypeOf(""), c)).Interface() }, func(v string) string { return `{"k":` + v + `,"l":` + v + `}` }, 2},
		{"pointer field then sibling", func(c reflect.Type) any {
			return reflect.New(st(reflect.StructField{Name: "P", Type: reflect.PointerTo(c)}, reflect.StructField{Name: "B", Type: tInt})).Interface()
		}, func(v string) string { return `{"P":` + v + `,"B":1}` }, 2},
	}
	type ucar struct {
		name string
		typ  reflect.Type
		opts func() []jsonv2.Options
	}
	cars := []ucar{
		{"UnmarshalJSONFrom (pointer receiver) on struct", find("US_p00").Type, func() []jsonv2.Options { return nil }},
		{"UnmarshalFromFunc on struct type", find("US_000").Type, func() []jsonv2.Options {
			mtypes.FuncScripts["F"] = mtypes.FromScript
			return []jsonv2.Options{jsonv2.WithUnmarshalers(find("US_000").FuncU("F"))}
		}},
		// slice and map kinds: after an opening token has been read the remaining input may still fit the default
		// representation one level further in ([[1,2]] into []int), so a wrongly forwarded skip would succeed
		{"UnmarshalFromFunc on slice type", find("UL_000").Type, func() []jsonv2.Options {
			mtypes.FuncScripts["F"] = mtypes.FromScript
			return []jsonv2.Options{jsonv2.WithUnmarshalers(find("UL_000").FuncU("F"))}
		}},
		{"UnmarshalJSONFrom (pointer receiver) on slice type", find("UL_p00").Type, func() []jsonv2.Options { return nil }},
		{"UnmarshalFromFunc on map type", find("UM_000").Type, func() []jsonv2.Options {
			mtypes.FuncScripts["F"] = mtypes.FromScript
			return []jsonv2.Options{jsonv2.WithUnmarshalers(find("UM_000").FuncU("F"))}
		}},
	}
	vals := []string{`1`, `[1,2]`, `{"X":1}`, `{"X":{"X":2}}`, `[[1,2]]`, `[[[1]]]`, `{"a":{"a":1}}`, `{"a":1}`}
	// fits: does the text fit the default representation of the carrier's underlying kind?
	fits := func(t reflect.Type, val string) bool {
		u := reflect.TypeOf(struct{ X int }{})
		switch t.Kind() {
		case reflect.Slice:
			u = reflect.TypeOf([]int(nil))
		case reflect.Map:
			u = reflect.TypeOf(map[string]int(nil))
		}
		return jsonv2.Unmarshal([]byte(val), reflect.New(u).Interface()) == nil
	}
	reads := []byte("TVS")
	var n, nt int64
	var rec func(cur []byte)
	run := func(prog []byte) {
		for ret := 0; ret < 3; ret++ {
			for _, ignore := range []bool{false, true} {
				for pi := range poss {
					for ci := range cars {
						for _, val := range vals {
							n++
							if len(prog) > 1 {
								nt++
							}
							cs := Case{Part: "unmarshal-script", Position: poss[pi].name, Carrier: cars[ci].name, Script: []string{string(prog)}, Ret: ret, Ignore: ignore, Input: val}
							msg := func() (msg string) {
								defer func() {
									if p := recover(); p != nil {
										msg = fmt.Sprintf("library panic: %v", p)
									}
								}()
								mtypes.Reset()
								ops := make([]mtypes.Op, len(prog))
								for i, c := range prog {
									ops[i] = mtypes.Op{Read: c}
								}
								mtypes.FromScript = &mtypes.Script{Ops: ops, Ret: ret, IgnoreErrors: ignore}
								opts := cars[ci].opts()
								doc := []byte(poss[pi].doc(val))
								// reference: walk the decoder model to the value, then execute the reads
								wantOK := func() bool {
									m := refjson.NewDecModel(doc, refjson.Opts{})
									for i := 0; i < poss[pi].path; i++ {
										m.Token()
									}
									calls := 1
									if poss[pi].name == "map value" {
										calls = 2
									}
									for c := 0; c < calls; c++ {
										if c == 1 {
											m.Token() // the second name
										}
										callDepth := m.Depth()
										_, len0 := m.Index(callDepth)
										for _, rd := range prog {
											okRead := true
											switch rd {
											case 'T':
												if k := m.Peek(); (k == '}' || k == ']') && m.Depth() <= callDepth {
													okRead = false
												} else if _, ok := m.Token(); !ok {
													okRead = false
												}
											default:
												if _, ok, closer := m.Value(); !ok || closer {
													okRead = false
												}
											}
											if !okRead && !ignore {
												return false
											}
										}
										_, len1 := m.Index(min(callDepth, m.Depth()))
										untouched := m.Depth() == callDepth && len1 == len0
										exactlyOne := m.Depth() == callDepth && len1 == len0+1
										switch ret {
										case 1:
											return false
										case 2:
											if !untouched {
												return false
											}
											// falls through to the default representation, which must fit a struct{X int}
											if _, ok, _ := m.Value(); !ok {
												return false
											}
											if !fits(cars[ci].typ, val) {
												return false
											}
										default:
											if !exactlyOne {
												return false
											}
										}
									}
									return true
								}()
								err := jsonv2.Unmarshal(doc, poss[pi].build(cars[ci].typ), opts...)
								if (err == nil) != wantOK {
									return fmt.Sprintf("Unmarshal(%s) err=%v, reference expects success=%v", doc, err, wantOK)
								}
								// the same through UnmarshalDecode on a caller-owned Decoder (no end-of-input check behind the
								// value, so user code that consumed an opening token too many is not masked by the leftover)
								mtypes.Reset()
								mtypes.FromScript = &mtypes.Script{Ops: ops, Ret: ret, IgnoreErrors: ignore}
								opts = cars[ci].opts()
								dec := jsontext.NewDecoder(bytes.NewReader(doc))
								err = jsonv2.UnmarshalDecode(dec, poss[pi].build(cars[ci].typ), opts...)
								if (err == nil) != wantOK {
									return fmt.Sprintf("UnmarshalDecode(%s) err=%v, reference expects success=%v", doc, err, wantOK)
								}
								return ""
							}()
							if msg != "" {
								r.Violation(fmt.Sprintf("c17|us|%s|%s|%s|%d|%v|%s", cs.Position, cs.Carrier, prog, ret, ignore, val), msg, cs, nil)
							}
						}
					}
				}
			}
		}
	}
	rec = func(cur []byte) {
		run(cur)
		if len(cur) == maxLen {
			return
		}
		for _, c := range reads {
			rec(append(cur[:len(cur):len(cur)], c))
		}
	}
	rec(nil)
	r.Evaluations.Add(n)
	r.Nontrivial.Add(nt)
	r.Bound("unmarshal policing: every read script of <=%d calls over {ReadToken, ReadValue, SkipValue} x 3 return kinds x {stop at, ignore} errors x %d positions x 5 carriers (struct, slice and map kinds) x %d input values", maxLen, len(poss), len(vals))
}

// ---- options visible inside the call; Reset forbidden ----

func insideCall(r *evid.Run) {
	type optCase struct {
		name string
		opts []jsonv2.Options
		chk  func(o jsonv2.Options) string
	}
	get := func(o jsonv2.Options, setter func(bool) jsonv2.Options) (bool, bool) {
		return jsonv2.GetOption(o, setter)
	}
	cases := []optCase{
		{"none", nil, func(o jsonv2.Options) string {
			if v, ok := get(o, jsonv2.Deterministic); v || ok {
				return "Deterministic reported set"
			}
			return ""
		}},
		{"Deterministic+StringifyNumbers", []jsonv2.Options{jsonv2.Deterministic(true), jsonv2.StringifyNumbers(true)}, func(o jsonv2.Options) string {
			if v, ok := get(o, jsonv2.Deterministic); !v || !ok {
				return "Deterministic(true) not visible"
			}
			if v, ok := get(o, jsonv2.StringifyNumbers); !v || !ok {
				return "StringifyNumbers(true) not visible"
			}
			return ""
		}},
		{"AllowInvalidUTF8+indent", []jsonv2.Options{jsontext.AllowInvalidUTF8(true), jsontext.WithIndent("  ")}, func(o jsonv2.Options) string {
			if v, ok := jsonv2.GetOption(o, jsontext.AllowInvalidUTF8); !v || !ok {
				return "AllowInvalidUTF8(true) not visible"
			}
			if v, ok := jsonv2.GetOption(o, jsontext.WithIndent); v != "  " || !ok {
				return fmt.Sprintf("WithIndent not visible: %q %v", v, ok)
			}
			if v, ok := jsonv2.GetOption(o, jsontext.Multiline); !v || !ok {
				return "Multiline implied by WithIndent not visible"
			}
			return ""
		}},
	}
	var n int64
	for _, oc := range cases {
		for _, tn := range []string{"MS_p000", "MT_v000"} {
			for i := range mtypes.MTypes {
				mt := &mtypes.MTypes[i]
				if mt.Name != tn {
					continue
				}
				n++
				mtypes.Reset()
				var inner, resetMsg string
				mtypes.InsideTo = func(e *jsontext.Encoder) {
					inner = oc.chk(e.Options())
					func() {
						defer func() {
							if p := recover(); p == nil {
								resetMsg = "Encoder.Reset inside MarshalJSONTo did not panic"
							}
						}()
						e.Reset(new(bytes.Buffer))
					}()
				}
				v := []any{reflect.New(mt.Type).Interface()}
				_, err := jsonv2.Marshal(v, oc.opts...)
				if err != nil || inner != "" || resetMsg != "" {
					r.Violation("c17|inside|"+oc.name+"|"+tn, fmt.Sprintf("err=%v options: %s reset: %s", err, inner, resetMsg), Case{Part: "inside-call", Type: tn, Funcs: oc.name}, nil)
				}
			}
		}
		// unmarshal side
		for i := range mtypes.UTypes {
			mt := &mtypes.UTypes[i]
			if mt.Name != "US_p00" {
				continue
			}
			n++
			mtypes.Reset()
			var inner, resetMsg string
			mtypes.InsideFrom = func(d *jsontext.Decoder) {
				if oc.name != "AllowInvalidUTF8+indent" {
					inner = oc.chk(d.Options())
				}
				func() {
					defer func() {
						if p := recover(); p == nil {
							resetMsg = "Decoder.Reset inside UnmarshalJSONFrom did not panic"
						}
					}()
					d.Reset(strings.NewReader("1"))
				}()
			}
			ptr := reflect.New(reflect.SliceOf(mt.Type)).Interface()
			err := jsonv2.Unmarshal([]byte(`[1]`), ptr, oc.opts...)
			if err != nil || inner != "" || resetMsg != "" {
				r.Violation("c17|inside-u|"+oc.name, fmt.Sprintf("err=%v options: %s reset: %s", err, inner, resetMsg), Case{Part: "inside-call", Type: "US_p00", Funcs: oc.name}, nil)
			}
		}
	}
	r.Evaluations.Add(n)
	r.Nontrivial.Add(n)
	r.Bound("inside the call: caller options visible through the coder's Options (3 option sets x marshal/unmarshal), Reset panics")
}

func replayCase(cs Case) string {
	switch cs.Part {
	case "iface":
		var ci, vi int
		fmt.Sscan(cs.Position, &ci)
		fmt.Sscan(cs.Type, &vi)
		if ci >= 0 && ci < len(ifaceCases()) && vi >= 0 && vi < len(ifValues()) {
			return ifaceOne(ci, vi)
		}
		return ""
	case "iface-unmarshal":
		var w int
		fmt.Sscan(cs.Position, &w)
		return ifaceUnmarshal(w)
	}
	switch cs.Part {
	case "marshal-dispatch":
		for ti := range mtypes.MTypes {
			if mtypes.MTypes[ti].Name != cs.Type {
				continue
			}
			for _, pos := range positions() {
				for _, fl := range funcLists() {
					if pos.name == cs.Position && fl.name == cs.Funcs {
						return marshalDispatchOne(&mtypes.MTypes[ti], &pos, &fl, cs.Ret == 2)
					}
				}
			}
		}
	case "marshal-script":
		alpha := ScriptOps()
		var ops []mtypes.Op
		for _, l := range cs.Script {
			for _, d := range DelegateOps() {
				if d.Label == l {
					ops = append(ops, d)
				}
			}
			for _, a := range alpha {
				if a.Label == l {
					ops = append(ops, a)
				}
			}
		}
		for _, pos := range ScriptPositions() {
			for _, c := range carriers() {
				if pos.Name == cs.Position && c.name == cs.Carrier {
					return RunScript(&pos, &c, ops, cs.Ret, cs.Ignore)
				}
			}
		}
	}
	return ""
}

func Replay(r *evid.Run, raw json.RawMessage) {
	var cs Case
	if json.Unmarshal(raw, &cs) != nil {
		return
	}
	r.Evaluations.Add(1)
	r.Nontrivial.Add(2)
	r.Sample(cs)
	if msg := replayCase(cs); msg != "" {
		fmt.Println("replay fails:", msg)
		r.Violation("replay", msg, cs, nil)
	} else {
		fmt.Println("replay passes")
	}
}

func Run(r *evid.Run) {
	r.Rule("generated named types for every assignment of {absent, value receiver, pointer receiver} to {MarshalJSONTo, MarshalJSON, AppendText, MarshalText} (81 x 4 kinds) and to {UnmarshalJSONFrom, UnmarshalJSON, UnmarshalText} (27 x 4 kinds) x position kinds (top level, pointer, nil pointer, fields of (non-)addressable structs, slice / array elements, map key, map value, inside interface, pointer-to-pointer) x caller function lists (none, on T, on *T, ErrUnsupported then next, nested joins all unsupported, first-wins): the logged calls and the output must equal those of a reference dispatcher written from the Marshal/Unmarshal documentation. Policing: EVERY script of <=L coder calls over 9 encoder operations (resp. 3 decoder reads) x 3 return kinds x stop-at/ignore coder errors x 9 (6) positions x carriers, compared with the reference encoder/decoder model: success iff exactly one value, untouched ErrUnsupported falls through, otherwise an error - never silent success. Options visible inside the call; Reset panics. evaluations = Marshal/Unmarshal calls; distinct_nontrivial = distinct cases with a non-default dispatch or a script of >=2 calls")
	r.Assume("reference dispatcher and coder models written from the package documentation", "cases run sequentially (the generated types log through package-level state)")
	marshalDispatch(r)
	unmarshalDispatch(r)
	builtinFuncs(r)
	interfaceFuncs(r)
	repeatedUse(r)
	byteStyleErrors(r)
	round7(r)
	marshalPolicing(r, "c17")
	unmarshalPolicing(r)
	insideCall(r)
	_ = errors.ErrUnsupported
}

// ---- caller functions on built-in types, reached through interfaces ----

type userT struct{ X int }

// builtinFuncs: function lists over {string, float64, bool, user struct} in every order (pairs and triples,
// flat and nested joins) applied to values whose strings/numbers/bools sit behind `any`.
func builtinFuncs(r *evid.Run) {
	type fn struct {
		tag string
		m   *jsonv2.Marshalers
		u   *jsonv2.Unmarshalers
	}
	fns := []fn{
		{"S", jsonv2.MarshalFunc(func(v string) ([]byte, error) { return []byte(`"S:` + v + `"`), nil }),
			jsonv2.UnmarshalFunc(func(b []byte, v *string) error { *v = "S!"; return nil })},
		{"N", jsonv2.MarshalFunc(func(v float64) ([]byte, error) { return []byte(`"N"`), nil }),
			jsonv2.UnmarshalFunc(func(b []byte, v *float64) error { *v = -1; return nil })},
		{"B", jsonv2.MarshalFunc(func(v bool) ([]byte, error) { return []byte(`"B"`), nil }),
			jsonv2.UnmarshalFunc(func(b []byte, v *bool) error { *v = true; return nil })},
		{"U", jsonv2.MarshalFunc(func(v userT) ([]byte, error) { return []byte(`"U"`), nil }),
			jsonv2.UnmarshalFunc(func(b []byte, v *userT) error { v.X = 99; return nil })},
	}
	var ref func(v any, active map[string]bool) string
	ref = func(v any, active map[string]bool) string {
		switch x := v.(type) {
		case nil:
			return "null"
		case string:
			if active["S"] {
				return `"S:` + x + `"`
			}
			return `"` + x + `"`
		case float64:
			if active["N"] {
				return `"N"`
			}
			return "1.5"
		case bool:
			if active["B"] {
				return `"B"`
			}
			return "true"
		case userT:
			if active["U"] {
				return `"U"`
			}
			return `{"X":0}`
		case []any:
			var parts []string
			for _, e := range x {
				parts = append(parts, ref(e, active))
			}
			return "[" + strings.Join(parts, ",") + "]"
		case map[string]any:
			for k, e := range x { // single-entry maps only
				return "{" + ref(k, active) + ":" + ref(e, active) + "}"
			}
			return "{}"
		}
		panic("ref")
	}
	value := []any{"a", 1.5, true, nil, map[string]any{"k": "b"}, []any{"c", userT{}}, userT{}}
	type typed struct {
		S string
		A any
		M map[string]any
		L []any
		U userT
	}
	tv := typed{S: "s", A: "a", M: map[string]any{"k": 1.5}, L: []any{true, "x"}}
	refTyped := func(active map[string]bool) string {
		return `{"S":` + ref("s", active) + `,"A":` + ref("a", active) + `,"M":{` + ref("k", active) + `:` + ref(1.5, active) + `},"L":[` + ref(true, active) + `,` + ref("x", active) + `],"U":` + ref(userT{}, active) + `}`
	}
	var n int64
	var lists [][]int
	for i := range fns {
		lists = append(lists, []int{i})
		for j := range fns {
			if j == i {
				continue
			}
			lists = append(lists, []int{i, j})
			for k := range fns {
				if k != i && k != j {
					lists = append(lists, []int{i, j, k})
				}
			}
		}
	}
	for _, l := range lists {
		for nest := 0; nest < 3; nest++ {
			active := map[string]bool{}
			var ms []*jsonv2.Marshalers
			var us []*jsonv2.Unmarshalers
			var tags []string
			for _, i := range l {
				active[fns[i].tag] = true
				ms = append(ms, fns[i].m)
				us = append(us, fns[i].u)
				tags = append(tags, fns[i].tag)
			}
			var jm *jsonv2.Marshalers
			var ju *jsonv2.Unmarshalers
			switch nest {
			case 0:
				jm, ju = jsonv2.JoinMarshalers(ms...), jsonv2.JoinUnmarshalers(us...)
			case 1:
				jm, ju = jsonv2.JoinMarshalers(ms[0], jsonv2.JoinMarshalers(ms[1:]...)), jsonv2.JoinUnmarshalers(us[0], jsonv2.JoinUnmarshalers(us[1:]...))
			case 2:
				jm, ju = jsonv2.JoinMarshalers(jsonv2.JoinMarshalers(ms[:len(ms)-1]...), ms[len(ms)-1]), jsonv2.JoinUnmarshalers(jsonv2.JoinUnmarshalers(us[:len(us)-1]...), us[len(us)-1])
			}
			n += 3
			key := fmt.Sprintf("c17|builtin|%s|nest%d", strings.Join(tags, ","), nest)
			cs := Case{Part: "builtin-funcs", Funcs: strings.Join(tags, ",") + fmt.Sprintf(" nest=%d", nest)}
			got, err := jsonv2.Marshal(value, jsonv2.WithMarshalers(jm))
			if want := ref(value, active); err != nil || string(got) != want {
				r.Violation(key+"|any", fmt.Sprintf("Marshal([]any) = %q (%v), documented dispatch gives %q", got, err, want), cs, nil)
			}
			got, err = jsonv2.Marshal(tv, jsonv2.WithMarshalers(jm), jsonv2.Deterministic(true))
			if want := refTyped(active); err != nil || string(got) != want {
				r.Violation(key+"|typed", fmt.Sprintf("Marshal(struct) = %q (%v), documented dispatch gives %q", got, err, want), cs, nil)
			}
			// unmarshal: into typed struct and into []any / map[string]any holding pre-set pointers is not applicable;
			// use typed targets reached through an interface holding a pointer
			var tgt struct {
				S string
				N float64
				B bool
				U userT
				P any
			}
			ps := new(string)
			tgt.P = ps
			err = jsonv2.Unmarshal([]byte(`{"S":"x","N":2,"B":false,"U":{"X":1},"P":"y"}`), &tgt, jsonv2.WithUnmarshalers(ju))
			wantS, wantN, wantB, wantU, wantP := "x", 2.0, false, 1, "y"
			if active["S"] {
				wantS, wantP = "S!", "S!"
			}
			if active["N"] {
				wantN = -1
			}
			if active["B"] {
				wantB = true
			}
			if active["U"] {
				wantU = 99
			}
			if err != nil || tgt.S != wantS || tgt.N != wantN || tgt.B != wantB || tgt.U.X != wantU || *ps != wantP {
				r.Violation(key+"|unmarshal", fmt.Sprintf("Unmarshal = %+v *P=%q (%v), documented dispatch gives S=%q N=%v B=%v U=%d P=%q", tgt, *ps, err, wantS, wantN, wantB, wantU, wantP), cs, nil)
			}
		}
	}
	r.Evaluations.Add(n)
	r.Nontrivial.Add(n)
	r.Bound("caller functions on built-in types: every ordered selection of 1..3 of {string, float64, bool, user struct} functions x 3 join nestings, applied to values behind any, typed fields, map keys and interface-held pointers")
}
