package c17

import (
	"errors"
	"fmt"
	"reflect"
	"strings"

	jsonv2 "github.com/go-json-experiment/json"
	"github.com/go-json-experiment/json/jsontext"

	"verif/internal/evid"
)

// Functions registered on interface types: "called for every value whose pointer implements the interface" -
// for the empty interface spelled `any` and spelled as a named type, for fmt.Stringer-like interfaces with value and
// pointer receivers, and for anonymous struct types that implement the interface only through an embedded field;
// values at top level, in typed positions and behind `any`.

type ifVisitor interface{}
type ifNamer interface{ IfName() string }
type ifSetter interface{ IfSet(string) }

type ifVal struct{ X int }

func (ifVal) IfName() string { return "val" }

type ifPtr struct{ Y int }

func (*ifPtr) IfName() string { return "ptr" }
func (p *ifPtr) IfSet(s string) { p.Y = len(s) }

type ifStr string

func (ifStr) IfName() string { return "str" }

type ifPlain struct{ Z int }

func ifValues() []any {
	return []any{
		"a", 1.5, true, nil, ifPlain{1}, ifVal{2}, ifPtr{3}, &ifPtr{4}, ifStr("s"),
		struct {
			ifVal
			Extra int
		}{ifVal{5}, 6},
		struct{ *ifPtr }{&ifPtr{7}},
		struct {
			ifPlain
			N int
		}{ifPlain{8}, 9},
		[]any{"b", ifVal{1}, []any{2.5, ifStr("t")}},
		map[string]any{"k": ifPtr{1}},
		map[string]any{"m": []any{false, struct{ ifVal }{ifVal{3}}}},
		[]ifVal{{1}, {2}},
		[]*ifPtr{{1}, nil},
		map[ifStr]ifVal{"q": {1}},
		struct {
			A any
			V ifVal
			P *ifPtr
			L []any
			E struct{ ifVal }
		}{A: ifStr("x"), V: ifVal{1}, P: &ifPtr{2}, L: []any{ifPlain{3}, "c"}, E: struct{ ifVal }{ifVal{4}}},
	}
}

type ifaceCase struct {
	name  string
	iface reflect.Type
	// leafOnly: the function handles only scalar leaves (string, float64, bool kinds) and skips everything else
	leafOnly bool
	mk       func(log *[]string) *jsonv2.Marshalers
}

func ifaceWrite(log *[]string, enc *jsontext.Encoder, v any, leafOnly bool) error {
	t := reflect.TypeOf(v)
	if leafOnly {
		switch t.Elem().Kind() {
		case reflect.String, reflect.Float64, reflect.Bool:
		default:
			return errors.ErrUnsupported
		}
	}
	*log = append(*log, t.String())
	return enc.WriteToken(jsontext.String("F:" + t.String()))
}

func ifaceCases() []ifaceCase {
	return []ifaceCase{
		{"any, scalar leaves only", reflect.TypeOf((*any)(nil)).Elem(), true, func(log *[]string) *jsonv2.Marshalers {
			return jsonv2.MarshalToFunc(func(enc *jsontext.Encoder, v any) error { return ifaceWrite(log, enc, v, true) })
		}},
		{"named empty interface, scalar leaves only", reflect.TypeOf((*ifVisitor)(nil)).Elem(), true, func(log *[]string) *jsonv2.Marshalers {
			return jsonv2.MarshalToFunc(func(enc *jsontext.Encoder, v ifVisitor) error { return ifaceWrite(log, enc, v, true) })
		}},
		{"named empty interface joined after a skipping function on string", reflect.TypeOf((*ifVisitor)(nil)).Elem(), true, func(log *[]string) *jsonv2.Marshalers {
			return jsonv2.JoinMarshalers(jsonv2.MarshalToFunc(func(enc *jsontext.Encoder, v ifPlain) error { return errors.ErrUnsupported }),
				jsonv2.MarshalToFunc(func(enc *jsontext.Encoder, v ifVisitor) error { return ifaceWrite(log, enc, v, true) }))
		}},
		{"interface with a method", reflect.TypeOf((*ifNamer)(nil)).Elem(), false, func(log *[]string) *jsonv2.Marshalers {
			return jsonv2.MarshalToFunc(func(enc *jsontext.Encoder, v ifNamer) error { return ifaceWrite(log, enc, v, false) })
		}},
		{"interface implemented by pointers only", reflect.TypeOf((*ifSetter)(nil)).Elem(), false, func(log *[]string) *jsonv2.Marshalers {
			return jsonv2.MarshalToFunc(func(enc *jsontext.Encoder, v ifSetter) error { return ifaceWrite(log, enc, v, false) })
		}},
	}
}

// ifaceRef renders v the way the documentation says it is marshaled with the function of c in force.
func ifaceRef(v reflect.Value, c *ifaceCase, key bool) string {
	if !v.IsValid() {
		return "null"
	}
	t := v.Type()
	if t.Kind() == reflect.Interface {
		if v.IsNil() {
			return "null"
		}
		return ifaceRef(v.Elem(), c, key)
	}
	if t.Kind() == reflect.Pointer {
		if v.IsNil() {
			return "null"
		}
		return ifaceRef(v.Elem(), c, key)
	}
	if reflect.PointerTo(t).Implements(c.iface) {
		k := t.Kind()
		if !c.leafOnly || k == reflect.String || k == reflect.Float64 || k == reflect.Bool {
			return `"F:*` + t.String() + `"`
		}
	}
	switch t.Kind() {
	case reflect.Slice:
		if v.IsNil() {
			return "[]"
		}
		var parts []string
		for i := 0; i < v.Len(); i++ {
			parts = append(parts, ifaceRef(v.Index(i), c, false))
		}
		return "[" + strings.Join(parts, ",") + "]"
	case reflect.Map:
		var parts []string
		for _, k := range v.MapKeys() { // single-entry maps only
			parts = append(parts, ifaceRef(k, c, true)+":"+ifaceRef(v.MapIndex(k), c, false))
		}
		return "{" + strings.Join(parts, ",") + "}"
	case reflect.Struct:
		var parts []string
		var walk func(v reflect.Value)
		walk = func(v reflect.Value) {
			for i := 0; i < v.NumField(); i++ {
				f := v.Type().Field(i)
				fv := v.Field(i)
				if f.Anonymous {
					ft := f.Type
					if ft.Kind() == reflect.Pointer {
						if fv.IsNil() {
							continue
						}
						ft, fv = ft.Elem(), fv.Elem()
					}
					if ft.Kind() == reflect.Struct {
						walk(fv)
						continue
					}
				}
				parts = append(parts, `"`+f.Name+`":`+ifaceRef(fv, c, false))
			}
		}
		walk(v)
		return "{" + strings.Join(parts, ",") + "}"
	}
	b, err := jsonv2.Marshal(v.Interface())
	if err != nil {
		return "ERR:" + err.Error()
	}
	if key && t.Kind() != reflect.String {
		return `"` + string(b) + `"`
	}
	return string(b)
}

func ifaceOne(ci, vi int) (msg string) {
	defer func() {
		if p := recover(); p != nil {
			msg = fmt.Sprintf("library panic: %v", p)
		}
	}()
	c := ifaceCases()[ci]
	v := ifValues()[vi]
	var log []string
	got, err := jsonv2.Marshal(v, jsonv2.WithMarshalers(c.mk(&log)), jsonv2.Deterministic(true))
	want := ifaceRef(reflect.ValueOf(v), &c, false)
	if err != nil || string(got) != want {
		return fmt.Sprintf("function on %s, value %T: Marshal = %s (%v); every value whose pointer implements the interface goes through the function, which gives %s (function saw %v)", c.name, v, got, err, want, log)
	}
	// the same value held in an `any` member and as an element behind `any`
	got2, err2 := jsonv2.Marshal(map[string]any{"w": []any{v}}, jsonv2.WithMarshalers(c.mk(&log)), jsonv2.Deterministic(true))
	wk := `"w"`
	if c.leafOnly {
		wk = `"F:*string"`
	}
	if want2 := `{` + wk + `:[` + want + `]}`; err2 != nil || string(got2) != want2 {
		return fmt.Sprintf("function on %s, value %T behind any: Marshal = %s (%v), want %s", c.name, v, got2, err2, want2)
	}
	return ""
}

// Unmarshal side: typed members; the function is called exactly for the members whose pointer implements the interface.
type ifTarget struct {
	S ifVal
	P ifPtr
	Q *ifPtr
	A struct {
		ifVal
		Extra int
	}
	B struct{ *ifPtr }
	U ifPlain
	T ifStr
}

func ifaceUnmarshal(which int) (msg string) {
	defer func() {
		if p := recover(); p != nil {
			msg = fmt.Sprintf("library panic: %v", p)
		}
	}()
	var log []string
	var fn *jsonv2.Unmarshalers
	var iface reflect.Type
	switch which {
	case 0:
		iface = reflect.TypeOf((*ifNamer)(nil)).Elem()
		fn = jsonv2.UnmarshalFromFunc(func(dec *jsontext.Decoder, v ifNamer) error {
			log = append(log, reflect.TypeOf(v).String())
			return dec.SkipValue()
		})
	default:
		iface = reflect.TypeOf((*ifSetter)(nil)).Elem()
		fn = jsonv2.UnmarshalFromFunc(func(dec *jsontext.Decoder, v ifSetter) error {
			log = append(log, reflect.TypeOf(v).String())
			return dec.SkipValue()
		})
	}
	var t ifTarget
	err := jsonv2.Unmarshal([]byte(`{"S":{"X":1},"P":{"Y":2},"Q":{"Y":3},"A":{"X":4,"Extra":5},"B":{"Y":6},"U":{"Z":7},"T":"t"}`), &t, jsonv2.WithUnmarshalers(fn))
	if err != nil {
		return fmt.Sprintf("Unmarshal failed: %v", err)
	}
	var want []string
	tt := reflect.TypeOf(t)
	for i := 0; i < tt.NumField(); i++ {
		ft := tt.Field(i).Type
		if ft.Kind() == reflect.Pointer {
			ft = ft.Elem()
		}
		if reflect.PointerTo(ft).Implements(iface) {
			want = append(want, reflect.PointerTo(ft).String())
		}
	}
	if fmt.Sprint(log) != fmt.Sprint(want) {
		return fmt.Sprintf("UnmarshalFromFunc on %v: called for %v, the members whose pointer implements it are %v", iface, log, want)
	}
	if t.U.Z != 7 {
		return fmt.Sprintf("a member the function does not apply to was not decoded: %+v", t.U)
	}
	return ""
}

func interfaceFuncs(r *evid.Run) {
	var n int64
	for ci := range ifaceCases() {
		for vi := range ifValues() {
			n++
			if m := ifaceOne(ci, vi); m != "" {
				r.Violation(fmt.Sprintf("c17|iface|%d|%d", ci, vi), m, Case{Part: "iface", Position: fmt.Sprint(ci), Type: fmt.Sprint(vi)}, nil)
			}
		}
	}
	for w := 0; w < 2; w++ {
		n++
		if m := ifaceUnmarshal(w); m != "" {
			r.Violation(fmt.Sprintf("c17|iface-unmarshal|%d", w), m, Case{Part: "iface-unmarshal", Position: fmt.Sprint(w)}, nil)
		}
	}
	r.Evaluations.Add(n * 2)
	r.Nontrivial.Add(n)
	r.Bound("functions on interface types: %d registrations (any / a named empty interface handling scalar leaves and skipping the rest, alone and joined after another function; an interface with a method; an interface only pointers implement) x %d values (scalars, named types with value / pointer receivers, anonymous structs that implement the interface only through an embedded field or embedded pointer, containers, typed slices and maps, struct members typed and behind any), each also behind any: the output is the documented one; UnmarshalFromFunc on the two method interfaces over 7 typed members", len(ifaceCases()), len(ifValues()))
}
