package c17

import (
	"encoding"
	"fmt"
	"reflect"

	jsonv2 "github.com/go-json-experiment/json"
	"verif/internal/evid"
	"verif/props/mtypes"
)

// Seventh round: (a) members of an embedded (`embed`) map take the same representation as any other map value,
// with one and with two entries, with and without Deterministic; (b) a nil *T held in a method-bearing interface
// field is written as null with no call at all - also when the default options are spelled out.

var methodIfaces = []reflect.Type{
	reflect.TypeOf((*jsonv2.MarshalerTo)(nil)).Elem(),
	reflect.TypeOf((*jsonv2.Marshaler)(nil)).Elem(),
	reflect.TypeOf((*encoding.TextAppender)(nil)).Elem(),
	reflect.TypeOf((*encoding.TextMarshaler)(nil)).Elem(),
}

func defaultSpellings() [][]jsonv2.Options {
	return [][]jsonv2.Options{
		nil,
		{jsonv2.DefaultOptionsV2()},
		{jsonv2.JoinOptions(jsonv2.DefaultOptionsV2())},
	}
}

func round7One(mt *mtypes.MType, fl *funcList, part string, entries int, det bool, spell int, iface int) (msg string) {
	defer func() {
		if p := recover(); p != nil {
			msg = fmt.Sprintf("library panic: %v", p)
		}
	}()
	mtypes.Reset()
	if fl.setup != nil {
		fl.setup()
	}
	opts := append([]jsonv2.Options(nil), defaultSpellings()[spell]...)
	if ms := fl.build(mt); ms != nil {
		opts = append(opts, jsonv2.WithMarshalers(ms))
	}
	if part == "embedded-map" {
		if det {
			opts = append(opts, jsonv2.Deterministic(true))
		}
		mapT := reflect.MapOf(reflect.TypeOf(""), mt.Type)
		s := reflect.New(st(
			reflect.StructField{Name: "ID", Type: reflect.TypeOf(0)},
			reflect.StructField{Name: "M", Type: mapT, Tag: `json:",embed"`},
		)).Elem()
		m := reflect.MakeMap(mapT)
		want := `{"ID":0`
		wantCalls, rep := expectMarshal(mt, fl, false)
		var calls []mtypes.Call
		for i := 0; i < entries; i++ {
			k := string(rune('a' + i))
			m.SetMapIndex(reflect.ValueOf(k), reflect.Zero(mt.Type))
			want += `,"` + k + `":` + rep
			calls = append(calls, wantCalls...)
		}
		want += `}`
		s.Field(1).Set(m)
		got, err := jsonv2.Marshal(s.Interface(), opts...)
		if err != nil {
			return fmt.Sprintf("unexpected error %v", err)
		}
		if string(got) != want {
			return fmt.Sprintf("output %q, documented dispatch gives %q (calls %v)", got, want, mtypes.Log)
		}
		if !reflect.DeepEqual(append([]mtypes.Call(nil), mtypes.Log...), calls) {
			return fmt.Sprintf("calls %v, documented order gives %v", mtypes.Log, calls)
		}
		return ""
	}
	it := methodIfaces[iface]
	s := reflect.New(st(reflect.StructField{Name: "F", Type: it})).Elem()
	s.Field(0).Set(reflect.Zero(reflect.PointerTo(mt.Type)))
	got, err := jsonv2.Marshal(s.Interface(), opts...)
	if err != nil || string(got) != `{"F":null}` || len(mtypes.Log) != 0 {
		return fmt.Sprintf("nil pointer in %v field: got %q err=%v calls=%v; want null and no method or function call", it, got, err, mtypes.Log)
	}
	return ""
}

func round7(r *evid.Run) {
	fls := funcLists()
	var n int64
	for ti := range mtypes.MTypes {
		mt := &mtypes.MTypes[ti]
		for fi := range fls {
			for spell := range defaultSpellings() {
				for _, entries := range []int{1, 2, 3} {
					for _, det := range []bool{false, true} {
						if entries > 1 && !det {
							continue // member order is only fixed with Deterministic
						}
						n++
						if msg := round7One(mt, &fls[fi], "embedded-map", entries, det, spell, 0); msg != "" {
							ti, fi, spell, entries, det := ti, fi, spell, entries, det
							r.Violation(fmt.Sprintf("c17|r7map|%s|%s|%d|%d|%v", mt.Name, fls[fi].name, spell, entries, det), msg,
								Case{Part: "round7-embedded-map", Type: mt.Name, Funcs: fls[fi].name},
								func() bool { return round7One(&mtypes.MTypes[ti], &fls[fi], "embedded-map", entries, det, spell, 0) != "" })
						}
					}
				}
				for ii, it := range methodIfaces {
					if !reflect.PointerTo(mt.Type).Implements(it) {
						continue
					}
					n++
					if msg := round7One(mt, &fls[fi], "nil-in-iface", 0, false, spell, ii); msg != "" {
						ti, fi, spell, ii := ti, fi, spell, ii
						r.Violation(fmt.Sprintf("c17|r7nil|%s|%s|%d|%d", mt.Name, fls[fi].name, spell, ii), msg,
							Case{Part: "round7-nil-in-interface", Type: mt.Name, Funcs: fls[fi].name},
							func() bool { return round7One(&mtypes.MTypes[ti], &fls[fi], "nil-in-iface", 0, false, spell, ii) != "" })
					}
				}
			}
		}
	}
	r.Evaluations.Add(n)
	r.Nontrivial.Add(n)
	r.Bound("embedded maps and nil pointers behind method interfaces: %d method types x %d caller function lists x 3 spellings of the default options (none, DefaultOptionsV2(), joined) x {1 entry, 1/2/3 entries with Deterministic} resp. x the 4 marshal method interfaces *T implements", len(mtypes.MTypes), len(fls))
}
