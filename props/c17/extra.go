package c17

import (
	"errors"
	"fmt"
	"reflect"

	jsonv2 "github.com/go-json-experiment/json"

	"verif/internal/evid"
)

// ---- the same option values used for several calls: dispatch must not depend on which call it is ----
//
// Caller-supplied function lists keep per-type caches; the outcome of a call must be the same the first and the
// n-th time the same *Marshalers / *Unmarshalers value is used, at every position where "a function applies"
// changes what the default code does (omitempty members, map keys under Deterministic, elements behind any).

type ruName string

type ruStruct struct {
	Name  ruName            `json:"name,omitempty"`
	Ptr   *ruName           `json:"ptr,omitempty"`
	M     map[ruName]int    `json:"m"`
	MS    map[string]ruName `json:"ms"`
	L     []ruName          `json:"l"`
	A     any               `json:"a"`
	Plain string            `json:"plain,omitempty"`
}

func repeatedUse(r *evid.Run) {
	ms := jsonv2.JoinMarshalers(
		jsonv2.MarshalFunc(func(v ruName) ([]byte, error) {
			if v == "" {
				return []byte(`"<none>"`), nil
			}
			return []byte(`"` + string(v) + `!"`), nil
		}),
		jsonv2.MarshalFunc(func(v string) ([]byte, error) { return []byte(`"s:` + v + `"`), nil }),
	)
	us := jsonv2.JoinUnmarshalers(
		jsonv2.UnmarshalFunc(func(b []byte, v *ruName) error { *v = ruName("u:" + string(b)); return nil }),
		jsonv2.UnmarshalFunc(func(b []byte, v *string) error { *v = "s:" + string(b); return nil }),
	)
	empty := ruName("")
	vals := []any{
		ruStruct{}, ruStruct{Name: "n", Ptr: &empty, M: map[ruName]int{"a": 1, "b": 2}, MS: map[string]ruName{"k": ""}, L: []ruName{"", "x"}, A: ruName("a"), Plain: ""},
		map[ruName]ruName{"a": "", "b": "c"}, []any{ruName(""), "s", map[string]any{"k": "v"}}, ruName(""), &empty, map[string]int{"b": 1, "a": 2},
	}
	texts := []string{`{"name":"x","ptr":"y","m":{"k":1},"ms":{"a":"b"},"l":["p","q"],"a":"str","plain":"z"}`, `{"name":null,"l":[]}`, `["a",{"k":"v"}]`, `"top"`}
	var n int64
	for _, optSet := range [][]jsonv2.Options{{jsonv2.WithMarshalers(ms), jsonv2.WithUnmarshalers(us)}, {jsonv2.WithMarshalers(ms), jsonv2.WithUnmarshalers(us), jsonv2.Deterministic(true)}} {
		// fresh function lists for the reference run: a list used exactly once
		for vi, v := range vals {
			var first string
			for rep := 0; rep < 4; rep++ {
				n++
				b, err := jsonv2.Marshal(v, append([]jsonv2.Options{jsonv2.Deterministic(true)}, optSet...)...)
				got := fmt.Sprintf("%s|%v", b, err != nil)
				if rep == 0 {
					first = got
				} else if got != first {
					r.Violation(fmt.Sprintf("c17|repeated-marshal|%d|%d", vi, len(optSet)), fmt.Sprintf("Marshal of value #%d with the same option values gives %s on call %d but %s on the first call", vi, got, rep+1, first), Case{Part: "repeated-use", Input: fmt.Sprint(vi)}, nil)
					break
				}
			}
		}
		for ti, text := range texts {
			for _, mk := range []func() any{func() any { return new(ruStruct) }, func() any { return new(any) }, func() any { return new([]any) }, func() any { return new(ruName) }, func() any { return new(map[string]ruName) }} {
				var first string
				for rep := 0; rep < 4; rep++ {
					n++
					p := mk()
					err := jsonv2.Unmarshal([]byte(text), p, optSet...)
					b, _ := jsonv2.Marshal(p, jsonv2.Deterministic(true))
					got := fmt.Sprintf("%s|%v", b, err != nil)
					if rep == 0 {
						first = got
					} else if got != first {
						r.Violation(fmt.Sprintf("c17|repeated-unmarshal|%d|%T", ti, p), fmt.Sprintf("Unmarshal(%s) into %T with the same option values gives %s on call %d but %s on the first call", text, p, got, rep+1, first), Case{Part: "repeated-use", Input: text}, nil)
						break
					}
				}
			}
		}
	}
	// the first use must itself be right: compare with what fresh, single-use lists give
	for vi, v := range vals[:2] {
		n++
		fresh := jsonv2.JoinMarshalers(
			jsonv2.MarshalFunc(func(v ruName) ([]byte, error) {
				if v == "" {
					return []byte(`"<none>"`), nil
				}
				return []byte(`"` + string(v) + `!"`), nil
			}),
			jsonv2.MarshalFunc(func(v string) ([]byte, error) { return []byte(`"s:` + v + `"`), nil }),
		)
		a, _ := jsonv2.Marshal(v, jsonv2.WithMarshalers(fresh), jsonv2.Deterministic(true))
		b, _ := jsonv2.Marshal(v, jsonv2.WithMarshalers(ms), jsonv2.Deterministic(true))
		if string(a) != string(b) {
			r.Violation(fmt.Sprintf("c17|reused-vs-fresh|%d", vi), fmt.Sprintf("value #%d: a function list used for the first time gives %s, the same functions in an already used list give %s", vi, a, b), Case{Part: "repeated-use", Input: fmt.Sprint(vi)}, nil)
		}
	}
	r.Evaluations.Add(n)
	r.Nontrivial.Add(n)
	r.Bound("repeated use: the same *Marshalers / *Unmarshalers values through 4 consecutive calls x 7 values / 4 texts x 5 targets (omitempty members, map keys, elements behind any): identical results, equal to those of a list used once")
}

// ---- []byte-style user code returning errors: never a silent success ----

var errByteStyle = errors.New("byte-style user error")

type beM struct{ E error }

func (b beM) MarshalJSON() ([]byte, error) { return []byte(`"beM"`), b.E }

type beT struct{ E error }

func (b beT) MarshalText() ([]byte, error) { return []byte("beT"), b.E }

type beU struct {
	E error
	N int
}

var beUErr error

func (b *beU) UnmarshalJSON(p []byte) error { b.N = len(p); return beUErr }

func byteStyleErrors(r *evid.Run) {
	errs := []error{errByteStyle, errors.ErrUnsupported, fmt.Errorf("wrapped: %w", errors.ErrUnsupported), fmt.Errorf("twice: %w", fmt.Errorf("wrapped: %w", errors.ErrUnsupported))}
	var n int64
	for ei, e := range errs {
		e := e
		mf := jsonv2.WithMarshalers(jsonv2.MarshalFunc(func(v int) ([]byte, error) { return []byte("7"), e }))
		uf := jsonv2.WithUnmarshalers(jsonv2.UnmarshalFunc(func(b []byte, v *string) error { *v = "set"; return e }))
		type tc struct {
			name string
			run  func() error
		}
		cases := []tc{
			{"MarshalFunc on a slice element", func() error { _, err := jsonv2.Marshal([]int{1, 2}, mf); return err }},
			{"MarshalFunc at top level", func() error { _, err := jsonv2.Marshal(1, mf); return err }},
			{"MarshalFunc on a map value behind any", func() error { _, err := jsonv2.Marshal(map[string]any{"k": 1}, mf); return err }},
			{"MarshalJSON method", func() error { _, err := jsonv2.Marshal([]any{beM{e}}); return err }},
			{"MarshalText method", func() error { _, err := jsonv2.Marshal(map[string]beT{"k": {e}}); return err }},
			{"MarshalText method on a map key", func() error { _, err := jsonv2.Marshal(map[beT]int{{e}: 1}); return err }},
			{"UnmarshalFunc on slice elements", func() error {
				var v []string
				err := jsonv2.Unmarshal([]byte(`["a","b","c","d"]`), &v, uf)
				if err == nil {
					return nil
				}
				return err
			}},
			{"UnmarshalFunc at top level", func() error { var v string; return jsonv2.Unmarshal([]byte(`"a"`), &v, uf) }},
			{"UnmarshalFunc on a struct member", func() error {
				var v struct{ A, B string }
				return jsonv2.Unmarshal([]byte(`{"A":"a","B":"b"}`), &v, uf)
			}},
			{"UnmarshalJSON method", func() error {
				beUErr = e
				defer func() { beUErr = nil }()
				var v []beU
				return jsonv2.Unmarshal([]byte(`[1,2,3]`), &v)
			}},
		}
		for _, c := range cases {
			n++
			err := func() (err error) {
				defer func() {
					if p := recover(); p != nil {
						err = nil
						r.Violation(fmt.Sprintf("c17|byte-style-panic|%s|%d", c.name, ei), fmt.Sprintf("%s returning %v: library panic: %v", c.name, e, p), Case{Part: "byte-style", Input: c.name}, nil)
						err = errors.New("panicked")
					}
				}()
				return c.run()
			}()
			if err == nil {
				r.Violation(fmt.Sprintf("c17|byte-style|%s|%d", c.name, ei), fmt.Sprintf("%s returning the error %q: the call succeeded (a []byte-style method or function may not skip; its error must surface)", c.name, e), Case{Part: "byte-style", Input: c.name, Ret: ei}, nil)
			}
		}
	}
	r.Evaluations.Add(n)
	r.Nontrivial.Add(n)
	r.Bound("[]byte-style user code (MarshalFunc, UnmarshalFunc, MarshalJSON, MarshalText, UnmarshalJSON) returning a plain error, errors.ErrUnsupported, and ErrUnsupported wrapped once and twice, at 10 positions: the call always fails")
}

var _ = reflect.TypeOf
