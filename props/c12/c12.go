// Package c12: reformatting (Format, AppendFormat, Compact, Indent, Canonicalize) never changes meaning.
package c12

import (
	"strings"
	"bytes"
	"encoding/json"
	"fmt"
	"unsafe"

	"github.com/go-json-experiment/json/jsontext"

	"verif/internal/enum"
	"verif/internal/evid"
	"verif/internal/fmtcfg"
	"verif/internal/refjson"
	"verif/internal/views"
	"verif/props/c01"
)

var opNames = []string{"Format", "AppendFormat", "AppendFormat-overlap", "Compact", "Indent", "Canonicalize"}

var (
	baseCompact = fmtcfg.Cfg{On: fmtcfg.AllowDup | fmtcfg.AllowUTF8 | fmtcfg.Preserve}
	baseIndent  = fmtcfg.Cfg{On: fmtcfg.AllowDup | fmtcfg.AllowUTF8 | fmtcfg.Preserve | fmtcfg.Multiline}
	baseCanon   = fmtcfg.Cfg{On: fmtcfg.CanonInts | fmtcfg.CanonFloats | fmtcfg.Reorder}
)

type Case struct {
	Input     []byte     `json:"input"`
	InputText string     `json:"input_text"`
	Op        string     `json:"op"`
	Cfg       fmtcfg.Cfg `json:"cfg"`
	CfgText   string     `json:"cfg_text"`
}

func modelFor(op int, c fmtcfg.Cfg) refjson.FmtOpts {
	switch op {
	case 3:
		return fmtcfg.Model(baseCompact, c)
	case 4:
		return fmtcfg.Model(baseIndent, c)
	case 5:
		return fmtcfg.Model(baseCanon, c)
	}
	return fmtcfg.Model(c)
}

// call runs the real operation; it returns the output bytes, the error, and for in-place
// operations whether the slice header is unchanged.
func call(op int, in []byte, opts []jsontext.Options) (out []byte, err error, sameHeader bool, msg string) {
	defer func() {
		if p := recover(); p != nil {
			msg = fmt.Sprintf("library panic: %v", p)
		}
	}()
	switch op {
	case 1:
		dst := append(make([]byte, 0, 8), "xy"...)
		res, err := jsontext.AppendFormat(dst, in, opts...)
		if len(res) < 2 || string(res[:2]) != "xy" {
			return res, err, false, "AppendFormat clobbered dst"
		}
		return res[2:], err, true, ""
	case 2:
		// dst and src overlap: src lives in the same backing array right behind dst's (empty) length
		buf := make([]byte, len(in), 2*len(in)+16)
		copy(buf, in)
		res, err := jsontext.AppendFormat(buf[:0], buf, opts...)
		return res, err, true, ""
	}
	v := jsontext.Value(append(make([]byte, 0, len(in)+8), in...))
	p0, l0 := unsafe.SliceData(v), len(v)
	switch op {
	case 0:
		err = v.Format(opts...)
	case 3:
		err = v.Compact(opts...)
	case 4:
		err = v.Indent(opts...)
	case 5:
		err = v.Canonicalize(opts...)
	}
	return v, err, unsafe.SliceData(v) == p0 && len(v) == l0, ""
}

type checker struct {
	p     refjson.Parser
	valid [4]bool
	cur   Case
	out   map[string]int64
}

func (c *checker) prep(in []byte) (anyValid bool) {
	for k := 0; k < 4; k++ {
		c.p.O = refjson.Opts{AllowInvalidUTF8: k&1 != 0, AllowDupNames: k&2 != 0, NoToks: true}
		c.valid[k] = c.p.Run(in).Complete
		anyValid = anyValid || c.valid[k]
	}
	return
}

// one checks (input, op, cfg). prep(in) must have been called.
func (c *checker) one(in []byte, op int, cfg fmtcfg.Cfg, opts []jsontext.Options) string {
	mo := modelFor(op, cfg)
	k := 0
	if mo.AllowUTF8 {
		k |= 1
	}
	if mo.AllowDup {
		k |= 2
	}
	want := c.valid[k]
	out, err, same, msg := call(op, in, opts)
	if msg != "" {
		return msg
	}
	if (err == nil) != want {
		return fmt.Sprintf("err=%v but input valid under the effective options = %v", err, want)
	}
	if err != nil {
		c.out["rejected"]++
		if !bytes.Equal(out, in) {
			return fmt.Sprintf("on error the value was modified: %q", out)
		}
		if op != 1 && op != 2 && !same {
			return "on error the value's slice header changed"
		}
		return ""
	}
	if bytes.Equal(out, in) {
		c.out["unchanged"]++
		if op != 1 && op != 2 && !same {
			return "already formatted value was reallocated"
		}
	} else {
		c.out["reformatted"]++
	}
	// semantic laws, independent of the reference formatter
	po := refjson.Opts{AllowInvalidUTF8: true, AllowDupNames: true}
	ti, to := refjson.Tree(in, po), refjson.Tree(out, po)
	if to == nil {
		return fmt.Sprintf("output %q is not valid JSON", out)
	}
	if !mo.AllowUTF8 || !mo.AllowDup {
		c.p.O = refjson.Opts{AllowInvalidUTF8: mo.AllowUTF8, AllowDupNames: mo.AllowDup, NoToks: true}
		if !c.p.Run(out).Complete {
			return fmt.Sprintf("output %q is not valid under the same options", out)
		}
	}
	eq := refjson.EqOpts{NumByFloat: mo.CanonInts || mo.CanonFloats, IgnoreOrder: mo.Reorder}
	if !refjson.Equal(ti, to, eq) {
		return fmt.Sprintf("output %q does not denote the same value as input", out)
	}
	// integer literals (no fraction, no exponent) are governed by CanonicalizeRawInts alone, all other number
	// literals by CanonicalizeRawFloats alone
	if !mo.CanonInts && !spellingsKept(in, out, 'i', mo.Reorder, mo.CanonFloats) {
		return fmt.Sprintf("the spelling of an integer literal changed without CanonicalizeRawInts: %q", out)
	}
	if !mo.CanonFloats && !spellingsKept(in, out, 'f', mo.Reorder) {
		return fmt.Sprintf("the spelling of a number with fraction or exponent changed without CanonicalizeRawFloats: %q", out)
	}
	if mo.Preserve && !mo.HTML && !mo.JS && !spellingsKept(in, out, '"', mo.Reorder) {
		return fmt.Sprintf("string spelling changed under PreserveRawStrings without an escape option: %q", out)
	}
	// fixed point
	out2, err2, same2, msg2 := call(op, out, opts)
	if msg2 != "" {
		return "second application: " + msg2
	}
	if err2 != nil || !bytes.Equal(out2, out) {
		return fmt.Sprintf("not a fixed point: second application gives %q, err=%v", out2, err2)
	}
	if op != 1 && op != 2 && !same2 {
		return "second application (already formatted) reallocated the value"
	}
	return ""
}

// spellingsKept checks that the tokens of the given kind are spelled identically in input and output: as a
// sequence, or as a multiset when members may be reordered. For the number classes 'i' (integer literal) and
// 'f' (fraction or exponent present) the class is that of the INPUT token: the token at the same position of the
// output (or, under reordering, some distinct number token of the output) must have the same spelling.
func spellingsKept(in, out []byte, kind byte, reorder bool, negZeroFree ...bool) bool {
	nzf := len(negZeroFree) > 0 && negZeroFree[0]
	po := refjson.Opts{AllowInvalidUTF8: true, AllowDupNames: true}
	base := kind
	if kind == 'i' || kind == 'f' {
		base = '0'
	}
	collect := func(b []byte) []string {
		var l []string
		for _, t := range refjson.Parse(b, po).Toks {
			if t.Kind == base {
				l = append(l, string(b[t.Start:t.End]))
			}
		}
		return l
	}
	inClass := func(lit string) bool {
		switch kind {
		case 'i':
			// documented special case of both Canonicalize options: -0 may be written as 0
			return !strings.ContainsAny(lit, ".eE") && !(nzf && lit == "-0")
		case 'f':
			return strings.ContainsAny(lit, ".eE")
		}
		return true
	}
	la, lb := collect(in), collect(out)
	if len(la) != len(lb) {
		return false
	}
	if !reorder {
		for i := range la {
			if inClass(la[i]) && la[i] != lb[i] {
				return false
			}
		}
		return true
	}
	cnt := map[string]int{}
	for _, x := range lb {
		cnt[x]++
	}
	for _, x := range la {
		if inClass(x) {
			if cnt[x] == 0 {
				return false
			}
			cnt[x]--
		}
	}
	return true
}

func (c *checker) check(r *evid.Run, in []byte, op int, cfg fmtcfg.Cfg, opts []jsontext.Options) {
	c.cur = Case{Input: in, Op: opNames[op], Cfg: cfg}
	r.Evaluations.Add(1)
	if msg := c.one(in, op, cfg, opts); msg != "" {
		cs := Case{Input: append([]byte(nil), in...), InputText: string(in), Op: opNames[op], Cfg: cfg, CfgText: cfg.String()}
		key := fmt.Sprintf("c12|%q|%s|%s", in, cs.Op, cs.CfgText)
		r.Violation(key, msg, cs, func() bool { return replayCase(cs) != "" })
	}
}

func replayCase(cs Case) string {
	c := &checker{out: map[string]int64{}}
	c.prep(cs.Input)
	for op, n := range opNames {
		if n == cs.Op {
			return c.one(cs.Input, op, cs.Cfg, cs.Cfg.Real())
		}
	}
	return ""
}

func Replay(r *evid.Run, raw json.RawMessage) {
	var cs Case
	if json.Unmarshal(raw, &cs) != nil {
		return
	}
	r.Evaluations.Add(1)
	r.Nontrivial.Add(2)
	r.Sample(cs)
	if msg := replayCase(cs); msg != "" {
		fmt.Println("replay fails:", msg)
		r.Violation("replay", msg, cs, nil)
	} else {
		fmt.Println("replay passes")
	}
}

type cfgReal struct {
	c fmtcfg.Cfg
	o []jsontext.Options
}

func mk(c fmtcfg.Cfg) cfgReal { return cfgReal{c, c.Real()} }

// namedConfigs: none, every option singly, explicit-false variants, and all pairs from the interacting subset.
func namedConfigs() []cfgReal {
	var out []cfgReal
	out = append(out, mk(fmtcfg.Cfg{}))
	for i := 0; i < fmtcfg.N; i++ {
		out = append(out, mk(fmtcfg.Cfg{On: 1 << i, Indent: "  ", Prefix: " "}))
	}
	out = append(out,
		mk(fmtcfg.Cfg{On: fmtcfg.Multiline, Off: fmtcfg.SpaceColon}),
		mk(fmtcfg.Cfg{On: fmtcfg.Indent, Off: fmtcfg.Multiline, Indent: "\t"}),
		mk(fmtcfg.Cfg{On: fmtcfg.Indent | fmtcfg.Prefix, Indent: "", Prefix: "\t"}),
		mk(fmtcfg.Cfg{Off: fmtcfg.Preserve | fmtcfg.AllowDup | fmtcfg.AllowUTF8 | fmtcfg.Multiline}),
		mk(fmtcfg.Cfg{Off: fmtcfg.CanonInts | fmtcfg.Reorder}),
		mk(fmtcfg.Cfg{On: fmtcfg.AllowDup | fmtcfg.AllowUTF8 | fmtcfg.Reorder | fmtcfg.Multiline | fmtcfg.SpaceComma}),
	)
	sub := []uint32{fmtcfg.Preserve, fmtcfg.HTML, fmtcfg.JS, fmtcfg.CanonInts, fmtcfg.CanonFloats, fmtcfg.Reorder, fmtcfg.Multiline, fmtcfg.AllowUTF8, fmtcfg.AllowDup}
	for i := range sub {
		for j := i + 1; j < len(sub); j++ {
			out = append(out, mk(fmtcfg.Cfg{On: sub[i] | sub[j]}))
		}
	}
	return out
}

// corpus of option-sensitive documents for the full 2^13 product.
func corpus() [][]byte {
	docs := []string{
		`null`, ` true `, `"a"`, `"<>&"`, "\"  \"", `"< "`, `"a\/\b"`, "\"\xff\"", `"\ud800"`, `"😀"`, "\"\xf0\x9f\x98\x80\"",
		`0`, `-0`, `-0.0`, `1.0`, `1e1`, `1E+2`, `9007199254740993`, `12345678901234567890`, `1e400`, `-1e400`, `1e-400`, `0.000001`, `1e21`, `123456789012345`, `1234567890123456`,
		`[]`, `{}`, `[ ]`, `{ }`, `[1,2]`, `[1, 2 ]`, `{"a":1}`, `{ "a" : 1 }`, `{"b":1,"a":2}`, `{"a":1,"a":2}`, `{"b":{"d":1,"c":2},"a":[{"z":1,"y":2}]}`,
		`{"a":1,"a":2}`, "{\"\xff\":1,\"\xfe\":2}", `{"<":"<"," ":" "}`, `[[[]]]`, `[{},{"a":[]}]`, `{"":{"":{}}}`, "[\n\t1,\n\t2\n]", "{\n\t\"a\": 1\n}",
		`{"é":1,"z":2,"":3}`, `{"b":-0,"a":1.50}`, `[1.0,2e0,{"k":3.10}]`, `{"aa":1,"a":2,"b":{"bb":1,"b":2}}`, `[null,true,false,"x",1,{},[]]`,
		`{"a":[1,{"c":"d","b":[]}],"A":"é"}`, "{\"k\":\"\xe2\x82\"}", `"é€\t"`, `{"x": [ ], "y": { } }`, `  [ "a" , "b" ]  `,
	}
	out := make([][]byte, len(docs))
	for i, d := range docs {
		out[i] = []byte(d)
	}
	return out
}

func Run(r *evid.Run) {
	r.Rule("every string of alphabet views A1/A2/B (+ surrogate/string-body views) x {none, each of the 13 formatting options singly, explicit-false variants, all pairs of 9 interacting options} x {Format, AppendFormat, AppendFormat with overlapping dst/src, Compact, Indent, Canonicalize}; the full 2^13 option product on an option-sensitive corpus and on all valid small atom texts; a reorder stress family (all member orderings x whitespace styles, nested). Oracle: success iff valid under the effective options; output valid under the same options, denotes the same tree (numbers by float64 only under Canonicalize*, member order ignored only under ReorderRawObjects), number spellings kept unless Canonicalize*, string spellings kept under PreserveRawStrings without escape options; fixed point; unmodified on error; no reallocation when already formatted. evaluations = (text, op, config) triples; distinct_nontrivial = distinct (text, op, config) triples whose text is valid under at least one Allow* combination (i.e. the formatter actually ran)")
	r.Assume("reference recognizer and value tree (internal/refjson)", "strconv.ParseFloat for number values")
	cfgs := namedConfigs()
	lens := views.ForTier(r.Tier).Minus(1)
	vs := views.Views(lens)
	views.ForAll(r, vs, func(w *enum.Worker, v views.View) func([]byte) {
		c := &checker{out: map[string]int64{}}
		w.Describe = func() any { return c.cur }
		w.Done = func() { r.Outcomes(c.out) }
		n := 0
		return func(s []byte) {
			anyValid := c.prep(s)
			if !anyValid {
				// invalid under every option set: every operation must fail and leave the value alone.
				// Use a reduced configuration list (the first 20: none + singles + explicit-false variants).
				for i := 0; i < 20 && i < len(cfgs); i++ {
					for op := range opNames {
						c.check(r, s, op, cfgs[i].c, cfgs[i].o)
					}
				}
				return
			}
			n++
			if n == 50 {
				r.Sample(map[string]any{"view": v.Name, "input": string(s), "ops": opNames, "configs": len(cfgs)})
			}
			for i := range cfgs {
				for op := range opNames {
					c.check(r, s, op, cfgs[i].c, cfgs[i].o)
					r.Nontrivial.Add(1)
				}
			}
		}
	})
	r.Bound("named configurations: %d; operations: %v", len(cfgs), opNames)
	// escape neighbourhoods: surrogate halves next to ordinary escapes, raw characters and truncated escapes,
	// as a string value and as a member name with the same text as its value
	el := 2
	if r.Tier == "thorough" {
		el = 3
	}
	enum.Strings(r, views.EscapeAtoms, el+1, func(w *enum.Worker) func([]byte) {
		c := &checker{out: map[string]int64{}}
		w.Describe = func() any { return c.cur }
		w.Done = func() { r.Outcomes(c.out) }
		var buf []byte
		return func(body []byte) {
			for shape := 0; shape < 2; shape++ {
				if shape == 0 {
					buf = append(append(append(buf[:0], '"'), body...), '"')
				} else {
					buf = append(append(append(append(append(buf[:0], `{"`...), body...), `":["`...), body...), `"]}`...)
				}
				lim := len(cfgs)
				if !c.prep(buf) {
					lim = min(20, lim)
				}
				for i := 0; i < lim; i++ {
					for op := range opNames {
						c.check(r, buf, op, cfgs[i].c, cfgs[i].o)
						r.Nontrivial.Add(1)
					}
				}
			}
		}
	})
	r.Bound("escape neighbourhoods: every sequence of <=%d atoms of %q as a string and as a member name + value, through every named configuration and operation", el+1, views.EscapeAtoms)
	product(r)
	reorderStress(r)
	wideObjects(r)
	siblingObjects(r)
	deepTexts(r)
}

// product: the full 2^13 option product on the corpus (Format only; the other entry points
// are the same code with a base configuration and are covered with named configurations).
func product(r *evid.Run) {
	docs := corpus()
	if r.Tier == "thorough" {
		// add every valid text of <=3 B atoms
		var p refjson.Parser
		p.O = refjson.Opts{AllowInvalidUTF8: true, AllowDupNames: true, NoToks: true}
		var rec func(buf []byte, d int)
		rec = func(buf []byte, d int) {
			if d > 0 && p.Run(buf).Complete {
				docs = append(docs, append([]byte(nil), buf...))
			}
			if d == 3 {
				return
			}
			for _, a := range views.B {
				rec(append(buf[:len(buf):len(buf)], a...), d+1)
			}
		}
		rec(nil, 0)
	}
	total := 1 << fmtcfg.N
	enum.Parallel(r, total/64, func(w *enum.Worker) func(int) {
		c := &checker{out: map[string]int64{}}
		w.Describe = func() any { return c.cur }
		w.Done = func() { r.Outcomes(c.out) }
		return func(u int) {
			for bits := u * 64; bits < (u+1)*64; bits++ {
				cfg := fmtcfg.Cfg{On: uint32(bits), Indent: "  ", Prefix: "\t"}
				opts := cfg.Real()
				for _, d := range docs {
					c.prep(d)
					c.check(r, d, 0, cfg, opts)
					r.Nontrivial.Add(1)
					w.Beat()
				}
			}
		}
	})
	r.Bound("full product: all %d subsets of the 13 formatting options x %d corpus documents (Format)", total, len(docs))
	// explicit false: every boolean option switched off explicitly (alone, and after having been switched on),
	// through every operation - Compact / Indent / Canonicalize start from presets that such an option overrides
	var offs []cfgReal
	for i := 0; i < 11; i++ {
		offs = append(offs, mk(fmtcfg.Cfg{Off: 1 << i}))
		offs = append(offs, mk(fmtcfg.Cfg{Off: 1 << i, Pre: 1 << i}))
	}
	offs = append(offs, namedConfigs()...)
	ck := &checker{out: map[string]int64{}}
	var n int64
	for _, d := range docs {
		for _, cf := range offs {
			for op := 0; op < 6; op++ {
				ck.prep(d)
				ck.check(r, d, op, cf.c, cf.o)
				n++
			}
		}
	}
	r.Outcomes(ck.out)
	r.Nontrivial.Add(n)
	r.Bound("explicit false: %d corpus documents x {each boolean option false; true then false; the named configurations} x 6 operations", len(docs))
}

func reorderStress(r *evid.Run) {
	members := []string{`"b":1`, `"a":[1,2]`, `"é":{"y":1,"x":2}`, `"aa":"str"`, `"":null`}
	ws := []string{"", " ", "\n  "}
	cfgs := []cfgReal{mk(fmtcfg.Cfg{On: fmtcfg.Reorder}), mk(fmtcfg.Cfg{On: fmtcfg.Reorder | fmtcfg.Multiline}),
		mk(fmtcfg.Cfg{On: fmtcfg.Reorder | fmtcfg.Indent | fmtcfg.Prefix | fmtcfg.SpaceComma, Indent: " ", Prefix: "\t"}), mk(fmtcfg.Cfg{On: fmtcfg.Reorder | fmtcfg.SpaceColon | fmtcfg.SpaceComma})}
	var docs [][]byte
	var perm func(chosen []int, k int)
	perm = func(chosen []int, k int) {
		if len(chosen) == k {
			for a := range ws {
				for b := range ws {
					for cc := range ws {
						var bb bytes.Buffer
						bb.WriteString("{" + ws[cc])
						for i, m := range chosen {
							if i > 0 {
								bb.WriteString("," + ws[a])
							}
							name, val, _ := bytes.Cut([]byte(members[m]), []byte(":"))
							bb.Write(name)
							bb.WriteString(ws[b] + ":" + ws[a])
							bb.Write(val)
						}
						bb.WriteString(ws[cc] + "}")
						docs = append(docs, append([]byte(nil), bb.Bytes()...))
						docs = append(docs, []byte(`{"z":`+bb.String()+`,"k":[`+bb.String()+`]}`))
					}
				}
			}
			return
		}
	next:
		for i := range members {
			for _, c := range chosen {
				if c == i {
					continue next
				}
			}
			perm(append(chosen, i), k)
		}
	}
	maxK := 3
	if r.Tier == "thorough" {
		maxK = 4
	}
	for k := 2; k <= maxK; k++ {
		perm(nil, k)
	}
	enum.Parallel(r, len(docs), func(w *enum.Worker) func(int) {
		c := &checker{out: map[string]int64{}}
		w.Describe = func() any { return c.cur }
		w.Done = func() { r.Outcomes(c.out) }
		return func(u int) {
			c.prep(docs[u])
			for _, cf := range cfgs {
				for _, op := range []int{0, 2, 5} {
					c.check(r, docs[u], op, cf.c, cf.o)
					r.Nontrivial.Add(1)
				}
			}
		}
	})
	r.Sample(map[string]any{"family": "reorder-stress", "input": string(docs[len(docs)/2])})
	r.Bound("reorder stress: all ordered selections of 2..%d of %d members x 27 whitespace styles, flat and nested (%d documents) x %d configurations x {Format, AppendFormat-overlap, Canonicalize}", maxK, len(members), len(docs), len(cfgs))
}

// wideObjects: duplicate names around the 64-name / 1 KiB switch of the name set must make every
// strict operation fail (value untouched) and every permissive one succeed.
// deepTexts: texts nested exactly d deep for d around the limit, in the shapes of C01's depth family, through
// every operation: success iff valid (the limit included), output valid, same value, fixed point.
func deepTexts(r *evid.Run) {
	names, texts := c01.DeepTexts(r.Tier)
	// no indentation here: indenting a text nested d deep writes O(d^2) bytes (100 MB at d = 10000) by definition
	cfgs := []cfgReal{mk(fmtcfg.Cfg{}), mk(fmtcfg.Cfg{On: fmtcfg.SpaceComma | fmtcfg.SpaceColon}), mk(fmtcfg.Cfg{On: fmtcfg.Reorder | fmtcfg.AllowDup}), mk(fmtcfg.Cfg{On: fmtcfg.AllowUTF8 | fmtcfg.CanonInts})}
	enum.Parallel(r, len(texts), func(w *enum.Worker) func(int) {
		c := &checker{out: map[string]int64{}}
		w.Describe = func() any { return c.cur }
		w.Done = func() { r.Outcomes(c.out) }
		return func(u int) {
			doc := texts[u]
			c.prep(doc)
			for ci, cf := range cfgs {
				for op := range opNames {
					if opNames[op] == "Indent" || (ci > 0 && op != 0 && op != 5) {
						continue
					}
					c.check(r, doc, op, cf.c, cf.o)
					r.Nontrivial.Add(1)
				}
			}
			w.Beat()
		}
	})
	r.Bound("depth: %d texts (%s ... ) nested exactly d deep for d around 10000 x Format / AppendFormat (also with overlapping destination) / Compact / Canonicalize under default options and Format/Canonicalize under 3 more option sets (Indent is left out: its output is quadratic in the depth)", len(texts), names[0])
}

func wideObjects(r *evid.Run) {
	ns := []int{64, 65, 66, 67, 68}
	if r.Tier == "thorough" {
		ns = []int{60, 61, 62, 63, 64, 65, 66, 67, 68, 69, 70, 130}
	}
	cfgs := []cfgReal{mk(fmtcfg.Cfg{}), mk(fmtcfg.Cfg{On: fmtcfg.Reorder}), mk(fmtcfg.Cfg{On: fmtcfg.AllowDup}), mk(fmtcfg.Cfg{On: fmtcfg.Multiline | fmtcfg.CanonInts})}
	type unit struct{ n, fam int }
	var units []unit
	for _, n := range ns {
		units = append(units, unit{n, 0}, unit{n, 1})
	}
	enum.Parallel(r, len(units), func(w *enum.Worker) func(int) {
		c := &checker{out: map[string]int64{}}
		w.Describe = func() any { return c.cur }
		w.Done = func() { r.Outcomes(c.out) }
		return func(u int) {
			n := units[u].n
			name := func(i int) string {
				if units[u].fam == 1 {
					return fmt.Sprintf("xxxxxxxxxxxxxx%02d", i)
				}
				return fmt.Sprintf("k%d", i)
			}
			for j := 1; j < n; j++ {
				for i := 0; i < j; i++ {
					if r.Tier != "thorough" && i%7 != j%7 && j != i+1 && j != n-1 {
						continue
					}
					var bb bytes.Buffer
					bb.WriteByte('{')
					for k := 0; k < n; k++ {
						if k > 0 {
							bb.WriteByte(',')
						}
						nm := name(k)
						if k == j {
							nm = name(i)
						}
						fmt.Fprintf(&bb, `"%s":%d`, nm, k)
					}
					bb.WriteByte('}')
					doc := bb.Bytes()
					c.prep(doc)
					for _, cf := range cfgs {
						for _, op := range []int{0, 1, 5} {
							c.check(r, doc, op, cf.c, cf.o)
							r.Nontrivial.Add(1)
						}
					}
					w.Beat()
				}
			}
		}
	})
	r.Bound("wide objects: N in %v members (short and 16-byte names) with a duplicate at ordered pairs (i,j) x 4 configurations x {Format, AppendFormat, Canonicalize}", ns)
}

// siblingObjects: objects whose names are few but long (the name index switches representation on total name
// bytes as well as on member count) followed by sibling objects at the same depth - and by later, separate
// calls - that use the same names again: once each (valid) or twice (duplicate).
func siblingObjects(r *evid.Run) {
	counts := []int{1, 2, 3, 4, 8}
	lens := []int{100, 250, 255, 256, 257, 340, 341, 342, 400, 511, 512, 513, 1023, 1024, 1025}
	if r.Tier == "thorough" {
		counts = []int{1, 2, 3, 4, 5, 6, 7, 8, 16, 32}
		for l := 90; l <= 110; l++ {
			lens = append(lens, l)
		}
		for l := 120; l <= 1100; l += 7 {
			lens = append(lens, l)
		}
	}
	cfgs := []cfgReal{mk(fmtcfg.Cfg{}), mk(fmtcfg.Cfg{On: fmtcfg.Reorder}), mk(fmtcfg.Cfg{On: fmtcfg.AllowDup}), mk(fmtcfg.Cfg{On: fmtcfg.Multiline | fmtcfg.CanonInts})}
	type unit struct{ k, l int }
	var units []unit
	for _, k := range counts {
		for _, l := range lens {
			units = append(units, unit{k, l})
		}
	}
	enum.Parallel(r, len(units), func(w *enum.Worker) func(int) {
		c := &checker{out: map[string]int64{}}
		w.Describe = func() any { return c.cur }
		w.Done = func() { r.Outcomes(c.out) }
		return func(u int) {
			k, l := units[u].k, units[u].l
			name := func(i int) string { return string(rune('a'+i%26)) + strings.Repeat("n", l-2) + string(rune('A'+i/26)) }
			var big bytes.Buffer
			big.WriteByte('{')
			for i := 0; i < k; i++ {
				if i > 0 {
					big.WriteByte(',')
				}
				fmt.Fprintf(&big, `"%s":%d`, name(i), i)
			}
			big.WriteByte('}')
			A := big.String()
			for reuse := 0; reuse < k; reuse += max(1, k-1) { // first and last name
				once := fmt.Sprintf(`{"%s":1}`, name(reuse))
				twice := fmt.Sprintf(`{"%s":1,"x":2,"%s":3}`, name(reuse), name(reuse))
				short := `{"x":1,"y":2}`
				for _, B := range []string{once, twice, short, A} {
					docs := []string{
						"[" + A + "," + B + "]",
						"[" + B + "," + A + "," + B + "]",
						`{"p":` + A + `,"q":` + B + `}`,
						`[[` + A + `],[` + B + `]]`,
						A, B, // separate calls, one after the other
					}
					for _, doc := range docs {
						d := []byte(doc)
						c.prep(d)
						for _, cf := range cfgs {
							for _, op := range []int{0, 1, 3, 5} {
								c.check(r, d, op, cf.c, cf.o)
								r.Nontrivial.Add(1)
							}
						}
					}
				}
			}
			w.Beat()
		}
	})
	r.Bound("sibling objects: objects of %v names of %d lengths in 100..1025 bytes followed by a sibling object (same depth; also a later separate call) using one of the names once / twice / not at all / all of them, in 6 document shapes x 4 configurations x 4 operations", counts, len(lens))
}
