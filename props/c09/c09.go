// Package c09: package v1 behaves like the classic encoding/json (the Go standard library is the oracle).
package c09

import (
	"bytes"
	"encoding/json"
	"fmt"
	"io"
	"reflect"
	"strings"
	"sync/atomic"

	stdjson "encoding/json"

	jsonv1 "github.com/go-json-experiment/json/v1"

	"verif/internal/enum"
	"verif/internal/evid"
	"verif/internal/refjson"
	"verif/internal/typeuniv"
	"verif/internal/views"
	"verif/props/mtypes"
)

type Case struct {
	Part   string `json:"part"`
	Input  []byte `json:"input,omitempty"`
	Text   string `json:"text,omitempty"`
	Func   string `json:"func,omitempty"`
	Prefix string `json:"prefix,omitempty"`
	Indent string `json:"indent,omitempty"`
	Type   string `json:"type,omitempty"`
	Index  int    `json:"index,omitempty"`
	Value  int    `json:"value,omitempty"`
	Prog   string `json:"program,omitempty"`
	Num    bool   `json:"use_number,omitempty"`
}

var knownSpelling atomic.Int64

// Canonical keys / markers of further recorded findings.
const (
	KnownMorePrefix   = "KNOWN-F16: "
	KnownMoreKey      = "c09|decoder|More-after-name-before-missing-value"
	KnownStrKeyPrefix = "KNOWN-F11: "
	KnownStrKeyKey    = "c09|marshal|string-kind-map-key-with-MarshalText"
)

// KnownSpellingKey is the canonical key of the recorded finding F9.
const KnownSpellingKey = "c09|marshal|replacement-character-spelling"

var indents = []string{"", " ", "\t", ">", "ab"}

// ---- part 1: Valid / Compact / Indent / HTMLEscape ----

func textFuncs(s []byte) (msg string) {
	defer func() {
		if p := recover(); p != nil {
			msg = fmt.Sprintf("library panic: %v", p)
		}
	}()
	if a, b := stdjson.Valid(s), jsonv1.Valid(s); a != b {
		return fmt.Sprintf("Valid: encoding/json %v, v1 %v", a, b)
	}
	var d1, d2 bytes.Buffer
	d1.WriteString("xy")
	d2.WriteString("xy")
	e1, e2 := stdjson.Compact(&d1, s), jsonv1.Compact(&d2, s)
	if (e1 == nil) != (e2 == nil) || !bytes.Equal(d1.Bytes(), d2.Bytes()) {
		return fmt.Sprintf("Compact: encoding/json (%q, %v), v1 (%q, %v)", d1.Bytes(), e1, d2.Bytes(), e2)
	}
	d1.Reset()
	d2.Reset()
	stdjson.HTMLEscape(&d1, s)
	jsonv1.HTMLEscape(&d2, s)
	if !bytes.Equal(d1.Bytes(), d2.Bytes()) {
		return fmt.Sprintf("HTMLEscape: encoding/json %q, v1 %q", d1.Bytes(), d2.Bytes())
	}
	for _, p := range indents {
		for _, in := range indents {
			d1.Reset()
			d2.Reset()
			d1.WriteString("xy")
			d2.WriteString("xy")
			e1, e2 := stdjson.Indent(&d1, s, p, in), jsonv1.Indent(&d2, s, p, in)
			if (e1 == nil) != (e2 == nil) || (e1 == nil && !bytes.Equal(d1.Bytes(), d2.Bytes())) {
				return fmt.Sprintf("Indent(prefix=%q, indent=%q): encoding/json (%q, %v), v1 (%q, %v)", p, in, d1.Bytes(), e1, d2.Bytes(), e2)
			}
		}
	}
	return ""
}

// ---- part 2: Marshal / MarshalIndent / Unmarshal over a type universe ----

var commonTags = map[string]bool{"plain": true, "named": true, "omitzero": true, "omitempty": true, "string": true, "named+omitzero+omitempty": true, "escaped-name": true}

type Emb struct {
	A int
	B string `json:"b,omitempty"`
}
type EmbP struct {
	C *int `json:",omitempty"`
	A string
}
type Outer struct {
	Emb
	*EmbP
	X   int `json:"-"`
	Y   int `json:"-,"`
	Z   any `json:"z,omitzero"`
	Raw stdjson.RawMessage
	I8  int8 `json:",string"`
}

func universe() []reflect.Type {
	var ts []reflect.Type
	for _, t := range typeuniv.Universe(typeuniv.Cfg{Depth: 1}) {
		if usesUncommonTag(t) || usesFloatKey(t) {
			continue
		}
		ts = append(ts, t)
	}
	// methods common to both libraries: MarshalJSON / MarshalText (value and pointer receivers), no MarshalJSONTo / AppendText
	for i := range mtypes.MTypes {
		mt := &mtypes.MTypes[i]
		if mt.Assign[0] == '0' && mt.Assign[2] == '0' && mt.Assign != "0000" {
			ts = append(ts, mt.Type, reflect.PointerTo(mt.Type), reflect.SliceOf(mt.Type), reflect.MapOf(reflect.TypeOf(""), mt.Type),
				reflect.StructOf([]reflect.StructField{{Name: "F", Type: mt.Type}, {Name: "P", Type: reflect.PointerTo(mt.Type), Tag: `json:",omitempty"`}}))
			if mt.Type.Comparable() {
				ts = append(ts, reflect.MapOf(mt.Type, reflect.TypeOf(0)))
			}
		}
	}
	ts = append(ts, reflect.TypeOf(Outer{}), reflect.TypeOf(&Outer{}), reflect.TypeOf([]Outer{}), reflect.TypeOf(map[string]*Outer{}), reflect.TypeOf(map[typeuniv.TextKey]Emb{}))
	return ts
}

func usesUncommonTag(t reflect.Type) bool {
	if t.Kind() != reflect.Struct {
		return false
	}
	for i := 0; i < t.NumField(); i++ {
		if strings.Contains(t.Field(i).Tag.Get("json"), "case:") {
			return true
		}
	}
	return false
}

func usesFloatKey(t reflect.Type) bool {
	return t.Kind() == reflect.Map && (t.Key().Kind() == reflect.Float64 || t.Key().Kind() == reflect.Float32)
}

func domainOf(t reflect.Type) []reflect.Value {
	var d []reflect.Value
	func() {
		defer func() { recover() }()
		d = typeuniv.Domain(t, false)
	}()
	if len(d) == 0 {
		d = append(d, reflect.Zero(t))
		if t == reflect.TypeOf(Outer{}) {
			one := 1
			d = append(d, reflect.ValueOf(Outer{Emb: Emb{A: 1, B: "b"}, EmbP: &EmbP{C: &one, A: "x"}, X: 3, Y: 4, Z: map[string]any{"k": 1.5}, Raw: stdjson.RawMessage(`{"r": [1, 2]}`), I8: -5}))
		}
	}
	return d
}

// marshalBoth compares Marshal and MarshalIndent.
func marshalBoth(v any) (out []byte, msg string) {
	defer func() {
		if p := recover(); p != nil {
			msg = fmt.Sprintf("panic: %v", p)
		}
	}()
	mtypes.Reset()
	b1, e1 := stdjson.Marshal(v)
	log1 := fmt.Sprint(mtypes.Log)
	mtypes.Reset()
	b2, e2 := jsonv1.Marshal(v)
	log2 := fmt.Sprint(mtypes.Log)
	if e1 == nil && e2 == nil && !bytes.Equal(b1, b2) && bytes.Equal(bytes.ReplaceAll(b1, []byte(`\ufffd`), []byte("\ufffd")), b2) {
		// Known finding F9: encoding/json writes the replacement of ill-formed UTF-8 in a Go string as the escape
		// sequence \ufffd, v1 writes the character itself. The repository's own tests pin v1's spelling, so this
		// is recorded rather than repaired; outputs are compared modulo exactly this spelling.
		knownSpelling.Add(1)
		b1 = b2
	}
	if (e1 == nil) != (e2 == nil) || (e1 == nil && !bytes.Equal(b1, b2)) {
		return nil, fmt.Sprintf("Marshal: encoding/json (%s, %v), v1 (%s, %v)", b1, e1, b2, e2)
	}
	if e1 == nil && log1 != log2 {
		return nil, fmt.Sprintf("Marshal: different user methods called: encoding/json %s, v1 %s", log1, log2)
	}
	for _, pi := range [][2]string{{"", "\t"}, {">", " "}, {"", ""}} {
		mtypes.Reset()
		i1, e1 := stdjson.MarshalIndent(v, pi[0], pi[1])
		mtypes.Reset()
		i2, e2 := jsonv1.MarshalIndent(v, pi[0], pi[1])
		if e1 == nil && e2 == nil && bytes.Equal(bytes.ReplaceAll(i1, []byte(`\ufffd`), []byte("\ufffd")), i2) {
			i1 = i2
		}
		if (e1 == nil) != (e2 == nil) || (e1 == nil && !bytes.Equal(i1, i2)) {
			return nil, fmt.Sprintf("MarshalIndent(%q,%q): encoding/json (%s, %v), v1 (%s, %v)", pi[0], pi[1], i1, e1, i2, e2)
		}
	}
	if e1 != nil {
		return nil, ""
	}
	return b1, ""
}

func clonePtr(t reflect.Type, pre reflect.Value) reflect.Value {
	p := reflect.New(t)
	if pre.IsValid() {
		// deep copy through the standard library (both start from the same state)
		b, err := stdjson.Marshal(pre.Interface())
		if err == nil {
			stdjson.Unmarshal(b, p.Interface())
		}
	}
	return p
}

// unmarshalBoth compares Unmarshal into equal targets.
func unmarshalBoth(t reflect.Type, text []byte, pre reflect.Value) (msg string) {
	defer func() {
		if p := recover(); p != nil {
			msg = fmt.Sprintf("panic: %v", p)
		}
	}()
	p1, p2 := clonePtr(t, pre), clonePtr(t, pre)
	before := clonePtr(t, pre)
	mtypes.Reset()
	e1 := stdjson.Unmarshal(text, p1.Interface())
	mtypes.Reset()
	e2 := jsonv1.Unmarshal(text, p2.Interface())
	if (e1 == nil) != (e2 == nil) {
		return fmt.Sprintf("Unmarshal(%s): encoding/json err=%v, v1 err=%v", text, e1, e2)
	}
	if e1 == nil {
		if !reflect.DeepEqual(p1.Elem().Interface(), p2.Elem().Interface()) {
			return fmt.Sprintf("Unmarshal(%s): encoding/json gives %#v, v1 gives %#v", text, p1.Elem().Interface(), p2.Elem().Interface())
		}
		return ""
	}
	if _, syntax := e1.(*stdjson.SyntaxError); syntax {
		if !reflect.DeepEqual(p2.Elem().Interface(), before.Elem().Interface()) {
			return fmt.Sprintf("Unmarshal(%s): syntactically invalid input modified the target: %#v (was %#v)", text, p2.Elem().Interface(), before.Elem().Interface())
		}
	}
	return ""
}

// textsFor derives the unmarshal inputs for a type from the marshal outputs of its domain.
func textsFor(outs [][]byte) [][]byte {
	seen := map[string]bool{}
	var res [][]byte
	add := func(b []byte) {
		if !seen[string(b)] && len(b) < 400 {
			seen[string(b)] = true
			res = append(res, append([]byte(nil), b...))
		}
	}
	for _, o := range outs {
		add(o)
	}
	crit := []byte(`{}[]",:0-x \`)
	for i, o := range outs {
		if i >= 6 || len(o) > 60 {
			continue
		}
		for p := 0; p <= len(o); p++ {
			if p < len(o) {
				add(append(append([]byte(nil), o[:p]...), o[p+1:]...))
			}
			for _, c := range crit {
				add(append(append(append([]byte(nil), o[:p]...), c), o[p:]...))
			}
		}
		// case variants and duplicates of member names
		up := bytes.ToUpper(o)
		add(up)
		add(bytes.ToLower(o))
		if len(o) > 2 && o[0] == '{' {
			add(append(append(append([]byte(nil), o[:len(o)-1]...), ','), o[1:]...))
		}
	}
	for _, w := range []string{`null`, `true`, `1`, `-1.5`, `"s"`, `""`, `[]`, `{}`, `[1,"a",null]`, `{"a":1,"A":2,"F":3,"f":4,"n":5}`, `{"F":null,"A":null,"B":null}`, `"AQID"`, `[1,2,3]`, ` {"F" : 1 } `, `{"F":1}x`, `[null]]`, `1e999`, `300`, `"12"`, `{"F":"12"}`, `{"F":"1.5"}`, `{"z":{"a":[1,{"b":null}]}}`} {
		add([]byte(w))
	}
	return res
}

// ---- part 3: Decoder programs ----

type stepObs struct {
	kind string
	val  string
	err  bool
	eof  bool
}

func tokenString(t any) string {
	switch x := t.(type) {
	case stdjson.Delim:
		return "delim:" + x.String()
	case jsonv1.Delim:
		return "delim:" + x.String()
	case stdjson.Number:
		return "number:" + x.String()
	case jsonv1.Number:
		return "number:" + x.String()
	}
	return fmt.Sprintf("%T:%v", t, t)
}

type ufT struct {
	A int `json:"a"`
	B []any
}

func decoderProgram(doc string, prog string, useNumber, disallow bool) (msg string) {
	defer func() {
		if p := recover(); p != nil {
			msg = fmt.Sprintf("panic: %v", p)
		}
	}()
	d1 := stdjson.NewDecoder(strings.NewReader(doc))
	d2 := jsonv1.NewDecoder(strings.NewReader(doc))
	// which error value reports the end of input is only compared for well-formed streams (io.EOF at a clean end)
	validStream := refjson.Valid([]byte(doc), refjson.Opts{Stream: true, AllowDupNames: true, AllowInvalidUTF8: true})
	if useNumber {
		d1.UseNumber()
		d2.UseNumber()
	}
	if disallow {
		d1.DisallowUnknownFields()
		d2.DisallowUnknownFields()
	}
	for i := 0; i < len(prog); i++ {
		var o1, o2 stepObs
		switch prog[i] {
		case 'D':
			var a, b any
			e1, e2 := d1.Decode(&a), d2.Decode(&b)
			o1 = stepObs{"Decode", show(a), e1 != nil, e1 == io.EOF}
			o2 = stepObs{"Decode", show(b), e2 != nil, e2 == io.EOF}
		case 'S':
			var a, b ufT
			e1, e2 := d1.Decode(&a), d2.Decode(&b)
			o1 = stepObs{"Decode(struct)", fmt.Sprintf("%+v", a), e1 != nil, e1 == io.EOF}
			o2 = stepObs{"Decode(struct)", fmt.Sprintf("%+v", b), e2 != nil, e2 == io.EOF}
			if e1 != nil {
				o1.val, o2.val = "", "" // the target after an error is not compared
			}
		case 'T':
			t1, e1 := d1.Token()
			t2, e2 := d2.Token()
			o1 = stepObs{"Token", tokenString(t1), e1 != nil, e1 == io.EOF}
			o2 = stepObs{"Token", tokenString(t2), e2 != nil, e2 == io.EOF}
		case 'M':
			off := d1.InputOffset()
			o1 = stepObs{kind: "More", val: fmt.Sprint(d1.More())}
			o2 = stepObs{kind: "More", val: fmt.Sprint(d2.More())}
			if o1.val == "true" && o2.val == "false" && int(off) <= len(doc) {
				rest := strings.TrimLeft(doc[off:], " \t\r\n")
				if strings.HasPrefix(rest, ":") {
					if r2 := strings.TrimLeft(rest[1:], " \t\r\n"); strings.HasPrefix(r2, "}") || strings.HasPrefix(r2, "]") {
						return KnownMorePrefix + fmt.Sprintf("More() right after a member name that is followed by ':' and a closing delimiter (invalid input %q): encoding/json true, v1 false", doc)
					}
				}
			}
		case 'O':
			o1 = stepObs{kind: "InputOffset", val: fmt.Sprint(d1.InputOffset())}
			o2 = stepObs{kind: "InputOffset", val: fmt.Sprint(d2.InputOffset())}
		case 'U': // the option setters may be called at any time, any number of times, in any order
			d1.UseNumber()
			d2.UseNumber()
			continue
		case 'K':
			d1.DisallowUnknownFields()
			d2.DisallowUnknownFields()
			continue
		}
		if o1.err && o2.err {
			if o1.eof != o2.eof && validStream {
				return fmt.Sprintf("step %d (%s): io.EOF mismatch: encoding/json eof=%v, v1 eof=%v", i+1, o1.kind, o1.eof, o2.eof)
			}
			return "" // both failed; the state after an error is not specified
		}
		if o1 != o2 {
			return fmt.Sprintf("step %d (%s): encoding/json (%q err=%v), v1 (%q err=%v)", i+1, o1.kind, o1.val, o1.err, o2.val, o2.err)
		}
	}
	return ""
}

func show(v any) string {
	switch x := v.(type) {
	case map[string]any:
		var parts []string
		ks := make([]string, 0, len(x))
		for k := range x {
			ks = append(ks, k)
		}
		for i := range ks {
			for j := i + 1; j < len(ks); j++ {
				if ks[j] < ks[i] {
					ks[i], ks[j] = ks[j], ks[i]
				}
			}
		}
		for _, k := range ks {
			parts = append(parts, fmt.Sprintf("%q:%s", k, show(x[k])))
		}
		return "{" + strings.Join(parts, ",") + "}"
	case []any:
		var parts []string
		for _, e := range x {
			parts = append(parts, show(e))
		}
		return "[" + strings.Join(parts, ",") + "]"
	case stdjson.Number:
		return "number:" + string(x)
	case jsonv1.Number:
		return "number:" + string(x)
	}
	return fmt.Sprintf("%T:%v", v, v)
}

var decoderDocs = []string{
	`1`, `1 2`, ` 1 , 2`, `[1,2]`, `[1 , 2 , 3 ]`, `{"a":1}`, `{"a":[1,{"b":null}],"c":"d"}`, `[]`, `{}`, `[[]]`, `"s" "t"`, `1  2   3`, `[1,2] [3]`, `{"a":1,"a":2}`, `{"a":1,"z":2}`,
	`[1,]`, `[1 2]`, `{"a" 1}`, `{"a":}`, `{1:2}`, `[`, `]`, `nul`, `tru e`, `1.5e`, `-`, `"\ud800"`, "\"\xff\"", `1e999`, `[1e999]`, `{"a":1}x`, ` `, ``, `null`, `[null, true]`, `{"B":[1,"x"],"a":5}`,
	`12345678901234567890`, `0.1 -0 1E2`, "[1,\n 2]", `{"a":{"b":{"c":[]}}}`,
	"[\r\n\t1,\r\n 2\r]\r\n", "{\"a\"\r:\r1\r,\t\"b\"\n:[\r]}\r", "1\r2\r\n3\t4", "\r[\r]\r", "[1\r,2]", "{\"a\":1\r}",
}

// ---- part 4: Encoder op sequences ----

type encOp struct {
	kind   int // 0 Encode(value i), 1 SetIndent, 2 SetEscapeHTML
	i      int
	p, ind string
	b      bool
}

func (o encOp) String() string {
	switch o.kind {
	case 0:
		return fmt.Sprintf("Encode(#%d)", o.i)
	case 1:
		return fmt.Sprintf("SetIndent(%q,%q)", o.p, o.ind)
	}
	return fmt.Sprintf("SetEscapeHTML(%v)", o.b)
}

var encValues = []any{1, "<a&b> ", []any{1, "x", nil}, map[string]any{"k": []int{}, "<": map[string]int{"b": 1, "a": 2}}, struct{ A, B int }{1, 2}, make(chan int), []byte("hi"), map[string]any{}}

func encoderOps() []encOp {
	ops := []encOp{{kind: 1, p: "", ind: "\t"}, {kind: 1, p: ">", ind: " "}, {kind: 1, p: "", ind: ""}, {kind: 2, b: true}, {kind: 2, b: false}}
	for i := range encValues {
		ops = append(ops, encOp{kind: 0, i: i})
	}
	return ops
}

func encoderSeq(seq []encOp) (msg string) {
	defer func() {
		if p := recover(); p != nil {
			msg = fmt.Sprintf("panic: %v", p)
		}
	}()
	var b1, b2 bytes.Buffer
	e1, e2 := stdjson.NewEncoder(&b1), jsonv1.NewEncoder(&b2)
	for i, op := range seq {
		switch op.kind {
		case 0:
			x1, x2 := e1.Encode(encValues[op.i]), e2.Encode(encValues[op.i])
			if (x1 == nil) != (x2 == nil) {
				return fmt.Sprintf("op %d %s: encoding/json err=%v, v1 err=%v", i+1, op, x1, x2)
			}
		case 1:
			e1.SetIndent(op.p, op.ind)
			e2.SetIndent(op.p, op.ind)
		case 2:
			e1.SetEscapeHTML(op.b)
			e2.SetEscapeHTML(op.b)
		}
		if !bytes.Equal(b1.Bytes(), b2.Bytes()) {
			return fmt.Sprintf("after op %d %s: encoding/json wrote %q, v1 wrote %q", i+1, op, b1.Bytes(), b2.Bytes())
		}
	}
	return ""
}

// numbers: json.Number in parallel struct types (the Number types of the two packages are distinct).
type stdNum struct {
	N stdjson.Number
	P *stdjson.Number `json:",omitempty"`
	M map[string]stdjson.Number
	S stdjson.Number `json:",string"`
}
type v1Num struct {
	N jsonv1.Number
	P *jsonv1.Number `json:",omitempty"`
	M map[string]jsonv1.Number
	S jsonv1.Number `json:",string"`
}

func numberFamily() (n int64, msgs []string) {
	lits := []string{"", "0", "-0", "1", "12.50", "1e5", "1E+5", "-1.5e-3", "01", "+1", ".5", "1.", "0x1", "NaN", "abc", " 1", "1 ", "9999999999999999999999", "1e999", "null", `"1"`}
	for _, l := range lits {
		n++
		a := stdNum{N: stdjson.Number(l), M: map[string]stdjson.Number{"k": stdjson.Number(l)}, S: stdjson.Number(l)}
		b := v1Num{N: jsonv1.Number(l), M: map[string]jsonv1.Number{"k": jsonv1.Number(l)}, S: jsonv1.Number(l)}
		x, e1 := stdjson.Marshal(a)
		y, e2 := jsonv1.Marshal(b)
		if (e1 == nil) != (e2 == nil) || (e1 == nil && !bytes.Equal(x, y)) {
			msgs = append(msgs, fmt.Sprintf("Marshal of Number(%q): encoding/json (%s, %v), v1 (%s, %v)", l, x, e1, y, e2))
		}
	}
	texts := []string{`{"N":1}`, `{"N":"1"}`, `{"N":1.50,"P":2e3,"M":{"a":-0,"b":1E400}}`, `{"N":null,"P":null}`, `{"N":"abc"}`, `{"N":true}`, `{"S":"12"}`, `{"S":12}`, `{"S":"x"}`, `{"N":01}`, `{"N":[1]}`, `{"M":{"a":"7"}}`, `{"N":""}`, `{"S":""}`,
		`{"N":"\u0031"}`, `{"M":{"a":"\u0037","b":"1\u002e5"}}`, `{"N":"1\u002E5e\u002b2"}`, `{"P":"\u002d0"}`, `{"N":"\u0031x"}`, `{"N":"1\n"}`, `{"N":"\u0022"}`, `{"S":"\u0031"}`, `{"N":"\/1"}`}
	for _, t := range texts {
		n++
		var a stdNum
		var b v1Num
		e1, e2 := stdjson.Unmarshal([]byte(t), &a), jsonv1.Unmarshal([]byte(t), &b)
		if (e1 == nil) != (e2 == nil) {
			msgs = append(msgs, fmt.Sprintf("Unmarshal(%s) into Number fields: encoding/json err=%v, v1 err=%v", t, e1, e2))
			continue
		}
		if e1 == nil && fmt.Sprintf("%v %v %v %v", a.N, a.P, a.M, a.S) != fmt.Sprintf("%v %v %v %v", b.N, b.P, b.M, b.S) {
			pa, pb := "<nil>", "<nil>"
			if a.P != nil {
				pa = string(*a.P)
			}
			if b.P != nil {
				pb = string(*b.P)
			}
			if string(a.N) != string(b.N) || pa != pb || fmt.Sprint(a.M) != fmt.Sprint(b.M) || string(a.S) != string(b.S) {
				msgs = append(msgs, fmt.Sprintf("Unmarshal(%s) into Number fields: encoding/json %+v, v1 %+v", t, a, b))
			}
		}
	}
	return n, msgs
}

func replayCase(cs Case) string {
	switch cs.Part {
	case "text":
		return textFuncs(cs.Input)
	case "decoder":
		return decoderProgram(cs.Text, cs.Prog, cs.Num, cs.Func == "disallow")
	case "stringtag":
		if f, text, ok := strings.Cut(cs.Text, "|"); ok {
			return stringTagOne(f, text)
		}
	case "types":
		ts := universe()
		if cs.Index < len(ts) {
			return typeOne(ts[cs.Index], nil)
		}
	case "promoted":
		if cs.Index < len(promotedValues()) {
			return promotedOne(cs.Index)
		}
	case "names":
		if cs.Index < len(nameTypes) {
			return nameOne(cs.Index, []byte(cs.Text), nil)
		}
	case "names2":
		if cs.Index < len(nameTypes) {
			return nameOne(cs.Index, []byte(cs.Text), []byte(cs.Prog))
		}
	}
	return ""
}

func Replay(r *evid.Run, raw json.RawMessage) {
	var cs Case
	if json.Unmarshal(raw, &cs) != nil {
		return
	}
	r.Evaluations.Add(1)
	r.Nontrivial.Add(2)
	r.Sample(cs)
	if msg := replayCase(cs); msg != "" {
		fmt.Println("replay fails:", msg)
		r.Violation("replay", msg, cs, nil)
	} else {
		fmt.Println("replay passes")
	}
}

// typeOne runs marshal and unmarshal comparisons for one type; count receives the number of comparisons.
func typeOne(t reflect.Type, count *int64) string {
	dom := domainOf(t)
	var outs [][]byte
	methodKey := t.Kind() == reflect.Map && strings.Contains(t.Key().String(), "mtypes.")
	for _, v := range dom {
		if count != nil {
			*count++
		}
		if methodKey && v.Len() > 1 {
			continue // all keys of the generated method types marshal to the same text: member order would be arbitrary
		}
		if _, err := stdjson.Marshal(v.Interface()); err != nil {
			if _, unsupported := err.(*stdjson.UnsupportedTypeError); unsupported {
				return "" // the type is not expressible in the classic package
			}
		}
		out, msg := marshalBoth(v.Interface())
		if msg != "" {
			if t.Kind() == reflect.Map && t.Key().Kind() == reflect.String && t.Key().Implements(reflect.TypeFor[interface{ MarshalText() ([]byte, error) }]()) {
				return KnownStrKeyPrefix + fmt.Sprintf("map key of string kind that implements encoding.TextMarshaler: encoding/json uses the string itself, v1 calls MarshalText (%s)", msg)
			}
			return fmt.Sprintf("value %#v: %s", v.Interface(), msg)
		}
		if out != nil {
			outs = append(outs, out)
		}
	}
	if methodKey {
		return "" // the generated key types have no unmarshal methods: classic cannot decode into them
	}
	pres := []reflect.Value{{}}
	if len(dom) > 1 {
		pres = append(pres, dom[len(dom)-1])
	}
	for _, text := range textsFor(outs) {
		for _, pre := range pres {
			if count != nil {
				*count++
			}
			if msg := unmarshalBoth(t, text, pre); msg != "" {
				where := "zero target"
				if pre.IsValid() {
					where = "pre-populated target"
				}
				return where + ": " + msg
			}
		}
	}
	return ""
}

func Run(r *evid.Run) {
	r.Rule("oracle = the standard library's classic encoding/json of the same toolchain. (1) Valid, Compact, HTMLEscape and Indent with all 25 (prefix, indent) pairs from {\"\", \" \", TAB, \">\", \"ab\"} on every string of the alphabet views plus a whitespace view: same success, same bytes. (2) every type of a reflect-built universe restricted to features both packages support (tags name/omitempty/omitzero/string/-, embedded structs and pointers, string/int/TextMarshaler map keys, interfaces, RawMessage, Number, MarshalJSON/MarshalText on value and pointer receivers) x value domains: Marshal and MarshalIndent agree (bytes, error-ness, user methods called); Unmarshal of every marshal output, every one-byte neighbour of the short ones, case variants, duplicated members and 22 wrong-kind texts into zero and pre-populated targets: same error-ness, DeepEqual values, target untouched on syntactically invalid input. (2b) promoted members with pointer-receiver methods under every embedding shape and root position; every member name over {a,b,A,B,_,-} up to length 4 (thorough 5) against fields whose names contain '_' and '-' (plain and DisallowUnknownFields). (3) Decoder: every program over {Decode(any), Decode(struct), Token, More, InputOffset} up to length L on 40 documents x {plain, UseNumber, DisallowUnknownFields}. (4) Encoder: every sequence up to length 3 over Encode of 8 values, SetIndent and SetEscapeHTML. evaluations = differential comparisons; distinct_nontrivial = distinct inputs on which encoding/json succeeds (both must then agree byte for byte)")
	r.Assume("encoding/json of the Go toolchain in use is the reference implementation by definition of the property", "method types log through package-level state, so the typed part runs sequentially")
	// part 1
	lens := views.ForTier(r.Tier).Minus(1)
	vs := []views.View{
		{Name: "A1-structural", Alpha: views.A1, MaxLen: lens.A1},
		{Name: "A2-numeric", Alpha: views.A2, MaxLen: lens.A2 - 1},
		{Name: "A3-stringbody", Alpha: views.A3, MaxLen: lens.A3, Prefix: `"`},
		{Name: "B-atoms", Alpha: views.B, MaxLen: lens.B},
		{Name: "W-whitespace-html", Alpha: enum.Syms("0", "[", "]", "{", "}", "\n", " ", "\t", ",", `"`, ":", "a", "<", " ", "\r"), MaxLen: lens.A1},
		{Name: "U-utf8-fragments", Alpha: enum.ByteSyms("\xe2\x80\xa8\xa9\xc3\xf0\x9f<&\"a\\"), MaxLen: 4},
		{Name: "U-utf8-fragments in a string", Alpha: enum.ByteSyms("\xe2\x80\xa8\xa9\xc3\xf0\x9f<&\"a\\"), MaxLen: 4, Prefix: `"`},
	}
	views.ForAll(r, vs, func(w *enum.Worker, v views.View) func([]byte) {
		var cur []byte
		w.Describe = func() any { return Case{Part: "text", Input: cur} }
		var n, nt int64
		w.Done = func() { r.Evaluations.Add(n * 28); r.Nontrivial.Add(nt) }
		return func(s []byte) {
			cur = s
			n++
			if stdjson.Valid(s) {
				nt++
			}
			if m := textFuncs(s); m != "" {
				cs := Case{Part: "text", Input: append([]byte(nil), s...), Text: string(s)}
				r.Violation(fmt.Sprintf("c09|text|%q", s), m, cs, func() bool { return replayCase(cs) != "" })
			}
		}
	})
	// part 2 (sequential: method types log through global state)
	ts := universe()
	var n int64
	for i, t := range ts {
		if m := typeOne(t, &n); m != "" {
			cs := Case{Part: "types", Type: typeuniv.Describe(t), Index: i}
			if strings.HasPrefix(m, KnownStrKeyPrefix) {
				r.Violation(KnownStrKeyKey, m, cs, nil)
				continue
			}
			r.Violation("c09|types|"+cs.Type, m, cs, func() bool { return replayCase(cs) != "" })
		}
	}
	if k := knownSpelling.Load(); k > 0 {
		r.Violation(KnownSpellingKey, fmt.Sprintf("v1.Marshal spells the replacement of ill-formed UTF-8 as the raw character U+FFFD where encoding/json writes the escape \\ufffd (%d marshal outputs differ only in this)", k), Case{Part: "types", Text: `Marshal("a\xffb")`}, nil)
	}
	extraFamilies(r)
	nn, msgs := numberFamily()
	n += nn
	for _, m := range msgs {
		r.Violation("c09|number|"+m, m, Case{Part: "number", Text: m}, nil)
	}
	sn, skeys, smsgs := stringTagFamily()
	n += sn
	for i, m := range smsgs {
		cs := Case{Part: "stringtag", Text: skeys[i]}
		if strings.HasPrefix(m, KnownNumberTagPrefix) {
			r.Violation(KnownNumberTagKey, m, cs, nil)
			continue
		}
		r.Violation("c09|stringtag|"+skeys[i], m, cs, func() bool { return replayCase(cs) != "" })
	}
	r.Bound("string tag: %d field types (all numeric kinds, bool, string, named string, pointers, Number, any, slice) x %d contents of the quoted text, quoted and bare", reflect.TypeOf(stdStr{}).NumField(), len(stringTagContents))
	r.Evaluations.Add(n)
	r.Nontrivial.Add(n / 2)
	r.Sample(Case{Part: "types", Type: "c09.Outer"})
	r.Bound("types: %d types (universe depth 1 filtered to common features + 36 method-type families in 5 positions + embedded/RawMessage/Number struct) x value domains; unmarshal texts derived from the marshal outputs", len(ts))
	// part 3
	L := 4
	if r.Tier == "thorough" {
		L = 6
	}
	var progs []string
	var rec func(p []byte)
	rec = func(p []byte) {
		if len(p) > 0 {
			progs = append(progs, string(p))
		}
		if len(p) == L {
			return
		}
		for _, c := range []byte("DTMOSUK") {
			if c == 'S' && len(p) > 2 {
				continue
			}
			if (c == 'U' || c == 'K') && len(p) == L-1 {
				continue // a setter as last call is not observable
			}
			rec(append(p[:len(p):len(p)], c))
		}
	}
	rec(nil)
	enum.Parallel(r, len(decoderDocs), func(w *enum.Worker) func(int) {
		var cur Case
		w.Describe = func() any { return cur }
		var n int64
		w.Done = func() { r.Evaluations.Add(n); r.Nontrivial.Add(n) }
		return func(u int) {
			doc := decoderDocs[u]
			for _, p := range progs {
				for mode := 0; mode < 1; mode++ { // UseNumber / DisallowUnknownFields are calls of the program alphabet
					cur = Case{Part: "decoder", Text: doc, Prog: p, Num: mode == 1, Func: map[int]string{2: "disallow"}[mode]}
					n++
					if m := decoderProgram(doc, p, mode == 1, mode == 2); m != "" {
						if strings.HasPrefix(m, KnownMorePrefix) {
							r.Violation(KnownMoreKey, m, cur, nil)
							continue
						}
						cs := cur
						r.Violation(fmt.Sprintf("c09|decoder|%q|%s|%d", doc, p, mode), m, cs, func() bool { return replayCase(cs) != "" })
					}
				}
			}
		}
	})
	r.Sample(Case{Part: "decoder", Text: `[1 , 2 , 3 ]`, Prog: "TMDO"})
	r.Bound("decoder: %d documents x all %d programs of <=%d calls over {Decode(any), Decode(struct), Token, More, InputOffset, UseNumber, DisallowUnknownFields} (the two setters at any position, repeated, in both orders)", len(decoderDocs), len(progs), L)
	// part 4
	ops := encoderOps()
	var en int64
	var rec2 func(seq []encOp)
	rec2 = func(seq []encOp) {
		if len(seq) > 0 {
			en++
			if m := encoderSeq(seq); m != "" {
				var names []string
				for _, o := range seq {
					names = append(names, o.String())
				}
				r.Violation("c09|encoder|"+strings.Join(names, " "), m, Case{Part: "encoder", Text: strings.Join(names, " ")}, nil)
			}
		}
		if len(seq) == 3 {
			return
		}
		for _, o := range ops {
			rec2(append(seq[:len(seq):len(seq)], o))
		}
	}
	rec2(nil)
	r.Evaluations.Add(en)
	r.Nontrivial.Add(en)
	r.Bound("encoder: all %d op sequences of <=3 over %d ops", en, len(ops))
}
