package c09

import (
	"bytes"
	stdjson "encoding/json"
	"fmt"
	"reflect"

	jsonv1 "github.com/go-json-experiment/json/v1"

	"verif/internal/enum"
	"verif/internal/evid"
)

// ---- promoted fields with pointer-receiver methods (addressability through embeddings) ----

type pj struct{ N int }

func (p *pj) MarshalJSON() ([]byte, error) { return []byte(`"json-method"`), nil }

type pt struct{ N int }

func (p *pt) MarshalText() ([]byte, error) { return []byte("text-method"), nil }

type vj struct{ N int }

func (v vj) MarshalJSON() ([]byte, error) { return []byte(`"value-json-method"`), nil }

type puj struct{ N int }

func (p *puj) UnmarshalJSON(b []byte) error { p.N = len(b); return nil }

type In1 struct {
	J  pj
	T  pt
	V  vj
	PJ *pj `json:",omitempty"`
	U  puj
	L  []pj
	A  [1]pt
	M  map[string]pj
}
type Mid struct{ *In1 }
type Mid2 struct{ In1 }
type ViaPtr struct{ *In1 }
type ViaVal struct{ In1 }
type ViaValPtr struct{ Mid }
type ViaPtrVal struct{ *Mid2 }
type ViaPtrPtr struct {
	*Mid
	Own pj
}
type holder struct {
	F  ViaPtr
	P  *ViaPtr
	I  any
	MV map[string]ViaValPtr
	AR [1]ViaPtrVal
}

func promotedValues() []any {
	in := func() *In1 {
		return &In1{J: pj{1}, T: pt{2}, V: vj{3}, PJ: &pj{4}, U: puj{5}, L: []pj{{6}}, A: [1]pt{{7}}, M: map[string]pj{"k": {8}}}
	}
	vp := ViaPtr{in()}
	vv := ViaVal{*in()}
	vvp := ViaValPtr{Mid{in()}}
	vpv := ViaPtrVal{&Mid2{*in()}}
	vpp := ViaPtrPtr{&Mid{in()}, pj{9}}
	roots := []any{
		*in(), in(),
		vp, &vp, []ViaPtr{vp}, [1]ViaPtr{vp}, map[string]ViaPtr{"k": vp}, []any{vp}, map[string]any{"k": vp}, struct{ F ViaPtr }{vp}, &struct{ F ViaPtr }{vp},
		vv, &vv, []ViaVal{vv}, [1]ViaVal{vv}, map[string]ViaVal{"k": vv}, []any{vv},
		vvp, &vvp, []ViaValPtr{vvp}, map[string]ViaValPtr{"k": vvp}, []any{vvp}, [1]ViaValPtr{vvp},
		vpv, &vpv, []ViaPtrVal{vpv}, map[string]ViaPtrVal{"k": vpv}, []any{vpv}, [1]ViaPtrVal{vpv},
		vpp, &vpp, []ViaPtrPtr{vpp}, map[string]ViaPtrPtr{"k": vpp}, []any{vpp}, [1]ViaPtrPtr{vpp},
		holder{F: vp, P: &vp, I: vp, MV: map[string]ViaValPtr{"k": vvp}, AR: [1]ViaPtrVal{vpv}},
		&holder{F: vp, P: &vp, I: &vp, MV: map[string]ViaValPtr{"k": vvp}, AR: [1]ViaPtrVal{vpv}},
		ViaPtr{}, ViaPtrVal{}, ViaPtrPtr{Mid: &Mid{}}, // nil embedded pointers
		pj{1}, &pj{1}, []pj{{1}}, [1]pj{{1}}, map[string]pj{"k": {1}}, []any{pj{1}, &pj{1}}, struct{ F pj }{pj{1}}, &struct{ F pj }{pj{1}},
		pt{1}, &pt{1}, []pt{{1}}, [1]pt{{1}}, map[string]pt{"k": {1}}, []any{pt{1}, &pt{1}}, struct{ F pt }{pt{1}}, &struct{ F pt }{pt{1}},
	}
	return roots
}

func promotedOne(i int) string {
	v := promotedValues()[i]
	b1, e1 := stdjson.Marshal(v)
	b2, e2 := jsonv1.Marshal(v)
	if (e1 == nil) != (e2 == nil) || (e1 == nil && !bytes.Equal(b1, b2)) {
		return fmt.Sprintf("Marshal(%T): encoding/json (%s, %v), v1 (%s, %v)", v, b1, e1, b2, e2)
	}
	if e1 != nil {
		return ""
	}
	// decode the output back into a fresh value of the same type with both packages
	t := reflect.TypeOf(v)
	p1, p2 := reflect.New(t), reflect.New(t)
	u1 := stdjson.Unmarshal(b1, p1.Interface())
	u2 := jsonv1.Unmarshal(b1, p2.Interface())
	if (u1 == nil) != (u2 == nil) || (u1 == nil && !reflect.DeepEqual(p1.Elem().Interface(), p2.Elem().Interface())) {
		return fmt.Sprintf("Unmarshal(%s) into %v: encoding/json (%+v, %v), v1 (%+v, %v)", b1, t, p1.Elem(), u1, p2.Elem(), u2)
	}
	return ""
}

// ---- member-name matching: every key over a small alphabet against fields whose names contain '_' and '-' ----

type nm1 struct {
	F int `json:"a_b"`
}
type nm2 struct {
	F int `json:"ab"`
}
type nm3 struct {
	F int `json:"A-b"`
}
type nm4 struct {
	Ab_ int
	K   int `json:"-a"`
}
type nm5 struct {
	F1 int `json:"a_b"`
	F2 int `json:"ab"`
	F3 int `json:"a-b"`
	F4 int `json:"AB"`
}
type nm6 struct {
	A_B  int
	AB   int `json:"aB"`
	Rest map[string]int
}
type nm7 struct {
	nm1
	X int `json:"_ab"`
	Y int `json:"ab_"`
}

var nameTypes = []reflect.Type{reflect.TypeOf(nm1{}), reflect.TypeOf(nm2{}), reflect.TypeOf(nm3{}), reflect.TypeOf(nm4{}), reflect.TypeOf(nm5{}), reflect.TypeOf(nm6{}), reflect.TypeOf(nm7{})}

func nameOne(ti int, key []byte, second []byte) string {
	t := nameTypes[ti]
	text := []byte(`{"` + string(key) + `":1`)
	if second != nil {
		text = append(text, []byte(`,"`+string(second)+`":2`)...)
	}
	text = append(text, '}')
	for mode := 0; mode < 2; mode++ {
		p1, p2 := reflect.New(t), reflect.New(t)
		d1 := stdjson.NewDecoder(bytes.NewReader(text))
		d2 := jsonv1.NewDecoder(bytes.NewReader(text))
		if mode == 1 {
			d1.DisallowUnknownFields()
			d2.DisallowUnknownFields()
		}
		e1 := d1.Decode(p1.Interface())
		e2 := d2.Decode(p2.Interface())
		if (e1 == nil) != (e2 == nil) || (e1 == nil && !reflect.DeepEqual(p1.Elem().Interface(), p2.Elem().Interface())) {
			return fmt.Sprintf("Decode(%s) into %v (DisallowUnknownFields=%v): encoding/json (%+v, %v), v1 (%+v, %v)", text, t, mode == 1, p1.Elem(), e1, p2.Elem(), e2)
		}
		if mode == 0 {
			q1, q2 := reflect.New(t), reflect.New(t)
			e1 := stdjson.Unmarshal(text, q1.Interface())
			e2 := jsonv1.Unmarshal(text, q2.Interface())
			if (e1 == nil) != (e2 == nil) || (e1 == nil && !reflect.DeepEqual(q1.Elem().Interface(), q2.Elem().Interface())) {
				return fmt.Sprintf("Unmarshal(%s) into %v: encoding/json (%+v, %v), v1 (%+v, %v)", text, t, q1.Elem(), e1, q2.Elem(), e2)
			}
		}
	}
	return ""
}

func extraFamilies(r *evid.Run) {
	// promoted fields
	vals := promotedValues()
	var n int64
	for i := range vals {
		n++
		if m := promotedOne(i); m != "" {
			cs := Case{Part: "promoted", Index: i, Type: fmt.Sprintf("%T", vals[i])}
			r.Violation(fmt.Sprintf("c09|promoted|%d", i), m, cs, func() bool { return promotedOne(cs.Index) != "" })
		}
	}
	r.Evaluations.Add(n * 2)
	r.Nontrivial.Add(n)
	r.Bound("promoted fields: %d roots (value, pointer, slice/array/map element, inside any, struct field) x embeddings by value, by pointer, value-then-pointer, pointer-then-value, pointer-then-pointer, nil embedded pointers x members with pointer-receiver MarshalJSON/MarshalText/UnmarshalJSON and value-receiver MarshalJSON", len(vals))
	// member names
	maxLen := 4
	if r.Tier == "thorough" {
		maxLen = 5
	}
	alpha := enum.Syms("a", "b", "A", "B", "_", "-")
	var keys [][]byte
	enumKeys(alpha, maxLen, func(k []byte) { keys = append(keys, append([]byte(nil), k...)) })
	enum.Parallel(r, len(keys), func(w *enum.Worker) func(int) {
		var cur Case
		w.Describe = func() any { return cur }
		var n int64
		w.Done = func() { r.Evaluations.Add(n); r.Nontrivial.Add(n) }
		return func(u int) {
			key := keys[u]
			for ti := range nameTypes {
				n++
				cur = Case{Part: "names", Index: ti, Text: string(key)}
				if m := nameOne(ti, key, nil); m != "" {
					cs := cur
					r.Violation(fmt.Sprintf("c09|names|%d|%s", ti, key), m, cs, func() bool { return nameOne(cs.Index, []byte(cs.Text), nil) != "" })
				}
				// a second member with an exactly matching or near name after it (later-wins / first-match interplay)
				if len(key) <= 3 {
					for _, second := range []string{"a_b", "ab", "a-b", "AB", "Ab_"} {
						n++
						if m := nameOne(ti, key, []byte(second)); m != "" {
							cs := Case{Part: "names2", Index: ti, Text: string(key), Prog: second}
							r.Violation(fmt.Sprintf("c09|names2|%d|%s|%s", ti, key, second), m, cs, func() bool { return nameOne(cs.Index, []byte(cs.Text), []byte(cs.Prog)) != "" })
						}
					}
				}
			}
			w.Beat()
		}
	})
	r.Bound("member names: every key of <=%d symbols over {a,b,A,B,_,-} (%d keys) x %d struct types whose field names contain '_' / '-' / case variants, alone and followed by one of 5 near-matching members, through Unmarshal and through Decoder with and without DisallowUnknownFields", maxLen, len(keys), len(nameTypes))
}

func enumKeys(alpha [][]byte, maxLen int, f func([]byte)) {
	var rec func(cur []byte, n int)
	rec = func(cur []byte, n int) {
		if n > 0 {
			f(cur)
		}
		if n == maxLen {
			return
		}
		for _, a := range alpha {
			rec(append(cur[:len(cur):len(cur)], a...), n+1)
		}
	}
	rec(nil, 0)
}
