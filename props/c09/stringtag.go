package c09

import (
	stdjson "encoding/json"
	"fmt"
	"reflect"
	"strings"

	jsonv1 "github.com/go-json-experiment/json/v1"
)

// ---- the `string` tag: every content of the quoted text x every field type it applies to ----

type nstr string

type stdStr struct {
	I  int            `json:",string"`
	I8 int8           `json:",string"`
	U  uint           `json:",string"`
	F  float64        `json:",string"`
	F3 float32        `json:",string"`
	B  bool           `json:",string"`
	S  string         `json:",string"`
	NS nstr           `json:",string"`
	PI *int           `json:",string"`
	PS *string        `json:",string"`
	PB *bool          `json:",string"`
	N  stdjson.Number `json:",string"`
	A  any            `json:",string"`
	L  []int          `json:",string"`
}
type v1Str struct {
	I  int           `json:",string"`
	I8 int8          `json:",string"`
	U  uint          `json:",string"`
	F  float64       `json:",string"`
	F3 float32       `json:",string"`
	B  bool          `json:",string"`
	S  string        `json:",string"`
	NS nstr          `json:",string"`
	PI *int          `json:",string"`
	PS *string       `json:",string"`
	PB *bool         `json:",string"`
	N  jsonv1.Number `json:",string"`
	A  any           `json:",string"`
	L  []int         `json:",string"`
}

var stringTagContents = []string{`2`, `-2`, `2.5`, `1e2`, `"2"`, `"x"`, `""`, `null`, `true`, `false`, ` 2`, `2 `, `+2`, `.5`, `2.`, `0x10`, `Inf`, `NaN`, `x`, ``, `"`,
	`[1]`, `{}`, `1_000`, `02`, `-0`, `2e`, `99999999999999999999`, `300`, `-1`, `"2"`, `"null"`, `"true"`, ` "x"`, `"x" `, `1e400`, `3.4e39`, `"a\"b"`, `nul`, `True`,
	"\"a\u2028b\u2029\"", `"<a&b>"`, "\"\u00e9\"", `"\u0031"`, `"\u0032\u0035"`, `"\ud83d"`, `"\u0000"`, `"a\nb"`, `\u0031`,
	"\"a\xffb\"", "\"\xc3\"", `"\udc00"`, `"\ud83d\u0041"`, `"\ud83d\ud83d\ude00"`, `"\ud83d`, `"\ud83d\"`, `"\uD83D\x"`, "\"\xff\\x\""}

func show2(v reflect.Value) string {
	s := ""
	for i := 0; i < v.NumField(); i++ {
		f := v.Field(i)
		if f.Kind() == reflect.Pointer {
			if f.IsNil() {
				s += "<nil>;"
				continue
			}
			f = f.Elem()
		}
		s += fmt.Sprintf("%v;", f.Interface())
	}
	return s
}

// stringTagOne compares Unmarshal of {"<field>": <text>} and Marshal of the decoded values.
func stringTagOne(field, text string) (msg string) {
	defer func() {
		if p := recover(); p != nil {
			msg = fmt.Sprintf("panic: %v", p)
		}
	}()
	doc := []byte(`{"` + field + `":` + text + `}`)
	if !stdjson.Valid(doc) {
		return ""
	}
	var a stdStr
	var b v1Str
	e1, e2 := stdjson.Unmarshal(doc, &a), jsonv1.Unmarshal(doc, &b)
	if field == "N" && e1 == nil && e2 != nil && !isNumberLiteral(innerOf(text)) {
		// recorded finding F19: the classic decoder stores the quoted text of a `string`-tagged json.Number member
		// without validating it (a quoted string literal, a quoted null, or junk after a leading digit); v1 refuses
		return KnownNumberTagPrefix + fmt.Sprintf("Unmarshal(%s) into a `string`-tagged json.Number member: encoding/json accepts (N=%q), v1 err=%v", doc, a.N, e2)
	}
	if (e1 == nil) != (e2 == nil) {
		return fmt.Sprintf("Unmarshal(%s) into a `string`-tagged %s member: encoding/json err=%v, v1 err=%v", doc, reflect.TypeOf(a).FieldByIndex([]int{fieldIndex(field)}).Type, e1, e2)
	}
	if e1 != nil {
		return ""
	}
	if x, y := show2(reflect.ValueOf(a)), show2(reflect.ValueOf(b)); x != y {
		return fmt.Sprintf("Unmarshal(%s): encoding/json %s, v1 %s", doc, x, y)
	}
	x, m1 := stdjson.Marshal(a)
	y, m2 := jsonv1.Marshal(b)
	if (m1 == nil) != (m2 == nil) || (m1 == nil && string(x) != string(y)) {
		return fmt.Sprintf("Marshal of the value decoded from %s: encoding/json (%s, %v), v1 (%s, %v)", doc, x, m1, y, m2)
	}
	return ""
}

func fieldIndex(name string) int {
	t := reflect.TypeOf(stdStr{})
	for i := 0; i < t.NumField(); i++ {
		if t.Field(i).Name == name {
			return i
		}
	}
	return 0
}

func stringTagFamily() (n int64, keys, msgs []string) {
	t := reflect.TypeOf(stdStr{})
	for i := 0; i < t.NumField(); i++ {
		f := t.Field(i).Name
		for _, c := range stringTagContents {
			q, _ := stdjson.Marshal(c) // the content as a JSON string literal
			for _, text := range []string{string(q), c} {
				n++
				if m := stringTagOne(f, text); m != "" {
					keys = append(keys, f+"|"+text)
					msgs = append(msgs, m)
				}
			}
		}
	}
	return n, keys, msgs
}

// KnownNumberTagKey is the canonical key of the recorded finding F19 (see known_findings.jsonl).
const (
	KnownNumberTagKey    = "c09|stringtag|Number-member-quoted-text-not-a-number"
	KnownNumberTagPrefix = "KNOWN-NUMBER-TAG: "
)

// innerOf returns the content of a JSON string literal ("" if text is not one).
func innerOf(text string) string {
	var s string
	if stdjson.Unmarshal([]byte(text), &s) != nil {
		return ""
	}
	return s
}

// isNumberLiteral reports whether s is exactly one JSON number literal.
func isNumberLiteral(s string) bool {
	var n stdjson.Number
	d := stdjson.NewDecoder(strings.NewReader(s))
	d.UseNumber()
	var v any
	if d.Decode(&v) != nil {
		return false
	}
	n, ok := v.(stdjson.Number)
	return ok && string(n) == s
}
