// Package c11: string escaping is lossless, minimal, and honours the escape options.
package c11

import (
	"bytes"
	"encoding/json"
	"errors"
	"fmt"
	jsonv1 "github.com/go-json-experiment/json/v1"
	"io"
	"reflect"
	"strconv"
	"strings"

	jsonv2 "github.com/go-json-experiment/json"
	"github.com/go-json-experiment/json/jsontext"

	"verif/internal/enum"
	"verif/internal/evid"
	"verif/internal/refjson"
	"verif/internal/views"
)

type Case struct {
	Kind   string `json:"kind"` // "gostring" or "literal"
	Bytes  []byte `json:"bytes"`
	Text   string `json:"text"`
	Fields bool   `json:"with_struct_field_path"`
	Chunk  int    `json:"chunk,omitempty"`
}

type textM struct{ s string }

func (t textM) MarshalText() ([]byte, error) { return []byte(t.s), nil }

type textA struct{ s string }

func (t textA) AppendText(b []byte) ([]byte, error) { return append(b, t.s...), nil }

type rawM struct{ lit []byte }

func (r rawM) MarshalJSON() ([]byte, error) { return r.lit, nil }

type escSet struct {
	name     string
	html, js bool
	opts     []jsontext.Options
}

var escSets = []escSet{
	{"none", false, false, nil},
	{"EscapeForHTML", true, false, []jsontext.Options{jsontext.EscapeForHTML(true)}},
	{"EscapeForJS", false, true, []jsontext.Options{jsontext.EscapeForJS(true)}},
	{"EscapeForHTML+JS", true, true, []jsontext.Options{jsontext.EscapeForHTML(true), jsontext.EscapeForJS(true)}},
	// an option that is present but false behaves as if it were absent
	{"EscapeForHTML(false), EscapeForJS(false)", false, false, []jsontext.Options{jsontext.EscapeForHTML(false), jsontext.EscapeForJS(false)}},
	{"EscapeForHTML(true), EscapeForJS(true) then (false)", true, false, []jsontext.Options{jsontext.EscapeForHTML(true), jsontext.EscapeForJS(true), jsontext.EscapeForJS(false)}},
	{"EscapeForJS(true), EscapeForHTML(true) then (false)", false, true, []jsontext.Options{jsontext.EscapeForJS(true), jsontext.EscapeForHTML(true), jsontext.EscapeForHTML(false)}},
}

func jopts(o []jsontext.Options, extra ...jsonv2.Options) []jsonv2.Options {
	out := make([]jsonv2.Options, 0, len(o)+len(extra))
	for _, x := range o {
		out = append(out, x)
	}
	return append(out, extra...)
}

// allUEscaped spells every character of s as \uXXXX escapes (surrogate pairs above the BMP).
func allUEscaped(s string) []byte {
	b := []byte{'"'}
	for _, r := range s {
		if r >= 0x10000 {
			r -= 0x10000
			b = append(b, fmt.Sprintf(`\u%04x\u%04X`, 0xD800+(r>>10), 0xDC00+(r&0x3FF))...)
		} else {
			b = append(b, fmt.Sprintf(`\u%04X`, r)...)
		}
	}
	return append(b, '"')
}

// allUEscapedLower is allUEscaped with lower-case hex digits (the two cases are recognised by different code).
func allUEscapedLower(s string) []byte {
	b := []byte{'"'}
	for _, r := range s {
		if r >= 0x10000 {
			r -= 0x10000
			b = append(b, fmt.Sprintf(`\u%04X\u%04x`, 0xD800+(r>>10), 0xDC00+(r&0x3FF))...)
		} else {
			b = append(b, fmt.Sprintf(`\u%04x`, r)...)
		}
	}
	return append(b, '"')
}

// hasRaw reports whether lit contains a raw character that the escape options forbid.
func hasRaw(lit []byte, html, js bool) string {
	if html && bytes.ContainsAny(lit, "<>&") {
		return "raw <, > or &"
	}
	if js && (bytes.Contains(lit, []byte("\u2028")) || bytes.Contains(lit, []byte("\u2029"))) {
		return "raw U+2028/U+2029"
	}
	return ""
}

// judge checks one produced literal for the Go string s (already sanitized meaning = want).
func judge(path string, lit []byte, err error, s string, es *escSet, allowUTF8 bool) string {
	wf := refjson.WellFormed(s)
	if !wf && !allowUTF8 {
		if err == nil {
			return fmt.Sprintf("%s: ill-formed UTF-8 accepted without AllowInvalidUTF8 (output %q)", path, lit)
		}
		return ""
	}
	if err != nil {
		return fmt.Sprintf("%s: unexpected error %v", path, err)
	}
	want := refjson.Sanitize(s)
	got, ok := refjson.Unquote(lit, false)
	if !ok {
		return fmt.Sprintf("%s: output %q is not a valid JSON string literal", path, lit)
	}
	if got != want {
		return fmt.Sprintf("%s: output %q decodes to %q, want %q", path, lit, got, want)
	}
	if why := hasRaw(lit, es.html, es.js); why != "" {
		return fmt.Sprintf("%s: output %q contains %s under %s", path, lit, why, es.name)
	}
	if !es.html && !es.js {
		if min := refjson.Quote(nil, want, false, false); !bytes.Equal(lit, min) {
			return fmt.Sprintf("%s: output %q is not the minimal literal %q", path, lit, min)
		}
	}
	return ""
}

func hasControl(s string) bool {
	for i := 0; i < len(s); i++ {
		if s[i] < 0x20 {
			return true
		}
	}
	return false
}

// chunkReader is a plain io.Reader delivering at most n bytes per call.
type chunkReader struct {
	b []byte
	n int
}

func (c *chunkReader) Read(p []byte) (int, error) {
	if len(c.b) == 0 {
		return 0, io.EOF
	}
	k := min(len(c.b), len(p))
	if c.n > 0 {
		k = min(k, c.n)
	}
	copy(p, c.b[:k])
	c.b = c.b[k:]
	return k, nil
}

// splitReader delivers b[:cut], then the rest.
type splitReader struct {
	b   []byte
	cut int
	pos int
}

func (s *splitReader) Read(p []byte) (int, error) {
	if s.pos >= len(s.b) {
		return 0, io.EOF
	}
	end := len(s.b)
	if s.pos < s.cut {
		end = s.cut
	}
	n := copy(p, s.b[s.pos:end])
	s.pos += n
	return n, nil
}

// longLiterals: string literals longer than the decoder's buffers, with an escape or ill-formed byte
// at the start / middle / end, decoded through streaming readers.
func longLiterals(r *evid.Run) {
	maxL := 700
	if r.Tier == "thorough" {
		maxL = 9000
	}
	var units []int
	for L := 1; L <= maxL; L++ {
		if L > 700 && L%64 > 8 && L%64 < 56 {
			continue
		}
		units = append(units, L)
	}
	enum.Parallel(r, len(units), func(w *enum.Worker) func(int) {
		var cur Case
		w.Describe = func() any { return cur }
		var n int64
		w.Done = func() { r.Evaluations.Add(n); r.Nontrivial.Add(n) }
		return func(u int) {
			L := units[u]
			body := strings.Repeat("x", L)
			for _, pos := range []int{0, L / 2, L - 1} {
				for _, esc := range []string{`\n`, `\u00e9`, "\xff", `\ud83d\ude00`} {
					lit := []byte(`"` + body[:pos] + esc + body[pos:] + `"`)
					for _, chunk := range []int{0, 7, 64} {
						for _, wrap := range []string{"", "[", `{"k":`} {
							doc := append([]byte(wrap), lit...)
							n++
							cur = Case{Kind: "long-literal", Bytes: doc, Chunk: chunk}
							if m := checkLong(doc, chunk); m != "" {
								report(r, cur, m)
							}
						}
					}
				}
			}
		}
	})
	r.Bound("long literals: lengths 1..%d with an escape / ill-formed byte / surrogate pair at start, middle, end, read by ReadToken and UnmarshalRead through readers delivering all / 7 / 64 bytes per call, bare and inside an array / object", maxL)
}

// checkLong decodes a document whose last token is a (long) string literal through a streaming reader.
func checkLong(doc []byte, chunk int) (msg string) {
	defer func() {
		if p := recover(); p != nil {
			msg = fmt.Sprintf("library panic: %v", p)
		}
	}()
	i := bytes.IndexByte(doc, '"')
	if bytes.HasPrefix(doc, []byte("{")) {
		i = bytes.LastIndex(doc[:len(doc)-1], []byte(`:"`)) + 1
	}
	lit := doc[i:]
	allow := !refjson.WellFormed(string(lit))
	want, _ := refjson.Unquote(lit, true)
	dec := jsontext.NewDecoder(&chunkReader{b: doc, n: chunk}, jsontext.AllowInvalidUTF8(allow))
	var tok jsontext.Token
	var err error
	for {
		tok, err = dec.ReadToken()
		if err != nil || int(dec.InputOffset()) >= len(doc) {
			break
		}
	}
	if err != nil || tok.Kind() != '"' || tok.String() != want {
		got := ""
		if err == nil {
			got = tok.String()
		}
		return fmt.Sprintf("streamed ReadToken (chunk %d) of a %d-byte literal: got %q err=%v, want %q", chunk, len(lit), trunc(got), err, trunc(want))
	}
	if i == 0 {
		var s string
		err = jsonv2.UnmarshalRead(&chunkReader{b: doc, n: chunk}, &s, jsontext.AllowInvalidUTF8(allow))
		if err != nil || s != want {
			return fmt.Sprintf("UnmarshalRead (chunk %d) of a %d-byte literal: got %q err=%v, want %q", chunk, len(lit), trunc(s), err, trunc(want))
		}
		var a any
		err = jsonv2.UnmarshalRead(&chunkReader{b: doc, n: chunk}, &a, jsontext.AllowInvalidUTF8(allow))
		if err != nil || a != any(want) {
			return fmt.Sprintf("UnmarshalRead into any (chunk %d) of a %d-byte literal: got %v err=%v", chunk, len(lit), a, err)
		}
	} else {
		var a any
		full := append(append([]byte(nil), doc...), map[byte]string{'[': "]", '{': "}"}[doc[0]]...)
		err = jsonv2.UnmarshalRead(&chunkReader{b: full, n: chunk}, &a, jsontext.AllowInvalidUTF8(allow))
		var got any
		switch x := a.(type) {
		case []any:
			if len(x) == 1 {
				got = x[0]
			}
		case map[string]any:
			got = x["k"]
		}
		if err != nil || got != any(want) {
			return fmt.Sprintf("UnmarshalRead into any (chunk %d) of a wrapped %d-byte literal: got %.60v err=%v", chunk, len(lit), got, err)
		}
	}
	return ""
}

func trunc(s string) string {
	if len(s) > 60 {
		return s[:30] + "..." + s[len(s)-30:]
	}
	return s
}

// nameOf extracts the (single) member name literal from `{<lit>:1}`.
func nameOf(obj []byte) []byte {
	res := refjson.Parse(obj, refjson.Opts{AllowInvalidUTF8: true, AllowDupNames: true})
	for _, t := range res.Toks {
		if t.Name {
			return obj[t.Start:t.End]
		}
	}
	return obj
}

// fieldType builds struct{ F int `json:"<s>"` }; nil if s cannot be written as an unescaped tag name.
func fieldType(s string) reflect.Type {
	if s == "" || s == "-" || strings.ContainsAny(s, ",\\'\"`") {
		return nil
	}
	tag := `json:` + strconv.Quote(s)
	return reflect.StructOf([]reflect.StructField{{Name: "F", Type: reflect.TypeOf(0), Tag: reflect.StructTag(tag)}})
}

type checker struct {
	enc    *jsontext.Encoder
	buf    bytes.Buffer
	dec    *jsontext.Decoder
	rd     bytes.Reader
	cur    Case
	paths  map[string]int64
	ftypes map[string]reflect.Type
}

func newChecker() *checker {
	c := &checker{paths: map[string]int64{}, ftypes: map[string]reflect.Type{}}
	c.enc = jsontext.NewEncoder(&c.buf)
	c.dec = jsontext.NewDecoder(&c.rd)
	return c
}

// goString checks every encode path for the Go string s.
func (c *checker) goString(s string, fields bool) (msg string) {
	defer func() {
		if p := recover(); p != nil {
			msg = fmt.Sprintf("library panic: %v", p)
		}
	}()
	wf := refjson.WellFormed(s)
	// P1 AppendQuote (no options): always produces the sanitized minimal literal; error iff ill-formed
	lit, err := jsontext.AppendQuote(nil, s)
	if (err != nil) != !wf {
		return fmt.Sprintf("AppendQuote: err=%v for well-formed=%v", err, wf)
	}
	if m := judge("AppendQuote", lit, nil, s, &escSets[0], true); m != "" {
		return m
	}
	c.paths["AppendQuote"]++
	for ei := range escSets {
		es := &escSets[ei]
		for _, allow := range []bool{false, true} {
			if allow && wf {
				continue // the option is irrelevant for well-formed input (checked in C19)
			}
			opts := es.opts
			if allow {
				opts = append(append([]jsontext.Options(nil), es.opts...), jsontext.AllowInvalidUTF8(true))
			}
			// P2 token
			c.buf.Reset()
			c.enc.Reset(&c.buf, opts...)
			err := c.enc.WriteToken(jsontext.String(s))
			if m := judge("WriteToken(String)", bytes.TrimSuffix(c.buf.Bytes(), []byte("\n")), err, s, es, allow); m != "" {
				return m
			}
			// P3 Marshal(string)
			b, err := jsonv2.Marshal(s, jopts(opts)...)
			if m := judge("Marshal(string)", b, err, s, es, allow); m != "" {
				return m
			}
			// P4 map key
			b, err = jsonv2.Marshal(map[string]int{s: 1}, jopts(opts)...)
			if m := judge("Marshal(map key)", nameOf(b), err, s, es, allow); m != "" {
				return m
			}
			// P6 text marshalers
			b, err = jsonv2.Marshal(textM{s}, jopts(opts)...)
			if m := judge("Marshal(TextMarshaler)", b, err, s, es, allow); m != "" {
				return m
			}
			b, err = jsonv2.Marshal(map[textA]int{{s}: 1}, jopts(opts)...)
			if m := judge("Marshal(TextAppender map key)", nameOf(b), err, s, es, allow); m != "" {
				return m
			}
			c.paths["token/marshal/mapkey/text x "+es.name]++
			if !wf {
				// raw literal holding the ill-formed bytes themselves, passed through with AllowInvalidUTF8
				if allow && !strings.ContainsAny(s, "\"\\") && !hasControl(s) {
					spelled := []byte(`"` + s + `"`)
					for _, preserve := range []bool{false, true} {
						o2 := opts
						if preserve {
							o2 = append(append([]jsontext.Options(nil), opts...), jsontext.PreserveRawStrings(true))
						}
						chk := func(path string, out []byte, err error) string {
							if err != nil {
								return fmt.Sprintf("%s: unexpected error %v", path, err)
							}
							got, ok := refjson.Unquote(out, true)
							if !ok || got != refjson.Sanitize(s) {
								return fmt.Sprintf("%s(preserve=%v): output %q does not decode to %q", path, preserve, out, refjson.Sanitize(s))
							}
							if why := hasRaw(out, es.html, es.js); why != "" {
								return fmt.Sprintf("%s(preserve=%v): output %q contains %s under %s", path, preserve, out, why, es.name)
							}
							if preserve && !es.html && !es.js && !bytes.Equal(out, spelled) {
								return fmt.Sprintf("%s(PreserveRawStrings): bytes changed %q -> %q", path, spelled, out)
							}
							return ""
						}
						v := jsontext.Value(append([]byte(nil), spelled...))
						err := v.Format(o2...)
						if m := chk("Value.Format", v, err); m != "" {
							return m
						}
						b, err := jsontext.AppendFormat(nil, spelled, o2...)
						if m := chk("AppendFormat", b, err); m != "" {
							return m
						}
						c.buf.Reset()
						c.enc.Reset(&c.buf, o2...)
						err = c.enc.WriteValue(spelled)
						if m := chk("WriteValue", bytes.TrimSuffix(c.buf.Bytes(), []byte("\n")), err); m != "" {
							return m
						}
						b, err = jsonv2.Marshal(rawM{spelled}, jopts(o2)...)
						if m := chk("Marshal(MarshalJSON)", b, err); m != "" {
							return m
						}
					}
					c.paths["ill-formed raw literal paths x "+es.name]++
				}
				continue
			}
			// raw literal paths, three spellings of the same string: minimal, all-\u with upper-case and with lower-case hex digits
			for si, spelled := range [][]byte{refjson.Quote(nil, s, false, false), allUEscaped(s), allUEscapedLower(s)} {
				for _, preserve := range []bool{false, true} {
					o2 := opts
					if preserve {
						o2 = append(append([]jsontext.Options(nil), opts...), jsontext.PreserveRawStrings(true))
					}
					check := func(path string, out []byte, err error) string {
						if preserve {
							// spelling may be kept; it must still decode to s and contain no forbidden raw character
							if err != nil {
								return fmt.Sprintf("%s: unexpected error %v", path, err)
							}
							got, ok := refjson.Unquote(out, false)
							if !ok || got != s {
								return fmt.Sprintf("%s(PreserveRawStrings): output %q does not decode to %q", path, out, s)
							}
							if why := hasRaw(out, es.html, es.js); why != "" {
								return fmt.Sprintf("%s(PreserveRawStrings): output %q contains %s under %s", path, out, why, es.name)
							}
							if !es.html && !es.js && !bytes.Equal(out, spelled) {
								return fmt.Sprintf("%s(PreserveRawStrings): spelling changed %q -> %q", path, spelled, out)
							}
							return ""
						}
						return judge(path, out, err, s, es, false)
					}
					// P7 MarshalJSON output passed through
					b, err := jsonv2.Marshal(rawM{spelled}, jopts(o2)...)
					if m := check("Marshal(MarshalJSON)", b, err); m != "" {
						return m
					}
					// P8 Value.Format / AppendFormat
					v := jsontext.Value(append([]byte(nil), spelled...))
					err = v.Format(o2...)
					if m := check("Value.Format", v, err); m != "" {
						return m
					}
					b, err = jsontext.AppendFormat(nil, spelled, o2...)
					if m := check("AppendFormat", b, err); m != "" {
						return m
					}
					// P9 WriteValue, as value and as member name
					c.buf.Reset()
					c.enc.Reset(&c.buf, o2...)
					err = c.enc.WriteValue(spelled)
					if m := check("WriteValue", bytes.TrimSuffix(c.buf.Bytes(), []byte("\n")), err); m != "" {
						return m
					}
					c.buf.Reset()
					c.enc.Reset(&c.buf, o2...)
					c.enc.WriteToken(jsontext.BeginObject)
					err = c.enc.WriteValue(spelled)
					c.enc.WriteToken(jsontext.Int(1))
					c.enc.WriteToken(jsontext.EndObject)
					if m := check("WriteValue(name)", nameOf(c.buf.Bytes()), err); m != "" {
						return m
					}
					_ = si
				}
			}
			c.paths["raw literal paths x "+es.name]++
			// P5 struct field name
			if fields {
				t, seen := c.ftypes[s]
				if !seen {
					t = fieldType(s)
					c.ftypes[s] = t
				}
				if t != nil {
					b, err := jsonv2.Marshal(reflect.New(t).Elem().Interface(), jopts(opts)...)
					if m := judge("Marshal(struct field name)", nameOf(b), err, s, es, false); m != "" {
						return m
					}
					c.paths["struct field name x "+es.name]++
				}
			}
		}
	}
	return ""
}

// literal checks every decode path for a candidate JSON string literal (bytes starting with a quote).
func (c *checker) literal(lit []byte) (msg string) {
	defer func() {
		if p := recover(); p != nil {
			msg = fmt.Sprintf("library panic: %v", p)
		}
	}()
	strict, okStrict := refjson.Unquote(lit, false)
	loose, okLoose := refjson.Unquote(lit, true)
	// D1 AppendUnquote: output is the loose meaning; error iff not strictly valid
	out, err := jsontext.AppendUnquote(nil, lit)
	if (err == nil) != okStrict {
		return fmt.Sprintf("AppendUnquote: err=%v, reference strict-valid=%v", err, okStrict)
	}
	if okStrict && string(out) != strict {
		return fmt.Sprintf("AppendUnquote = %q, RFC 8259 meaning %q", out, strict)
	}
	if !okStrict && okLoose && string(out) != loose {
		return fmt.Sprintf("AppendUnquote on ill-formed UTF-8 = %q, want one U+FFFD per ill-formed byte: %q", out, loose)
	}
	for _, allow := range []bool{false, true} {
		want, ok := strict, okStrict
		if allow {
			want, ok = loose, okLoose
		}
		opts := []jsontext.Options{jsontext.AllowInvalidUTF8(allow)}
		// D2 token
		c.rd.Reset(lit)
		c.dec.Reset(&c.rd, opts...)
		tok, err := c.dec.ReadToken()
		if err == nil {
			if !ok {
				// the candidate may be a complete literal followed by junk: the first token is then legitimately accepted
				pre := refjson.Parse(lit, refjson.Opts{Stream: true, AllowInvalidUTF8: allow, AllowDupNames: true})
				if len(pre.Toks) >= 1 && pre.Toks[0].End < len(lit) {
					if tok.String() != pre.Toks[0].Str {
						return fmt.Sprintf("ReadToken.String() = %q, want %q", tok.String(), pre.Toks[0].Str)
					}
					continue
				}
				return fmt.Sprintf("ReadToken accepted %q (AllowInvalidUTF8=%v), reference rejects", lit, allow)
			}
			if tok.Kind() != '"' || tok.String() != want {
				return fmt.Sprintf("ReadToken.String() = %q, want %q", tok.String(), want)
			}
			// D6 the token handed straight to an Encoder (valid until the next read call): the encoder must apply its
			// own options - minimal form; ill-formed UTF-8 refused, or replaced when the encoder allows it
			for _, encAllow := range []bool{false, true} {
				c.buf.Reset()
				c.enc.Reset(&c.buf, jsontext.AllowInvalidUTF8(encAllow))
				werr := c.enc.WriteToken(tok)
				got := bytes.TrimSuffix(c.buf.Bytes(), []byte("\n"))
				switch {
				case okStrict || encAllow:
					if exp := refjson.Quote(nil, want, false, false); werr != nil || !bytes.Equal(got, exp) {
						return fmt.Sprintf("WriteToken of the token read from %q (decoder AllowInvalidUTF8=%v, encoder AllowInvalidUTF8=%v) = %q (%v), want %q", lit, allow, encAllow, got, werr, exp)
					}
				default:
					if werr == nil {
						return fmt.Sprintf("WriteToken of the token read from %q (ill-formed UTF-8) is accepted by an Encoder without AllowInvalidUTF8: wrote %q", lit, got)
					}
				}
			}
		} else if ok {
			return fmt.Sprintf("ReadToken rejected %q (AllowInvalidUTF8=%v): %v", lit, allow, err)
		}
		// D2' the same literal delivered in two reads, for every split point (escapes resumed across a refill)
		if ok && len(lit) <= 20 && bytes.IndexByte(lit, '\\') >= 0 {
			for cut := 1; cut < len(lit); cut++ {
				sr := &splitReader{b: lit, cut: cut}
				c.dec.Reset(sr, opts...)
				tok, err := c.dec.ReadToken()
				if err != nil || tok.Kind() != '"' || tok.String() != want {
					return fmt.Sprintf("ReadToken over a reader split after byte %d: (%q, %v), want %q (AllowInvalidUTF8=%v)", cut, tok.String(), err, want, allow)
				}
				sr = &splitReader{b: lit, cut: cut}
				c.dec.Reset(sr, opts...)
				val, err := c.dec.ReadValue()
				if err != nil || !bytes.Equal(val, lit) {
					return fmt.Sprintf("ReadValue over a reader split after byte %d: (%q, %v), want the literal (AllowInvalidUTF8=%v)", cut, val, err, allow)
				}
			}
		}
		// D3 Unmarshal into string, D5 into any, D4 as map key
		var s string
		err = jsonv2.Unmarshal(lit, &s, opts[0])
		if (err == nil) != ok || (ok && s != want) {
			return fmt.Sprintf("Unmarshal(string): %q err=%v, want %q ok=%v (AllowInvalidUTF8=%v)", s, err, want, ok, allow)
		}
		var a any
		err = jsonv2.Unmarshal(lit, &a, opts[0])
		if (err == nil) != ok || (ok && a != any(want)) {
			return fmt.Sprintf("Unmarshal(any): %v err=%v, want %q ok=%v (AllowInvalidUTF8=%v)", a, err, want, ok, allow)
		}
		m := map[string]int{}
		doc := append(append([]byte("{"), lit...), ":1}"...)
		err = jsonv2.Unmarshal(doc, &m, opts[0])
		if (err == nil) != ok {
			var se *jsontext.SyntacticError
			if !(ok && errors.As(err, &se)) || true {
				return fmt.Sprintf("Unmarshal(map key): err=%v, want ok=%v (AllowInvalidUTF8=%v)", err, ok, allow)
			}
		}
		if ok {
			if _, has := m[want]; !has || len(m) != 1 {
				return fmt.Sprintf("Unmarshal(map key): got %v, want key %q", m, want)
			}
		}
	}
	c.paths["decode paths"]++
	return ""
}

func report(r *evid.Run, cs Case, msg string) {
	cs.Bytes = append([]byte(nil), cs.Bytes...)
	cs.Text = string(cs.Bytes)
	r.Violation(fmt.Sprintf("c11|%s|%d|%q", cs.Kind, cs.Chunk, cs.Bytes), msg, cs, func() bool { return replayCase(cs) != "" })
}

func replayCase(cs Case) string {
	c := newChecker()
	if cs.Kind == "literal" {
		return c.literal(cs.Bytes)
	}
	if cs.Kind == "long-literal" {
		return checkLong(cs.Bytes, cs.Chunk)
	}
	return c.goString(string(cs.Bytes), cs.Fields)
}

func Replay(r *evid.Run, raw json.RawMessage) {
	var cs Case
	if json.Unmarshal(raw, &cs) != nil {
		return
	}
	r.Evaluations.Add(1)
	r.Nontrivial.Add(2)
	r.Sample(cs)
	if msg := replayCase(cs); msg != "" {
		fmt.Println("replay fails:", msg)
		r.Violation("replay", msg, cs, nil)
	} else {
		fmt.Println("replay passes")
	}
}

const crit40 = "\"\\/<>&'a0 u\x00\x08\t\n\f\r\x1f\x7f\x80\xbf\xc0\xc2\xc3\xa9\xe0\xe2\xa8\xed\xa0\xef\xf0\x90\xf4\x8f\xff\xe1\x9f\xf5\xa0"
const crit16 = "\"\\<a\x1f\x80\xbf\xc2\xe2\xa8\xed\xa0\xf0\x90\xf4\xff"

func Run(r *evid.Run) {
	r.Rule("Go strings: every single byte; every string of <=L3 bytes over a 40-byte critical alphabet and of 4 bytes over a 16-byte one (covers every ill-formed 2/3/4-byte prefix class: overlongs, surrogate encodings, > U+10FFFF, truncations); every code point (thorough) / every code point < U+3000 plus plane and surrogate boundaries (quick) - each through AppendQuote, WriteToken(String), Marshal(string), map key, TextMarshaler, TextAppender key, and for well-formed strings two raw spellings (minimal, all-\\u) through MarshalJSON, Value.Format, AppendFormat, WriteValue (value and name) with/without PreserveRawStrings, and a reflect.StructOf field name, x {none, EscapeForHTML, EscapeForJS, both, both spelled out as false, each switched on and off again} x AllowInvalidUTF8. JSON literals: every string body of views A3 and S through AppendUnquote, ReadToken, Unmarshal into string/any/map key x AllowInvalidUTF8. Oracle: independent minimal quoter/unquoter (refjson). evaluations = strings/literals checked (each through all paths); distinct_nontrivial = distinct inputs that need escaping, are ill-formed, or contain an escape sequence")
	r.Assume("reference quoter/unquoter internal/refjson (RFC 8259 section 7, RFC 8785 section 3.2.2.2, Unicode table 3-7)")
	L3 := 2
	if r.Tier == "thorough" {
		L3 = 3
	}
	nontrivialStr := func(s []byte) bool {
		if !refjson.WellFormed(string(s)) {
			return true
		}
		return !bytes.Equal(refjson.Quote(nil, string(s), true, true), append(append([]byte{'"'}, s...), '"'))
	}
	run := func(name string, alpha [][]byte, maxLen int, fields bool) {
		enum.Strings(r, alpha, maxLen, func(w *enum.Worker) func([]byte) {
			c := newChecker()
			w.Describe = func() any { return c.cur }
			w.Done = func() { r.Outcomes(c.paths) }
			return func(s []byte) {
				c.cur = Case{Kind: "gostring", Bytes: s, Fields: fields}
				r.Evaluations.Add(1)
				if nontrivialStr(s) {
					r.Nontrivial.Add(1)
				}
				if msg := c.goString(string(s), fields); msg != "" {
					report(r, c.cur, msg)
				}
			}
		})
		r.Bound("%s: all strings of <=%d symbols over %d symbols", name, maxLen, len(alpha))
	}
	all := make([][]byte, 256)
	for i := range all {
		all[i] = []byte{byte(i)}
	}
	run("single bytes", all, 1, true)
	run("critical-40", enum.ByteSyms(crit40), L3, L3 == 2)
	run("critical-16", enum.ByteSyms(crit16), 4, false)
	// code points
	var cps []rune
	for c := rune(0); c <= 0x10ffff; c++ {
		if c >= 0xd800 && c <= 0xdfff {
			continue
		}
		if r.Tier == "thorough" || c < 0x3000 || c&0xfff >= 0xffc || c&0xfff <= 2 {
			cps = append(cps, c)
		}
	}
	const chunk = 4096
	enum.Parallel(r, (len(cps)+chunk-1)/chunk, func(w *enum.Worker) func(int) {
		c := newChecker()
		w.Describe = func() any { return c.cur }
		w.Done = func() { r.Outcomes(c.paths) }
		return func(u int) {
			for _, cp := range cps[u*chunk : min((u+1)*chunk, len(cps))] {
				for _, s := range []string{string(cp), "a" + string(cp) + "<"} {
					c.cur = Case{Kind: "gostring", Bytes: []byte(s)}
					r.Evaluations.Add(1)
					if nontrivialStr([]byte(s)) {
						r.Nontrivial.Add(1)
					}
					if msg := c.goString(s, false); msg != "" {
						report(r, c.cur, msg)
					}
					w.Beat()
				}
			}
		}
	})
	r.Bound("code points: %d scalar values, alone and embedded", len(cps))
	// one character the escape options speak about at every position of a run of plain bytes (word-at-a-time scanners)
	{
		c := newChecker()
		var n int64
		for total := 1; total <= 26; total++ {
			for pos := 0; pos < total; pos++ {
				for _, ch := range []string{"<", ">", "&", "\u2028", "\u2029", "\"", "\\", "\x1f", "\x7f", "\u00e9", "\xff"} {
					s := strings.Repeat("a", pos) + ch + strings.Repeat("b", total-pos-1)
					c.cur = Case{Kind: "gostring", Bytes: []byte(s)}
					n++
					if msg := c.goString(s, false); msg != "" {
						report(r, c.cur, msg)
					}
				}
			}
		}
		r.Evaluations.Add(n)
		r.Nontrivial.Add(n)
		r.Outcomes(c.paths)
		r.Bound("positions: one of 11 characters (HTML, JS separators, quote, backslash, control, DEL, two-byte, ill-formed byte) at every position of every run of 1..26 plain bytes (%d strings) through every path", n)
	}
	// the v1 Encoder's switch: the last SetEscapeHTML call decides (on by default), U+2028/9 are always escaped
	{
		var n int64
		for mask := 0; mask < 1<<4; mask++ {
			for length := 0; length <= 4; length++ {
				if mask>>length != 0 {
					continue
				}
				n++
				var bb bytes.Buffer
				enc := jsonv1.NewEncoder(&bb)
				html := true
				var calls []string
				for i := 0; i < length; i++ {
					html = mask>>i&1 == 1
					enc.SetEscapeHTML(html)
					calls = append(calls, fmt.Sprint(html))
				}
				err := enc.Encode(map[string]any{"<k&>": []string{"<v>\u2028", "&\u2029"}})
				out := bb.String()
				rawHTML := strings.ContainsAny(out, "<>&")
				escHTML := strings.Contains(out, `\u003c`) && strings.Contains(out, `\u003e`) && strings.Contains(out, `\u0026`)
				rawJS := strings.ContainsAny(out, "\u2028\u2029")
				if err != nil || rawHTML == html || escHTML != html || rawJS {
					r.Violation(fmt.Sprintf("c11|v1-encoder|%v", calls), fmt.Sprintf("v1 Encoder after SetEscapeHTML calls %v writes %q (err=%v): HTML characters must be escaped = %v, U+2028/9 always", calls, out, err, html), Case{Kind: "v1-encoder", Text: strings.Join(calls, ",")}, nil)
				}
			}
		}
		r.Evaluations.Add(n)
		r.Nontrivial.Add(n)
		r.Bound("v1 Encoder: every sequence of <=4 SetEscapeHTML calls (%d) followed by Encode of names and strings holding <, >, &, U+2028, U+2029", n)
	}
	// struct member names (pre-quoted when the struct type is analysed) holding the characters the escape options speak about
	{
		c := newChecker()
		var n int64
		for _, cp := range []rune{'<', '>', '&', 0x2028, 0x2029, 0x2027, 0x202a, 0x7f, 0xe9, 0xfffd, 0x10000, '/', 0x3c0} {
			for _, s := range []string{string(cp), "a" + string(cp) + "b", string(cp) + string(cp), "\u2028" + string(cp), string(cp) + "<"} {
				c.cur = Case{Kind: "gostring", Bytes: []byte(s), Fields: true}
				n++
				if msg := c.goString(s, true); msg != "" {
					report(r, c.cur, msg)
				}
			}
		}
		r.Evaluations.Add(n)
		r.Nontrivial.Add(n)
		r.Outcomes(c.paths)
		r.Bound("struct member names: 13 critical code points (HTML characters, U+2028/U+2029 and their neighbours, others) alone, embedded, doubled and combined, through every encode path incl. the struct-field-name path x 4 escape sets")
	}
	r.Sample(Case{Kind: "gostring", Text: "a\u2028<"})
	// literals
	lens := views.ForTier(r.Tier)
	vs := []views.View{{Name: "A3-stringbody", Alpha: views.A3, MaxLen: lens.A3 + 1, Prefix: `"`}, {Name: "S-surrogates", Alpha: views.S, MaxLen: lens.S, Prefix: `"`}}
	views.ForAll(r, vs, func(w *enum.Worker, v views.View) func([]byte) {
		c := newChecker()
		w.Describe = func() any { return c.cur }
		w.Done = func() { r.Outcomes(c.paths) }
		return func(s []byte) {
			c.cur = Case{Kind: "literal", Bytes: s}
			r.Evaluations.Add(1)
			if bytes.IndexByte(s, '\\') >= 0 || !refjson.WellFormed(string(s)) {
				r.Nontrivial.Add(1)
			}
			if msg := c.literal(s); msg != "" {
				report(r, c.cur, msg)
			}
		}
	})
	r.Sample(Case{Kind: "literal", Text: `"\ud800\udc00"`})
	// complete \u escape sequences (too long for the S view): every combination of two 4-digit escapes from a
	// menu of surrogate halves / boundary code units in lower, upper and mixed case hex, alone, adjacent, and
	// separated or followed by an ordinary character
	units := []string{"d800", "D800", "dbff", "DBFF", "d83d", "dc00", "DC00", "dfff", "DFFF", "de00", "DE00", "dE0a", "Dc0F", "d7ff", "e000", "E000", "0041", "0000", "ffff", "FFFF", "2028", "003c", "003C", "000c", "000C", "00e9"}
	var lits [][]byte
	for _, a := range units {
		lits = append(lits, []byte(`"\u`+a+`"`), []byte(`"x\u`+a+`y"`))
		for _, b := range units {
			lits = append(lits, []byte(`"\u`+a+`\u`+b+`"`), []byte(`"\u`+a+`z\u`+b+`"`), []byte(`"\u`+a+`\u`+b+`z"`), []byte(`"\u`+a+`\\u`+b+`"`))
		}
	}
	enum.Parallel(r, len(lits), func(w *enum.Worker) func(int) {
		c := newChecker()
		w.Describe = func() any { return c.cur }
		w.Done = func() { r.Outcomes(c.paths) }
		return func(u int) {
			c.cur = Case{Kind: "literal", Bytes: lits[u]}
			r.Evaluations.Add(1)
			r.Nontrivial.Add(1)
			if msg := c.literal(lits[u]); msg != "" {
				report(r, c.cur, msg)
			}
		}
	})
	r.Bound("escape sequences: %d literals built from all ordered pairs of %d four-digit \\u escapes (surrogate halves and boundary code units in lower / upper / mixed case), alone, adjacent, separated and followed by a character; each also delivered in two reads split at every byte", len(lits), len(units))
	longLiterals(r)
}
