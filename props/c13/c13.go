// Package c13: Value.Canonicalize produces the RFC 8785 canonical form.
package c13

import (
	"bytes"
	"encoding/json"
	"fmt"
	"math"
	"strconv"
	"strings"

	"github.com/go-json-experiment/json/jsontext"

	"verif/internal/enum"
	"verif/internal/evid"
	"verif/internal/refjson"
)

type Case struct {
	Input     []byte `json:"input"`
	InputText string `json:"input_text"`
	Family    string `json:"family"`
}

// check canonicalizes in and compares with the reference serialization of its tree and,
// when given, with the expected bytes of the base tree it is a respelling of.
func check(in []byte, want []byte) (msg string) {
	defer func() {
		if p := recover(); p != nil {
			msg = fmt.Sprintf("library panic: %v", p)
		}
	}()
	return checkInner(in, want)
}

func checkInner(in []byte, want []byte) string {
	tree := refjson.Tree(in, refjson.Opts{})
	if tree == nil {
		return "HARNESS: generated text is not valid I-JSON"
	}
	ref := refjson.Canonical(tree)
	if want != nil && !bytes.Equal(ref, want) {
		return fmt.Sprintf("HARNESS: respelling changed the reference form: %q vs %q", ref, want)
	}
	var msg string
	v := jsontext.Value(append([]byte(nil), in...))
	var err error
	func() {
		defer func() {
			if p := recover(); p != nil {
				msg = fmt.Sprintf("library panic: %v", p)
			}
		}()
		err = v.Canonicalize()
	}()
	if msg != "" {
		return msg
	}
	if err != nil {
		return fmt.Sprintf("Canonicalize failed on valid I-JSON: %v", err)
	}
	if !bytes.Equal(v, ref) {
		return fmt.Sprintf("Canonicalize = %q, RFC 8785 reference = %q", v, ref)
	}
	// white space around the whole text (every white-space character in the leading and trailing run) changes nothing
	for _, pad := range [][2]string{{"\r", ""}, {"\n\t \r", "\r\n"}, {"\r\n", " \t"}} {
		p := jsontext.Value(pad[0] + string(in) + pad[1])
		if err := p.Canonicalize(); err != nil || !bytes.Equal(p, ref) {
			return fmt.Sprintf("with the white space %q before and %q after the text: Canonicalize = %q (%v), RFC 8785 reference = %q", pad[0], pad[1], p, err, ref)
		}
	}
	// the result denotes the same value (numbers as float64) and is a fixed point
	out := refjson.Tree(v, refjson.Opts{})
	if out == nil || !refjson.Equal(tree, out, refjson.EqOpts{NumByFloat: true, IgnoreOrder: true}) {
		return fmt.Sprintf("canonical form %q does not denote the input value", v)
	}
	v2 := v.Clone()
	if err := v2.Canonicalize(); err != nil || !bytes.Equal(v2, v) {
		return fmt.Sprintf("canonical form is not a fixed point: %q -> %q (%v)", v, v2, err)
	}
	return ""
}

func report(r *evid.Run, fam string, in []byte, msg string) {
	cs := Case{Input: append([]byte(nil), in...), InputText: string(in), Family: fam}
	r.Violation(fmt.Sprintf("c13|%q", in), msg, cs, func() bool { return check(cs.Input, nil) != "" })
}

func Replay(r *evid.Run, raw json.RawMessage) {
	var cs Case
	if json.Unmarshal(raw, &cs) != nil {
		return
	}
	r.Evaluations.Add(1)
	r.Nontrivial.Add(2)
	r.Sample(cs)
	var size int
	if n, _ := fmt.Sscanf(cs.Family, "history:%d", &size); n == 1 && size > 0 && size <= 1<<20 {
		check(bigObject(size), nil)
	}
	if msg := check(cs.Input, nil); msg != "" {
		fmt.Println("replay fails:", msg)
		r.Violation("replay", msg, cs, nil)
	} else {
		fmt.Println("replay passes")
	}
}

// spellings of one character inside a JSON string literal.
func charSpellings(c rune) []string {
	var out []string
	raw := string(c)
	if c >= 0x20 && c != '"' && c != '\\' {
		out = append(out, raw)
	}
	if c < 0x10000 {
		out = append(out, fmt.Sprintf(`\u%04x`, c), fmt.Sprintf(`\u%04X`, c))
	} else {
		hi, lo := 0xD800+((c-0x10000)>>10), 0xDC00+((c-0x10000)&0x3FF)
		out = append(out, fmt.Sprintf(`\u%04x\u%04x`, hi, lo), fmt.Sprintf(`\u%04X\u%04x`, hi, lo))
	}
	switch c {
	case '"':
		out = append(out, `\"`)
	case '\\':
		out = append(out, `\\`)
	case '/':
		out = append(out, `\/`)
	case '\b':
		out = append(out, `\b`)
	case '\f':
		out = append(out, `\f`)
	case '\n':
		out = append(out, `\n`)
	case '\r':
		out = append(out, `\r`)
	case '\t':
		out = append(out, `\t`)
	}
	return out
}

// strSpellings returns literals for s with at most `limit` characters respelled away from the first (default) spelling.
func strSpellings(s string, limit int) []string {
	rs := []rune(s)
	var out []string
	var rec func(i, used int, acc string)
	rec = func(i, used int, acc string) {
		if i == len(rs) {
			out = append(out, `"`+acc+`"`)
			return
		}
		sp := charSpellings(rs[i])
		for k, x := range sp {
			if k > 0 && used >= limit {
				break
			}
			u := used
			if k > 0 {
				u++
			}
			rec(i+1, u, acc+x)
		}
	}
	rec(0, 0, "")
	return out
}

var wsStyles = [][3]string{{"", "", ""}, {" ", " ", " "}, {"\n\t", "\r\n ", "\t"}} // after open/comma, around colon, before close

func obj(names []string, vals []string, ws [3]string) string {
	var sb strings.Builder
	sb.WriteString("{" + ws[0])
	for i := range names {
		if i > 0 {
			sb.WriteString("," + ws[0])
		}
		sb.WriteString(names[i] + ws[1] + ":" + ws[1] + vals[i])
	}
	sb.WriteString(ws[2] + "}")
	return sb.String()
}

func perms(n int, f func(p []int)) {
	p := make([]int, n)
	for i := range p {
		p[i] = i
	}
	var rec func(k int)
	rec = func(k int) {
		if k == n {
			f(p)
			return
		}
		for i := k; i < n; i++ {
			p[k], p[i] = p[i], p[k]
			rec(k + 1)
			p[k], p[i] = p[i], p[k]
		}
	}
	rec(0)
}

var nameMenu = []string{"", "a", "b", "aa", "A", "\x00", "é", "\ue000", "\uffff", "\U00010000", "\U0010FFFF", "\u20ac", "1", "10", "2",
	// ASCII first, then the code units that sort differently as UTF-16 and as UTF-8
	"k\ufb33", "k\U0001F600", "a\uffff", "a\U00010000"}

func Run(r *evid.Run) {
	r.Rule("generated I-JSON texts: (a) objects over every subset of <=K names from a 19-name menu (incl. U+E000..U+FFFF vs supplementary planes) in EVERY member order x whitespace styles x name spellings; (b) numbers: powers of ten 1e-330..1e310, neighbours of the 1e-6/1e21 layout switches, 2^53+-1, extremes, each in 8 spellings; (c) every code point class as a string in every escape spelling; (d) all nested trees of <=N nodes over small leaf/name menus, members permuted. Oracle: Canonicalize(text) == RFC 8785 serialization of the text's tree by the reference serializer (== the base tree's form for every respelling), denotes the same value, fixed point. evaluations = texts canonicalized; distinct_nontrivial = distinct texts that are not already canonical")
	r.Assume("reference RFC 8785 serializer internal/refjson (UTF-16 sort via unicode/utf16, ES6 number layout over strconv shortest digits)")
	K, N := 3, 4
	if r.Tier == "thorough" {
		K, N = 5, 6
	}
	objects(r, K)
	numbers(r)
	stringsFam(r)
	trees(r, N)
	wide(r)
	histories(r)
}

// histories: what an earlier call leaves behind (recycled member lists of every size class) must not reach a
// later one: a large object, then small unsorted ones, on the same goroutine.
func histories(r *evid.Run) {
	var n int64
	smalls := []string{`{"b":1,"a":{"d":2,"c":3}}`, `[{"b":1,"a":2},{"y":[],"x":{}}]`, `{"a":1,"b":2}`, `{"10":1,"2":{"b":0,"a":0},"1":3}`}
	for _, size := range []int{1, 63, 64, 600, 700, 1023, 1024, 1025, 1200, 5000} {
		big := bigObject(size)
		for rep := 0; rep < 3; rep++ {
			n++
			r.Evaluations.Add(1)
			if msg := check(big, nil); msg != "" {
				report(r, "history-large", big[:min(len(big), 200)], fmt.Sprintf("object of %d members in descending order: %s", size, trunc(msg)))
				break
			}
			for _, sm := range smalls {
				n++
				r.Evaluations.Add(1)
				if msg := check([]byte(sm), nil); msg != "" {
					cs := Case{Input: []byte(sm), InputText: sm, Family: fmt.Sprintf("history:%d", size)}
					r.Violation(fmt.Sprintf("c13|history|%d|%s", size, sm), fmt.Sprintf("after canonicalizing an object of %d members: %s", size, msg), cs, nil)
				}
			}
		}
	}
	r.Nontrivial.Add(n)
	r.Bound("histories: an object of {1, 63, 64, 600, 700, 1023, 1024, 1025, 1200, 5000} members in descending order, then 4 small texts (3 unsorted, nested), three times over on one goroutine: every text canonicalizes as it does alone")
}

func bigObject(size int) []byte {
	var sb strings.Builder
	sb.WriteString("{")
	for i := size - 1; i >= 0; i-- {
		fmt.Fprintf(&sb, `"k%05d":%d`, i, i%7)
		if i > 0 {
			sb.WriteString(",")
		}
	}
	sb.WriteString("}")
	return []byte(sb.String())
}

func trunc(s string) string {
	if len(s) > 300 {
		return s[:300] + "..."
	}
	return s
}

// wide: objects with many members (around and beyond the sizes at which the implementation changes its
// bookkeeping) whose names share prefixes and mix BMP-high and supplementary code points, presented in
// systematically different orders, flat and nested; every presentation must canonicalize to the same bytes
// as the reference serialization.
func wide(r *evid.Run) {
	sizes := []int{8, 17, 63, 64, 65, 66, 100}
	if r.Tier == "thorough" {
		sizes = []int{8, 17, 31, 32, 33, 63, 64, 65, 66, 67, 100, 129, 257, 600}
	}
	mkNames := func(n int) []string {
		heads := []string{"", "a", "aa", "\ue000", "\U00010000", "\uffff", "k", "K", "\u00e9", "~"}
		out := make([]string, n)
		for i := range out {
			out[i] = heads[i%len(heads)] + strconv.Itoa(i/len(heads))
			if i%7 == 3 {
				out[i] += strings.Repeat("x", 20) // long names (beyond the 16 bytes a comparison shortcut might use)
			}
		}
		return out
	}
	type unit struct{ n, order int }
	var units []unit
	for _, n := range sizes {
		for o := 0; o < 6+n; o++ {
			units = append(units, unit{n, o})
		}
	}
	enum.Parallel(r, len(units), func(w *enum.Worker) func(int) {
		var cur []byte
		var nt int64
		w.Describe = func() any { return Case{Input: cur, InputText: string(cur), Family: "wide"} }
		w.Done = func() { r.Nontrivial.Add(nt) }
		return func(u int) {
			n, o := units[u].n, units[u].order
			names := mkNames(n)
			idx := make([]int, n)
			for i := range idx {
				idx[i] = i
			}
			switch {
			case o == 0: // as generated
			case o == 1: // reversed
				for i := range idx {
					idx[i] = n - 1 - i
				}
			case o == 2: // already sorted by the reference
				base := &refjson.Value{Kind: '{'}
				for i := range names {
					base.Names = append(base.Names, names[i])
					base.Members = append(base.Members, &refjson.Value{Kind: '0', Num: strconv.Itoa(i)})
				}
				t := refjson.Tree(refjson.Canonical(base), refjson.Opts{})
				pos := map[string]int{}
				for i, nm := range names {
					pos[nm] = i
				}
				for i, nm := range t.Names {
					idx[i] = pos[nm]
				}
			case o == 3: // sorted, reversed
				base := &refjson.Value{Kind: '{'}
				for i := range names {
					base.Names = append(base.Names, names[i])
					base.Members = append(base.Members, &refjson.Value{Kind: '0', Num: strconv.Itoa(i)})
				}
				t := refjson.Tree(refjson.Canonical(base), refjson.Opts{})
				pos := map[string]int{}
				for i, nm := range names {
					pos[nm] = i
				}
				for i, nm := range t.Names {
					idx[n-1-i] = pos[nm]
				}
			case o == 4: // interleave halves
				for i := range idx {
					if i%2 == 0 {
						idx[i] = i / 2
					} else {
						idx[i] = n - 1 - i/2
					}
				}
			case o == 5: // stride 7 (coprime walk when possible)
				st := 7
				for gcd(st, n) != 1 {
					st++
				}
				for i := range idx {
					idx[i] = (i * st) % n
				}
			default: // rotation by o-5
				for i := range idx {
					idx[i] = (i + o - 5) % n
				}
			}
			base := &refjson.Value{Kind: '{'}
			ns := make([]string, n)
			vs := make([]string, n)
			for i, k := range idx {
				base.Names = append(base.Names, names[k])
				val := &refjson.Value{Kind: '0', Num: strconv.Itoa(k)}
				vs[i] = strconv.Itoa(k) + ".0e0"
				if k%11 == 5 { // a nested object in non-canonical order
					val = &refjson.Value{Kind: '{', Names: []string{"b", "a"}, Members: []*refjson.Value{{Kind: '0', Num: "1"}, {Kind: '0', Num: "2"}}}
					vs[i] = `{"b":1, "\u0061":2}`
				}
				base.Members = append(base.Members, val)
				ns[i] = string(refjson.Quote(nil, names[k], false, false))
			}
			want := refjson.Canonical(base)
			for _, ws := range wsStyles[:2] {
				cur = []byte(obj(ns, vs, ws))
				run1(r, "wide", cur, want, &nt)
				cur = []byte("[" + string(cur) + "," + string(cur) + "]")
				run1(r, "wide", cur, append(append(append(append([]byte("["), want...), ','), want...), ']'), &nt)
			}
		}
	})
	r.Bound("wide objects: %d (size, presentation order) pairs over sizes %v: generated / reversed / canonical / reverse-canonical / interleaved / strided / every rotation; names with shared prefixes, 20+ byte names, U+E000.. vs supplementary planes; flat and twice inside an array", len(units), sizes)
}

func gcd(a, b int) int {
	for b != 0 {
		a, b = b, a%b
	}
	return a
}

func run1(r *evid.Run, fam string, in []byte, want []byte, nt *int64) {
	r.Evaluations.Add(1)
	if msg := check(in, want); msg != "" {
		report(r, fam, in, msg)
	}
	if want == nil || !bytes.Equal(in, want) {
		*nt++
	}
}

func objects(r *evid.Run, K int) {
	// all subsets of size 1..K
	var subsets [][]int
	var rec func(start int, cur []int)
	rec = func(start int, cur []int) {
		if len(cur) > 0 {
			subsets = append(subsets, append([]int(nil), cur...))
		}
		if len(cur) == K {
			return
		}
		for i := start; i < len(nameMenu); i++ {
			rec(i+1, append(cur, i))
		}
	}
	rec(0, nil)
	enum.Parallel(r, len(subsets), func(w *enum.Worker) func(int) {
		var cur []byte
		var nt int64
		w.Describe = func() any { return Case{Input: cur, InputText: string(cur), Family: "objects"} }
		w.Done = func() { r.Nontrivial.Add(nt) }
		return func(u int) {
			sub := subsets[u]
			// base tree: names -> distinct ints
			base := &refjson.Value{Kind: '{'}
			for k, ni := range sub {
				base.Names = append(base.Names, nameMenu[ni])
				base.Members = append(base.Members, &refjson.Value{Kind: '0', Num: strconv.Itoa(k)})
			}
			want := refjson.Canonical(base)
			// name spellings: default, or one name with its first char respelled
			spell := make([][]string, len(sub))
			for k, ni := range sub {
				spell[k] = strSpellings(nameMenu[ni], 1)
			}
			perms(len(sub), func(p []int) {
				for _, ws := range wsStyles {
					for which := -1; which < len(sub); which++ {
						nvar := 1
						if which >= 0 {
							nvar = len(spell[which])
						}
						for v := 0; v < nvar; v++ {
							if which >= 0 && v == 0 {
								continue
							}
							names := make([]string, len(p))
							vals := make([]string, len(p))
							for i, k := range p {
								names[i] = spell[k][0]
								if k == which {
									names[i] = spell[k][v]
								}
								vals[i] = strconv.Itoa(k)
							}
							cur = []byte(obj(names, vals, ws))
							run1(r, "objects", cur, want, &nt)
							w.Beat()
						}
					}
				}
			})
		}
	})
	r.Sample(Case{InputText: "{ \"\\ud800\\udc00\" : 1, \"\\uE000\":0 }", Family: "objects"})
	r.Bound("objects: all %d subsets of <=%d of %d names x all member orders x %d whitespace styles x (default spelling + every single-name respelling)", len(subsets), K, len(nameMenu), len(wsStyles))
}

// numSpellings returns alternative JSON spellings of the finite decimal given as digits*10^exp.
func numSpellings(neg bool, digits string, exp int) []string {
	sign := ""
	if neg {
		sign = "-"
	}
	d := strings.TrimLeft(digits, "0")
	if d == "" {
		d = "0"
	}
	if d == "0" {
		return []string{sign + "0", sign + "0.0", sign + "0e0", fmt.Sprintf("%s0E+%d", sign, abs(exp)), fmt.Sprintf("%s0.000e%d", sign, exp)}
	}
	var out []string
	out = append(out, fmt.Sprintf("%s%se%d", sign, d, exp), fmt.Sprintf("%s%sE+%d", sign, d, exp), fmt.Sprintf("%s%s.0e%d", sign, d, exp))
	if exp < 0 {
		out[1] = fmt.Sprintf("%s%sE%d", sign, d, exp)
	}
	// shifted: d.ddd e(exp+len-1)
	if len(d) > 1 {
		out = append(out, fmt.Sprintf("%s%s.%se%d", sign, d[:1], d[1:], exp+len(d)-1))
	}
	out = append(out, fmt.Sprintf("%s%s0e%d", sign, d, exp-1), fmt.Sprintf("%s0.%se%d", sign, d, exp+len(d)))
	// plain long forms when not absurd
	if exp >= 0 && exp <= 40 {
		out = append(out, sign+d+strings.Repeat("0", exp), sign+d+strings.Repeat("0", exp)+".000")
	}
	if exp < 0 && -exp <= 40 {
		if -exp >= len(d) {
			out = append(out, sign+"0."+strings.Repeat("0", -exp-len(d))+d)
		} else {
			out = append(out, sign+d[:len(d)+exp]+"."+d[len(d)+exp:])
		}
	}
	return out
}

func numbers(r *evid.Run) {
	type num struct {
		neg    bool
		digits string
		exp    int
	}
	var ns []num
	for e := -330; e <= 310; e++ {
		ns = append(ns, num{false, "1", e}, num{true, "1", e}, num{false, "15", e}, num{false, "9999999999999999", e - 16}, num{false, "10000000000000001", e - 16})
	}
	for _, s := range []string{"0", "9007199254740991", "9007199254740992", "9007199254740993", "18446744073709551615", "18446744073709551616", "123456789012345678",
		"17976931348623157", "49406564584124654", "24703282292062327", "24703282292062328", "22250738585072014", "5", "25", "125", "333333333333333314829616256247", "4503599627370497", "999999999999999868928", "1000000000000000128", "99999999999999991611392"} {
		for _, e := range []int{0, -1, -5, -6, -7, -10, -16, -17, -20, -21, -22, 1, 4, 5, 6, 292, -324, -339, -340, 380} {
			ns = append(ns, num{false, s, e}, num{true, s, e})
		}
	}
	enum.Parallel(r, len(ns), func(w *enum.Worker) func(int) {
		var cur []byte
		var nt int64
		w.Describe = func() any { return Case{Input: cur, InputText: string(cur), Family: "numbers"} }
		w.Done = func() { r.Nontrivial.Add(nt) }
		return func(u int) {
			n := ns[u]
			sp := numSpellings(n.neg, n.digits, n.exp)
			f, _ := strconv.ParseFloat(sp[0], 64)
			if math.IsInf(f, 0) {
				f = math.Copysign(math.MaxFloat64, f)
			}
			want := []byte(refjson.ES6Number(f, 64, false))
			for _, s := range sp {
				cur = []byte(s)
				run1(r, "numbers", cur, want, &nt)
				cur = []byte("[" + s + " ,{\"k\":" + s + "}]")
				run1(r, "numbers", cur, []byte("["+string(want)+",{\"k\":"+string(want)+"}]"), &nt)
			}
		}
	})
	r.Sample(Case{InputText: "10000000000000001e-10", Family: "numbers"})
	r.Bound("numbers: %d decimal values (powers of ten 1e-330..1e310 with 1/15/9999999999999999/10000000000000001 mantissas, integer and subnormal boundaries x 20 exponents, both signs) x up to 9 spellings, bare and nested", len(ns))
}

func stringsFam(r *evid.Run) {
	var cps []rune
	for c := rune(0); c < 0x300; c++ {
		cps = append(cps, c)
	}
	for _, c := range []rune{0x7ff, 0x800, 0xfff, 0x1000, 0x2027, 0x2028, 0x2029, 0x202a, 0xd7ff, 0xe000, 0xfeff, 0xfffd, 0xfffe, 0xffff, 0x10000, 0x10001, 0x1f600, 0xfffff, 0x100000, 0x10fffe, 0x10ffff} {
		cps = append(cps, c)
	}
	if r.Tier == "thorough" {
		for c := rune(0x300); c <= 0x10ffff; c += 0x101 {
			if c < 0xd800 || c > 0xdfff {
				cps = append(cps, c)
			}
		}
	}
	enum.Parallel(r, len(cps), func(w *enum.Worker) func(int) {
		var cur []byte
		var nt int64
		w.Describe = func() any { return Case{Input: cur, InputText: string(cur), Family: "strings"} }
		w.Done = func() { r.Nontrivial.Add(nt) }
		return func(u int) {
			c := cps[u]
			for _, ctx := range []string{"", "x", "\u00e9"} {
				s := ctx + string(c) + ctx
				want := refjson.Quote(nil, s, false, false)
				for _, lit := range strSpellings(s, 2) {
					cur = []byte(lit)
					run1(r, "strings", cur, want, &nt)
					cur = []byte("{" + lit + ":" + lit + "}")
					run1(r, "strings", cur, []byte("{"+string(want)+":"+string(want)+"}"), &nt)
				}
			}
		}
	})
	r.Bound("strings: %d code points (all < U+0300, plane and surrogate boundaries%s) alone and in context, every escape spelling with <=2 respelled characters, as value and as member name", len(cps), map[bool]string{true: ", every 0x101-th code point of all planes", false: ""}[r.Tier == "thorough"])
}

// trees: all trees of <= N nodes.
func trees(r *evid.Run, N int) {
	leaves := []string{"null", "true", "-0", "1e21", "1.0", `""`, `"\u20ac"`, "1E-7", "9007199254740993", "1e400"}
	names := []string{"b", "a", "\U00010000", "\ue000", ""}
	// gen(n) = all (text) of trees with exactly n nodes; objects use the first k names in reverse sorted-ish order so sorting has work to do
	memo := map[int][]string{}
	var gen func(n int) []string
	gen = func(n int) []string {
		if v, ok := memo[n]; ok {
			return v
		}
		var out []string
		if n == 1 {
			out = append(out, leaves...)
			out = append(out, "[]", "{}")
		} else {
			// container with children summing to n-1 nodes: compositions
			var comps func(rem int, cur []int)
			comps = func(rem int, cur []int) {
				if rem == 0 {
					if len(cur) > len(names) {
						return
					}
					// cartesian product of children
					var prod func(i int, acc []string)
					prod = func(i int, acc []string) {
						if i == len(cur) {
							out = append(out, "["+strings.Join(acc, " , ")+"]")
							ns := make([]string, len(acc))
							for k := range acc {
								ns[k] = string(refjson.Quote(nil, names[k], false, false))
							}
							out = append(out, obj(ns, acc, wsStyles[1]))
							return
						}
						for _, c := range gen(cur[i]) {
							prod(i+1, append(acc[:len(acc):len(acc)], c))
						}
					}
					prod(0, nil)
					return
				}
				for k := 1; k <= rem; k++ {
					comps(rem-k, append(cur[:len(cur):len(cur)], k))
				}
			}
			comps(n-1, nil)
		}
		memo[n] = out
		return out
	}
	var all []string
	for n := 1; n <= N; n++ {
		all = append(all, gen(n)...)
	}
	enum.Parallel(r, len(all), func(w *enum.Worker) func(int) {
		var cur []byte
		var nt int64
		w.Describe = func() any { return Case{Input: cur, InputText: string(cur), Family: "trees"} }
		w.Done = func() { r.Nontrivial.Add(nt) }
		return func(u int) {
			cur = []byte(all[u])
			run1(r, "trees", cur, nil, &nt)
		}
	})
	r.Sample(Case{InputText: all[len(all)/2], Family: "trees"})
	r.Bound("trees: all %d trees of <=%d nodes over %d leaves / %d names (members given in non-canonical order, with whitespace)", len(all), N, len(leaves), len(names))
}

func abs(x int) int {
	if x < 0 {
		return -x
	}
	return x
}
