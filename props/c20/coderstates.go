package c20

import (
	"bytes"
	"fmt"
	"strings"

	jsonv2 "github.com/go-json-experiment/json"
	"github.com/go-json-experiment/json/jsontext"

	"verif/internal/evid"
)

// ---- UnmarshalDecode / MarshalEncode on a coder in every state, with every per-call option change ----
//
// The json entry points accept a caller-owned coder in any state (before a value, before a member name, before a
// member value, inside arrays) and per-call options that may differ from the coder's own in either direction.
// Whatever they answer - a value or an error - they must not panic, and the coder must remain usable.

var stateDoc = `{"a":{"b":[1,{"c":2,"c2":"é"}],"d":"x"},"e":[[],{}],"f":null} [7] "tail"`

var stateBase = [][]jsontext.Options{nil, {jsontext.AllowDuplicateNames(true)}, {jsontext.AllowInvalidUTF8(true)}, {jsontext.AllowDuplicateNames(true), jsontext.AllowInvalidUTF8(true)}}

var stateExtra = [][]jsonv2.Options{nil, {jsontext.AllowDuplicateNames(true)}, {jsontext.AllowDuplicateNames(false)}, {jsontext.AllowInvalidUTF8(true)}, {jsontext.AllowInvalidUTF8(false)},
	{jsontext.AllowDuplicateNames(false), jsontext.AllowInvalidUTF8(false)}, {jsonv2.StringifyNumbers(true)}, {jsonv2.DefaultOptionsV2()}, {jsontext.Multiline(true), jsontext.SpaceAfterComma(true)}}

func decoderStateOne(k, bi, ei, target int) (msg string) {
	defer func() {
		if p := recover(); p != nil {
			msg = fmt.Sprintf("library panic: %v", p)
		}
	}()
	dec := jsontext.NewDecoder(plainR{strings.NewReader(stateDoc)}, stateBase[bi]...)
	for i := 0; i < k; i++ {
		if _, err := dec.ReadToken(); err != nil {
			return "" // fewer than k tokens
		}
	}
	var err error
	switch target {
	case 0:
		var v any
		err = jsonv2.UnmarshalDecode(dec, &v, stateExtra[ei]...)
	case 1:
		var v string
		err = jsonv2.UnmarshalDecode(dec, &v, stateExtra[ei]...)
	case 2:
		var v jsontext.Value
		err = jsonv2.UnmarshalDecode(dec, &v, stateExtra[ei]...)
	case 3:
		var v map[string]any
		err = jsonv2.UnmarshalDecode(dec, &v, stateExtra[ei]...)
	}
	_ = err
	// the decoder stays usable: drain it (errors are fine, panics and endless loops are not)
	for i := 0; i < 200; i++ {
		if _, e := dec.ReadToken(); e != nil {
			break
		}
	}
	dec.StackPointer()
	return ""
}

func encoderStateOne(prefix []jsontext.Token, bi, ei, vi int) (msg string) {
	defer func() {
		if p := recover(); p != nil {
			msg = fmt.Sprintf("library panic: %v", p)
		}
	}()
	var bb bytes.Buffer
	enc := jsontext.NewEncoder(&bb, stateBase[bi]...)
	for _, t := range prefix {
		if err := enc.WriteToken(t); err != nil {
			return ""
		}
	}
	vals := []any{1, "s", []any{}, map[string]any{"k": 1, "j": []any{}}, nil, map[string]int{}, []string{"a\xffb"}, jsontext.Value(`{"x":1,"x":2}`), struct{ A, B int }{1, 2}}
	_ = jsonv2.MarshalEncode(enc, vals[vi], stateExtra[ei]...)
	for _, t := range []jsontext.Token{jsontext.String("n"), jsontext.Int(2), jsontext.EndArray, jsontext.EndObject, jsontext.EndArray, jsontext.EndObject} {
		enc.WriteToken(t)
	}
	enc.StackPointer()
	enc.OutputOffset()
	return ""
}

func coderStates(r *evid.Run) {
	var n int64
	ntok := 40
	for k := 0; k <= ntok; k++ {
		for bi := range stateBase {
			for ei := range stateExtra {
				for target := 0; target < 4; target++ {
					n++
					if m := decoderStateOne(k, bi, ei, target); m != "" {
						r.Violation(fmt.Sprintf("c20|decoder-state|%d|%d|%d|%d", k, bi, ei, target), fmt.Sprintf("UnmarshalDecode after %d tokens of %s (decoder option set #%d, per-call option set #%d, target #%d): %s", k, stateDoc, bi, ei, target, m), Case{Part: "decoder-state", Depth: k, Path: fmt.Sprint(bi, ei, target)}, nil)
					}
				}
			}
		}
	}
	prefixes := [][]jsontext.Token{nil, {jsontext.BeginArray}, {jsontext.BeginArray, jsontext.Int(1)}, {jsontext.BeginObject}, {jsontext.BeginObject, jsontext.String("a")},
		{jsontext.BeginObject, jsontext.String("a"), jsontext.Int(1)}, {jsontext.BeginObject, jsontext.String("a"), jsontext.BeginArray, jsontext.BeginObject}, {jsontext.Int(1)}}
	for pi, p := range prefixes {
		for bi := range stateBase {
			for ei := range stateExtra {
				for vi := 0; vi < 9; vi++ {
					n++
					if m := encoderStateOne(p, bi, ei, vi); m != "" {
						r.Violation(fmt.Sprintf("c20|encoder-state|%d|%d|%d|%d", pi, bi, ei, vi), fmt.Sprintf("MarshalEncode in encoder state #%d (encoder option set #%d, per-call option set #%d, value #%d): %s", pi, bi, ei, vi, m), Case{Part: "encoder-state", Depth: pi, Path: fmt.Sprint(bi, ei, vi)}, nil)
					}
				}
			}
		}
	}
	r.Evaluations.Add(n)
	r.Nontrivial.Add(n)
	r.Bound("coder states: UnmarshalDecode after every token prefix of a 3-value stream x %d decoder option sets x %d per-call option sets (each Allow* option changed in both directions) x 4 targets; MarshalEncode in %d encoder states x the same option sets x 9 values: no panic, coder usable afterwards", len(stateBase), len(stateExtra), len(prefixes))
}
