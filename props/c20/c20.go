// Package c20: resource use is bounded - depth limit, cycle detection, no panics, termination.
package c20

import (
	"bytes"
	"context"
	"encoding/json"
	"fmt"
	"io"
	"os"
	"os/exec"
	"reflect"
	"strings"
	"time"

	jsonv2 "github.com/go-json-experiment/json"
	"github.com/go-json-experiment/json/jsontext"
	jsonv1 "github.com/go-json-experiment/json/v1"

	"verif/internal/enum"
	"verif/internal/evid"
	"verif/internal/views"
	"verif/props/c17"
)

const limit = 10000

type Case struct {
	Part  string `json:"part"`
	Shape string `json:"shape,omitempty"`
	Depth int    `json:"depth,omitempty"`
	Path  string `json:"path,omitempty"`
	Input string `json:"input,omitempty"`
	Bytes []byte `json:"input_bytes,omitempty"` // the exact input (Input is lossy for ill-formed UTF-8)
}

// ---- depth-targeted texts ----

type shape struct {
	name string
	// build returns a text whose maximal nesting is exactly d containers
	build func(d int) string
}

func tower(open, close string, d int, inner string) string {
	return strings.Repeat(open, d) + inner + strings.Repeat(close, d)
}

func alternating(d int, inner string) string {
	var sb, tail strings.Builder
	var closers []string
	for i := 0; i < d; i++ {
		if i%2 == 0 {
			sb.WriteString("[")
			closers = append(closers, "]")
		} else {
			sb.WriteString(`{"k":`)
			closers = append(closers, "}")
		}
	}
	for i := len(closers) - 1; i >= 0; i-- {
		tail.WriteString(closers[i])
	}
	return sb.String() + inner + tail.String()
}

func shapes() []shape {
	return []shape{
		{"arrays around scalar", func(d int) string { return tower("[", "]", d, "0") }},
		{"arrays, innermost empty array", func(d int) string { return tower("[", "]", d-1, "[]") }},
		{"arrays, innermost empty object", func(d int) string { return tower("[", "]", d-1, "{}") }},
		{"objects around scalar", func(d int) string { return tower(`{"a":`, "}", d, `""`) }},
		{"objects, innermost empty object", func(d int) string { return tower(`{"a":`, "}", d-1, "{}") }},
		{"objects, innermost {\"\":{}}", func(d int) string { return tower(`{"a":`, "}", d-2, `{"":{}}`) }},
		{"objects, innermost empty array", func(d int) string { return tower(`{"a":`, "}", d-1, "[]") }},
		{"alternating around null", func(d int) string { return alternating(d, "null") }},
		{"alternating, innermost empty", func(d int) string { return alternating(d-1, map[bool]string{true: "[]", false: "{}"}[d%2 == 0]) }},
		{"arrays then one object", func(d int) string { return tower("[", "]", d-1, `{"x":1}`) }},
		{"objects then one array", func(d int) string { return tower(`{"a":`, "}", d-1, `[1]`) }},
		{"arrays with whitespace", func(d int) string { return tower("[ ", " ]", d, " 1 ") }},
		{"second element deep", func(d int) string { return "[1," + tower("[", "]", d-1, "2") + "]" }},
	}
}

type rSlice []rSlice
type rMap map[string]rMap
type rPtr struct {
	A []*rPtr          `json:"a,omitempty"`
	K map[string]*rPtr `json:"k,omitempty"`
}

type plainW struct{ n int }

func (w *plainW) Write(p []byte) (int, error) { w.n += len(p); return len(p), nil }

type plainR struct{ r *strings.Reader }

func (p plainR) Read(b []byte) (int, error) { return p.r.Read(b) }

var textPaths = []string{"ReadToken loop", "ReadValue", "SkipValue", "IsValid", "Format", "Compact", "Indent", "Canonicalize", "AppendFormat", "Unmarshal(any)", "Unmarshal(recursive type)", "Unmarshal(jsontext.Value)", "UnmarshalRead(any)",
	"WriteValue", "WriteToken loop", "tokens then WriteValue k=1", "tokens then WriteValue k=5000", "tokens then WriteValue k=9999", "v1.Valid", "v1.Compact", "v1.Unmarshal(any)"}

// accepts runs one path on text and reports whether it accepted it.
func accepts(path string, text string) (ok bool, msg string) {
	defer func() {
		if p := recover(); p != nil {
			msg = fmt.Sprintf("library panic: %v", p)
		}
	}()
	b := []byte(text)
	switch path {
	case "ReadToken loop":
		d := jsontext.NewDecoder(plainR{strings.NewReader(text)})
		for {
			_, err := d.ReadToken()
			if err == io.EOF {
				return true, ""
			}
			if err != nil {
				return false, ""
			}
		}
	case "ReadValue":
		d := jsontext.NewDecoder(plainR{strings.NewReader(text)})
		_, err := d.ReadValue()
		return err == nil, ""
	case "SkipValue":
		d := jsontext.NewDecoder(bytes.NewBufferString(text))
		return d.SkipValue() == nil, ""
	case "IsValid":
		return jsontext.Value(b).IsValid(), ""
	case "Format":
		v := jsontext.Value(b)
		return v.Format() == nil, ""
	case "Compact":
		v := jsontext.Value(b)
		return v.Compact() == nil, ""
	case "Indent":
		v := jsontext.Value(b)
		return v.Indent(jsontext.WithIndent("")) == nil, ""
	case "Canonicalize":
		v := jsontext.Value(b)
		return v.Canonicalize() == nil, ""
	case "AppendFormat":
		_, err := jsontext.AppendFormat(nil, b, jsontext.ReorderRawObjects(true))
		return err == nil, ""
	case "Unmarshal(any)":
		var v any
		return jsonv2.Unmarshal(b, &v) == nil, ""
	case "UnmarshalRead(any)":
		var v any
		return jsonv2.UnmarshalRead(plainR{strings.NewReader(text)}, &v) == nil, ""
	case "Unmarshal(jsontext.Value)":
		var v jsontext.Value
		return jsonv2.Unmarshal(b, &v) == nil, ""
	case "Unmarshal(recursive type)":
		// only meaningful for homogeneous towers; others are skipped by the caller
		if strings.HasPrefix(text, "[") {
			var v rSlice
			return jsonv2.Unmarshal(b, &v) == nil, ""
		}
		var v rMap
		return jsonv2.Unmarshal(b, &v) == nil, ""
	case "WriteValue":
		e := jsontext.NewEncoder(&plainW{})
		return e.WriteValue(b) == nil, ""
	case "WriteToken loop":
		d := jsontext.NewDecoder(bytes.NewBufferString(text), jsontext.AllowDuplicateNames(true))
		e := jsontext.NewEncoder(&plainW{})
		for {
			// the decoder has no depth problem for at most 10000 levels; deeper texts are fed by hand below
			t, err := d.ReadToken()
			if err == io.EOF {
				return true, ""
			}
			if err != nil {
				return writeTokensByHand(text)
			}
			if err := e.WriteToken(t); err != nil {
				return false, ""
			}
		}
	case "v1.Valid":
		return jsonv1.Valid(b), ""
	case "v1.Compact":
		var bb bytes.Buffer
		return jsonv1.Compact(&bb, b) == nil, ""
	case "v1.Unmarshal(any)":
		var v any
		return jsonv1.Unmarshal(b, &v) == nil, ""
	}
	if k, ok := strings.CutPrefix(path, "tokens then WriteValue k="); ok {
		var n int
		fmt.Sscan(k, &n)
		return tokensThenValue(text, n)
	}
	return false, "HARNESS: unknown path " + path
}

// writeTokensByHand feeds the structural tokens of a homogeneous array tower to an encoder.
func writeTokensByHand(text string) (bool, string) {
	e := jsontext.NewEncoder(&plainW{})
	for i := 0; i < len(text); i++ {
		var t jsontext.Token
		switch text[i] {
		case '[':
			t = jsontext.BeginArray
		case ']':
			t = jsontext.EndArray
		case '0', '1', '2':
			t = jsontext.Int(0)
		default:
			return false, "" // not a plain array tower: the hand feeder does not apply; treat as refused
		}
		if err := e.WriteToken(t); err != nil {
			return false, ""
		}
	}
	return true, ""
}

// tokensThenValue writes the first k '[' of an array tower as tokens, then the rest as one raw value.
func tokensThenValue(text string, k int) (bool, string) {
	if !strings.HasPrefix(text, strings.Repeat("[", k+1)) || strings.ContainsAny(text, "{ ") {
		return false, "skip"
	}
	e := jsontext.NewEncoder(&plainW{})
	for i := 0; i < k; i++ {
		if err := e.WriteToken(jsontext.BeginArray); err != nil {
			return false, ""
		}
	}
	inner := text[k : len(text)-k]
	if err := e.WriteValue(jsontext.Value(inner)); err != nil {
		return false, ""
	}
	for i := 0; i < k; i++ {
		if err := e.WriteToken(jsontext.EndArray); err != nil {
			return false, ""
		}
	}
	return true, ""
}

// ---- deep Go values ----

var valuePaths = []string{"nested []any", "nested map[string]any", "nested []any around empty []any", "nested []any around empty map", "nested []any around []int{}", "nested map around empty map[string]int",
	"recursive slice type", "recursive map type", "recursive pointer struct (slices)", "recursive pointer struct (maps)", "nested []any around struct{}", "nested []any around jsontext.Value([])", "nested *[]any",
	"nested []any around nil map[string]int", "nested []any around nil named map", "nested []any around nil []int", "nested []any around [0]int", "nested []any around nil map[string]any", "nested []any around nil []any"}

type namedMap map[string]string

// marshalDeep builds a Go value nested d containers deep and marshals it; returns whether Marshal accepted and the output depth.
func marshalDeep(path string, d int) (ok bool, outDepth int, msg string) {
	defer func() {
		if p := recover(); p != nil {
			msg = fmt.Sprintf("library panic: %v", p)
		}
	}()
	var v any
	wrapS := func(inner any, n int) any {
		for i := 0; i < n; i++ {
			inner = []any{inner}
		}
		return inner
	}
	switch path {
	case "nested []any":
		v = wrapS(1.0, d)
	case "nested map[string]any":
		var x any = "s"
		for i := 0; i < d; i++ {
			x = map[string]any{"k": x}
		}
		v = x
	case "nested []any around empty []any":
		v = wrapS([]any{}, d-1)
	case "nested []any around empty map":
		v = wrapS(map[string]any{}, d-1)
	case "nested []any around []int{}":
		v = wrapS([]int{}, d-1)
	case "nested map around empty map[string]int":
		var x any = map[string]int{}
		for i := 0; i < d-1; i++ {
			x = map[string]any{"k": x}
		}
		v = x
	case "nested []any around struct{}":
		v = wrapS(struct{}{}, d-1)
	case "nested []any around nil map[string]int":
		v = wrapS(map[string]int(nil), d-1)
	case "nested []any around nil named map":
		v = wrapS(namedMap(nil), d-1)
	case "nested []any around nil []int":
		v = wrapS([]int(nil), d-1)
	case "nested []any around [0]int":
		v = wrapS([0]int{}, d-1)
	case "nested []any around nil map[string]any":
		v = wrapS(map[string]any(nil), d-1)
	case "nested []any around nil []any":
		v = wrapS([]any(nil), d-1)
	case "nested []any around jsontext.Value([])":
		v = wrapS(jsontext.Value("[]"), d-1)
	case "nested *[]any":
		var x any = 1
		for i := 0; i < d; i++ {
			s := []any{x}
			x = &s
		}
		v = x
	case "recursive slice type":
		var x rSlice = rSlice{}
		for i := 0; i < d-1; i++ {
			x = rSlice{x}
		}
		v = x
	case "recursive map type":
		var x rMap = rMap{}
		for i := 0; i < d-1; i++ {
			x = rMap{"k": x}
		}
		v = x
	case "recursive pointer struct (slices)":
		// each level contributes 2 containers: {"a":[ ... ]}
		x := &rPtr{}
		for i := 0; i < (d-1)/2; i++ {
			x = &rPtr{A: []*rPtr{x}}
		}
		v = x
		d = 2*((d-1)/2) + 1
	case "recursive pointer struct (maps)":
		x := &rPtr{}
		for i := 0; i < (d-1)/2; i++ {
			x = &rPtr{K: map[string]*rPtr{"k": x}}
		}
		v = x
	}
	b, err := jsonv2.Marshal(v)
	dd, m := 0, 0
	for _, c := range b {
		switch c {
		case '[', '{':
			dd++
			if dd > m {
				m = dd
			}
		case ']', '}':
			dd--
		}
	}
	return err == nil, m, ""
}

// ---- cyclic values (run in a child process: a missed cycle overflows the stack, which cannot be recovered) ----

var cycles = []string{"struct pointer to itself", "slice containing itself", "map containing itself", "interface holding pointer to itself", "named pointer to itself", "pointer in interface in slice cycle", "map via pointer cycle", "two-node pointer cycle", "any->*any->any 3-cycle", "array of pointers cycle", "cycle below depth 1000 through struct field"}

func marshalCycle(name string) (errored bool) {
	type node struct {
		Next *node
		Any  any
		M    map[string]*node
		A    [1]*node
	}
	var v any
	switch name {
	case "struct pointer to itself":
		n := &node{}
		n.Next = n
		v = n
	case "slice containing itself":
		s := []any{nil}
		s[0] = s
		v = s
	case "map containing itself":
		m := map[string]any{}
		m["a"] = m
		v = m
	case "interface holding pointer to itself":
		var x any
		x = &x
		v = x
	case "named pointer to itself":
		type P *P
		var p P
		p = P(&p)
		v = p
	case "pointer in interface in slice cycle":
		s := []any{nil}
		p := &s
		s[0] = p
		v = p
	case "map via pointer cycle":
		n := &node{M: map[string]*node{}}
		n.M["self"] = n
		v = n
	case "two-node pointer cycle":
		a, b := &node{}, &node{}
		a.Next, b.Next = b, a
		v = a
	case "any->*any->any 3-cycle":
		var x, y any
		x = &y
		y = &x
		v = x
	case "array of pointers cycle":
		n := &node{}
		n.A[0] = n
		v = n
	case "cycle below depth 1000 through struct field":
		n := &node{}
		n.Any = []any{map[string]any{"k": n}}
		v = n
	}
	_, err := jsonv2.Marshal(v)
	_, err2 := jsonv2.Marshal(v, jsonv2.Deterministic(true), jsontext.Multiline(true))
	err3 := jsonv2.MarshalWrite(&plainW{}, v)
	return err != nil && err2 != nil && err3 != nil
}

// Child entry: VERIF_C20_CHILD=cycle:<name> prints "errored" or "accepted".
func childMain() bool {
	c := os.Getenv("VERIF_C20_CHILD")
	if c == "" {
		return false
	}
	if name, ok := strings.CutPrefix(c, "target:"); ok {
		unmarshalCyclicTarget(name)
		return true
	}
	if name, ok := strings.CutPrefix(c, "cycle:"); ok {
		if marshalCycle(name) {
			fmt.Println("C20CHILD errored")
		} else {
			fmt.Println("C20CHILD accepted")
		}
	}
	return true
}

func runChild(kind string) (out string, err error) {
	ctx, cancel := context.WithTimeout(context.Background(), 120*time.Second)
	defer cancel()
	cmd := exec.CommandContext(ctx, os.Args[0], "C20", "quick")
	cmd.Env = append(os.Environ(), "VERIF_C20_CHILD="+kind)
	b, err := cmd.CombinedOutput()
	if ctx.Err() != nil {
		return string(b), fmt.Errorf("did not terminate within 120s")
	}
	return string(b), err
}

// ---- documented misuse panics ----

func misuse(r *evid.Run) {
	expectPanic := func(name string, f func()) {
		r.Evaluations.Add(1)
		r.Nontrivial.Add(1)
		defer func() {
			if p := recover(); p == nil {
				r.Violation("c20|misuse|"+name, "documented misuse did not panic: "+name, Case{Part: "misuse", Path: name}, nil)
			}
		}()
		f()
	}
	expectPanic("NewDecoder(nil)", func() { jsontext.NewDecoder(nil) })
	expectPanic("NewEncoder(nil)", func() { jsontext.NewEncoder(nil) })
	expectPanic("Token.Bool on a number", func() { jsontext.Int(1).Bool() })
	expectPanic("Token.Int on a string", func() { jsontext.String("x").Int() })
	expectPanic("WithIndent with non-blank characters", func() { jsontext.WithIndent("ab") })
	expectPanic("WithIndentPrefix with non-blank characters", func() { jsontext.WithIndentPrefix(">") })
}

// ---- no-panic / termination sweep over the text views ----

type sweepT struct {
	A int               `json:"a"`
	B []string          `json:"b,omitempty"`
	M map[string]sweepT `json:",omitempty"`
	P *sweepT
	I any
	R jsontext.Value
	X map[string]any `json:",embed"`
}

func sweepOne(s []byte) (msg string) {
	defer func() {
		if p := recover(); p != nil {
			msg = fmt.Sprintf("library panic: %v", p)
		}
	}()
	v := jsontext.Value(append([]byte(nil), s...))
	v.IsValid(jsontext.AllowDuplicateNames(true))
	v.Format(jsontext.AllowInvalidUTF8(true), jsontext.ReorderRawObjects(true), jsontext.Multiline(true))
	v = append(v[:0], s...)
	v.Canonicalize()
	v = append(v[:0], s...)
	v.Indent(jsontext.WithIndentPrefix("\t"), jsontext.CanonicalizeRawInts(true))
	var a any
	jsonv2.Unmarshal(s, &a, jsontext.AllowDuplicateNames(true), jsontext.AllowInvalidUTF8(true))
	var t sweepT
	jsonv2.Unmarshal(s, &t)
	jsonv2.Unmarshal(s, &t, jsonv2.MatchCaseInsensitiveNames(true), jsonv2.RejectUnknownMembers(true))
	var m map[string][]any
	jsonv2.Unmarshal(s, &m)
	jsonv1.Unmarshal(s, &t)
	jsonv1.Valid(s)
	var bb bytes.Buffer
	jsonv1.Compact(&bb, s)
	jsonv1.HTMLEscape(&bb, s)
	for _, pi := range [][2]string{{"", "\t"}, {">", ""}, {">", "ab"}, {" ", ">"}} {
		bb.Reset()
		jsonv1.Indent(&bb, s, pi[0], pi[1])
	}
	d := jsontext.NewDecoder(bytes.NewReader(s))
	for i := 0; i < 64; i++ {
		switch i % 4 {
		case 0:
			d.PeekKind()
		case 1:
			if _, err := d.ReadToken(); err != nil {
				i = 64
			}
		case 2:
			d.SkipValue()
		case 3:
			d.StackPointer()
		}
	}
	jv := jsonv1.NewDecoder(bytes.NewReader(s))
	for i := 0; i < 8; i++ {
		jv.More()
		if _, err := jv.Token(); err != nil {
			break
		}
		jv.InputOffset()
	}
	return ""
}

func replayCase(cs Case) string {
	switch cs.Part {
	case "target":
		out, err := runChild("target:" + cs.Path)
		if strings.Contains(out, "C20CHILD returned") {
			return ""
		}
		return fmt.Sprintf("Unmarshal into a target that contains a cycle (%s) crashed or hung the process: %v", cs.Path, err)
	case "depth-text":
		for _, sh := range shapes() {
			if sh.name == cs.Shape {
				return checkText(sh, cs.Depth, cs.Path)
			}
		}
	case "depth-value":
		return checkValue(cs.Path, cs.Depth)
	case "sweep":
		if cs.Bytes != nil {
			return sweepOne(cs.Bytes)
		}
		return sweepOne([]byte(cs.Input))
	}
	return ""
}

func checkText(sh shape, d int, path string) string {
	text := sh.build(d)
	if path == "Unmarshal(recursive type)" && !(strings.HasPrefix(sh.name, "arrays, innermost empty array") || sh.name == "objects, innermost empty object") {
		return ""
	}
	ok, msg := accepts(path, text)
	if msg == "skip" {
		return ""
	}
	if msg != "" {
		return msg
	}
	if want := d <= limit; ok != want {
		return fmt.Sprintf("%s on %q nested %d deep: accepted=%v, want %v", path, sh.name, d, ok, want)
	}
	return ""
}

func checkValue(path string, d int) string {
	ok, outDepth, msg := marshalDeep(path, d)
	if msg != "" {
		return msg
	}
	eff := d
	if strings.HasPrefix(path, "recursive pointer struct") {
		eff = 2*((d-1)/2) + 1
	}
	if want := eff <= limit; ok != want {
		return fmt.Sprintf("Marshal of %s nested %d deep: accepted=%v (output depth %d), want %v", path, eff, ok, outDepth, want)
	}
	if ok && outDepth > limit {
		return fmt.Sprintf("Marshal of %s emitted JSON nested %d deep", path, outDepth)
	}
	return ""
}

func Replay(r *evid.Run, raw json.RawMessage) {
	var cs Case
	if json.Unmarshal(raw, &cs) != nil {
		return
	}
	r.Evaluations.Add(1)
	r.Nontrivial.Add(2)
	r.Sample(cs)
	if msg := replayCase(cs); msg != "" {
		fmt.Println("replay fails:", msg)
		r.Violation("replay", msg, cs, nil)
	} else {
		fmt.Println("replay passes")
	}
}

func Run(r *evid.Run) {
	if childMain() {
		os.Exit(0)
	}
	r.Rule("depth: 13 text shapes (array/object towers, alternating, innermost empty containers, whitespace, deep second element) x every depth in the tier's window around 10000 x 21 paths (token/value/skip reading, IsValid, Format/Compact/Indent/Canonicalize/AppendFormat, Unmarshal into any / recursive types / raw value, streaming, WriteValue, WriteToken loop, k tokens + WriteValue of the rest, v1 entry points) and 13 kinds of deeply nested Go values marshaled: accepted iff nesting <= 10000 and never more than 10000 levels emitted. Cycles: 11 cyclic Go values through every pointer-like kind (incl. pointer/interface-only cycles), each marshaled in a child process (a missed cycle is a fatal stack overflow): must return an error. Misuse: each documented misuse panics. Sweep: every string of the alphabet views plus a whitespace view through ~30 API calls (formatting with indent prefixes, v1 Indent with non-blank prefix/indent, typed Unmarshal, mixed Decoder calls) under recover and a per-case watchdog: no undocumented panic, no non-termination. evaluations = calls checked; distinct_nontrivial = distinct depth cases at or beyond 9999 plus distinct sweep inputs that are viable JSON prefixes")
	r.Assume("stack overflows are detected by running cyclic cases in a child process", "hangs are detected by the enumeration watchdog (30 s per case, confirmed 5x in subprocesses)")
	lo, hi := 9999, 10001
	if r.Tier == "thorough" {
		lo, hi = 9990, 10010
	}
	shs := shapes()
	type unit struct {
		sh   int
		d    int
		path int
	}
	var units []unit
	for si := range shs {
		for d := lo; d <= hi; d++ {
			for pi := range textPaths {
				units = append(units, unit{si, d, pi})
			}
		}
	}
	for d := lo; d <= hi; d++ {
		for pi := range valuePaths {
			units = append(units, unit{-1, d, pi})
		}
	}
	enum.Parallel(r, len(units), func(w *enum.Worker) func(int) {
		var cur Case
		w.Describe = func() any { return cur }
		var n int64
		w.Done = func() { r.Evaluations.Add(n); r.Nontrivial.Add(n) }
		return func(u int) {
			un := units[u]
			n++
			if un.sh < 0 {
				cur = Case{Part: "depth-value", Depth: un.d, Path: valuePaths[un.path]}
				if m := checkValue(valuePaths[un.path], un.d); m != "" {
					cs := cur
					r.Violation(fmt.Sprintf("c20|value|%s|%d", cs.Path, cs.Depth), m, cs, func() bool { return replayCase(cs) != "" })
				}
				return
			}
			cur = Case{Part: "depth-text", Shape: shs[un.sh].name, Depth: un.d, Path: textPaths[un.path]}
			if m := checkText(shs[un.sh], un.d, textPaths[un.path]); m != "" {
				cs := cur
				r.Violation(fmt.Sprintf("c20|text|%s|%d|%s", cs.Shape, cs.Depth, cs.Path), m, cs, func() bool { return replayCase(cs) != "" })
			}
		}
	})
	r.Sample(Case{Part: "depth-text", Shape: "arrays, innermost empty object", Depth: 10001, Path: "ReadValue"})
	r.Bound("depth window [%d,%d] x %d text shapes x %d paths, and x %d deep Go value kinds", lo, hi, len(shs), len(textPaths), len(valuePaths))
	// cycles, each in a child process
	for _, name := range cycles {
		r.Evaluations.Add(1)
		r.Nontrivial.Add(1)
		out, err := runChild("cycle:" + name)
		switch {
		case strings.Contains(out, "C20CHILD errored"):
		case strings.Contains(out, "C20CHILD accepted"):
			r.Violation("c20|cycle|"+name, "Marshal of a cyclic value ("+name+") returned a nil error", Case{Part: "cycle", Path: name}, nil)
		default:
			first := out
			if i := strings.Index(first, "\n\n"); i > 0 {
				first = first[:i]
			}
			if len(first) > 300 {
				first = first[:300]
			}
			r.Violation("c20|cycle|"+name, fmt.Sprintf("Marshal of a cyclic value (%s) crashed or hung the process: %v: %s", name, err, first), Case{Part: "cycle", Path: name}, nil)
		}
	}
	r.Sample(Case{Part: "cycle", Path: "interface holding pointer to itself"})
	r.Bound("cycles: %d cyclic Go values, each marshaled 3 ways in a child process", len(cycles))
	cyclicTargetFamily(r)
	misuse(r)
	coderStates(r)
	userErrors(r)
	errorRendering(r)
	c17.MarshalPolicingPanics(r, "c20") // user-code scripts (incl. nested delegation): no panic
	// sweep
	lens := views.ForTier(r.Tier).Minus(1)
	vs := views.Views(lens)
	vs = append(vs, views.View{Name: "W-whitespace", Alpha: enum.ByteSyms("0[]{}\n \t,\":a"), MaxLen: lens.A1 + 1})
	// lead and continuation bytes of the multi-byte sequences the escapers look for (U+2028/9, 2- and 4-byte forms), cut off anywhere
	u8 := enum.ByteSyms("\xe2\x80\xa8\xa9\xc3\xf0\x9f<&\"a\\")
	vs = append(vs, views.View{Name: "U-utf8-fragments", Alpha: u8, MaxLen: 4}, views.View{Name: "U-utf8-fragments in a string", Alpha: u8, MaxLen: 4, Prefix: `"`})
	views.ForAll(r, vs, func(w *enum.Worker, v views.View) func([]byte) {
		var cur []byte
		w.Describe = func() any { return Case{Part: "sweep", Input: string(cur)} }
		var n int64
		w.Done = func() { r.Evaluations.Add(n) }
		return func(s []byte) {
			cur = s
			n++
			if len(s) >= 2 && (s[0] == '[' || s[0] == '{' || s[0] == '"') {
				r.Nontrivial.Add(1)
			}
			if m := sweepOne(s); m != "" {
				cs := Case{Part: "sweep", Input: string(s), Bytes: append([]byte(nil), s...)}
				r.Violation(fmt.Sprintf("c20|sweep|%q", s), m, cs, func() bool { return replayCase(cs) != "" })
			}
		}
	})
	_ = reflect.TypeOf
}
