package c20

import (
	"fmt"
	"runtime/debug"
	"strings"

	jsonv2 "github.com/go-json-experiment/json"
	"github.com/go-json-experiment/json/jsontext"
	jsonv1 "github.com/go-json-experiment/json/v1"

	"verif/internal/evid"
)

// Unmarshal targets that contain a cycle through pointer-like kinds. A target is a Go value too: whatever it
// looks like, Unmarshal must come back (with or without an error). Each target runs in a child process, because
// unbounded recursion ends in a fatal stack overflow that no recover can catch.

type tnode struct {
	Next *tnode
	V    any
	L    []*tnode
}

type selfPtr *selfPtr

var cyclicTargets = []string{
	"any holding a pointer to itself",
	"struct member of type any holding a pointer to itself",
	"slice element of type any holding a pointer to itself",
	"map value pointing to an any that holds a pointer to itself",
	"struct pointer cycle through a field",
	"slice of struct pointers containing its own holder",
	"two anys holding pointers to each other",
	"named pointer type pointing to itself",
}

// KnownCyclicTargets are the targets of the recorded open finding F26 (see known_findings.jsonl).
var KnownCyclicTargets = map[string]bool{"two anys holding pointers to each other": true, "named pointer type pointing to itself": true}

// mkCyclicTarget builds a fresh target and says how a plain text is wrapped to reach the cyclic part.
func mkCyclicTarget(name string) (target any, wrap func(string) string) {
	wrap = func(s string) string { return s }
	switch name {
	case "any holding a pointer to itself":
		var p any
		p = &p
		target = &p
	case "struct member of type any holding a pointer to itself":
		s := &struct{ V any }{}
		s.V = &s.V
		target, wrap = s, func(s string) string { return `{"V":` + s + `}` }
	case "slice element of type any holding a pointer to itself":
		l := []any{nil, nil}
		l[0] = &l[0]
		l[1] = &l[0]
		target, wrap = &l, func(s string) string { return `[` + s + `,` + s + `]` }
	case "map value pointing to an any that holds a pointer to itself":
		var x any
		x = &x
		m := map[string]any{"k": &x}
		target, wrap = &m, func(s string) string { return `{"k":` + s + `}` }
	case "struct pointer cycle through a field":
		n := &tnode{}
		n.Next = n
		n.V = n
		target = n
	case "slice of struct pointers containing its own holder":
		n := &tnode{}
		n.L = []*tnode{n, n}
		target = n
	case "two anys holding pointers to each other":
		var p, q any
		p, q = &q, &p
		target = &p
	case "named pointer type pointing to itself":
		p := new(selfPtr)
		*p = p
		target = p
	}
	return target, wrap
}

func unmarshalCyclicTarget(name string) {
	debug.SetMaxStack(64 << 20) // fail fast and small instead of growing to the default 1 GB
	texts := []string{`1`, `null`, `"s"`, `{"a":1}`, `[1]`, `{"Next":{"Next":{"V":1,"L":[{"V":2},null]}},"V":{"Next":null},"L":[{}]}`}
	optSets := [][]jsonv2.Options{nil, {jsonv1.DefaultOptionsV1()}, {jsontext.AllowDuplicateNames(true)}}
	for _, text := range texts {
		for _, opts := range optSets {
			for route := 0; route < 2; route++ {
				target, wrap := mkCyclicTarget(name)
				if target == nil {
					fmt.Println("C20CHILD unknown target")
					return
				}
				if route == 0 {
					jsonv2.Unmarshal([]byte(wrap(text)), target, opts...)
				} else {
					jsonv2.UnmarshalRead(strings.NewReader(wrap(text)), target, opts...)
				}
			}
		}
	}
	fmt.Println("C20CHILD returned")
}

func cyclicTargetFamily(r *evid.Run) {
	for _, name := range cyclicTargets {
		r.Evaluations.Add(1)
		r.Nontrivial.Add(1)
		out, err := runChild("target:" + name)
		if strings.Contains(out, "C20CHILD returned") {
			continue
		}
		first := out
		if i := strings.Index(first, "\n\n"); i > 0 {
			first = first[:i]
		}
		if len(first) > 300 {
			first = first[:300]
		}
		r.Violation("c20|target|"+name, fmt.Sprintf("Unmarshal into a target that contains a cycle (%s) crashed or hung the process: %v: %s", name, err, first), Case{Part: "target", Path: name}, nil)
	}
	r.Bound("cyclic unmarshal targets: %d targets whose cycle runs through any / pointer / struct / slice / map kinds x 6 texts x {default, v1 defaults, AllowDuplicateNames} x {Unmarshal, UnmarshalRead}, each target in a child process: the calls return", len(cyclicTargets))
}
