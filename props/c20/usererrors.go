package c20

import (
	"errors"
	"fmt"
	"reflect"
	"strings"

	jsonv2 "github.com/go-json-experiment/json"
	"github.com/go-json-experiment/json/jsontext"
	jsonv1 "github.com/go-json-experiment/json/v1"

	"verif/internal/evid"
)

// ---- failing user unmarshalers where decoding continues after an error (legacy error semantics) ----
//
// Under ReportErrorsWithLegacySemantics a conversion error does not stop Unmarshal; whatever a failing user
// unmarshaler left unread has to be skipped by the library, otherwise the enclosing loop makes no progress.
// Every user method counts its invocations: more calls than the input has values is reported as non-termination
// (a runaway loop also grows the target without bound, so it is cut off by a panic of the harness's own).

var errUserFail = errors.New("user unmarshaler fails")

var runaway struct {
	calls, limit int
	reads        int // tokens the method reads before failing (-1: the whole value)
}

type runawayPanic struct{}

func userFail(d *jsontext.Decoder) error {
	runaway.calls++
	if runaway.calls > runaway.limit {
		panic(runawayPanic{})
	}
	if runaway.reads < 0 {
		d.SkipValue()
		return errUserFail
	}
	for i := 0; i < runaway.reads; i++ {
		if _, err := d.ReadToken(); err != nil {
			return err
		}
	}
	return errUserFail
}

type failFromT struct{ X int }

func (f *failFromT) UnmarshalJSONFrom(d *jsontext.Decoder) error { return userFail(d) }

type failFuncT struct{ X int }

type failJSONT struct{ X int }

func (f *failJSONT) UnmarshalJSON(b []byte) error {
	runaway.calls++
	if runaway.calls > runaway.limit {
		panic(runawayPanic{})
	}
	return errUserFail
}

type failTextT struct{ X int }

func (f *failTextT) UnmarshalText(b []byte) error {
	runaway.calls++
	if runaway.calls > runaway.limit {
		panic(runawayPanic{})
	}
	return errUserFail
}

func userErrorOne(carrier, position, reads, optset int) (msg string) {
	elemTypes := []reflect.Type{reflect.TypeOf(failFromT{}), reflect.TypeOf(failFuncT{}), reflect.TypeOf(failJSONT{}), reflect.TypeOf(failTextT{})}
	et := elemTypes[carrier]
	val := `{"X":1,"Y":[2,3]}`
	if carrier == 3 {
		val = `"text"`
	}
	var target any
	var doc string
	switch position {
	case 0:
		target, doc = reflect.New(reflect.SliceOf(et)).Interface(), "["+val+","+val+","+val+"]"
	case 1:
		target, doc = reflect.New(reflect.MapOf(reflect.TypeOf(""), et)).Interface(), `{"a":`+val+`,"b":`+val+`}`
	case 2:
		target, doc = reflect.New(reflect.StructOf([]reflect.StructField{{Name: "A", Type: et}, {Name: "B", Type: reflect.PointerTo(et)}, {Name: "C", Type: reflect.TypeOf(0)}})).Interface(), `{"A":`+val+`,"B":`+val+`,"C":5}`
	case 3:
		target, doc = reflect.New(reflect.ArrayOf(2, et)).Interface(), "["+val+","+val+"]"
	case 4:
		target, doc = reflect.New(reflect.SliceOf(reflect.SliceOf(et))).Interface(), "[["+val+"],["+val+","+val+"]]"
	}
	opts := [][]jsonv2.Options{nil, {jsonv1.ReportErrorsWithLegacySemantics(true)}, {jsonv1.DefaultOptionsV1()}}[optset]
	opts = append(opts[:len(opts):len(opts)], jsonv2.WithUnmarshalers(jsonv2.UnmarshalFromFunc(func(d *jsontext.Decoder, f *failFuncT) error { return userFail(d) })))
	runaway.calls, runaway.limit, runaway.reads = 0, 64, reads
	defer func() {
		if p := recover(); p != nil {
			if _, ok := p.(runawayPanic); ok {
				msg = fmt.Sprintf("no termination: the user unmarshaler was called more than %d times for input %s (it fails after reading %d tokens)", runaway.limit, doc, reads)
				return
			}
			msg = fmt.Sprintf("library panic: %v", p)
		}
	}()
	for _, route := range []int{0, 1} {
		runaway.calls = 0
		var err error
		if route == 0 {
			err = jsonv2.Unmarshal([]byte(doc), target, opts...)
		} else {
			err = jsonv2.UnmarshalRead(plainR{strings.NewReader(doc)}, target, opts...)
		}
		if err == nil {
			return fmt.Sprintf("a failing user unmarshaler went unreported: Unmarshal(%s) returned nil", doc)
		}
		_ = err.Error()
	}
	return ""
}

func userErrors(r *evid.Run) {
	var n int64
	for carrier := 0; carrier < 4; carrier++ {
		for position := 0; position < 5; position++ {
			for _, reads := range []int{0, 1, 2, 3, -1} {
				for optset := 0; optset < 3; optset++ {
					n++
					if m := userErrorOne(carrier, position, reads, optset); m != "" {
						r.Violation(fmt.Sprintf("c20|user-errors|%d|%d|%d|%d", carrier, position, reads, optset), m, Case{Part: "user-errors", Depth: carrier, Path: fmt.Sprint(position, reads, optset)}, nil)
					}
				}
			}
		}
	}
	r.Evaluations.Add(n)
	r.Nontrivial.Add(n)
	r.Bound("failing user unmarshalers: 4 kinds (UnmarshalJSONFrom, UnmarshalFromFunc, UnmarshalJSON, UnmarshalText) x 5 positions (slice / map / struct / array / nested slice element) x the method failing after reading 0, 1, 2, 3 tokens or the whole value x {default, ReportErrorsWithLegacySemantics, DefaultOptionsV1} x {Unmarshal, UnmarshalRead}: an error is returned after at most one call per input value")
}

// ---- every error value can be rendered ----

type longNames struct {
	AlphaAlphaAlpha, BravoBravoBravo, CharlieCharlie, DeltaDeltaDelta, EchoEchoEchoEcho, FoxtrotFoxtrot, GolfGolfGolfGolf, HotelHotelHotel string
}

func errorRendering(r *evid.Run) {
	anon := reflect.TypeOf(struct {
		AlphaAlphaAlpha, BravoBravoBravo, CharlieCharlie, DeltaDeltaDelta, EchoEchoEchoEcho, FoxtrotFoxtrot, GolfGolfGolfGolf, HotelHotelHotel string
	}{})
	withChan := reflect.StructOf([]reflect.StructField{{Name: "AlphaAlphaAlphaAlphaAlphaAlphaAlpha", Type: reflect.TypeOf("")}, {Name: "BravoBravoBravoBravoBravoBravoBravo", Type: reflect.TypeOf(make(chan int))}, {Name: "CharlieCharlieCharlieCharlieCharlie", Type: reflect.TypeOf(0)}})
	var types []reflect.Type
	for _, base := range []reflect.Type{anon, withChan, reflect.TypeOf(longNames{})} {
		types = append(types, base, reflect.SliceOf(base), reflect.MapOf(reflect.TypeOf(""), base), reflect.ArrayOf(1, base), reflect.PointerTo(base), reflect.SliceOf(reflect.SliceOf(base)),
			reflect.MapOf(reflect.TypeOf(""), reflect.SliceOf(base)), reflect.PointerTo(reflect.SliceOf(base)), reflect.MapOf(reflect.TypeOf(0), reflect.PointerTo(base)),
			reflect.FuncOf([]reflect.Type{base}, []reflect.Type{base}, false), reflect.ChanOf(reflect.BothDir, base))
	}
	texts := []string{`true`, `1`, `"s"`, `[true]`, `{"k":true}`, `[[1]]`, `{"k":[1]}`, `null`, `{"AlphaAlphaAlpha":1}`, `[{"AlphaAlphaAlpha":1}]`, `{"1":{"AlphaAlphaAlpha":[]}}`, `{"x":1`, `[1,]`}
	var n int64
	for ti, t := range types {
		for _, text := range texts {
			for oi, opts := range [][]jsonv2.Options{nil, {jsonv1.DefaultOptionsV1()}} {
				n++
				func() {
					defer func() {
						if p := recover(); p != nil {
							r.Violation(fmt.Sprintf("c20|error-rendering|%d|%s|%d", ti, text, oi), fmt.Sprintf("Unmarshal(%s) into %v: rendering or producing the error panicked: %v", text, t, p), Case{Part: "error-rendering", Depth: ti, Input: text}, nil)
						}
					}()
					if err := jsonv2.Unmarshal([]byte(text), reflect.New(t).Interface(), opts...); err != nil {
						_ = err.Error()
						var se *jsonv2.SemanticError
						if errors.As(err, &se) {
							_ = se.Error()
						}
					}
					if _, err := jsonv2.Marshal(reflect.New(t).Elem().Interface(), opts...); err != nil {
						_ = err.Error()
					}
				}()
			}
		}
	}
	r.Evaluations.Add(n)
	r.Nontrivial.Add(n)
	r.Bound("error rendering: %d long unnamed and named types (anonymous structs and slices / maps / arrays / pointers / funcs / chans of them) x %d texts x {default, DefaultOptionsV1}: Error() of every error returned by Unmarshal and Marshal", len(types), len(texts))
}
