// Package c07: encoded bytes do not depend on buffering, flushing or the writer;
// write faults lose or duplicate nothing.
package c07

import (
	"bytes"
	"encoding/json"
	"errors"
	"fmt"
	"io"
	"strings"
	"verif/internal/typeuniv"

	jsonv2 "github.com/go-json-experiment/json"
	"github.com/go-json-experiment/json/jsontext"

	"verif/internal/enum"
	"verif/internal/evid"
	"verif/internal/refjson"
)

var errFault = errors.New("injected write fault")

// plainWriter is an io.Writer that is not a *bytes.Buffer; it can fail or shorten chosen Write calls.
type plainWriter struct {
	b      []byte
	calls  int
	failAt int // 1-based Write call that fails (0 = never)
	keep   int // bytes accepted by the failing call: -1 = len-1, -2 = len/2, else min(keep, len)
	always bool
}

func (w *plainWriter) Write(p []byte) (int, error) {
	w.calls++
	if w.failAt > 0 && (w.calls == w.failAt || (w.always && w.calls >= w.failAt)) {
		n := w.keep
		switch {
		case n == -1:
			n = len(p) - 1
		case n == -2:
			n = len(p) / 2
		}
		if n > len(p) {
			n = len(p)
		}
		if n < 0 {
			n = 0
		}
		w.b = append(w.b, p[:n]...)
		return n, errFault
	}
	w.b = append(w.b, p...)
	return len(p), nil
}

// emptyTo marshals as an empty array through two separate tokens (the slow un-write path of omitempty).
type emptyTo struct{}

func (emptyTo) MarshalJSONTo(e *jsontext.Encoder) error {
	if err := e.WriteToken(jsontext.BeginArray); err != nil {
		return err
	}
	return e.WriteToken(jsontext.EndArray)
}

type emptyObjTo struct{}

func (emptyObjTo) MarshalJSONTo(e *jsontext.Encoder) error {
	if err := e.WriteToken(jsontext.BeginObject); err != nil {
		return err
	}
	return e.WriteToken(jsontext.EndObject)
}

type sFirst struct {
	B0 string         `json:",omitempty"`
	B1 *int           `json:",omitempty"`
	B2 map[string]int `json:",omitempty"`
	B3 []int          `json:",omitempty"`
	B4 emptyTo        `json:",omitempty"`
	B5 any            `json:",omitempty"`
	B6 emptyObjTo     `json:",omitempty"`
	A  string
	C  string
}
type sMiddle struct {
	A  string
	B0 string         `json:",omitempty"`
	B1 *int           `json:",omitempty"`
	B2 map[string]int `json:",omitempty"`
	B3 []int          `json:",omitempty"`
	B4 emptyTo        `json:",omitempty"`
	B5 any            `json:",omitempty"`
	B6 emptyObjTo     `json:",omitempty"`
	C  string
}
type sLast struct {
	A  string
	C  string
	B0 string         `json:",omitempty"`
	B1 *int           `json:",omitempty"`
	B2 map[string]int `json:",omitempty"`
	B3 []int          `json:",omitempty"`
	B4 emptyTo        `json:",omitempty"`
	B5 any            `json:",omitempty"`
	B6 emptyObjTo     `json:",omitempty"`
}

// values builds the sweep values whose leading string has length L.
func values(L int) []any {
	a := strings.Repeat("a", L)
	em, es := map[string]int{}, []int{}
	return []any{
		sFirst{A: a, C: "c", B2: em, B3: es, B5: []any{}},
		sMiddle{A: a, C: "c", B2: em, B3: es, B5: []any{}},
		sLast{A: a, C: "c", B2: em, B3: es, B5: map[string]any{}},
		[]any{a, sMiddle{A: "x", C: a, B5: []int{}}, 1},
		map[string]any{"k": a, "z": sLast{A: "q", B5: es}},
		[]sMiddle{{A: a}, {A: "2", B2: em}, {C: a}},
	}
}

type optSet struct {
	name string
	opts []jsonv2.Options
}

var optSets = []optSet{
	{"default", []jsonv2.Options{jsonv2.Deterministic(true)}},
	{"Multiline", []jsonv2.Options{jsonv2.Deterministic(true), jsontext.Multiline(true)}},
	{"SpaceAfterComma+Colon", []jsonv2.Options{jsonv2.Deterministic(true), jsontext.SpaceAfterComma(true), jsontext.SpaceAfterColon(true)}},
}

type Case struct {
	Part   string `json:"part"`
	L      int    `json:"L"`
	Value  int    `json:"value_index"`
	OptSet string `json:"optset"`
	Path   string `json:"path"`
	FailAt int    `json:"fail_at,omitempty"`
	Keep   int    `json:"keep,omitempty"`
	Warm   int    `json:"warm,omitempty"`
}

func tokensOf(b []byte) []refjson.Tok {
	return refjson.Parse(b, refjson.Opts{AllowDupNames: true, AllowInvalidUTF8: true, Stream: true}).Toks
}

func toToken(b []byte, t refjson.Tok) jsontext.Token {
	switch t.Kind {
	case 'n':
		return jsontext.Null
	case 't':
		return jsontext.True
	case 'f':
		return jsontext.False
	case '"':
		return jsontext.String(t.Str)
	case '{':
		return jsontext.BeginObject
	case '}':
		return jsontext.EndObject
	case '[':
		return jsontext.BeginArray
	case ']':
		return jsontext.EndArray
	}
	var f float64
	fmt.Sscan(string(b[t.Start:t.End]), &f)
	return jsontext.Float(f)
}

// sweepOne checks one (L, value, option set) through every writer kind and path.
func sweepOne(L, vi int, os *optSet, warm int) (path string, msg string) {
	defer func() {
		if p := recover(); p != nil {
			msg = fmt.Sprintf("library panic: %v", p)
		}
	}()
	v := values(L)[vi]
	want, err := jsonv2.Marshal(v, os.opts...)
	if err != nil {
		return "Marshal", fmt.Sprintf("Marshal failed: %v", err)
	}
	if !refjson.Valid(want, refjson.Opts{}) {
		return "Marshal", fmt.Sprintf("Marshal output is not valid JSON: %q", trunc(want))
	}
	// history: a previous call that leaves pooled encoders with small or large buffers
	if warm > 0 {
		jsonv2.MarshalWrite(&plainWriter{}, strings.Repeat("w", warm), os.opts...)
	}
	cmp := func(path string, got []byte, err error, nl bool) string {
		if err != nil {
			return fmt.Sprintf("%s: unexpected error %v", path, err)
		}
		w := want
		if nl {
			w = append(append([]byte(nil), want...), '\n')
		}
		if !bytes.Equal(got, w) {
			return fmt.Sprintf("%s: delivered %d bytes differ from Marshal's %d bytes: %s", path, len(got), len(w), firstDiff(got, w))
		}
		return ""
	}
	// MarshalWrite x writer kinds
	var bb bytes.Buffer
	err = jsonv2.MarshalWrite(&bb, v, os.opts...)
	if m := cmp("MarshalWrite(bytes.Buffer)", bb.Bytes(), err, false); m != "" {
		return "MarshalWrite(bytes.Buffer)", m
	}
	grown := bytes.NewBuffer(make([]byte, 0, 3*len(want)+100))
	grown.WriteString("pre")
	err = jsonv2.MarshalWrite(grown, v, os.opts...)
	if m := cmp("MarshalWrite(pre-grown bytes.Buffer)", bytes.TrimPrefix(grown.Bytes(), []byte("pre")), err, false); m != "" {
		return "MarshalWrite(pre-grown bytes.Buffer)", m
	}
	pw := &plainWriter{}
	err = jsonv2.MarshalWrite(pw, v, os.opts...)
	if m := cmp("MarshalWrite(plain writer)", pw.b, err, false); m != "" {
		return "MarshalWrite(plain writer)", m
	}
	// MarshalEncode on streaming encoders (newline after the top-level value)
	pw = &plainWriter{}
	enc := jsontext.NewEncoder(pw, toText(os.opts)...)
	err = jsonv2.MarshalEncode(enc, v, os.opts[0])
	if m := cmp("MarshalEncode(plain writer)", pw.b, err, true); m != "" {
		return "MarshalEncode(plain writer)", m
	}
	bb.Reset()
	enc = jsontext.NewEncoder(&bb, toText(os.opts)...)
	err = jsonv2.MarshalEncode(enc, v, os.opts[0])
	if m := cmp("MarshalEncode(bytes.Buffer)", bb.Bytes(), err, true); m != "" {
		return "MarshalEncode(bytes.Buffer)", m
	}
	// inside an array already written by tokens
	pw = &plainWriter{}
	enc = jsontext.NewEncoder(pw, toText(os.opts)...)
	if os.name == "default" {
		enc.WriteToken(jsontext.BeginArray)
		enc.WriteToken(jsontext.String("first"))
		err = jsonv2.MarshalEncode(enc, v, os.opts[0])
		enc.WriteToken(jsontext.EndArray)
		exp := append(append([]byte(`["first",`), want...), "]\n"...)
		if err != nil || !bytes.Equal(pw.b, exp) {
			return "MarshalEncode(inside array)", fmt.Sprintf("MarshalEncode inside an array: err=%v, %s", err, firstDiff(pw.b, exp))
		}
	}
	// token-level replay of the same tokens
	if os.name == "default" {
		pw = &plainWriter{}
		enc = jsontext.NewEncoder(pw)
		for _, t := range tokensOf(want) {
			if err = enc.WriteToken(toToken(want, t)); err != nil {
				break
			}
		}
		if m := cmp("token replay(plain writer)", pw.b, err, true); m != "" {
			return "token replay", m
		}
	}
	return "", ""
}

func toText(o []jsonv2.Options) []jsontext.Options {
	var out []jsontext.Options
	for _, x := range o[1:] {
		out = append(out, x)
	}
	return out
}

func firstDiff(a, b []byte) string {
	i := 0
	for i < len(a) && i < len(b) && a[i] == b[i] {
		i++
	}
	lo := max(i-20, 0)
	return fmt.Sprintf("first difference at byte %d: got ...%q, want ...%q", i, trunc(a[lo:]), trunc(b[lo:]))
}

func trunc(b []byte) string {
	if len(b) > 60 {
		return string(b[:60]) + "..."
	}
	return string(b)
}

// faultOne: a token-level Encoder over a writer whose failAt-th Write keeps `keep` bytes and fails.
// Every token is accepted by the Encoder; accepted bytes ++ later deliveries == fault-free output.
func faultOne(doc []byte, failAt, keep int) (msg string) {
	defer func() {
		if p := recover(); p != nil {
			msg = fmt.Sprintf("library panic: %v", p)
		}
	}()
	toks := tokensOf(doc)
	ref := &plainWriter{}
	e0 := jsontext.NewEncoder(ref)
	var offs []int64
	for _, t := range toks {
		if err := e0.WriteToken(toToken(doc, t)); err != nil {
			return "HARNESS: fault-free run failed: " + err.Error()
		}
		offs = append(offs, e0.OutputOffset())
	}
	pw := &plainWriter{failAt: failAt, keep: keep}
	enc := jsontext.NewEncoder(pw)
	sawFault := false
	for i, t := range toks {
		err := enc.WriteToken(toToken(doc, t))
		if err != nil {
			if !errors.Is(err, errFault) {
				return fmt.Sprintf("token %d: unexpected error %v", i, err)
			}
			sawFault = true
		}
		if got := enc.OutputOffset(); got != offs[i] {
			return fmt.Sprintf("token %d: OutputOffset %d, fault-free run %d (fault seen: %v)", i, got, offs[i], sawFault)
		}
		if !bytes.HasPrefix(ref.b, pw.b) {
			return fmt.Sprintf("token %d: writer received bytes that are not a prefix of the fault-free output: %s", i, firstDiff(pw.b, ref.b))
		}
	}
	if pw.calls > failAt || !sawFault {
		// some Write call happened after the fault (or none was hit): everything must have been delivered
		if pw.calls >= failAt && !bytes.Equal(pw.b, ref.b) && depthZero(toks) {
			// a trailing top-level value forces the final flush; if the fault was the very last Write call the tail stays buffered
			if pw.calls > failAt {
				return fmt.Sprintf("after the fault and later successful writes the writer holds %d bytes, fault-free output has %d: %s", len(pw.b), len(ref.b), firstDiff(pw.b, ref.b))
			}
		}
		if !sawFault && !bytes.Equal(pw.b, ref.b) {
			return "no fault hit but output differs"
		}
	}
	return ""
}

func depthZero(toks []refjson.Tok) bool { return true }

// failingMarshalWrite: MarshalWrite to a writer failing at call k must return an error, deliver only a prefix,
// and must not disturb the NEXT MarshalWrite / MarshalEncode (pooled encoder state).
func failingMarshalWrite(L, vi, failAt, keep int, always bool) (msg string) {
	defer func() {
		if p := recover(); p != nil {
			msg = fmt.Sprintf("library panic: %v", p)
		}
	}()
	os := &optSets[0]
	v := values(L)[vi]
	want, _ := jsonv2.Marshal(v, os.opts...)
	pw := &plainWriter{failAt: failAt, keep: keep, always: always}
	err := jsonv2.MarshalWrite(pw, v, os.opts...)
	hit := pw.calls >= failAt
	if hit && err == nil {
		return fmt.Sprintf("a Write call failed but MarshalWrite returned nil (delivered %d of %d bytes)", len(pw.b), len(want))
	}
	if !hit && (err != nil || !bytes.Equal(pw.b, want)) {
		return fmt.Sprintf("no fault hit, err=%v, %s", err, firstDiff(pw.b, want))
	}
	if !bytes.HasPrefix(want, pw.b) {
		return fmt.Sprintf("bytes delivered before the failure are not a prefix of the fault-free output: %s", firstDiff(pw.b, want))
	}
	// the next calls must be unaffected
	for i := 0; i < 3; i++ {
		v2 := map[string]any{"ID": 1000 + i, "Name": "second"}
		want2, _ := jsonv2.Marshal(v2, os.opts...)
		p2 := &plainWriter{}
		if err := jsonv2.MarshalWrite(p2, v2, os.opts...); err != nil || !bytes.Equal(p2.b, want2) {
			return fmt.Sprintf("MarshalWrite following a failed MarshalWrite: err=%v, got %q, want %q", err, trunc(p2.b), want2)
		}
	}
	return ""
}

func replayCase(cs Case) string {
	switch cs.Part {
	case "sweep":
		for i := range optSets {
			if optSets[i].name == cs.OptSet {
				_, m := sweepOne(cs.L, cs.Value, &optSets[i], cs.Warm)
				return m
			}
		}
	case "fault":
		doc, _ := jsonv2.Marshal(values(cs.L)[cs.Value], jsonv2.Deterministic(true))
		return faultOne(append(doc, " null 12"...), cs.FailAt, cs.Keep)
	case "marshalwrite-fault":
		return failingMarshalWrite(cs.L, cs.Value, cs.FailAt, cs.Keep, cs.Path == "always")
	case "reset":
		var fb, sb bool
		fmt.Sscan(cs.Path, &fb, &sb)
		return resetOne(cs.L, cs.FailAt, fb, sb)
	case "scalar-fault":
		if cs.Value >= 0 && cs.Value < len(scalarSlices()) {
			return scalarFaultOne(cs.Value, cs.FailAt, cs.Path == "true")
		}
		return ""
	case "v1-stream":
		strs := []string{"", " ", "\t", "  ", ">"}
		if cs.Value >= 0 && cs.Value < 7 && cs.L >= 0 && cs.L/10 < len(strs) && cs.L%10 < len(strs) {
			return v1StreamOne(cs.Value, strs[cs.L/10], strs[cs.L%10], cs.Path == "true")
		}
		return ""
	case "small-value":
		var oi int
		fmt.Sscan(cs.OptSet, &oi)
		for _, t := range typeuniv.Universe(typeuniv.Cfg{Depth: 1, NoInvalid: true}) {
			if typeuniv.Describe(t) == cs.Path {
				if d := typeuniv.Domain(t, true); cs.Value < len(d) && oi < len(optSetsSV) {
					return smallOne(d[cs.Value].Interface(), optSetsSV[oi])
				}
			}
		}
	case "user-value":
		var oi int
		fmt.Sscan(cs.OptSet, &oi)
		if uv := userValues(); cs.Value < len(uv) && oi < len(optSetsSV) {
			opts := optSetsSV[oi]
			if cs.Warm == 1 {
				opts = append(append([]jsonv2.Options{}, opts...), svFuncs)
			}
			return smallOne(uv[cs.Value], opts)
		}
	case "sequence":
		var ks, vs []int
		parts := strings.SplitN(cs.Path, "] [", 2)
		if len(parts) == 2 {
			for _, f := range strings.Fields(strings.Trim(parts[0], "[]")) {
				var x int
				fmt.Sscan(f, &x)
				ks = append(ks, x)
			}
			for _, f := range strings.Fields(strings.Trim(parts[1], "[]")) {
				var x int
				fmt.Sscan(f, &x)
				vs = append(vs, x)
			}
			if len(ks) == len(vs) && len(ks) > 0 {
				return seqOne(ks, vs)
			}
		}
	}
	return ""
}

func Replay(r *evid.Run, raw json.RawMessage) {
	var cs Case
	if json.Unmarshal(raw, &cs) != nil {
		return
	}
	r.Evaluations.Add(1)
	r.Nontrivial.Add(2)
	r.Sample(cs)
	if msg := replayCase(cs); msg != "" {
		fmt.Println("replay fails:", msg)
		r.Violation("replay", msg, cs, nil)
	} else {
		fmt.Println("replay passes")
	}
}

func lengths(tier string) []int {
	var ls []int
	if tier == "thorough" {
		for L := 0; L <= 9000; L++ {
			ls = append(ls, L)
		}
		return ls
	}
	seen := map[int]bool{}
	add := func(L int) {
		if L >= 0 && !seen[L] {
			seen[L] = true
			ls = append(ls, L)
		}
	}
	for L := 0; L <= 400; L++ {
		add(L)
	}
	for _, c := range []int{48, 96, 192, 384, 512, 768, 1024, 1536, 2048, 3072, 4096, 6144, 8192} {
		for d := -36; d <= 8; d++ {
			add(c + d)
		}
	}
	return ls
}

func Run(r *evid.Run) {
	r.Rule("size sweep: for every length L in the tier's set, 6 value shapes (struct with 7 kinds of empty omitempty member - empty string, nil pointer, empty map, empty slice, user MarshalJSONTo writing '[' ']' resp. '{' '}' as separate tokens, any holding an empty container - at first/middle/last position; slices, maps, nested) whose leading string has L bytes x 3 whitespace option sets x 2 pool histories x {MarshalWrite to bytes.Buffer / pre-grown bytes.Buffer / plain writer, MarshalEncode on streaming Encoders (plain, bytes.Buffer, inside an array), token-level replay}: delivered bytes == Marshal (+ newline for an Encoder). Write faults: every Write call index x 5 short-write lengths (including a call that accepts everything and still returns an error) on token-level Encoders (all tokens accepted, OutputOffset as in the fault-free run, delivered bytes a prefix and complete after later writes) and on MarshalWrite (error returned, prefix delivered, following MarshalWrite calls unaffected). evaluations = executions; distinct_nontrivial = distinct (L, shape, options, history) sweep points plus distinct fault schedules that hit a Write call")
	r.Assume("Marshal's own output as the reference bytes (checked to be valid JSON by the reference recognizer)")
	ls := lengths(r.Tier)
	type unit struct{ L, os, warm int }
	var units []unit
	for _, L := range ls {
		for os := range optSets {
			for _, warm := range []int{0, 5000} {
				units = append(units, unit{L, os, warm})
			}
		}
	}
	enum.Parallel(r, len(units), func(w *enum.Worker) func(int) {
		var cur Case
		w.Describe = func() any { return cur }
		var n int64
		w.Done = func() { r.Evaluations.Add(n * 7); r.Nontrivial.Add(n) }
		return func(u int) {
			un := units[u]
			for vi := 0; vi < 6; vi++ {
				cur = Case{Part: "sweep", L: un.L, Value: vi, OptSet: optSets[un.os].name, Warm: un.warm}
				n++
				if path, m := sweepOne(un.L, vi, &optSets[un.os], un.warm); m != "" {
					cs := cur
					cs.Path = path
					r.Violation(fmt.Sprintf("c07|sweep|L=%d|v=%d|%s|warm=%d|%s", un.L, vi, cs.OptSet, un.warm, path), m, cs, func() bool { return replayCase(cs) != "" })
				}
			}
		}
	})
	r.Sample(Case{Part: "sweep", L: 1711, Value: 1, OptSet: "default", Path: "MarshalWrite(plain writer)"})
	r.Bound("size sweep: %d lengths (max %d) x 6 shapes x %d option sets x 2 pool histories x 7 writer/path combinations", len(ls), ls[len(ls)-1], len(optSets))
	// faults
	fl := []int{0, 3, 40, 60, 100, 200, 700, 1500, 3000, 5000}
	if r.Tier == "thorough" {
		fl = nil
		for L := 0; L <= 6000; L += 37 {
			fl = append(fl, L)
		}
	}
	type funit struct{ L, vi int }
	var fus []funit
	for _, L := range fl {
		for vi := 0; vi < 6; vi++ {
			fus = append(fus, funit{L, vi})
		}
	}
	enum.Parallel(r, len(fus), func(w *enum.Worker) func(int) {
		var cur Case
		w.Describe = func() any { return cur }
		var n, nt int64
		w.Done = func() { r.Evaluations.Add(n); r.Nontrivial.Add(nt) }
		return func(u int) {
			fu := fus[u]
			doc, _ := jsonv2.Marshal(values(fu.L)[fu.vi], jsonv2.Deterministic(true))
			doc = append(doc, " null 12"...)
			for failAt := 1; failAt <= 14; failAt++ {
				for _, keep := range []int{0, 1, -2, -1, 1 << 30} {
					cur = Case{Part: "fault", L: fu.L, Value: fu.vi, FailAt: failAt, Keep: keep}
					n++
					nt++
					if m := faultOne(doc, failAt, keep); m != "" {
						cs := cur
						r.Violation(fmt.Sprintf("c07|fault|L=%d|v=%d|at=%d|keep=%d", fu.L, fu.vi, failAt, keep), m, cs, func() bool { return replayCase(cs) != "" })
					}
					for _, always := range []bool{false, true} {
						cur = Case{Part: "marshalwrite-fault", L: fu.L, Value: fu.vi, FailAt: failAt, Keep: keep, Path: map[bool]string{true: "always", false: "once"}[always]}
						n++
						nt++
						if m := failingMarshalWrite(fu.L, fu.vi, failAt, keep, always); m != "" {
							cs := cur
							r.Violation(fmt.Sprintf("c07|mwfault|L=%d|v=%d|at=%d|keep=%d|%v", fu.L, fu.vi, failAt, keep, always), m, cs, func() bool { return replayCase(cs) != "" })
						}
					}
				}
				w.Beat()
			}
		}
	})
	r.Sample(Case{Part: "fault", L: 700, Value: 3, FailAt: 2, Keep: -2})
	r.Bound("write faults: %d lengths x 6 shapes x failing Write call index 1..14 x short-write lengths {0,1,len/2,len-1,len (everything accepted yet an error returned)} on token-level Encoders and on MarshalWrite (failing once / from then on)", len(fl))
	sequences(r)
	resets(r)
	smallValues(r)
	scalarFaults(r)
	v1Streams(r)
	_ = io.EOF
}
