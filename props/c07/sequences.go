package c07

import (
	"bytes"
	"errors"
	"fmt"
	"strings"

	jsonv2 "github.com/go-json-experiment/json"
	"github.com/go-json-experiment/json/jsontext"

	"verif/internal/enum"
	"verif/internal/evid"
	"verif/internal/typeuniv"
)

// ---- sequences of MarshalWrite / MarshalEncode calls over different writer kinds that share one sink ----
//
// Every call of a sequence appends to the same bytes.Buffer, either directly (the writer IS the *bytes.Buffer)
// or through a plain io.Writer that forwards into it. Whatever encoder objects and buffers the library recycles
// between the calls, the sink must end up holding Marshal(v1) ++ Marshal(v2) ++ ... and must hold the right
// prefix after every call.

type sinkWriter struct{ bb *bytes.Buffer }

func (s sinkWriter) Write(p []byte) (int, error) { return s.bb.Write(p) }

var seqKinds = []string{"bytes.Buffer", "plain writer into the same buffer", "Encoder on the buffer", "Encoder on a plain writer into the buffer"}

func seqValues() []any {
	big := make([]string, 700) // ~9 KiB: several flushes of a streaming encoder
	for i := range big {
		big[i] = fmt.Sprintf("elem-%04d-%s", i, "xy")
	}
	return []any{
		map[string]any{"k": []any{1.0, "v"}},
		big,
		[]any{strings.Repeat("z", 5000), struct {
			A []int `json:",omitempty"`
			B string
		}{nil, "b"}},
		"s",
	}
}

func seqOne(kinds, vals []int) (msg string) {
	defer func() {
		if p := recover(); p != nil {
			msg = fmt.Sprintf("library panic: %v", p)
		}
	}()
	vs := seqValues()
	var sink bytes.Buffer
	var want []byte
	for i := range kinds {
		v := vs[vals[i]]
		ref, err := jsonv2.Marshal(v, jsonv2.Deterministic(true))
		if err != nil {
			return "HARNESS: " + err.Error()
		}
		switch kinds[i] {
		case 0:
			err = jsonv2.MarshalWrite(&sink, v, jsonv2.Deterministic(true))
		case 1:
			err = jsonv2.MarshalWrite(sinkWriter{&sink}, v, jsonv2.Deterministic(true))
		case 2:
			err = jsonv2.MarshalEncode(jsontext.NewEncoder(&sink), v, jsonv2.Deterministic(true))
			ref = append(ref, '\n')
		case 3:
			err = jsonv2.MarshalEncode(jsontext.NewEncoder(sinkWriter{&sink}), v, jsonv2.Deterministic(true))
			ref = append(ref, '\n')
		}
		if err != nil {
			return fmt.Sprintf("call %d (%s): unexpected error %v", i+1, seqKinds[kinds[i]], err)
		}
		want = append(want, ref...)
		if !bytes.Equal(sink.Bytes(), want) {
			return fmt.Sprintf("after call %d (%s) the sink differs from the concatenation of Marshal outputs: %s", i+1, seqKinds[kinds[i]], firstDiff(sink.Bytes(), want))
		}
	}
	return ""
}

func sequences(r *evid.Run) {
	L := 3
	if r.Tier == "thorough" {
		L = 4
	}
	nk, nv := len(seqKinds), len(seqValues())
	var n int64
	var rec func(kinds, vals []int)
	rec = func(kinds, vals []int) {
		if len(kinds) > 0 {
			n++
			if m := seqOne(kinds, vals); m != "" {
				cs := Case{Part: "sequence", Path: fmt.Sprint(kinds, vals)}
				k2, v2 := append([]int(nil), kinds...), append([]int(nil), vals...)
				r.Violation(fmt.Sprintf("c07|sequence|%v|%v", kinds, vals), m, cs, func() bool { return seqOne(k2, v2) != "" })
			}
		}
		if len(kinds) == L {
			return
		}
		for k := 0; k < nk; k++ {
			for v := 0; v < nv; v++ {
				rec(append(kinds, k), append(vals, v))
			}
		}
	}
	rec(nil, nil)
	r.Evaluations.Add(n)
	r.Nontrivial.Add(n)
	r.Sample(Case{Part: "sequence", Path: "[0 1] [0 1]: MarshalWrite(bytes.Buffer, small) then MarshalWrite(plain writer into the same buffer, 9 KiB)"})
	r.Bound("call sequences: every sequence of <=%d calls over %d writer kinds sharing one sink x %d values (small, 9 KiB in many elements, 5 KiB string + omitempty, scalar): %d sequences", L, nk, nv, n)
}

// ---- Encoder.Reset after a write fault or an abandoned value ----
//
// After Reset an Encoder behaves like a new one: nothing written before the Reset may reach the new writer,
// whatever was still buffered (a failed write keeps the unflushed remainder, an abandoned value is incomplete).

func resetOne(prefixToks int, failAt int, firstBuf, secondBuf bool) (msg string) {
	defer func() {
		if p := recover(); p != nil {
			msg = fmt.Sprintf("library panic: %v", p)
		}
	}()
	doc := []byte(`{"name":["abandoned",1,{"k":"` + strings.Repeat("q", 100) + `"}],"n":null} "second" [1]`)
	toks := tokensOf(doc)
	if prefixToks > len(toks) {
		return ""
	}
	pw := &plainWriter{failAt: failAt, keep: -2}
	var bb1 bytes.Buffer
	var enc *jsontext.Encoder
	if firstBuf {
		enc = jsontext.NewEncoder(&bb1)
	} else {
		enc = jsontext.NewEncoder(pw)
	}
	for _, t := range toks[:prefixToks] {
		if err := enc.WriteToken(toToken(doc, t)); err != nil && !errors.Is(err, errFault) {
			return "HARNESS: " + err.Error()
		}
	}
	second := `[1,"two",{"three":3}]`
	fresh := &plainWriter{}
	var bb2 bytes.Buffer
	if secondBuf {
		enc.Reset(&bb2)
	} else {
		enc.Reset(fresh)
	}
	if off := enc.OutputOffset(); off != 0 {
		return fmt.Sprintf("OutputOffset after Reset = %d", off)
	}
	if d := enc.StackDepth(); d != 0 {
		return fmt.Sprintf("StackDepth after Reset = %d", d)
	}
	if err := enc.WriteValue(jsontext.Value(second)); err != nil {
		return fmt.Sprintf("WriteValue after Reset: %v", err)
	}
	got := fresh.b
	if secondBuf {
		got = bb2.Bytes()
	}
	if string(got) != second+"\n" {
		return fmt.Sprintf("after Reset (made after %d tokens, write fault at call %d) the new writer received %q, want %q", prefixToks, failAt, trunc(got), second+"\n")
	}
	return ""
}

func resets(r *evid.Run) {
	var n int64
	ntok := len(tokensOf([]byte(`{"name":["abandoned",1,{"k":"q"}],"n":null} "second" [1]`)))
	for k := 0; k <= ntok; k++ {
		for failAt := 0; failAt <= 3; failAt++ {
			for _, fb := range []bool{false, true} {
				for _, sb := range []bool{false, true} {
					n++
					if m := resetOne(k, failAt, fb, sb); m != "" {
						cs := Case{Part: "reset", L: k, FailAt: failAt, Path: fmt.Sprint(fb, sb)}
						r.Violation(fmt.Sprintf("c07|reset|%d|%d|%v|%v", k, failAt, fb, sb), m, cs, func() bool { return resetOne(cs.L, cs.FailAt, fb, sb) != "" })
					}
				}
			}
		}
	}
	r.Evaluations.Add(n)
	r.Nontrivial.Add(n)
	r.Bound("Encoder.Reset: after every token prefix of a 3-value document (%d tokens; complete and abandoned values) x write fault at call 0..3 of the old writer x old/new writer kind {plain, bytes.Buffer}: the new writer receives exactly the value written after the Reset", ntok)
}

// ---- small values of every type: the bytes do not depend on the entry point ----

// toScalar, toBig, viaJSON and viaText are top-level values produced by the caller's own methods.
type toScalar struct{ N int }

func (t toScalar) MarshalJSONTo(e *jsontext.Encoder) error {
	return e.WriteToken(jsontext.Int(int64(t.N)))
}

type toBig struct{ N int }

func (t toBig) MarshalJSONTo(e *jsontext.Encoder) error {
	if err := e.WriteToken(jsontext.BeginObject); err != nil {
		return err
	}
	for i := 0; i < t.N; i++ {
		if err := e.WriteToken(jsontext.String(fmt.Sprintf("k%04d", i))); err != nil {
			return err
		}
		if err := e.WriteValue(jsontext.Value(`[1,"x",null]`)); err != nil {
			return err
		}
	}
	return e.WriteToken(jsontext.EndObject)
}

type viaJSON struct{ S string }

func (v viaJSON) MarshalJSON() ([]byte, error) { return []byte(` {"s": "` + v.S + `" } `), nil }

type viaText struct{ S string }

func (v viaText) MarshalText() ([]byte, error) { return []byte(v.S), nil }

type plainS struct {
	A int
	B string
}

// smallOne compares every streaming entry point with Marshal for one value and option list.
func smallOne(v any, opts []jsonv2.Options) (msg string) {
	defer func() {
		if p := recover(); p != nil {
			msg = fmt.Sprintf("library panic: %v", p)
		}
	}()
	want, err := jsonv2.Marshal(v, opts...)
	if err != nil {
		return ""
	}
	var bb bytes.Buffer
	if err := jsonv2.MarshalWrite(&bb, v, opts...); err != nil || !bytes.Equal(bb.Bytes(), want) {
		return fmt.Sprintf("MarshalWrite(bytes.Buffer) delivers %q (err=%v), Marshal returns %q", trunc(bb.Bytes()), err, trunc(want))
	}
	pw := &plainWriter{}
	if err := jsonv2.MarshalWrite(pw, v, opts...); err != nil || !bytes.Equal(pw.b, want) {
		return fmt.Sprintf("MarshalWrite(plain writer) delivers %q (err=%v), Marshal returns %q", trunc(pw.b), err, trunc(want))
	}
	// two values in a row on streaming Encoders: each followed by exactly one newline
	for _, mk := range []func() (*jsontext.Encoder, func() []byte){
		func() (*jsontext.Encoder, func() []byte) {
			w := &plainWriter{}
			return jsontext.NewEncoder(w, opts...), func() []byte { return w.b }
		},
		func() (*jsontext.Encoder, func() []byte) {
			var b bytes.Buffer
			return jsontext.NewEncoder(&b, opts...), b.Bytes
		},
	} {
		enc, out := mk()
		e1 := jsonv2.MarshalEncode(enc, v)
		mid := string(out())
		e2 := jsonv2.MarshalEncode(enc, v)
		exp := string(want) + "\n" + string(want) + "\n"
		if e1 != nil || e2 != nil || string(out()) != exp {
			return fmt.Sprintf("two MarshalEncode calls on a streaming Encoder deliver %q (errors %v, %v), want %q", trunc(out()), e1, e2, trunc([]byte(exp)))
		}
		if mid != string(want)+"\n" {
			return fmt.Sprintf("after the first MarshalEncode call returned, the writer holds %q, want %q", trunc([]byte(mid)), trunc(append(want, '\n')))
		}
	}
	return ""
}

var optSetsSV = [][]jsonv2.Options{{jsonv2.Deterministic(true)}, {jsonv2.Deterministic(true), jsonv2.StringifyNumbers(true)}, {jsonv2.Deterministic(true), jsontext.Multiline(true)},
	{jsonv2.Deterministic(true), jsontext.SpaceAfterComma(true)}, {jsonv2.Deterministic(true), jsontext.SpaceAfterColon(true), jsontext.SpaceAfterComma(true)}}

var svFuncs = jsonv2.WithMarshalers(jsonv2.JoinMarshalers(
	jsonv2.MarshalToFunc(func(e *jsontext.Encoder, p plainS) error {
		if err := e.WriteToken(jsontext.BeginArray); err != nil {
			return err
		}
		if err := e.WriteToken(jsontext.Int(int64(p.A))); err != nil {
			return err
		}
		if err := e.WriteToken(jsontext.String(p.B)); err != nil {
			return err
		}
		return e.WriteToken(jsontext.EndArray)
	}),
	jsonv2.MarshalFunc(func(b bool) ([]byte, error) { return []byte(fmt.Sprintf(` "%v" `, b)), nil }),
))

func userValues() []any {
	return []any{emptyTo{}, emptyObjTo{}, toScalar{7}, &toScalar{-1}, toBig{1}, toBig{300}, toBig{700}, viaJSON{"x"}, viaJSON{strings.Repeat("y", 5000)}, viaText{"t"}, viaText{strings.Repeat("z", 4090)},
		plainS{1, "b"}, &plainS{2, strings.Repeat("q", 4100)}, true, []any{toScalar{1}, plainS{3, "c"}, false}, map[string]any{"k": toBig{2}}}
}

func smallValues(r *evid.Run) {
	ts := typeuniv.Universe(typeuniv.Cfg{Depth: 1, NoInvalid: true})
	enum.Parallel(r, len(ts), func(w *enum.Worker) func(int) {
		var cur Case
		w.Describe = func() any { return cur }
		var n int64
		w.Done = func() { r.Evaluations.Add(n * 4); r.Nontrivial.Add(n) }
		return func(u int) {
			t := ts[u]
			for vi, rv := range typeuniv.Domain(t, true) {
				v := rv.Interface()
				for oi, opts := range optSetsSV {
					n++
					cur = Case{Part: "small-value", Value: vi, OptSet: fmt.Sprint(oi), Path: typeuniv.Describe(t)}
					if msg := smallOne(v, opts); msg != "" {
						r.Violation(fmt.Sprintf("c07|small-value|%s|%d|%d", typeuniv.Describe(t), vi, oi), fmt.Sprintf("%s value #%d: %s", typeuniv.Describe(t), vi, msg), cur, nil)
					}
				}
			}
			w.Beat()
		}
	})
	r.Bound("small values: %d generated types x value domains x %d option sets (incl. SpaceAfterComma / SpaceAfterColon) x {MarshalWrite to bytes.Buffer / plain writer, two MarshalEncode calls on a streaming Encoder over a plain writer / bytes.Buffer}: bytes equal Marshal's, and the first value has reached the writer when its call returns", len(ts), len(optSetsSV))

	// top-level values produced by the caller's own methods and functions
	userVals := userValues()
	var nu int64
	for vi, v := range userVals {
		for oi, base := range optSetsSV {
			for fi, opts := range [][]jsonv2.Options{base, append(append([]jsonv2.Options{}, base...), svFuncs)} {
				nu++
				if msg := smallOne(v, opts); msg != "" {
					cur := Case{Part: "user-value", Value: vi, OptSet: fmt.Sprint(oi), Warm: fi}
					r.Violation(fmt.Sprintf("c07|user-value|%d|%d|%d", vi, oi, fi), fmt.Sprintf("top-level value %T (#%d), option set %d, functions=%d: %s", v, vi, oi, fi, msg), cur, nil)
				}
			}
		}
	}
	r.Evaluations.Add(nu * 4)
	r.Nontrivial.Add(nu)
	r.Bound("top-level values written by the caller's MarshalJSONTo / MarshalJSON / MarshalText methods and MarshalToFunc / MarshalFunc functions (%d values, 1 byte to 12 KiB) x %d option sets x {methods only, with functions}: same four entry points", len(userVals), len(optSetsSV))
}
