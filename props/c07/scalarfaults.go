package c07

import (
	"bytes"
	"errors"
	"fmt"
	"strings"

	jsonv2 "github.com/go-json-experiment/json"
	jsonv1 "github.com/go-json-experiment/json/v1"

	"verif/internal/evid"
)

// Write faults hit while a scalar of each kind is being written: the element kinds have their own buffer
// handling, so a long slice of each kind is marshaled to a writer that fails its k-th Write call (once, or from then on).

func scalarSlices() []any {
	n := 7000
	bs := make([]bool, n)
	is := make([]int, n)
	us := make([]uint16, n)
	fs := make([]float64, n)
	f32 := make([]float32, n)
	ss := make([]string, n)
	ps := make([]*bool, n)
	as := make([]any, n)
	for i := 0; i < n; i++ {
		bs[i] = i%3 == 0
		is[i] = i * 37
		us[i] = uint16(i)
		fs[i] = float64(i) + 0.5
		f32[i] = float32(i) / 4
		ss[i] = fmt.Sprintf("s%d", i)
		ps[i] = &bs[i]
		as[i] = bs[i]
	}
	var arr [3000]bool
	return []any{bs, is, us, fs, f32, ss, ps, as, arr, true, 12345, 1.5, float32(0.25), "top", map[string][]bool{"k": bs}}
}

func scalarFaultOne(vi, failAt int, always bool) (msg string) {
	defer func() {
		if p := recover(); p != nil {
			msg = fmt.Sprintf("library panic: %v", p)
		}
	}()
	v := scalarSlices()[vi]
	want, err := jsonv2.Marshal(v)
	if err != nil {
		return "HARNESS: " + err.Error()
	}
	pw := &plainWriter{failAt: failAt, keep: -2, always: always}
	err = jsonv2.MarshalWrite(pw, v)
	hit := pw.calls >= failAt
	switch {
	case hit && !errors.Is(err, errFault):
		return fmt.Sprintf("%T: Write call %d failed but MarshalWrite returned %v (delivered %d of %d bytes)", v, failAt, err, len(pw.b), len(want))
	case !hit && (err != nil || !bytes.Equal(pw.b, want)):
		return fmt.Sprintf("%T: no fault hit (%d calls), err=%v, %s", v, pw.calls, err, firstDiff(pw.b, want))
	case !bytes.HasPrefix(want, pw.b) && !always:
		// after a single fault the encoder must not go on as if nothing had happened and deliver later bytes
		return fmt.Sprintf("%T: bytes delivered around the failed call are not a prefix of the fault-free output: %s", v, firstDiff(pw.b, want))
	}
	return ""
}

func scalarFaults(r *evid.Run) {
	var n int64
	for vi := range scalarSlices() {
		for failAt := 1; failAt <= 6; failAt++ {
			for _, always := range []bool{false, true} {
				n++
				if m := scalarFaultOne(vi, failAt, always); m != "" {
					cs := Case{Part: "scalar-fault", Value: vi, FailAt: failAt, Path: fmt.Sprint(always)}
					r.Violation(fmt.Sprintf("c07|scalar-fault|%d|%d|%v", vi, failAt, always), m, cs, nil)
				}
			}
		}
	}
	r.Evaluations.Add(n)
	r.Nontrivial.Add(n)
	r.Bound("write faults inside long runs of one scalar kind: %d values (7000-element slices of bool / int / uint16 / float64 / float32 / string / *bool / any, a 3000-element array, top-level scalars, a map member) x failing Write call 1..6 x {once, from then on}: MarshalWrite returns the writer's error; what was delivered is a prefix of the fault-free output", len(scalarSlices()))
}

// v1 Encoder against v1.MarshalIndent: the stream API and the slice API agree for every prefix / indent pair.
func v1StreamOne(vi int, prefix, indent string, escape bool) (msg string) {
	defer func() {
		if p := recover(); p != nil {
			msg = fmt.Sprintf("library panic: %v", p)
		}
	}()
	vals := []any{map[string]any{"a": []any{1, "<x>", nil}, "b": map[string]any{}}, []int{1, 2}, "s<", 1.5, struct {
		A []string
		B map[string]int
	}{[]string{"p", "q"}, map[string]int{"z": 1}}, []any{}, nil}
	v := vals[vi]
	var want []byte
	var err error
	if prefix == "" && indent == "" {
		want, err = jsonv1.Marshal(v)
	} else {
		want, err = jsonv1.MarshalIndent(v, prefix, indent)
	}
	if err != nil {
		return "HARNESS: " + err.Error()
	}
	if !escape {
		want = []byte(strings.NewReplacer(`\u003c`, "<", `\u003e`, ">", `\u0026`, "&").Replace(string(want)))
	}
	for _, mk := range []func() (*jsonv1.Encoder, func() []byte){
		func() (*jsonv1.Encoder, func() []byte) {
			w := &plainWriter{}
			return jsonv1.NewEncoder(w), func() []byte { return w.b }
		},
		func() (*jsonv1.Encoder, func() []byte) { var b bytes.Buffer; return jsonv1.NewEncoder(&b), b.Bytes },
	} {
		enc, out := mk()
		enc.SetIndent(prefix, indent)
		enc.SetEscapeHTML(escape)
		e1 := enc.Encode(v)
		e2 := enc.Encode(v)
		exp := string(want) + "\n" + string(want) + "\n"
		if e1 != nil || e2 != nil || string(out()) != exp {
			return fmt.Sprintf("v1 Encoder with SetIndent(%q, %q), SetEscapeHTML(%v) writes %q (errors %v, %v); MarshalIndent with the same strings gives %q per value", prefix, indent, escape, trunc(out()), e1, e2, trunc(want))
		}
	}
	return ""
}

func v1Streams(r *evid.Run) {
	var n int64
	strs := []string{"", " ", "\t", "  ", ">"}
	for vi := 0; vi < 7; vi++ {
		for pi, p := range strs {
			for ii, ind := range strs {
				for _, esc := range []bool{true, false} {
					n++
					if m := v1StreamOne(vi, p, ind, esc); m != "" {
						cs := Case{Part: "v1-stream", Value: vi, L: pi*10 + ii, Path: fmt.Sprint(esc)}
						r.Violation(fmt.Sprintf("c07|v1-stream|%d|%q|%q|%v", vi, p, ind, esc), m, cs, nil)
					}
				}
			}
		}
	}
	r.Evaluations.Add(n * 2)
	r.Nontrivial.Add(n)
	r.Bound("v1 Encoder: 7 values x every (prefix, indent) pair over %q x SetEscapeHTML on / off x {plain writer, bytes.Buffer}, two values per Encoder: bytes equal v1.MarshalIndent's (v1.Marshal's for the empty pair) plus one newline each", strs)
}
