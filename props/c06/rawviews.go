package c06

import (
	"fmt"

	"github.com/go-json-experiment/json/jsontext"

	"verif/internal/enum"
	"verif/internal/evid"
	"verif/internal/refjson"
	"verif/internal/views"
)

// rawViews: every string of the alphabet views given to Encoder.WriteValue as a raw value, at top level, as a
// later array element and as a member value (after tokens written by WriteToken), under option sets that
// exercise validation and the delimiter rules; accept/reject, output bytes, offset and stack are compared
// with the reference model after the call, and one more token is written afterwards (the "no effect" clause).
func rawViews(r *evid.Run) {
	lens := views.ForTier(r.Tier)
	// a length shorter by one than C01's for the largest views keeps the phase within a few seconds
	if r.Tier != "thorough" {
		lens.A1, lens.A2 = min(lens.A1, 4), min(lens.A2, 5)
	} else {
		lens.A1, lens.A2 = min(lens.A1, 6), min(lens.A2, 6)
	}
	vs := views.Views(lens)
	// string literals assembled from escape atoms (pairs of escaped surrogate halves in every combination)
	ea := 3
	if r.Tier == "thorough" {
		ea = 4
	}
	vs = append(vs, views.View{Name: "E-escape-atoms", Alpha: append(append([][]byte{}, views.EscapeAtoms...), []byte{'"'}), MaxLen: ea, Prefix: `"`})
	all := OptSets()
	var sets []*OptSet
	for i := range all {
		switch all[i].Name {
		case "default", "AllowInvalidUTF8", "AllowDuplicateNames", "SpaceAfterComma", "SpaceAfterColon", "Multiline":
			sets = append(sets, &all[i])
		}
	}
	prefixes := [][]Op{
		nil,
		{tok("[", jsontext.BeginArray, '[', "", "", false), tok("1", jsontext.Int(1), '0', "", "1", false)},
		{tok("{", jsontext.BeginObject, '{', "", "", false), tok(`"a"`, jsontext.String("a"), '"', "a", "", false)},
	}
	after := tok("true", jsontext.True, 't', "", "", false)
	views.ForAll(r, vs, func(w *enum.Worker, v views.View) func([]byte) {
		s := &sys{}
		alpha := make([]Op, 4)
		var curSet string
		var curOps []string
		w.Describe = func() any { return Case{OptSet: curSet, Ops: curOps} }
		var n, tr, mixed int64
		w.Done = func() { r.Evaluations.Add(n); r.Traces.Add(n); r.Transitions.Add(tr); r.Nontrivial.Add(mixed) }
		return func(b []byte) {
			text := string(b)
			for _, o := range sets {
				for _, pre := range prefixes {
					k := copy(alpha, pre)
					alpha[k] = raw(text)
					alpha[k+1] = after
					seq := []int{0, 1, 2, 3}[:k+2]
					curSet, curOps = o.Name, labels(alpha, seq)
					var cnt [2]int64
					step, msg := runSeq(s, o, alpha, seq, 0, &cnt)
					n++
					tr += int64(k + 2)
					if cnt[1] > 0 {
						mixed++
					}
					if msg != "" {
						report(r, r.Prop, o, alpha, seq, step, msg)
					}
				}
			}
		}
	})
	r.Sample(Case{OptSet: "SpaceAfterComma", Ops: []string{"[", "1", `V:{"a":[1,2]}`, "true"}})
	r.Bound("raw values: every string of the alphabet views (A1<=%d, A2<=%d, A3<=%d, B<=%d symbols; surrogate assembly) as Encoder.WriteValue argument x 3 positions (top level, second array element, member value) x %d option sets, followed by one more token", lens.A1, lens.A2, lens.A3, lens.B, len(sets))
}

var _ = fmt.Sprint
var _ = refjson.MaxDepth

// marshalEncodeOps: json.MarshalEncode calls (whose implementation appends empty containers and simple values
// to the buffer on fast paths that bypass the token state machine) interleaved with token calls: every sequence
// up to a length bound over {structural tokens, a name, a number} and 14 MarshalEncode ops, under option sets
// with and without whitespace, each compared with the model (MarshalEncode of v == WriteValue of v's JSON text).
func marshalEncodeOps(r *evid.Run) {
	base := Alphabet()
	var alpha []Op
	for _, a := range base {
		switch a.M.Label {
		case "{", "}", "[", "]", `"a"`, "1":
			alpha = append(alpha, a)
		}
	}
	alpha = append(alpha, meOps()...)
	d := 4
	if r.Tier == "thorough" {
		d = 5
	}
	all := OptSets()
	k := len(alpha)
	for si := range all {
		o := &all[si]
		switch o.Name {
		case "default", "AllowDuplicateNames", "SpaceAfterComma", "Multiline":
		default:
			continue
		}
		enum.Parallel(r, k*k, func(w *enum.Worker) func(int) {
			s := &sys{}
			seq := make([]int, d)
			var transitions, traces, mixed int64
			w.Describe = func() any { return Case{OptSet: o.Name, Ops: labels(alpha, seq)} }
			w.Done = func() { r.Transitions.Add(transitions); r.Traces.Add(traces); r.Evaluations.Add(traces); r.Nontrivial.Add(mixed) }
			return func(u int) {
				seq[0], seq[1] = u/k, u%k
				var rec func(pos int)
				rec = func(pos int) {
					if pos == d {
						var cnt [2]int64
						step, msg := runSeq(s, o, alpha, seq, 0, &cnt)
						transitions += int64(d)
						traces++
						if cnt[0] > 0 && cnt[1] > 0 {
							mixed++
						}
						if msg != "" {
							report(r, r.Prop, o, alpha, seq, step, msg)
						}
						w.Beat()
						return
					}
					for i := 0; i < k; i++ {
						seq[pos] = i
						rec(pos + 1)
					}
				}
				rec(2)
			}
		})
		r.Bound("MarshalEncode ops: option set %q: all %d^%d sequences over 6 token ops, 14 MarshalEncode ops and 6 AvailableBuffer values", o.Name, k, d)
	}
}
