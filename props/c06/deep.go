package c06

import (
	"fmt"
	"strings"

	"github.com/go-json-experiment/json/jsontext"

	"verif/internal/enum"
	"verif/internal/evid"
	"verif/internal/refjson"
)

// deep: (a) indentation at every nesting depth up to D under every option set: open D containers (arrays,
// objects, alternating), write scalars, raw values (which are re-indented relative to the depth) and empty
// containers at the bottom, close everything, comparing with the model after every call; (b) the nesting limit:
// k containers opened by tokens followed by one raw value whose own nesting is j, for every k+j around 10000
// and several innermost spellings; the encoder must stay usable afterwards.

func opOpen(obj bool) Op {
	if obj {
		return tok("{", jsontext.BeginObject, '{', "", "", false)
	}
	return tok("[", jsontext.BeginArray, '[', "", "", false)
}
func opClose(obj bool) Op {
	if obj {
		return tok("}", jsontext.EndObject, '}', "", "", false)
	}
	return tok("]", jsontext.EndArray, ']', "", "", false)
}
func opName(i int) Op {
	n := fmt.Sprintf("n%d", i)
	return tok(`"`+n+`"`, jsontext.String(n), '"', n, "", false)
}

// opFromLabel rebuilds an op from its label (replay files hold labels only).
func opFromLabel(l string) (Op, bool) {
	for _, a := range Alphabet() {
		if a.M.Label == l {
			return a, true
		}
	}
	for _, a := range meOps() {
		if a.M.Label == l {
			return a, true
		}
	}
	switch {
	case strings.HasPrefix(l, "AV:"):
		return av(l[3:]), true
	case strings.HasPrefix(l, "V:"):
		return raw(l[2:]), true
	case len(l) >= 2 && l[0] == '"' && l[len(l)-1] == '"' && !strings.ContainsAny(l[1:len(l)-1], "\"\\"):
		s := l[1 : len(l)-1]
		return tok(l, jsontext.String(s), '"', s, "", false), true
	}
	return Op{}, false
}

func isObj(style, i int) bool { return style == 1 || (style == 2 && i%2 == 1) }

// openers opens k containers of the style, writing member names where needed.
func openers(k, style int) (ops []Op, kinds []bool) {
	for i := 0; i < k; i++ {
		if len(kinds) > 0 && kinds[len(kinds)-1] {
			ops = append(ops, opName(i))
		}
		ops = append(ops, opOpen(isObj(style, i)))
		kinds = append(kinds, isObj(style, i))
	}
	return ops, kinds
}

func indentCase(d, style int) []Op {
	ops, kinds := openers(d, style)
	bottomObj := len(kinds) > 0 && kinds[len(kinds)-1]
	values := [][]Op{
		{tok("1", jsontext.Int(1), '0', "", "1", false)},
		{raw(`[1,{"b":2},[],{}]`)},
		{raw(`{"b":{"a":[]},"a":"<"}`)},
		{opOpen(true), opClose(true)},
		{opOpen(false), opClose(false)},
		{raw(" [ ] ")}, {raw("{\n}")},
		{tok(`"a"`, jsontext.String("a"), '"', "a", "", false)},
	}
	for vi, v := range values {
		if bottomObj {
			ops = append(ops, opName(1000+vi))
		}
		ops = append(ops, v...)
	}
	for i := len(kinds) - 1; i >= 0; i-- {
		ops = append(ops, opClose(kinds[i]))
	}
	return ops
}

var limitInners = []struct {
	text  string
	depth int // nesting of the text itself
}{{`0`, 0}, {`[]`, 1}, {`{}`, 1}, {`[ ]`, 1}, {`{ }`, 1}, {`[{}]`, 2}, {`{"a":{}}`, 2}, {`[[]]`, 2}, {`{"a":[]}`, 2}, {`[0,{}]`, 2}, {`{"a":0,"b":{}}`, 2}, {`[[{}]]`, 3}, {`[{"a":[]}]`, 3}}

// limitCase: k containers by tokens, then one raw value reaching `total` levels, then one more scalar and two closes.
func limitCase(total, k, inner, style int) (ops []Op, from int, ok bool) {
	towerDepth := total - k - limitInners[inner].depth
	if towerDepth < 0 {
		return nil, 0, false
	}
	var sb strings.Builder
	var closers []byte
	for i := 0; i < towerDepth; i++ {
		if isObj(style, k+i) {
			sb.WriteString(`{"a":`)
			closers = append(closers, '}')
		} else {
			sb.WriteByte('[')
			closers = append(closers, ']')
		}
	}
	sb.WriteString(limitInners[inner].text)
	for i := len(closers) - 1; i >= 0; i-- {
		sb.WriteByte(closers[i])
	}
	ops, kinds := openers(k, style)
	from = max(len(ops)-3, 0)
	inObj := len(kinds) > 0 && kinds[len(kinds)-1]
	if inObj {
		ops = append(ops, opName(70000))
	}
	ops = append(ops, raw(sb.String()))
	if inObj {
		ops = append(ops, opName(70001))
	}
	ops = append(ops, tok("1", jsontext.Int(1), '0', "", "1", false))
	for i := len(kinds) - 1; i >= 0 && i >= len(kinds)-2; i-- {
		ops = append(ops, opClose(kinds[i]))
	}
	return ops, from, true
}

func identity(n int) []int {
	s := make([]int, n)
	for i := range s {
		s[i] = i
	}
	return s
}

func deep(r *evid.Run) {
	maxD := 40
	var extra []int
	if r.Tier == "thorough" {
		maxD = 80
		extra = []int{127, 128, 129, 255, 256, 257, 1000}
	}
	var depths []int
	for d := 0; d <= maxD; d++ {
		depths = append(depths, d)
	}
	depths = append(depths, extra...)
	sets := OptSets()
	type unit struct{ d, style, set int }
	var units []unit
	for _, d := range depths {
		for style := 0; style < 3; style++ {
			for si := range sets {
				units = append(units, unit{d, style, si})
			}
		}
	}
	counters := func(w *enum.Worker, transitions, traces *int64) {
		w.Done = func() {
			r.Transitions.Add(*transitions)
			r.Traces.Add(*traces)
			r.Evaluations.Add(*traces)
			r.Nontrivial.Add(*traces)
		}
	}
	enum.Parallel(r, len(units), func(w *enum.Worker) func(int) {
		s := &sys{}
		var cur Case
		w.Describe = func() any { return cur }
		var transitions, traces int64
		counters(w, &transitions, &traces)
		return func(u int) {
			un := units[u]
			o := &sets[un.set]
			ops := indentCase(un.d, un.style)
			cur = Case{OptSet: o.Name, Ops: []string{fmt.Sprintf("deep indentation d=%d style=%d", un.d, un.style)}}
			var cnt [2]int64
			seq := identity(len(ops))
			step, msg := runSeq(s, o, ops, seq, 0, &cnt)
			transitions += int64(len(seq))
			traces++
			if msg != "" {
				cs := Case{OptSet: o.Name, Ops: labels(ops, seq[:step+1])}
				r.Violation(fmt.Sprintf("c06|deep-indent|%s|d=%d|style=%d", o.Name, un.d, un.style), fmt.Sprintf("nesting %d: after call %d (%s): %s", un.d, step+1, cs.Ops[step], trunc(msg)), cs, func() bool { return ReplayCase(cs) != "" })
			}
			w.Beat()
		}
	})
	r.Bound("deep indentation: nesting depths 0..%d%v x {arrays, objects, alternating} x %d option sets: scalars, raw values (re-indented relative to the depth), empty containers by tokens and as raw values with inner whitespace at the bottom, compared with the model after every call", maxD, extra, len(sets))

	totals := []int{9999, 10000, 10001, 10002}
	splits := []int{0, 1, 2, 3, 5000, 9997, 9998, 9999, 10000}
	if r.Tier == "thorough" {
		totals = []int{9998, 9999, 10000, 10001, 10002, 10003}
		splits = []int{0, 1, 2, 3, 4, 100, 5000, 9990, 9996, 9997, 9998, 9999, 10000}
	}
	type lunit struct{ total, k, inner, style int }
	var lus []lunit
	for _, t := range totals {
		for _, k := range splits {
			for in := range limitInners {
				for style := 0; style < 3; style++ {
					if k > t || (style > 0 && in%3 != 1 && r.Tier != "thorough") {
						continue
					}
					lus = append(lus, lunit{t, k, in, style})
				}
			}
		}
	}
	o := &sets[0]
	enum.Parallel(r, len(lus), func(w *enum.Worker) func(int) {
		s := &sys{}
		var cur Case
		w.Describe = func() any { return cur }
		var transitions, traces int64
		counters(w, &transitions, &traces)
		return func(u int) {
			lu := lus[u]
			ops, from, ok := limitCase(lu.total, lu.k, lu.inner, lu.style)
			if !ok {
				return
			}
			desc := fmt.Sprintf("nesting limit: total=%d, %d containers by tokens, innermost %s, style %d", lu.total, lu.k, limitInners[lu.inner].text, lu.style)
			cur = Case{OptSet: "default", Ops: []string{desc}}
			var cnt [2]int64
			seq := identity(len(ops))
			step, msg := runSeq(s, o, ops, seq, from, &cnt)
			transitions += int64(len(seq))
			traces++
			if msg != "" {
				cs := Case{OptSet: "default", Ops: labels(ops, seq[:step+1])}
				r.Violation(fmt.Sprintf("c06|deep-limit|%d|%d|%s|%d", lu.total, lu.k, limitInners[lu.inner].text, lu.style), fmt.Sprintf("%s: after call %d: %s", desc, step+1, trunc(msg)), cs, func() bool { return ReplayCase(cs) != "" })
			}
			w.Beat()
		}
	})
	r.Bound("nesting limit: total nesting in %v reached by k in %v containers opened by tokens plus one raw value (towers of arrays / objects / alternating) around %d innermost spellings (empty containers with and without inner whitespace, nested empties, scalars); accepted iff the total is <= %d, and the encoder stays usable afterwards", totals, splits, len(limitInners), refjson.MaxDepth)
}

func trunc(s string) string {
	if len(s) > 400 {
		return s[:200] + " … " + s[len(s)-150:]
	}
	return s
}
