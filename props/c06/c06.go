// Package c06: explicit-state exploration of the real jsontext.Encoder against the
// reference encoder model (grammar enforcement, no-effect rejection, exact bytes and positions).
package c06

import (
	"encoding/json"
	"errors"
	"fmt"
	"math"
	"strings"
	"sync"

	jsonv2 "github.com/go-json-experiment/json"
	"github.com/go-json-experiment/json/jsontext"

	"verif/internal/enum"
	"verif/internal/evid"
	"verif/internal/refjson"
)

// Op couples a model operation with the real call.
type Op struct {
	M   refjson.EncOp
	Tok jsontext.Token
	ME  *meValue // if set: json.MarshalEncode(enc, ME.v) instead of WriteValue (the model sees the raw text M.Text)
	AV  bool     // if set: the raw text is built in Encoder.AvailableBuffer() and passed to WriteValue from there
}

// av builds an op that writes a raw value assembled in the Encoder's AvailableBuffer (the documented zero-copy idiom).
func av(text string) Op {
	return Op{M: refjson.EncOp{Raw: true, Text: text, Label: "AV:" + text}, AV: true}
}

type meValue struct{ v any }

// me builds an op that marshals a Go value into the encoder; its model is WriteValue of the value's JSON text.
func me(label string, v any, text string) Op {
	return Op{M: refjson.EncOp{Raw: true, Text: text, Label: "ME:" + label}, ME: &meValue{v}}
}

// meOps are MarshalEncode calls whose implementation has fast paths that append to the buffer directly.
func meOps() []Op {
	// values behind *any take the untyped ("any") marshal paths
	pa := func(v any) *any { return &v }
	return []Op{
		me("*any([]any{})", pa([]any{}), "[]"), me("*any(map[string]any{})", pa(map[string]any{}), "{}"), me(`*any("s")`, pa("s"), `"s"`), me("*any(nil)", pa(nil), "null"),
		me("[]any{}", []any{}, "[]"), me("map[string]any{}", map[string]any{}, "{}"), me("[]int{}", []int{}, "[]"), me("map[string]int{}", map[string]int{}, "{}"),
		me("any([]any{})", any([]any{}), "[]"), me(`"s"`, "s", `"s"`), me("nil", nil, "null"), me("[]any{1}", []any{1.0}, "[1]"), me("struct{}", struct{}{}, "{}"),
		me(`map[string]any{"a":[]}`, map[string]any{"a": []any{}}, `{"a":[]}`),
		av(`"k"`), av(`"needs < escaping \u0041"`), av(` [ 1 , {"b" : 2 , "a" : [ ] } ] `), av(`{"a":1,"a":2}`), av(`[1,`), av(`"` + strings.Repeat("long", 40) + `"`),
	}
}

func tok(label string, t jsontext.Token, kind byte, str, num string, invalid bool) Op {
	return Op{M: refjson.EncOp{Kind: kind, Str: str, Num: num, Invalid: invalid, Label: label}, Tok: t}
}
func raw(text string) Op {
	return Op{M: refjson.EncOp{Raw: true, Text: text, Label: "V:" + text}}
}

// Alphabet is the op alphabet, simplest first.
func Alphabet() []Op {
	return []Op{
		tok("null", jsontext.Null, 'n', "", "", false),
		tok(`"a"`, jsontext.String("a"), '"', "a", "", false),
		tok("1", jsontext.Int(1), '0', "", "1", false),
		tok("{", jsontext.BeginObject, '{', "", "", false),
		tok("}", jsontext.EndObject, '}', "", "", false),
		tok("[", jsontext.BeginArray, '[', "", "", false),
		tok("]", jsontext.EndArray, ']', "", "", false),
		tok(`"b"`, jsontext.String("b"), '"', "b", "", false),
		tok("true", jsontext.True, 't', "", "", false),
		raw(`"a"`),
		raw(`{"a":1}`),
		raw(`1`),
		raw(`"a"`),
		raw(`{"a":1,"a":2}`),
		raw(`[1,{"b":2}]`),
		raw(`{}`),
		raw(`[]`),
		raw(`null`),
		raw(" 1 "),
		raw(``),
		raw(`1 2`),
		raw(`{`),
		raw("\"\xff\""),
		raw(`nul`),
		raw(`[`),
		tok(`"\xff"`, jsontext.String("\xff"), '"', "\xff", "", false),
		tok(`"<"`, jsontext.String("< "), '"', "< ", "", false),
		tok(`"m~/n"`, jsontext.String("m~/n"), '"', "m~/n", "", false),
		tok("Float(NaN)", jsontext.Float(math.NaN()), '"', "NaN", "", false), // documented: NaN is written as the JSON string "NaN"
		tok("Float(-0)", jsontext.Float(math.Copysign(0, -1)), '0', "", "-0", false),
		tok("zero-token", jsontext.Token{}, 0, "", "", true),
		raw(`{"b":{"a":[]},"a":"<"}`),
		raw(`-0`),
		raw(`1.0e+1`),
	}
}

type OptSet struct {
	Name string
	Real []jsontext.Options
	M    refjson.FmtOpts
}

func OptSets() []OptSet {
	return []OptSet{
		{"default", nil, refjson.FmtOpts{}},
		{"AllowDuplicateNames", []jsontext.Options{jsontext.AllowDuplicateNames(true)}, refjson.FmtOpts{AllowDup: true}},
		{"Multiline", []jsontext.Options{jsontext.Multiline(true)}, refjson.FmtOpts{Multiline: true, Indent: "\t", SpaceColon: true}},
		{"AllowInvalidUTF8", []jsontext.Options{jsontext.AllowInvalidUTF8(true)}, refjson.FmtOpts{AllowUTF8: true}},
		{"Indent+Prefix", []jsontext.Options{jsontext.WithIndentPrefix(" "), jsontext.WithIndent("  "), jsontext.SpaceAfterColon(false)}, refjson.FmtOpts{Multiline: true, Prefix: " ", Indent: "  "}},
		{"SpaceAfterColon+Comma", []jsontext.Options{jsontext.SpaceAfterColon(true), jsontext.SpaceAfterComma(true)}, refjson.FmtOpts{SpaceColon: true, SpaceComma: true}},
		{"IndentPrefix alone", []jsontext.Options{jsontext.WithIndentPrefix("  ")}, refjson.FmtOpts{Multiline: true, Prefix: "  ", Indent: "\t", SpaceColon: true}},
		{"Indent alone", []jsontext.Options{jsontext.WithIndent("  ")}, refjson.FmtOpts{Multiline: true, Indent: "  ", SpaceColon: true}},
		{"SpaceAfterComma", []jsontext.Options{jsontext.SpaceAfterComma(true)}, refjson.FmtOpts{SpaceComma: true}},
		{"SpaceAfterColon", []jsontext.Options{jsontext.SpaceAfterColon(true)}, refjson.FmtOpts{SpaceColon: true}},
		{"EscapeForHTML+JS", []jsontext.Options{jsontext.EscapeForHTML(true), jsontext.EscapeForJS(true)}, refjson.FmtOpts{HTML: true, JS: true}},
		{"PreserveRawStrings", []jsontext.Options{jsontext.PreserveRawStrings(true)}, refjson.FmtOpts{Preserve: true}},
		{"PreserveRawStrings+EscapeForHTML+AllowInvalidUTF8", []jsontext.Options{jsontext.PreserveRawStrings(true), jsontext.EscapeForHTML(true), jsontext.AllowInvalidUTF8(true)}, refjson.FmtOpts{Preserve: true, HTML: true, AllowUTF8: true}},
		{"CanonicalizeRawInts+Floats", []jsontext.Options{jsontext.CanonicalizeRawInts(true), jsontext.CanonicalizeRawFloats(true)}, refjson.FmtOpts{CanonInts: true, CanonFloats: true}},
		{"ReorderRawObjects+AllowDuplicateNames", []jsontext.Options{jsontext.ReorderRawObjects(true), jsontext.AllowDuplicateNames(true)}, refjson.FmtOpts{Reorder: true, AllowDup: true}},
		{"Multiline+SpaceAfterComma+ReorderRawObjects", []jsontext.Options{jsontext.Multiline(true), jsontext.SpaceAfterComma(true), jsontext.ReorderRawObjects(true)}, refjson.FmtOpts{Multiline: true, Indent: "\t", SpaceColon: true, SpaceComma: true, Reorder: true}},
	}
}

// sink is a plain io.Writer (not a *bytes.Buffer) that records what was delivered.
type sink struct{ b []byte }

func (s *sink) Write(p []byte) (int, error) { s.b = append(s.b, p...); return len(p), nil }

// sys is the system under test: a real Encoder.
type sys struct {
	w   sink
	enc *jsontext.Encoder
}

func (s *sys) reset(o *OptSet) {
	s.w.b = s.w.b[:0]
	if s.enc == nil {
		s.enc = jsontext.NewEncoder(&s.w, o.Real...)
	} else {
		s.enc.Reset(&s.w, o.Real...)
	}
}

func (s *sys) apply(op *Op) error {
	if op.ME != nil {
		return jsonv2.MarshalEncode(s.enc, op.ME.v)
	}
	if op.AV {
		b := s.enc.AvailableBuffer()
		b = append(b, op.M.Text...)
		return s.enc.WriteValue(b)
	}
	if op.M.Raw {
		return s.enc.WriteValue(jsontext.Value(op.M.Text))
	}
	return s.enc.WriteToken(op.Tok)
}

// compare checks every observable of the encoder against the model after a call.
func compare(s *sys, m *refjson.EncModel, err error, accepted bool) string {
	if (err == nil) != accepted {
		return fmt.Sprintf("accepted=%v (err=%v), model accepted=%v", err == nil, err, accepted)
	}
	if err != nil {
		var se *jsontext.SyntacticError
		if !errors.As(err, &se) {
			return fmt.Sprintf("rejection is not a SyntacticError: %T %v", err, err)
		}
	}
	if got, want := s.enc.OutputOffset(), int64(len(m.Out)); got != want {
		return fmt.Sprintf("OutputOffset=%d, model %d (model output %q, delivered %q)", got, want, m.Out, s.w.b)
	}
	if got, want := s.enc.StackDepth(), m.Depth(); got != want {
		return fmt.Sprintf("StackDepth=%d, model %d", got, want)
	}
	for i := 0; i <= m.Depth(); i++ {
		k, n := s.enc.StackIndex(i)
		wk, wn := m.Index(i)
		if byte(k) != wk || n != wn {
			return fmt.Sprintf("StackIndex(%d)=(%q,%d), model (%q,%d)", i, byte(k), n, wk, wn)
		}
	}
	if got, want := string(s.enc.StackPointer()), m.Pointer(); got != want {
		return fmt.Sprintf("StackPointer=%q, model %q", got, want)
	}
	if m.Depth() == 0 {
		if string(s.w.b) != string(m.Out) {
			return fmt.Sprintf("delivered bytes %q, model %q", s.w.b, m.Out)
		}
	} else if !strings.HasPrefix(string(m.Out), string(s.w.b)) {
		return fmt.Sprintf("delivered bytes %q are not a prefix of model output %q", s.w.b, m.Out)
	}
	return ""
}

// Case is a replayable op sequence.
type Case struct {
	OptSet string   `json:"optset"`
	Ops    []string `json:"ops"`
}

// runSeq executes ops on a fresh encoder and model, comparing after every call.
// It returns the index of the first differing step and the message, or -1.
func runSeq(s *sys, o *OptSet, alpha []Op, seq []int, from int, cnt *[2]int64) (int, string) {
	s.reset(o)
	m := refjson.NewEncModel(o.M)
	for i, k := range seq {
		op := &alpha[k]
		var err error
		var msg string
		func() {
			defer func() {
				if p := recover(); p != nil {
					msg = fmt.Sprintf("library panic: %v", p)
				}
			}()
			err = s.apply(op)
		}()
		if msg != "" {
			return i, msg
		}
		acc := m.Apply(op.M)
		if acc {
			cnt[0]++
		} else {
			cnt[1]++
		}
		if i < from {
			continue // prefix already validated when it was generated
		}
		if msg := compare(s, m, err, acc); msg != "" {
			return i, msg
		}
	}
	return -1, ""
}

func labels(alpha []Op, seq []int) []string {
	out := make([]string, len(seq))
	for i, k := range seq {
		out[i] = alpha[k].M.Label
	}
	return out
}

func report(r *evid.Run, prop string, o *OptSet, alpha []Op, seq []int, step int, msg string) {
	cs := Case{OptSet: o.Name, Ops: labels(alpha, seq[:step+1])}
	key := fmt.Sprintf("%s|%s|%s", strings.ToLower(prop), o.Name, strings.Join(cs.Ops, " "))
	r.Violation(key, fmt.Sprintf("after call %d (%s): %s", step+1, cs.Ops[step], msg), cs, func() bool { return ReplayCase(cs) != "" })
}

// ReplayCase re-executes a recorded sequence; "" means it passes.
func ReplayCase(cs Case) string {
	var alpha []Op
	var o *OptSet
	sets := OptSets()
	for i := range sets {
		if sets[i].Name == cs.OptSet {
			o = &sets[i]
		}
	}
	if o == nil {
		return ""
	}
	var seq []int
	for i, l := range cs.Ops {
		op, ok := opFromLabel(l)
		if !ok {
			return ""
		}
		alpha = append(alpha, op)
		seq = append(seq, i)
	}
	// long sequences (nesting-limit cases) are compared on their last calls only
	var cnt [2]int64
	_, msg := runSeq(&sys{}, o, alpha, seq, max(len(seq)-8, 0)*btoi(len(seq) > 2000), &cnt)
	return msg
}

func btoi(b bool) int {
	if b {
		return 1
	}
	return 0
}

func Replay(r *evid.Run, rawc json.RawMessage) {
	var cs Case
	if json.Unmarshal(rawc, &cs) != nil {
		return
	}
	r.States.Add(1)
	r.Transitions.Add(int64(len(cs.Ops)))
	r.Sample(cs)
	if msg := ReplayCase(cs); msg != "" {
		fmt.Println("replay fails:", msg)
		r.Violation("replay", msg, cs, nil)
	} else {
		fmt.Println("replay passes")
	}
}

type bounds struct {
	full map[string]int // exhaustive (no merging) depth per option set
	def  int
	bfs  int // merged search depth
	hist int // histories kept per model state
}

func Run(r *evid.Run) {
	alpha := Alphabet()
	sets := OptSets()
	b := bounds{full: map[string]int{"default": 4, "AllowDuplicateNames": 4}, def: 3, bfs: 6, hist: 2}
	if r.Tier == "thorough" {
		b = bounds{full: map[string]int{"default": 5, "AllowDuplicateNames": 5, "Multiline": 5}, def: 4, bfs: 8, hist: 4}
	}
	r.Rule(fmt.Sprintf("explicit-state exploration of a real jsontext.Encoder: phase 1 = every call sequence of length d over a %d-op alphabet (tokens and raw values: valid, invalid, duplicate-producing) per option set, every path executed on a fresh Encoder and compared with the reference model after EVERY call (accept/reject, error type, OutputOffset, StackDepth, StackIndex at all levels, StackPointer, delivered bytes); phase 2 = breadth-first search merging on the model's canonical state but keeping up to R distinct histories per state, each expanded by every op. A rejected call is a model no-op, so agreement on later steps is the 'as if never made' clause. states = distinct model states reached; transitions = calls executed on the real encoder and compared; traces = complete call sequences validated; distinct_nontrivial = distinct sequences containing at least one accepted and one rejected call", len(alpha)))
	r.Assume("reference encoder model internal/refjson/encmodel.go (formatting rules from the jsontext option docs)", "Go runtime")
	var mu sync.Mutex
	states := map[string]struct{}{}
	for si := range sets {
		o := &sets[si]
		d := b.def
		if x, ok := b.full[o.Name]; ok {
			d = x
		}
		k := len(alpha)
		units := k * k
		enum.Parallel(r, units, func(w *enum.Worker) func(int) {
			s := &sys{}
			seq := make([]int, d)
			local := map[string]struct{}{}
			var transitions, traces, mixed int64
			w.Describe = func() any { return Case{OptSet: o.Name, Ops: labels(alpha, seq)} }
			w.Done = func() {
				mu.Lock()
				for k := range local {
					states[k] = struct{}{}
				}
				mu.Unlock()
				r.Transitions.Add(transitions)
				r.Traces.Add(traces)
				r.Evaluations.Add(traces)
				r.Nontrivial.Add(mixed)
			}
			return func(u int) {
				seq[0], seq[1] = u/k, u%k
				var rec func(pos int)
				rec = func(pos int) {
					if pos == d {
						var cnt [2]int64
						step, msg := runSeq(s, o, alpha, seq, 0, &cnt)
						transitions += int64(d)
						traces++
						if cnt[0] > 0 && cnt[1] > 0 {
							mixed++
						}
						if msg != "" {
							report(r, r.Prop, o, alpha, seq, step, msg)
						}
						w.Beat()
						return
					}
					for i := 0; i < k; i++ {
						seq[pos] = i
						rec(pos + 1)
					}
				}
				rec(2)
				// collect model states along this unit's first path for the state count
				m := refjson.NewEncModel(o.M)
				for _, x := range seq[:2] {
					m.Apply(alpha[x].M)
					local[o.Name+"#"+m.Key()] = struct{}{}
				}
			}
		})
		r.Bound("phase 1: option set %q: all %d^%d call sequences, compared after every call", o.Name, k, d)
		if r.Violations() > 0 {
			break
		}
	}
	// phase 2: merged BFS
	for si := range sets {
		if r.Violations() > 0 || r.Expired() {
			break
		}
		o := &sets[si]
		bfs(r, o, alpha, b.bfs, b.hist, states, &mu)
	}
	wide(r)
	deep(r)
	rawViews(r)
	marshalEncodeOps(r)
	r.States.Add(int64(len(states)))
	r.Sample(Case{OptSet: "default", Ops: labels(alpha, []int{3, 1, 2, 4})})
	r.Sample(Case{OptSet: "default", Ops: labels(alpha, []int{3, 1, 3, 7, 2})})
}

// bfs explores model states breadth-first; each kept history is replayed on a fresh real encoder
// and extended by every op (all observables compared at the new step).
func bfs(r *evid.Run, o *OptSet, alpha []Op, depth, hist int, states map[string]struct{}, mu *sync.Mutex) {
	type node struct{ seq []int }
	frontier := []node{{nil}}
	seen := map[string]int{"": 1}
	k := len(alpha)
	for level := 0; level < depth && len(frontier) > 0; level++ {
		var next []node
		var nmu sync.Mutex
		enum.Parallel(r, len(frontier), func(w *enum.Worker) func(int) {
			s := &sys{}
			var cur []int
			var transitions, traces int64
			w.Describe = func() any { return Case{OptSet: o.Name, Ops: labels(alpha, cur)} }
			w.Done = func() { r.Transitions.Add(transitions); r.Traces.Add(traces); r.Evaluations.Add(traces) }
			return func(u int) {
				h := frontier[u].seq
				for i := 0; i < k; i++ {
					cur = append(append(cur[:0], h...), i)
					var cnt [2]int64
					step, msg := runSeq(s, o, alpha, cur, len(h), &cnt)
					transitions++
					traces++
					w.Beat()
					if msg != "" {
						report(r, r.Prop, o, alpha, cur, step, msg)
						continue
					}
					// model state after the sequence
					m := refjson.NewEncModel(o.M)
					for _, x := range cur {
						m.Apply(alpha[x].M)
					}
					// rejected calls do not change the model state but are distinct histories of it: a history is
					// classified by the kind of its most recent rejected call (a rejected call may leave hidden
					// state behind), and each (state, class) keeps its own histories
					m2 := refjson.NewEncModel(o.M)
					rej := "-"
					for _, x := range cur {
						if !m2.Apply(alpha[x].M) {
							switch {
							case alpha[x].M.Raw:
								rej = "V"
							case strings.ContainsRune("{}[]", rune(alpha[x].M.Kind)):
								rej = string(rune(alpha[x].M.Kind))
							default:
								rej = "t"
							}
						}
					}
					key := m.Key() + "|" + rej
					nmu.Lock()
					if seen[key] < hist {
						seen[key]++
						next = append(next, node{append([]int(nil), cur...)})
					}
					nmu.Unlock()
				}
			}
		})
		frontier = next
		if r.Expired() {
			r.NotExhaustive(fmt.Sprintf("phase 2 option set %q stopped at level %d", o.Name, level))
			break
		}
	}
	mu.Lock()
	for key := range seen {
		states[o.Name+"#"+key] = struct{}{}
	}
	mu.Unlock()
	r.Bound("phase 2: option set %q: BFS to depth %d over model states (%d states, <=%d histories per class of most recent rejected call), every state x every op", o.Name, depth, len(seen), hist)
}

// wide: objects with N names around the linear-search -> map switch of the duplicate-name set
// (64 names / 1 KiB of names): for every ordered pair i<j the j-th name written is name i again and
// must be rejected, after which writing continues (the rejected call must leave no trace).
func wide(r *evid.Run) {
	type fam struct {
		name string
		ns   []int
		mk   func(i int) string
	}
	fams := []fam{
		{"short", []int{63, 64, 65, 66, 67, 68}, func(i int) string { return fmt.Sprintf("k%d", i) }},
		{"1KiB", []int{62, 63, 64, 65, 66}, func(i int) string { return fmt.Sprintf("%s%02d", strings.Repeat("x", 14), i) }},
		{"long", []int{10, 11, 12, 13, 14}, func(i int) string { return fmt.Sprintf("%s%02d", strings.Repeat("y", 100), i) }},
	}
	if r.Tier == "thorough" {
		fams[0].ns = []int{60, 61, 62, 63, 64, 65, 66, 67, 68, 69, 70, 130}
		fams[1].ns = []int{60, 61, 62, 63, 64, 65, 66, 67, 68}
	}
	type unit struct {
		f      fam
		n      int
		rawOps bool
	}
	var units []unit
	for _, f := range fams {
		for _, n := range f.ns {
			units = append(units, unit{f, n, false}, unit{f, n, true})
		}
	}
	o := &OptSets()[0]
	enum.Parallel(r, len(units), func(w *enum.Worker) func(int) {
		s := &sys{}
		var cur Case
		w.Describe = func() any { return cur }
		var transitions, traces int64
		w.Done = func() {
			r.Transitions.Add(transitions)
			r.Traces.Add(traces)
			r.Evaluations.Add(traces)
			r.Nontrivial.Add(traces)
		}
		return func(u int) {
			un := units[u]
			nameOp := func(i int) Op {
				nm := un.f.mk(i)
				if un.rawOps {
					return raw(`"` + nm + `"`)
				}
				return tok(`"`+nm+`"`, jsontext.String(nm), '"', nm, "", false)
			}
			one := tok("1", jsontext.Int(1), '0', "", "1", false)
			open := tok("{", jsontext.BeginObject, '{', "", "", false)
			closeOp := tok("}", jsontext.EndObject, '}', "", "", false)
			for j := 1; j < un.n; j++ {
				for i := 0; i < j; i++ {
					// { n0 1 n1 1 ... n(j-1) 1  n_i(dup, rejected)  n_j 1 n_i(dup again) }  then a sibling object reusing n_i
					var alpha []Op
					alpha = append(alpha, open)
					for k := 0; k < j; k++ {
						alpha = append(alpha, nameOp(k), one)
					}
					alpha = append(alpha, nameOp(i), nameOp(j), one, nameOp(i), nameOp(j), closeOp, open, nameOp(i), one, closeOp)
					seq := make([]int, len(alpha))
					for k := range seq {
						seq[k] = k
					}
					cur = Case{OptSet: fmt.Sprintf("wide/%s/N=%d/raw=%v", un.f.name, un.n, un.rawOps), Ops: []string{fmt.Sprintf("i=%d j=%d", i, j)}}
					var cnt [2]int64
					step, msg := runSeq(s, o, alpha, seq, 0, &cnt)
					transitions += int64(len(seq))
					traces++
					if msg != "" {
						cs := Case{OptSet: "default", Ops: labels(alpha, seq[:step+1])}
						r.Violation(fmt.Sprintf("c06|wide|%s|N=%d|raw=%v|i=%d|j=%d", un.f.name, un.n, un.rawOps, i, j), fmt.Sprintf("after call %d (%s): %s", step+1, cs.Ops[step], msg), cs, nil)
					}
					w.Beat()
				}
			}
			// one raw value holding the whole object with a duplicate of every i at the last position
			if un.rawOps {
				for i := 0; i < un.n; i++ {
					var sb strings.Builder
					sb.WriteString("{")
					for k := 0; k < un.n; k++ {
						fmt.Fprintf(&sb, `"%s":1,`, un.f.mk(k))
					}
					fmt.Fprintf(&sb, `"%s":2}`, un.f.mk(i))
					alpha := []Op{raw(sb.String()), raw(`{"` + un.f.mk(i) + `":1}`)}
					var cnt [2]int64
					step, msg := runSeq(s, o, alpha, []int{0, 1}, 0, &cnt)
					transitions += 2
					traces++
					if msg != "" {
						r.Violation(fmt.Sprintf("c06|wide-raw|%s|N=%d|i=%d", un.f.name, un.n, i), fmt.Sprintf("after call %d: %s", step+1, msg), Case{OptSet: "default", Ops: labels(alpha, []int{0, 1}[:step+1])}, nil)
					}
				}
			}
		}
	})
	r.Bound("wide objects: families short/1KiB/long with N in %v / %v / %v names, written by tokens and by raw name values: for every ordered pair i<j a duplicate of name i as the j-th name (must be rejected), continuation, and a sibling object reusing the name; plus whole raw objects with a trailing duplicate of every i", fams[0].ns, fams[1].ns, fams[2].ns)
}

// CheckSeq runs a call sequence on a fresh Encoder and the model (used by C16).
func CheckSeq(o *OptSet, alpha []Op, seq []int) (int, string) {
	var cnt [2]int64
	return runSeq(&sys{}, o, alpha, seq, 0, &cnt)
}

// Tok / Raw build ops for other packages.
func Tok(label string, t jsontext.Token, kind byte, str, num string) Op {
	return tok(label, t, kind, str, num, false)
}
func Raw(text string) Op { return raw(text) }
